#!/usr/bin/env python3
"""One-off converter: JTS TestValid*.xml (isValid cases) -> `C14.jts <label> <geom>` corpus lines.
usage: corpus/C14_jts2ops.py <geo repo> >> corpus/C14.ops
Only WKT that the line protocol can carry exactly is converted (POINT, LINESTRING, POLYGON and
their MULTI forms; numbers as integers or f64 bit patterns; NaN allowed)."""
import re, struct, sys, glob, os

def num(tok):
    t = tok.strip()
    if t.lower() == "nan":
        return "nan"
    v = float(t)
    if v == int(v) and abs(v) < 2**53:
        return str(int(v))
    return "h%016x" % struct.unpack(">Q", struct.pack(">d", v))[0]

def coords(s):
    pts = [p.split() for p in s.split(",") if p.strip()]
    return "%d %s" % (len(pts), " ".join(num(x) + " " + num(y) for x, y in pts)) if pts else "0"

def split_top(s):
    out, depth, cur = [], 0, ""
    for ch in s:
        if ch == "(":
            depth += 1
        if ch == ")":
            depth -= 1
        if ch == "," and depth == 0:
            out.append(cur); cur = ""
        else:
            cur += ch
    if cur.strip():
        out.append(cur)
    return [x.strip() for x in out]

def strip_parens(s):
    s = s.strip()
    assert s[0] == "(" and s[-1] == ")", s
    return s[1:-1]

def poly(body):
    rings = [strip_parens(r) for r in split_top(body)]
    return "%d %s" % (len(rings), " ".join(coords(r) for r in rings))

def conv(wkt):
    w = " ".join(wkt.split())
    m = re.match(r"^([A-Z]+)\s*(EMPTY|\(.*\))$", w)
    if not m:
        return None
    kind, body = m.group(1), m.group(2)
    if body == "EMPTY":
        return {"LINESTRING": "LS 0", "POLYGON": "PG 0", "MULTIPOINT": "MPT 0", "MULTILINESTRING": "MLS 0",
                "MULTIPOLYGON": "MPG 0"}.get(kind)
    body = strip_parens(body)
    if "EMPTY" in body:
        return None
    if kind == "POINT":
        x, y = body.split()
        return "PT %s %s" % (num(x), num(y))
    if kind == "LINESTRING":
        return "LS " + coords(body)
    if kind == "POLYGON":
        return "PG " + poly(body)
    if kind == "MULTIPOINT":
        pts = [p.strip().strip("()") for p in split_top(body)]
        return "MPT " + coords(",".join(pts))
    if kind == "MULTILINESTRING":
        ls = [strip_parens(l) for l in split_top(body)]
        return "MLS %d %s" % (len(ls), " ".join(coords(l) for l in ls))
    if kind == "MULTIPOLYGON":
        ps = [strip_parens(p) for p in split_top(body)]
        return "MPG %d %s" % (len(ps), " ".join(poly(p) for p in ps))
    return None

repo = sys.argv[1]
for f in sorted(glob.glob(os.path.join(repo, "jts-test-runner/resources/testxml/*/TestValid*.xml"))):
    if "big" in f:
        continue
    src = open(f).read()
    print("# JTS %s" % os.path.relpath(f, repo))
    for case in re.findall(r"<case>(.*?)</case>", src, re.S):
        a = re.search(r"<a>(.*?)</a>", case, re.S)
        op = re.search(r'<op name="isValid" arg1="A">\s*(true|false)\s*</op>', case)
        if not a or not op:
            continue
        try:
            g = conv(a.group(1))
        except Exception:
            g = None
        if g and len(g) < 3000:
            print("C14.jts %s %s" % (op.group(1), g))
