"""
Shrinking of a failing protocol line (engine E4). Works on the geometry sub-trees of the input
text only (members, rings, vertices, coordinates); all other tokens are left untouched, so the
line stays well-formed for every op. A candidate is accepted when the real code + the Lean
driver still answer `prop=FAIL` with the same clause on it.
"""
import os, subprocess

TAGS = {"PT", "LN", "LS", "PG", "MPT", "MLS", "MPG", "RC", "TR", "GC"}


class Bad(Exception):
    pass


def parse_geom(t, i):
    tag = t[i]; i += 1
    def coord(i):
        return (t[i], t[i + 1]), i + 2
    def coords(i):
        n = int(t[i]); i += 1
        cs = []
        for _ in range(n):
            c, i = coord(i); cs.append(c)
        return cs, i
    def poly(i):
        k = int(t[i]); i += 1
        rings = []
        for _ in range(k):
            r, i = coords(i); rings.append(r)
        return rings, i
    if tag == "PT":
        c, i = coord(i); return ("PT", [c]), i
    if tag == "LN":
        a, i = coord(i); b, i = coord(i); return ("LN", [a, b]), i
    if tag in ("LS", "MPT"):
        cs, i = coords(i); return (tag, cs), i
    if tag == "PG":
        r, i = poly(i); return ("PG", r), i
    if tag == "MLS":
        k = int(t[i]); i += 1; ls = []
        for _ in range(k):
            r, i = coords(i); ls.append(r)
        return ("MLS", ls), i
    if tag == "MPG":
        k = int(t[i]); i += 1; ps = []
        for _ in range(k):
            r, i = poly(i); ps.append(r)
        return ("MPG", ps), i
    if tag == "RC":
        a, i = coord(i); b, i = coord(i); return ("RC", [a, b]), i
    if tag == "TR":
        a, i = coord(i); b, i = coord(i); c, i = coord(i); return ("TR", [a, b, c]), i
    if tag == "GC":
        k = int(t[i]); i += 1; gs = []
        for _ in range(k):
            g, i = parse_geom(t, i); gs.append(g)
        return ("GC", gs), i
    raise Bad(tag)


def render(g):
    tag, body = g
    def cs(l):
        return [str(len(l))] + [x for c in l for x in c]
    def poly(rings):
        out = [str(len(rings))]
        for r in rings:
            out += cs(r)
        return out
    if tag in ("PT", "LN", "RC", "TR"):
        return [tag] + [x for c in body for x in c]
    if tag in ("LS", "MPT"):
        return [tag] + cs(body)
    if tag == "PG":
        return [tag] + poly(body)
    if tag == "MLS":
        out = [tag, str(len(body))]
        for r in body:
            out += cs(r)
        return out
    if tag == "MPG":
        out = [tag, str(len(body))]
        for p in body:
            out += poly(p)
        return out
    if tag == "GC":
        out = [tag, str(len(body))]
        for h in body:
            out += render(h)
        return out
    raise Bad(tag)


def ring_drops(r, minlen):
    """rings obtained by dropping one vertex (closure kept when the ring was closed)"""
    out = []
    closed = len(r) >= 2 and r[0] == r[-1]
    if len(r) <= minlen:
        return out
    for k in range(len(r)):
        if closed and k == len(r) - 1:
            continue
        nr = r[:k] + r[k + 1:]
        if closed and k == 0 and nr:
            nr = nr[:-1] + [nr[0]]
        out.append(nr)
    return out


def variants(g):
    """smaller geometries"""
    tag, body = g
    out = []
    if tag == "GC":
        for k in range(len(body)):
            out.append(("GC", body[:k] + body[k + 1:]))
        for k in range(len(body)):
            for v in variants(body[k]):
                out.append(("GC", body[:k] + [v] + body[k + 1:]))
    elif tag == "MPG":
        for k in range(len(body)):
            out.append(("MPG", body[:k] + body[k + 1:]))
        for k in range(len(body)):
            for v in variants(("PG", body[k])):
                out.append(("MPG", body[:k] + [v[1]] + body[k + 1:]))
    elif tag == "MLS":
        for k in range(len(body)):
            out.append(("MLS", body[:k] + body[k + 1:]))
        for k in range(len(body)):
            for nr in ring_drops(body[k], 2):
                out.append(("MLS", body[:k] + [nr] + body[k + 1:]))
    elif tag == "MPT":
        for k in range(len(body)):
            out.append(("MPT", body[:k] + body[k + 1:]))
    elif tag == "LS":
        for nr in ring_drops(body, 2):
            out.append(("LS", nr))
    elif tag == "PG":
        for k in range(1, len(body)):
            out.append(("PG", body[:k] + body[k + 1:]))
        for k in range(len(body)):
            for nr in ring_drops(body[k], 4):
                out.append(("PG", body[:k] + [nr] + body[k + 1:]))
    return out


def split_line(line):
    """tokens of the input part -> list of ('tok', str) | ('geom', tree)"""
    t = line.split("=>")[0].split()
    items = []
    i = 0
    while i < len(t):
        if t[i] in TAGS:
            try:
                g, j = parse_geom(t, i)
                items.append(("geom", g)); i = j; continue
            except (Bad, ValueError, IndexError):
                pass
        items.append(("tok", t[i])); i += 1
    return items


def join(items):
    out = []
    for kind, v in items:
        out += render(v) if kind == "geom" else [v]
    return " ".join(out)


def shrink(line, clause, hbin, dbin, workdir, env=None, max_rounds=40, batch=60):
    """returns (shrunk_line, evaluations)"""
    try:
        items = split_line(line)
    except Exception:
        return line.split("=>")[0].strip(), 0
    evals = 0
    e = dict(os.environ)
    if env:
        e.update(env)

    def still_fails(cands):
        nonlocal evals
        if not cands:
            return None
        inp = os.path.join(workdir, "shrink.in")
        with open(inp, "w") as f:
            f.write("\n".join(cands) + "\n")
        p = subprocess.run([hbin, "replay", inp], stdout=subprocess.PIPE, stderr=subprocess.DEVNULL, env=e)
        if p.returncode != 0:
            return None
        q = subprocess.run([dbin], input=p.stdout, stdout=subprocess.PIPE, stderr=subprocess.DEVNULL)
        if q.returncode != 0:
            return None
        outs = q.stdout.decode().splitlines()
        evals += len(cands)
        for k, o in enumerate(outs):
            if k < len(cands) and ("prop=FAIL:" + clause) in o.split(" model=[")[0]:
                return k
        return None

    import time
    t_end = time.time() + float(os.environ.get("VERIF_SHRINK_BUDGET_S", "150"))     # shrinking is a convenience: bounded
    for _ in range(max_rounds):
        if time.time() > t_end:
            break
        cands = []
        for k, (kind, v) in enumerate(items):
            if kind != "geom":
                continue
            for nv in variants(v):
                cands.append(items[:k] + [("geom", nv)] + items[k + 1:])
                if len(cands) >= batch:
                    break
            if len(cands) >= batch:
                break
        if not cands:
            break
        hit = still_fails([join(c) for c in cands])
        if hit is None:
            break
        items = cands[hit]
    return join(items), evals
