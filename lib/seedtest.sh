#!/bin/bash
# lib/seedtest.sh <PID> <srcdir> [name] — confirm a seeded change and run the registered check against it.
#
# Works in two scratch worktrees so that /repo and /verif themselves are never disturbed while other work is
# going on: $SEEDREPO (a detached worktree of /repo at its HEAD) and $SEEDVERIF (a detached worktree of /verif
# at its HEAD, with its own build directories, always run with GEO_REPO=$SEEDREPO).
#  1. the demo passes without the change and fails with it; `cargo test -p geo --lib` and `-p geo-types` still
#     pass with it (apart from the three baseline geodesic failures);
#  2. `./check <PID>` (committed /verif) against the changed tree: exit code and VIOLATION lines are recorded;
#  3. the change is undone; patch, demo, logs and meta.json are stored under /verif/seeded/<name>/.
set -u
PID=$1; SRC=$2; NAME=${3:-$PID}
export CARGO_NET_OFFLINE=true
SEEDREPO=${SEEDREPO:-/tmp/seedrepo}
SEEDVERIF=${SEEDVERIF:-/tmp/seedverif}
OUT=/verif/seeded/$NAME
mkdir -p $OUT
cp $SRC/patch.diff $SRC/demo.rs $OUT/ 2>/dev/null
cp $SRC/meta.json $OUT/meta.agent.json 2>/dev/null
[ -d $SEEDREPO ] || git -C /repo worktree add --detach $SEEDREPO >/dev/null 2>&1
git -C $SEEDREPO checkout -q --detach $(git -C /repo rev-parse HEAD); git -C $SEEDREPO checkout -q -- .; cp /repo/Cargo.lock $SEEDREPO/ 2>/dev/null
if [ ! -d $SEEDVERIF ]; then git -C /verif worktree add --detach $SEEDVERIF >/dev/null 2>&1; fi
git -C $SEEDVERIF checkout -q -f --detach $(git -C /verif rev-parse HEAD)
if [ ! -x $SEEDVERIF/lean/.lake/build/bin/geodriver ]; then (cd $SEEDVERIF && GEO_REPO=$SEEDREPO ./setup.sh > $OUT/setup.log 2>&1); fi
cd $SEEDREPO
mkdir -p geo/tests; cp $OUT/demo.rs geo/tests/mut_demo.rs
cargo test -p geo --offline --test mut_demo > $OUT/demo_without.log 2>&1; R0=$?
git apply $OUT/patch.diff || { echo "PATCH DOES NOT APPLY"; rm -f geo/tests/mut_demo.rs; exit 3; }
cargo test -p geo --offline --test mut_demo > $OUT/demo_with.log 2>&1; R1=$?
cargo test -p geo --lib --offline > $OUT/libtests_with.log 2>&1
grep -E "^test [^ ]+ \.\.\. FAILED" $OUT/libtests_with.log > $OUT/libtests_failed.txt; LIBFAIL=$(grep -v "geodesic" $OUT/libtests_failed.txt | wc -l)
cargo test -p geo-types --offline > $OUT/typestests_with.log 2>&1
TYPESFAIL=$(grep -E "^test [^ ]+ \.\.\. FAILED" $OUT/typestests_with.log | wc -l)
rm -f geo/tests/mut_demo.rs
(cd $SEEDVERIF && GEO_REPO=$SEEDREPO ./check $PID > $OUT/check_with.log 2>&1); RC=$?
git -C $SEEDREPO checkout -q -- .
grep -E "^test result" $OUT/libtests_with.log > $OUT/libtests_summary.txt
rm -f $OUT/libtests_with.log $OUT/typestests_with.log
echo "seed $NAME: demo_without_rc=$R0 demo_with_rc=$R1 lib_failures_excl_geodesic=$LIBFAIL types_failures=$TYPESFAIL check_rc=$RC"
grep -E "^VIOLATION|quick:|MACHINERY" $OUT/check_with.log | cut -c1-250
python3 - "$OUT" "$PID" "$R0" "$R1" "$LIBFAIL" "$TYPESFAIL" "$RC" <<'PY'
import json,sys,os
out,pid,r0,r1,lf,tf,rc=sys.argv[1:]
agent={}
try: agent=json.load(open(os.path.join(out,'meta.agent.json')))
except Exception: pass
viol=[l.strip() for l in open(os.path.join(out,'check_with.log')) if l.startswith('VIOLATION')]
meta={"property":pid,"summary":agent.get("summary"),"needs":agent.get("needs"),"files":agent.get("files"),
 "confirmed":{"demo_passes_without_change":r0=="0","demo_fails_with_change":r1!="0","geo_lib_tests_failing_with_change_excluding_3_geodesic":int(lf),"geo_types_tests_failing_with_change":int(tf)},
 "ran":["cargo test -p geo --offline --test mut_demo (without / with the change)","cargo test -p geo --lib --offline (with)","cargo test -p geo-types --offline (with)","patch applied to a scratch worktree of /repo; GEO_REPO=<that worktree> ./check %s from a worktree of the committed /verif; patch undone"%pid],
 "check_exit_code":int(rc),"check_violation_lines":viol,"detected":int(rc)==1 and bool(viol)}
json.dump(meta,open(os.path.join(out,'meta.json'),'w'),indent=1)
PY
