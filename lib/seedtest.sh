#!/bin/bash
# lib/seedtest.sh <PID> <srcdir> [name] — confirm a seeded change (demo fails with it / passes without it, lib tests pass with it),
# run the registered check against it in /repo, undo it, and store it under /verif/seeded/<name>/.
set -u
PID=$1; SRC=$2; NAME=${3:-$PID}
export CARGO_NET_OFFLINE=true
WT=/tmp/seedwt-$NAME
OUT=/verif/seeded/$NAME
mkdir -p $OUT
cp $SRC/patch.diff $SRC/demo.rs $OUT/ 2>/dev/null
cp $SRC/meta.json $OUT/meta.agent.json 2>/dev/null
git -C /repo worktree remove --force $WT 2>/dev/null
git -C /repo worktree add --detach $WT >/dev/null 2>&1
cp /repo/Cargo.lock $WT/ 2>/dev/null
cd $WT
mkdir -p geo/tests; cp $OUT/demo.rs geo/tests/mut_demo.rs
cargo test -p geo --offline --test mut_demo > $OUT/demo_without.log 2>&1; R0=$?
git apply $OUT/patch.diff || { echo "PATCH DOES NOT APPLY"; exit 3; }
cargo test -p geo --offline --test mut_demo > $OUT/demo_with.log 2>&1; R1=$?
cargo test -p geo --lib --offline > $OUT/libtests_with.log 2>&1
grep -E "^test [^ ]+ \.\.\. FAILED" $OUT/libtests_with.log > $OUT/libtests_failed.txt; LIBFAIL=$(grep -v "geodesic" $OUT/libtests_failed.txt | wc -l)
cargo test -p geo-types --offline > $OUT/typestests_with.log 2>&1
TYPESFAIL=$(grep -E "^test [^ ]+ \.\.\. FAILED" $OUT/typestests_with.log | wc -l)
cd /verif
git -C /repo worktree remove --force $WT
# run the registered check against the change applied to /repo itself, then undo it
git -C /repo apply $OUT/patch.diff
./check $PID > $OUT/check_with.log 2>&1; RC=$?
git -C /repo checkout -- .
tail -c 3000 $OUT/libtests_with.log | grep -E "^test result" > $OUT/libtests_summary.txt
rm -f $OUT/libtests_with.log $OUT/typestests_with.log
echo "seed $NAME: demo_without_rc=$R0 demo_with_rc=$R1 lib_failures_excl_geodesic=$LIBFAIL types_failures=$TYPESFAIL check_rc=$RC"
grep -E "^VIOLATION|^KNOWN|quick:" $OUT/check_with.log | cut -c1-250
python3 - "$OUT" "$PID" "$R0" "$R1" "$LIBFAIL" "$TYPESFAIL" "$RC" <<'PY'
import json,sys,os
out,pid,r0,r1,lf,tf,rc=sys.argv[1:]
agent={}
try: agent=json.load(open(os.path.join(out,'meta.agent.json')))
except Exception: pass
viol=[l.strip() for l in open(os.path.join(out,'check_with.log')) if l.startswith('VIOLATION')]
meta={"property":pid,"summary":agent.get("summary"),"needs":agent.get("needs"),"files":agent.get("files"),
 "confirmed":{"demo_passes_without_change":r0=="0","demo_fails_with_change":r1!="0","geo_lib_tests_failing_with_change_excluding_3_geodesic":int(lf),"geo_types_tests_failing_with_change":int(tf)},
 "ran":["cargo test -p geo --offline --test mut_demo (without / with the change)","cargo test -p geo --lib --offline (with)","cargo test -p geo-types --offline (with)","git -C /repo apply patch.diff; ./check %s; git -C /repo checkout -- ."%pid],
 "check_exit_code":int(rc),"check_violation_lines":viol,"detected":int(rc)==1 and bool(viol)}
json.dump(meta,open(os.path.join(out,'meta.json'),'w'),indent=1)
PY
