"""Generator of lean/GeoProofs/Lemmas/WINDVertex.lean (the 27 direction/turn cases of the local identity at a
ring vertex). Run `python3 lib/wind_vertex_gen.py` to regenerate the file; the output is committed."""
import os
def chain_facts(names, ranks, tag):
    out=[]; k=0
    for i,x in enumerate(names):
        for j,y in enumerate(names):
            if i==j: continue
            lt = ranks[i] < ranks[j]; le = ranks[i] <= ranks[j]
            out.append((f"{tag}{k}", f"{x} < {y}" if lt else f"¬ {x} < {y}")); k+=1
            out.append((f"{tag}{k}", f"{x} ≤ {y}" if le else f"¬ {x} ≤ {y}")); k+=1
    return out
def tfacts(sgn):
    if sgn>0:
        return [("f1","0 < (1 - t) * T","mul_pos h1t sg"),("f2","¬ (1 - t) * T < 0","not_lt.mpr (mul_pos h1t sg).le"),
                ("f3","-((1 - t) * T) < 0","by have := mul_pos h1t sg; linarith"),
                ("f4","0 < t' * T","mul_pos t0' sg"),("f5","¬ t' * T < 0","not_lt.mpr (mul_pos t0' sg).le"),
                ("f6","-(t' * T) < 0","by have := mul_pos t0' sg; linarith")]
    if sgn<0:
        return [("f1","¬ 0 < (1 - t) * T","not_lt.mpr (mul_neg_of_pos_of_neg h1t sg).le"),("f2","(1 - t) * T < 0","mul_neg_of_pos_of_neg h1t sg"),
                ("f3","¬ -((1 - t) * T) < 0","by have := mul_neg_of_pos_of_neg h1t sg; linarith"),
                ("f4","¬ 0 < t' * T","not_lt.mpr (mul_neg_of_pos_of_neg t0' sg).le"),("f5","t' * T < 0","mul_neg_of_pos_of_neg t0' sg"),
                ("f6","¬ -(t' * T) < 0","by have := mul_neg_of_pos_of_neg t0' sg; linarith")]
    return []
REL={-1:"<",0:"=",1:">"}
def sig(name,d1,d2,sg):
    def rel(e,s): return f"{e} < 0" if s<0 else (f"{e} = 0" if s==0 else f"0 < {e}")
    return f'''theorem {name} {{ay vy by' py qy ax vx bx t t' T : Rat}} (t0 : 0 < t) (t1 : t < 1) (t0' : 0 < t')
    (t1' : t' < 1) (hPy : py = ay + t * (vy - ay)) (hQy : qy = vy + t' * (by' - vy))
    (hTe : T = (vx - ax) * (by' - vy) - (vy - ay) * (bx - vx))
    (hav : ¬ (ax = vx ∧ ay = vy)) (hvb : ¬ (vx = bx ∧ vy = by'))
    (hU : T = 0 → 0 < (vx - ax) * (bx - vx) + (vy - ay) * (by' - vy))
    (d1 : {rel("vy - ay",d1)}) (d2 : {rel("by' - vy",d2)}) (sg : {rel("T",sg)}) :
    VGoal ay vy by' py qy ax vx bx t t' T := by
  have h1t : 0 < 1 - t := by linarith
'''
def emit_case(ind, d1, d2, sg, extra_pre, lam_facts):
    L=[]; p=" "*ind
    if d1>0:
        L.append(p+"have hb1 : ay < py := by rw [hPy]; nlinarith")
        L.append(p+"have hb2 : py < vy := by rw [hPy]; nlinarith"); r1=[0,1,2]
    elif d1<0:
        L.append(p+"have hb1 : py < ay := by rw [hPy]; nlinarith")
        L.append(p+"have hb2 : vy < py := by rw [hPy]; nlinarith"); r1=[2,1,0]
    else:
        L.append(p+"have hb1 : ay = vy := by linarith")
        L.append(p+"have hb2 : py = vy := by rw [hPy, hb1]; ring"); r1=[0,0,0]
    if d2>0:
        L.append(p+"have hb3 : vy < qy := by rw [hQy]; nlinarith")
        L.append(p+"have hb4 : qy < by' := by rw [hQy]; nlinarith"); r2=[0,1,2]
    elif d2<0:
        L.append(p+"have hb3 : qy < vy := by rw [hQy]; nlinarith")
        L.append(p+"have hb4 : by' < qy := by rw [hQy]; nlinarith"); r2=[2,1,0]
    else:
        L.append(p+"have hb3 : by' = vy := by linarith")
        L.append(p+"have hb4 : qy = vy := by rw [hQy, hb3]; ring"); r2=[0,0,0]
    for l in extra_pre: L.append(p+l)
    facts=chain_facts(["ay","py","vy"], r1, "g")+chain_facts(["vy","qy","by'"], r2, "k")
    names=[]
    for n,s in facts:
        L.append(p+f"have {n} : {s} := by linarith"); names.append(n)
    if sg!=0:
        for n,s,prf in tfacts(sg):
            L.append(p+f"have {n} : {s} := {prf}"); names.append(n)
    for n,s,prf in lam_facts:
        L.append(p+f"have {n} : {s} := {prf}"); names.append(n)
    zs = ", mul_zero, neg_zero, lt_irrefl" if sg==0 else ", lt_irrefl"
    L.append(p+"unfold VGoal incR lamR")
    L.append(p+"simp only [inR_eq]")
    L.append(p+f"simp only [{', '.join(names)}{zs}, ↓reduceIte]")
    L.append(p+"all_goals link_finish")
    return "\n".join(L)

def leaf(ind, d1, d2, sg):
    p=" "*ind
    if d1!=0 and d2!=0:
        if sg!=0: return emit_case(ind,d1,d2,sg,[],[])
        if d1!=d2:
            return "\n".join([p+"exfalso", p+"have hd := hU sg", p+"rw [sg] at hTe",
                              p+"exact par_contra hTe.symm hd (by first | exact Or.inl ⟨d1, d2⟩ | exact Or.inr ⟨d1, d2⟩)"])
        return "\n".join([p+"subst sg", emit_case(ind,d1,d2,0,[],[])])
    if d1==0 and d2!=0:
        if sg==0:
            return "\n".join([p+"exfalso", p+"rw [sg, d1] at hTe",
                              p+"have : (vx - ax) * (by' - vy) = 0 := by linarith",
                              p+"rcases mul_eq_zero.mp this with h | h",
                              p+"· exact hav ⟨by linarith, by linarith⟩",
                              p+"· linarith"])
        pre=["have hTe' : T = (vx - ax) * (by' - vy) := by rw [hTe, d1]; ring"]
        pos_dx1 = (sg>0)==(d2>0)
        if pos_dx1:
            pre.append("have hdx : 0 < vx - ax := by\n"+p+"  by_contra hc\n"+p+"  have hc := not_lt.mp hc\n"+p+
                       ("  have : (vx - ax) * (by' - vy) ≤ 0 := mul_nonpos_of_nonpos_of_nonneg hc d2.le\n" if d2>0 else
                        "  have : 0 ≤ (vx - ax) * (by' - vy) := mul_nonneg_of_nonpos_of_nonpos hc d2.le\n")+p+"  linarith")
            lf=[("l1","¬ vx < ax","by linarith")]
        else:
            pre.append("have hdx : vx - ax < 0 := by\n"+p+"  by_contra hc\n"+p+"  have hc := not_lt.mp hc\n"+p+
                       ("  have : 0 ≤ (vx - ax) * (by' - vy) := mul_nonneg hc d2.le\n" if d2>0 else
                        "  have : (vx - ax) * (by' - vy) ≤ 0 := mul_nonpos_of_nonneg_of_nonpos hc d2.le\n")+p+"  linarith")
            lf=[("l1","vx < ax","by linarith")]
        return emit_case(ind,d1,d2,sg,pre,lf)
    if d1!=0 and d2==0:
        if sg==0:
            return "\n".join([p+"exfalso", p+"rw [sg, d2] at hTe",
                              p+"have : (vy - ay) * (bx - vx) = 0 := by linarith",
                              p+"rcases mul_eq_zero.mp this with h | h",
                              p+"· linarith",
                              p+"· exact hvb ⟨by linarith, by linarith⟩"])
        pre=["have hTe' : T = -((vy - ay) * (bx - vx)) := by rw [hTe, d2]; ring"]
        pos_dx2 = (sg>0)!=(d1>0)
        if pos_dx2:
            pre.append("have hdx : 0 < bx - vx := by\n"+p+"  by_contra hc\n"+p+"  have hc := not_lt.mp hc\n"+p+
                       ("  have : (vy - ay) * (bx - vx) ≤ 0 := mul_nonpos_of_nonneg_of_nonpos d1.le hc\n" if d1>0 else
                        "  have : 0 ≤ (vy - ay) * (bx - vx) := mul_nonneg_of_nonpos_of_nonpos d1.le hc\n")+p+"  linarith")
            lf=[("l1","¬ bx < vx","by linarith")]
        else:
            pre.append("have hdx : bx - vx < 0 := by\n"+p+"  by_contra hc\n"+p+"  have hc := not_lt.mp hc\n"+p+
                       ("  have : 0 ≤ (vy - ay) * (bx - vx) := mul_nonneg d1.le hc\n" if d1>0 else
                        "  have : (vy - ay) * (bx - vx) ≤ 0 := mul_nonpos_of_nonpos_of_nonneg d1.le hc\n")+p+"  linarith")
            lf=[("l1","bx < vx","by linarith")]
        return emit_case(ind,d1,d2,sg,pre,lf)
    if sg!=0:
        return "\n".join([p+"exfalso", p+"rw [d1, d2] at hTe", p+"linarith"])
    return None  # handled separately

HEADER = '''/-
  WIND, part 7: the local statement at a vertex of a ring.

  Two consecutive edges `(a, v)`, `(v, b)` that share only `v`; `P` strictly inside the first, `Q`
  strictly inside the second. `vertex_local` is the identity between the quantities that enter the
  winding numbers of the left face samples beside `P` and beside `Q`: the increments of the two edges
  at the other point, the direction-dependent parts `lam`, and the potential differences picked up
  by the remaining edges along `P → v → Q`. It is a statement about five points only and is proved by
  cases on the directions of the two edges and on the turn at `v` (one lemma per case, generated).
-/
import GeoProofs.Lemmas.WINDLink

set_option linter.unusedSimpArgs false
set_option linter.unusedVariables false
set_option linter.unreachableTactic false
set_option linter.unusedTactic false

namespace Geo.Proofs.WIND
open Geo Geo.Proofs.Kernel Geo.Proofs.Loc Geo.Proofs.C02Q Geo.Proofs.Spec

/-- `lam` in coordinates -/
def lamR (ay by' ax bx : Rat) : Int :=
  if ay < by' then 1 else if by' < ay then 0 else if bx < ax then 1 else 0

theorem lam_eq (a b : Pt) : lam a b = lamR a.y b.y a.x b.x := rfl

/-- the statement of `vertex_local` in coordinates (`T` the turn determinant at `v`) -/
def VGoal (ay vy by' py qy ax vx bx t t' T : Rat) : Prop :=
  incR vy by' py ((1 - t) * T) + lamR ay vy ax vx =
    (if py < vy then inR py vy by' ((1 - t) * T) - inR py vy ay 0
     else if vy < py then -(inR vy py by' (-((1 - t) * T)) - inR vy py ay 0) else 0)
    + (if vy < qy then inR vy qy by' 0 - inR vy qy ay (t' * T)
       else if qy < vy then -(inR qy vy by' 0 - inR qy vy ay (-(t' * T))) else 0)
    + incR ay vy qy (t' * T) + lamR vy by' vx bx

/-- parallel edges in the same direction: the ordinate differences have the same sign -/
theorem par_contra {x1 y1 x2 y2 : Rat} (hT : x1 * y2 - y1 * x2 = 0) (hd : 0 < x1 * x2 + y1 * y2)
    (h : (y1 < 0 ∧ 0 < y2) ∨ (0 < y1 ∧ y2 < 0)) : False := by
  have hyy : y1 * y2 < 0 := by
    rcases h with ⟨h1, h2⟩ | ⟨h1, h2⟩
    · exact mul_neg_of_neg_of_pos h1 h2
    · exact mul_neg_of_pos_of_neg h1 h2
  have hxx : 0 < x1 * x2 := by linarith
  have e : (x1 * y2) * (y1 * x2) = (x1 * x2) * (y1 * y2) := by ring
  have e2 : x1 * y2 = y1 * x2 := by linarith
  rw [e2] at e
  have h1 := mul_self_nonneg (y1 * x2)
  have h2 := mul_neg_of_pos_of_neg hxx hyy
  linarith

'''
def nm(s): return {-1:"n",0:"z",1:"p"}[s]
def main():
    out=[HEADER]
    calls={}
    for d1 in (-1,0,1):
        for d2 in (-1,0,1):
            for sg in (-1,0,1):
                name=f"vleaf_{nm(d1)}{nm(d2)}{nm(sg)}"
                if d1==0 and d2==0 and sg==0:
                    body='''  have hd := hU sg
  rw [d1, d2] at hd
  subst sg
  have hdd : 0 < (vx - ax) * (bx - vx) := by linarith
  rcases lt_trichotomy (vx - ax) 0 with hx1 | hx1 | hx1
  · have hx2 : bx - vx < 0 := by
      by_contra hc
      have := mul_nonpos_of_nonpos_of_nonneg hx1.le (not_lt.mp hc)
      linarith
'''+emit_case(4,0,0,0,[],[("l1","vx < ax","by linarith"),("l2","bx < vx","by linarith")])+'''
  · rw [hx1] at hdd; linarith
  · have hx2 : 0 < bx - vx := by
      by_contra hc
      have := mul_nonpos_of_nonneg_of_nonpos hx1.le (not_lt.mp hc)
      linarith
'''+emit_case(4,0,0,0,[],[("l1","¬ vx < ax","by linarith"),("l2","¬ bx < vx","by linarith")])
                else:
                    body=leaf(2,d1,d2,sg)
                out.append(sig(name,d1,d2,sg)+body+"\n")
    # dispatcher
    out.append('''theorem vgoal {ay vy by' py qy ax vx bx t t' T : Rat} (t0 : 0 < t) (t1 : t < 1) (t0' : 0 < t')
    (t1' : t' < 1) (hPy : py = ay + t * (vy - ay)) (hQy : qy = vy + t' * (by' - vy))
    (hTe : T = (vx - ax) * (by' - vy) - (vy - ay) * (bx - vx))
    (hav : ¬ (ax = vx ∧ ay = vy)) (hvb : ¬ (vx = bx ∧ vy = by'))
    (hU : T = 0 → 0 < (vx - ax) * (bx - vx) + (vy - ay) * (by' - vy)) :
    VGoal ay vy by' py qy ax vx bx t t' T := by
  rcases lt_trichotomy (vy - ay) 0 with d1 | d1 | d1''')
    for d1 in (-1,0,1):
        out.append("  · rcases lt_trichotomy (by' - vy) 0 with d2 | d2 | d2")
        for d2 in (-1,0,1):
            out.append("    · rcases lt_trichotomy T 0 with sg | sg | sg")
            for sg in (-1,0,1):
                out.append(f"      · exact vleaf_{nm(d1)}{nm(d2)}{nm(sg)} t0 t1 t0' t1' hPy hQy hTe hav hvb hU d1 d2 sg")
    out.append('''
/-- **the local statement at a vertex** -/
theorem vertex_local {a v b P Q : Pt} {t t' : Rat} (t0 : 0 < t) (t1 : t < 1) (t0' : 0 < t')
    (t1' : t' < 1)
    (hPx : P.x = a.x + t * (v.x - a.x)) (hPy : P.y = a.y + t * (v.y - a.y))
    (hQx : Q.x = v.x + t' * (b.x - v.x)) (hQy : Q.y = v.y + t' * (b.y - v.y))
    (hav : a ≠ v) (hvb : v ≠ b)
    (hU : cross a v b = 0 → 0 < (v.x - a.x) * (b.x - v.x) + (v.y - a.y) * (b.y - v.y)) :
    ptInc P v b + lam a v =
      (if P.y < v.y then inR P.y v.y b.y (cross P v b) - inR P.y v.y a.y (cross P v a)
       else if v.y < P.y then -(inR v.y P.y b.y (cross v P b) - inR v.y P.y a.y (cross v P a))
       else 0)
      + (if v.y < Q.y then inR v.y Q.y b.y (cross v Q b) - inR v.y Q.y a.y (cross v Q a)
         else if Q.y < v.y then -(inR Q.y v.y b.y (cross Q v b) - inR Q.y v.y a.y (cross Q v a))
         else 0)
      + ptInc Q a v + lam v b := by
  have c1 : cross P v b = (1 - t) * cross a v b := by unfold cross; rw [hPx, hPy]; ring
  have c2 : cross P v a = 0 := by unfold cross; rw [hPx, hPy]; ring
  have c3 : cross v P b = -((1 - t) * cross a v b) := by unfold cross; rw [hPx, hPy]; ring
  have c4 : cross v P a = 0 := by unfold cross; rw [hPx, hPy]; ring
  have c5 : cross v Q b = 0 := by unfold cross; rw [hQx, hQy]; ring
  have c6 : cross v Q a = t' * cross a v b := by unfold cross; rw [hQx, hQy]; ring
  have c7 : cross Q v b = 0 := by unfold cross; rw [hQx, hQy]; ring
  have c8 : cross Q v a = -(t' * cross a v b) := by unfold cross; rw [hQx, hQy]; ring
  have c9 : cross v b P = (1 - t) * cross a v b := by unfold cross; rw [hPx, hPy]; ring
  have c10 : cross a v Q = t' * cross a v b := by unfold cross; rw [hQx, hQy]; ring
  rw [ptInc_eq_incR, ptInc_eq_incR, lam_eq, lam_eq, c1, c2, c3, c4, c5, c6, c7, c8, c9, c10]
  exact vgoal t0 t1 t0' t1' hPy hQy rfl
    (fun h => hav (Pt.ext' h.1 h.2)) (fun h => hvb (Pt.ext' h.1 h.2)) hU

end Geo.Proofs.WIND
''')
    open(os.path.join(os.path.dirname(os.path.abspath(__file__)), "..", "lean", "GeoProofs", "Lemmas", "WINDVertex.lean"), "w").write("\n".join(out))
main()
