"""C06 — check configuration and MANIFEST entry."""
CFG = {'assumptions': ['f64 inputs cross the boundary as bit patterns and are decoded to exact rationals; Rust f64 ops are '
                 'IEEE-754',
                 'coordinates are finite and far from overflow/underflow (|c| < 2^52, no subnormals)'],
 'count': {'quick': 30000, 'thorough': 1200000},
 'translator': True,
 'lean_files': ['GeoModel/TRANPrelude.lean', 'GeoModel/Gen/CentroidGen.lean', 'GeoProofs/Lemmas/TRAN2Centroid.lean',
                'GeoModel/Centroid.lean',
                'GeoModel/Ops/C06.lean',
                'GeoProofs/Lemmas/C06PEquiv.lean',
                'GeoProofs/Lemmas/C06PPoly.lean',
                'GeoProofs/Lemmas/C06PSpec.lean',
                'GeoProofs/Lemmas/C06PScale.lean',
                'GeoProofs/Lemmas/C06PHull.lean',
                'GeoProofs/Lemmas/C06PPos.lean',
                'GeoProofs/Lemmas/C06PHullA.lean',
                'GeoProofs/Lemmas/C06XSep.lean',
                'GeoProofs/Lemmas/C06XMoment.lean',
                'GeoProofs/Lemmas/C06XSlab.lean'],
 'rule': 'random geometries of all 10 types and nested mixed-dimension collections (depth<=3, empty and degenerate '
         'members; polygons: arbitrary rings, convex shells of either winding, valid shells with 0-4 holes of either '
         'winding, flat/single-point polygons with flat holes, shells exactly covered by their holes) in three '
         'coordinate systems (small grid; grid + integer offset up to 1.2e11 and power-of-two scale; jittered '
         'non-dyadic floats with offsets up to 1e8), plus metamorphic pairs (g, 2^e*g+d); distinct by input text; '
         'cases tagged triv (empty geometry) are not counted',
 'trusted_base': ['translator/rs2lean.py + rsexpr.py + jobs2.py for the accumulator of centroid.rs (explicit choices: Dimensions = its '
                  'declaration rank as a Nat; Euclidean.length(line) = the parameter len of the model; self.0 : Option<WeightedCentroid> '
                  'is the state, a &mut self method is a function of it; Option::as_ref / as_mut = the option; LineString::lines() = '
                  'windows(2); ring[0] / ring.0[0] in add_ring = total indexing (the guards are semantic, a panic would be seen by the '
                  'harness); Rect::centroid / unsigned_area = the regenerated Rect::center / width * height of geo-types; unreachable! '
                  'arms leave the state unchanged; exact rationals). Not regenerated: add_triangle (match guard), add_geometry and the '
                  'collection loops (recursion through the Geometry enum), the per-type Centroid impls that wrap the operation',
                  'segment lengths in the executable model are exact rationals for axis-aligned/Pythagorean segments '
                  'and otherwise midpoints of 2^-80-relative enclosures of the square root (the theorems quantify '
                  'over an arbitrary length function with the stated hypotheses)',
                  'numeric comparison within tol = 16*2^-53*(n+2)*kw*kr*(M+D) (n coordinates, M max |coord|, D bbox '
                  'extent, kw = sum|w|/|sum w| over the counted contributions, kr = worst shoelace condition number '
                  'when a ring is outside the exact integer regime); cases whose f64 branch on area == 0 / net '
                  'weight == 0 is within 2^-40 of a tie are skipped and counted']}

MANIFEST = {'note': 'Trusted: Lean 4.33 kernel (axioms propext, Classical.choice, Quot.sound only; audited per theorem each '
         'run; no sorry, no native_decide, no added axioms); the Lean compiler running the model; the Rust harness, '
         'generators and line protocol (sampling, not proof). The theorems are about the hand-written model; the '
         'model is tied to the code by running both on the same inputs each run. Lengths enter the theorems as an '
         'abstract function; f64 rounding is covered only by the tolerance of the correspondence, not by proof.',
 'technique': 'Lean 4 proof (invariant of the accumulator fold, structural induction on the geometry tree) + '
              'model/implementation correspondence on random geometry trees',
 'text': 'Translator tie (TRAN2, centroidOperation_eq_source, no hypothesis): the Coord operators, WeightedCentroid::{add_assign, sub_assign} '
         'and CentroidOperation::{centroid, centroid_dimensions, add_weighted_centroid, add_centroid, add_coord, add_line, add_line_string, '
         'add_multi_line_string, add_multi_point, add_ring, add_rect, add_polygon} and Line::centroid of the model equal the terms regenerated '
         'from centroid.rs (and coord.rs, dimensions.rs, area.rs) on this run (GeoModel/Gen/CentroidGen.lean). '
         'Proved for the model (GeoProofs/Props/C06.lean): folding add_assign over any list of contributions keeps '
         'exactly the contributions of maximal dimension, summed (fold_dominance); every add_* method including its '
         'early returns and the sub-operations of add_polygon is that fold over a state-independent contribution '
         'list, for every nesting (addGeom_is_fold, addGeom_dominant); centroid is None exactly for empty geometries '
         '(centroid_none_iff); the shifted shoelace area and moment sums equal the textbook ones on closed rings '
         "(ringArea_shift, ringCentroid_shift_text) and add_ring contributes exactly the specification's atoms "
         "(ring_contribution_spec); add_polygon — exterior op minus interior op, sub_assign incl. its 'Less => *self "
         "= b' arm, zero net weight => exterior outline — contributes exactly the specification's signed atoms, for "
         'every polygon, holes of any total area (polygon_contribution_spec); hence centroid = centroidSpec '
         '(weighted mean of the atoms of maximal dimension) for all 10 types and every nesting '
         '(accumulator_centroid_eq_spec: no hypothesis; centroid_eq_spec: the closed forms of a top-level Line / '
         'flat Rect need a non-zero length, shown necessary by centroid_eq_spec_needs_len; centroid_eq_spec_of_pos); '
         'zero-area rings/polygons fall back to the outline (ring_flat_is_linestring, ring_point_is_point, '
         'polygon_zero_weight_fallback, polygon_flat_fallback); translation: accumulator_translate (all inputs), '
         'centroid_translate_partial (final weight non-zero), centroid_translate (len positive on distinct points, '
         'no polygon whose holes outweigh its shell, rects min<=max: the final weight is then positive), '
         'centroid_translate_needs_weight (witness: with cancelling weights the model returns x/0 = 0, the code '
         '(+inf, -inf) for the witness and its translate alike, and the statement fails; such inputs have holes that '
         'outweigh their shell: a limit of the statement, not a defect); uniform scaling by any k != 0 incl. negative, for a |k|-homogeneous length, no '
         'weight condition (accumulator_scale, centroid_scale); hull membership as an explicit convex combination '
         "(non-negative weights summing to 1) of the geometry's coordinates: for every result of dimension 0 or 1 "
         '(centroid_in_hull), for a single hole-free polygon in convex position of either orientation via the fan '
         'triangulation that the shifted moment sum is (centroid_in_hull_convex), and for any nesting whose areal '
         'members are hole-free convex polygons, rects and triangles (centroid_in_hull_convex_members). Polygons with '
         'holes (C06X): finite separation in the rational plane - an explicit convex combination of a non-empty '
         'coordinate list is the same as lying in every closed half-plane that contains the list (hull_iff_halfplanes; '
         'no convexity library: extreme points as seen from the point, a triangle around it otherwise); for every '
         'polygon with an areal shell and non-zero net area and every affine f, f(centroid) * (|A_shell| - sum |A_hole|) '
         '= |int_shell f| - sum |int_hole f| with the integrals in shoelace form (polygon_centroid_moment, holes '
         'anywhere and of any size); hence the centroid is a convex combination of the shell vertices as soon as the net '
         'area is positive and the net first moment is non-negative for every closed half-plane containing the shell '
         'vertices (centroid_in_hull_polygon_partial; hypotheses instantiated on a square with a square hole). Not '
         'proved (checked on every generated case by the driver instead): that hypothesis from polyValid, i.e. that the '
         'shoelace moments are the integrals of f over the region between the rings (holes inside the shell, pairwise '
         'non-overlapping) - the slab decomposition of the first moment, in every direction. Groundwork for it, proved but '
         'not among the counted property theorems (GeoProofs/Lemmas/C06XSlab.lean cannot be imported by Props/C06.lean: '
         'the slab lemmas of SMLX import C12 lemmas that import Props/C06; it is built by setup.sh with the whole '
         'library and scanned for forbidden tokens on every run): ring_first_moment_slabs - for a closed ring and '
         'strictly increasing levels containing all its ordinates, 6 * (first moment about the x-axis) = sum over slabs '
         '(u, v) of (v - u) * ((2u + v) * lo + (u + 2v) * hi), lo / hi the signed sums of the crossing abscissae at the '
         'two ends of the slab (edge_slabsM, momentY_slabs, ringMomentY_edges). Still missing: cross-section of the '
         'shell >= sum of the cross-sections of the holes at every level (from polyValid via the WIND crossing lemmas), '
         'and the same in every direction (affine invariance of validity). The model (one Lean function per CentroidOperation method, same branches and early returns) is '
         'compared with the real centroid() on random geometries; the specification (textbook shoelace centroid, '
         'hole subtraction, degenerate fallbacks, dimension dominance, hull membership, translation/scaling pairs) '
         "is evaluated on the implementation's own output."}
