"""C12 — check configuration and MANIFEST entry."""
CFG = {'assumptions': ['f64 inputs cross the boundary as bit patterns and are decoded to exact rationals; Rust f64 '
                 'ops are IEEE-754',
                 'coordinates are finite',
                 'domain: OGC-valid members (simple linework, valid polygons, non-degenerate '
                 'Line/Rect/Triangle) plus the empty and zero-length inputs the property names; in a '
                 'collection members of equal dimension are pairwise disjoint (decided exactly by '
                 'GeoModel/Valid.lean; other inputs are SKIPped)',
                 "numeric agreement: |impl - exact| <= 64*2^-53*(M+1) per coordinate, M = max |coordinate|; "
                 "'nearest' means |dist(x,p) - dist(p,g)| <= the same bound; where exact keys (squared "
                 'distances to a centroid, scan widths) tie within 2^-30 relative, every outcome reachable by '
                 'resolving the ties either way is accepted (tag near-tie-alt) — the f64 code compares rounded '
                 'keys',
                 'interior points of polygons: the tolerance is multiplied by (1 + kappa), kappa = largest |dx/dy| of an '
                 'edge crossing the scan line; polygons whose selected scan interval is narrower than 2^-40*(M+1) '
                 '(no f64 point can be expected inside) and polygons with a vertex ordinate within 2^-40*(M+1) of the '
                 'exact bounding-box middle (the branch coord.y == y_mid is taken on a rounded value) are SKIPped as '
                 'near-ties — unless the implementation panics, which is always judged'],
 'count': {'quick': 60000, 'thorough': 2400000},
 'translator': True,
 'lean_files': ['GeoModel/TRANPrelude.lean', 'GeoModel/Gen/ClosestGen.lean', 'GeoProofs/Lemmas/TRAN2Closest.lean', 'GeoModel/Closest.lean', 'GeoModel/InteriorPoint.lean', 'GeoModel/Ops/C12.lean',
                'GeoModel/RelateSpec.lean', 'GeoModel/Valid.lean', 'GeoModel/Centroid.lean',
                'GeoProofs/Lemmas/C12Line.lean', 'GeoProofs/Lemmas/C12Fold.lean',
                'GeoProofs/Lemmas/C12Closest.lean', 'GeoProofs/Lemmas/C12Interior.lean',
                'GeoProofs/Lemmas/C12QCross.lean', 'GeoProofs/Lemmas/C12QScan.lean',
                'GeoProofs/Lemmas/C12QSimple.lean', 'GeoProofs/Lemmas/C12QFold.lean', 'GeoProofs/Lemmas/C12QValid.lean',
                'GeoProofs/Lemmas/WINDJump.lean', 'GeoProofs/Lemmas/WINDSimple.lean', 'GeoProofs/Lemmas/WINDHoles.lean',
                'GeoProofs/Lemmas/WINDLink.lean', 'GeoProofs/Lemmas/WINDCross.lean', 'GeoProofs/Lemmas/WINDScan.lean',
                'GeoProofs/Lemmas/WINDVertex.lean', 'GeoProofs/Lemmas/WINDSteps.lean', 'GeoProofs/Lemmas/WINDJordan.lean'],
 'rule': 'half closest_point, half interior_point; geometries: shapes::gen_valid (all 10 types, nested '
         'collections), dedicated streams of polyomino polygons whose hole touches the shell, thin slivers / '
         'C-shapes / combs whose centroid is outside, needles down to 1 ulp thin, rings with repeated vertices, mixed-dimension collections, empty and zero-length inputs, '
         'a quarter moved far from the origin by an exact dyadic similarity, non-grid f64 '
         'Line/LineString/Triangle/Rect; query points on a vertex, on an edge midpoint, one grid unit from a '
         'vertex, at the bounding-box centre (equidistant from several parts), anywhere on the half-unit lattice; '
         'a case is distinct by its input text; trivial = empty geometry',
 'trusted_base': ['translator/rs2lean.py + rsexpr.py + jobs2.py for closest_point.rs / Closest::best_of_two (explicit choices: Euclidean.distance and '
                  'Euclidean.length are abstract parameters constrained only by "orders pairs like the squared distance" / "zero exactly on '
                  'zero-length lines"; Point = Coord = Pt with Point::from / .into() / p.0 the identity; LineString::lines() = consecutive pairs; '
                  'iter().chain(once(x)) = append; Polygon: Intersects<Point> = coordinate_position != Outside, which is tied in C02; '
                  'exact rationals: no NaN, no rounding)',
                  'modelled, not verified: the Bentley-Ottmann sweep (geo/src/algorithm/sweep/**) is replaced in the '
                  'model by what it is documented to compute — line_intersection of every polygon edge with the scan '
                  'line; the correspondence runs the real sweep',
                  'modelled, not verified: polygon.relate(&midpoint) is replaced by the DE-9IM specification '
                  'Geo.locate (relate itself is property C01)',
                  'the specification side (Geo.locate, exact point-segment distances, Geo.validGeom) is itself a '
                  'Lean definition, not proved against an external standard',
                  'the existence of an Inside scan midpoint is PROVED for every polyValid polygon (interior_strict_valid); nothing about '
                  'valid polygons is left as an assumption on the model side. polyValid itself (GeoModel/Valid.lean: simple rings, '
                  'DE-9IM clauses of the specification between hole and shell and between holes, connected interior) is a definition']}

MANIFEST = {'note': 'Trusted: Lean 4.33 kernel (axioms propext, Classical.choice, Quot.sound only; audited per theorem '
         'each run; no sorry, no native_decide, no added axioms); the Lean compiler running the model; the Rust '
         'harness, generators and line protocol (sampling, not proof). The theorems are about the hand-written '
         'model; the model is tied to the code by running both on the same inputs each run. The sweep-line '
         'intersection finder and relate() are not modelled (see trusted_base). Known finding K1 (open): '
         'Line / 2-vertex LineString interior_point is the start point, a boundary point. Known finding K2 (open): '
         'interior_point panics inside the sweep on valid polygons thinner than f64 resolution along the scan line '
         'that also repeat a vertex (found by a needle stream; class pinned by the driver tag '
         'sliver-with-repeated-vertex); not reproduced on 4M valid polygons with a hole touching the shell; the same '
         'panic on self-intersecting polygons is outside the domain.',
 'technique': 'Lean 4 proof (clamped projection is the minimiser; best_of_two / closest_of is an arg-min fold with a '
              'sound early exit; per-type dispatch by mutual induction over the geometry tree; scan-loop and min_by '
              'lemmas) + model/implementation correspondence with an exact specification-side checker',
 'text': 'Proved for the model, for every geometry of every type and nesting and every query point: closest_point '
         'answers Intersection(p) exactly when one of the kernel intersects tests holds (and then carries p itself), '
         'otherwise a point on a non-degenerate segment or isolated point of g such that no such point is closer '
         '(closest_spec, closest_single_min, from line_closest_min and the arg-min fold closestOf_argmin), and '
         'Indeterminate exactly when g has no candidate at all (empty or zero-length). interior_point is None '
         'exactly for empty geometries (interior_none_iff); for point/line types it is one of the geometry\'s own '
         'coordinates, for a LineString of >= 3 coordinates a non-endpoint vertex nearest the centroid; the polygon '
         'scan returns only a candidate that passed the location test, its width counted only when Inside '
         '(interior_verified_branch), and is Inside whenever some scan midpoint is (interior_strict_partial). That an '
         'Inside scan midpoint exists is proved from the crossing structure of the scan line: on a level avoiding all '
         'vertices (yMid_avoids_vertices) the winding number of a closed ring around (x, y) is minus the signed count of '
         'the edge crossings at or left of x, the signs summing to 0 (level_winding_crossings), it changes by +-1 across one '
         'crossing and is +-1 between the first two (level_winding_step, level_winding_first_interval); a ring with a vertex '
         'above and one below has an even number >= 2 of crossings (level_crossing_exists); line_intersection of an edge with '
         'the scan segment reports exactly that crossing abscissa; no candidate is on the boundary and the midpoint of the '
         'first two crossings is Inside. Hence interior_point is Inside for every hole-free polygon whose exterior ring is '
         'ringSimple, with no further hypothesis (interior_strict_ringSimple, interior_polygon_inside_simple, and interior_multipolygon_inside_simple for '
         'MultiPolygons of such members; a ringSimple '
         'ring has pairwise distinct crossings and a bounding box of positive width and height), more generally when the '
         'hit abscissae are pairwise distinct (interior_strict_simple), and for polygons with holes when moreover hole '
         'coordinates lie in the shell box and every hole crossing has a shell crossing to its left / is wound by the '
         'shell (interior_strict_holes_partial, interior_strict_holes_wound_partial); for polyValid polygons all but the '
         'cross-ring hypotheses are derived from validity in interior_strict_valid_partial, and the cross-ring hypotheses '
         'themselves in valid_scan_crossings (Lemmas/WIND*.lean): the winding number of the two face samples beside a point of '
         'an edge differs by one (windingE_jump); a point off the ring joined to a point of exactly one edge by a segment that '
         'meets no other edge has the winding number of the face sample on its side (windingE_link), so crossing an edge '
         'changes the winding number by one (windingE_cross); two simple rings through a common point that is a coordinate of '
         'neither cross properly there unless BB has dimension 1 (crossing_points), which II = F excludes between two holes; '
         'the Jordan-curve property of a simple ring in edge form — one side of every edge has winding number 0 '
         '(ring_edge_one_side_outside: the left face sample keeps its winding number along an edge and around a vertex because the '
         'other edges contribute potential differences that telescope along the closed ring, plus a 27-case local identity at the '
         'vertex; at the left-most crossing of a level one side is 0) — with BE = F excludes it between hole and shell and makes '
         'the shell wind around every hole crossing. Hence interior_point is strictly Inside for EVERY OGC-valid polygon and for '
         'every non-empty MultiPolygon of valid members (interior_strict_valid, interior_polygon_inside_valid, '
         'interior_multipolygon_inside_valid), no hypothesis besides polyValid. The '
         'MultiPolygon answer has maximal verified width. Translator tie (TRAN2, closestPoint_eq_source_partial): best_of_two, '
         'Point / Line::closest_point (zero-length guard, projection parameter, t < 0 / t > 1 split, intersects test), the closest_of loop with its '
         'short circuit, and the LineString / Polygon / Triangle / Rect / Multi* / GeometryCollection impls of the model equal the terms regenerated '
         'from closest_point.rs and types.rs on this run (GeoModel/Gen/ClosestGen.lean), the two square roots being parameters. Each run the real closest_point / interior_point are run '
         'on generated geometries and the implementation\'s own f64 output is judged exactly by the DE-9IM '
         'specification: variant tag exact, returned point on g and nearest within tolerance; interior point not '
         'Outside, and Inside for every valid non-empty g (fails, as known finding K1, for the start point of a '
         'two-vertex line); None only for empty input; no panic.'}
