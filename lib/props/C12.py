"""C12 — check configuration and MANIFEST entry."""
CFG = {'assumptions': ['f64 inputs cross the boundary as bit patterns and are decoded to exact rationals; Rust f64 '
                 'ops are IEEE-754',
                 'coordinates are finite',
                 'domain: OGC-valid members (simple linework, valid polygons, non-degenerate '
                 'Line/Rect/Triangle) plus the empty and zero-length inputs the property names; in a '
                 'collection members of equal dimension are pairwise disjoint (decided exactly by '
                 'GeoModel/Valid.lean; other inputs are SKIPped)',
                 "numeric agreement: |impl - exact| <= 64*2^-53*(M+1) per coordinate, M = max |coordinate|; "
                 "'nearest' means |dist(x,p) - dist(p,g)| <= the same bound; where exact keys (squared "
                 'distances to a centroid, scan widths) tie within 2^-30 relative, every outcome reachable by '
                 'resolving the ties either way is accepted (tag near-tie-alt) — the f64 code compares rounded '
                 'keys',
                 'interior points of polygons: the tolerance is multiplied by (1 + kappa), kappa = largest |dx/dy| of an '
                 'edge crossing the scan line; polygons whose selected scan interval is narrower than 2^-40*(M+1) '
                 '(no f64 point can be expected inside) and polygons with a vertex ordinate within 2^-40*(M+1) of the '
                 'exact bounding-box middle (the branch coord.y == y_mid is taken on a rounded value) are SKIPped as '
                 'near-ties — unless the implementation panics, which is always judged'],
 'count': {'quick': 60000, 'thorough': 2400000},
 'lean_files': ['GeoModel/Closest.lean', 'GeoModel/InteriorPoint.lean', 'GeoModel/Ops/C12.lean',
                'GeoModel/RelateSpec.lean', 'GeoModel/Valid.lean', 'GeoModel/Centroid.lean',
                'GeoProofs/Lemmas/C12Line.lean', 'GeoProofs/Lemmas/C12Fold.lean',
                'GeoProofs/Lemmas/C12Closest.lean', 'GeoProofs/Lemmas/C12Interior.lean',
                'GeoProofs/Lemmas/C12QCross.lean', 'GeoProofs/Lemmas/C12QScan.lean',
                'GeoProofs/Lemmas/C12QSimple.lean', 'GeoProofs/Lemmas/C12QFold.lean'],
 'rule': 'half closest_point, half interior_point; geometries: shapes::gen_valid (all 10 types, nested '
         'collections), dedicated streams of polyomino polygons whose hole touches the shell, thin slivers / '
         'C-shapes / combs whose centroid is outside, needles down to 1 ulp thin, rings with repeated vertices, mixed-dimension collections, empty and zero-length inputs, '
         'a quarter moved far from the origin by an exact dyadic similarity, non-grid f64 '
         'Line/LineString/Triangle/Rect; query points on a vertex, on an edge midpoint, one grid unit from a '
         'vertex, at the bounding-box centre (equidistant from several parts), anywhere on the half-unit lattice; '
         'a case is distinct by its input text; trivial = empty geometry',
 'trusted_base': ['modelled, not verified: the Bentley-Ottmann sweep (geo/src/algorithm/sweep/**) is replaced in the '
                  'model by what it is documented to compute — line_intersection of every polygon edge with the scan '
                  'line; the correspondence runs the real sweep',
                  'modelled, not verified: polygon.relate(&midpoint) is replaced by the DE-9IM specification '
                  'Geo.locate (relate itself is property C01)',
                  'the specification side (Geo.locate, exact point-segment distances, Geo.validGeom) is itself a '
                  'Lean definition, not proved against an external standard',
                  'the existence of an Inside scan midpoint for every valid polygon is standard geometry [S], not '
                  'proved; tied down by the correspondence (the model never takes the vertex fallback on valid '
                  'input; the checker demands Inside of the implementation\'s own point)']}

MANIFEST = {'note': 'Trusted: Lean 4.33 kernel (axioms propext, Classical.choice, Quot.sound only; audited per theorem '
         'each run; no sorry, no native_decide, no added axioms); the Lean compiler running the model; the Rust '
         'harness, generators and line protocol (sampling, not proof). The theorems are about the hand-written '
         'model; the model is tied to the code by running both on the same inputs each run. The sweep-line '
         'intersection finder and relate() are not modelled (see trusted_base). Known finding K1 (open): '
         'Line / 2-vertex LineString interior_point is the start point, a boundary point. Known finding K2 (open): '
         'interior_point panics inside the sweep on valid polygons thinner than f64 resolution along the scan line '
         'that also repeat a vertex (found by a needle stream; class pinned by the driver tag '
         'sliver-with-repeated-vertex); not reproduced on 4M valid polygons with a hole touching the shell; the same '
         'panic on self-intersecting polygons is outside the domain.',
 'technique': 'Lean 4 proof (clamped projection is the minimiser; best_of_two / closest_of is an arg-min fold with a '
              'sound early exit; per-type dispatch by mutual induction over the geometry tree; scan-loop and min_by '
              'lemmas) + model/implementation correspondence with an exact specification-side checker',
 'text': 'Proved for the model, for every geometry of every type and nesting and every query point: closest_point '
         'answers Intersection(p) exactly when one of the kernel intersects tests holds (and then carries p itself), '
         'otherwise a point on a non-degenerate segment or isolated point of g such that no such point is closer '
         '(closest_spec, closest_single_min, from line_closest_min and the arg-min fold closestOf_argmin), and '
         'Indeterminate exactly when g has no candidate at all (empty or zero-length). interior_point is None '
         'exactly for empty geometries (interior_none_iff); for point/line types it is one of the geometry\'s own '
         'coordinates, for a LineString of >= 3 coordinates a non-endpoint vertex nearest the centroid; the polygon '
         'scan returns only a candidate that passed the location test, its width counted only when Inside '
         '(interior_verified_branch), and is Inside whenever some scan midpoint is (interior_strict_partial); the '
         'MultiPolygon answer has maximal verified width. Each run the real closest_point / interior_point are run '
         'on generated geometries and the implementation\'s own f64 output is judged exactly by the DE-9IM '
         'specification: variant tag exact, returned point on g and nearest within tolerance; interior point not '
         'Outside, and Inside for every valid non-empty g (fails, as known finding K1, for the start point of a '
         'two-vertex line); None only for empty input; no panic.'}
