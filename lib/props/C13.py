"""C13 — check configuration and MANIFEST entry."""
CFG = {'assumptions': ['f64 inputs cross the boundary as bit patterns and are decoded to exact rationals; Rust f64 '
                 'ops are IEEE-754 (round to nearest even), libm sin/cos/tan are accurate to 2 ulp',
                 'finite coordinates and matrix entries; no overflow (checked per case: an f64 result is only '
                 'compared bit-exactly when every intermediate value of the expression is representable)',
                 'integer scalar types: no wrap-around (entries of the generated i32/i64 matrices are at most 9)',
                 'commutation clause: operands are valid geometries (valid by construction in the generator)'],
 'translator': True,
 'count': {'quick': 48000, 'thorough': 1600000},
 'lean_files': ['GeoModel/Affine.lean', 'GeoModel/Ops/C13.lean', 'GeoModel/Traverse.lean', 'GeoModel/Orient.lean', 'GeoModel/Gen/AffineGen.lean'],
 'rule': 'five streams. alg: chains of 1-8 f64 matrices (integer, dyadic, exact-similarity, singular, det=+-2^k, '
         'wild floats) x compose_many / fold of compose / apply / inverse / round trips; ctor: scale, translate, '
         'rotate, skew constructors and their cumulative forms on a base matrix; trait: every Translate / Scale / '
         'Skew / Rotate / AffineOps entry point (functional and in-place) on all 10 geometry types and the '
         'Geometry enum; int: i32/i64 compose, apply, inverse; comm: exact similarities (chains of integer '
         'translations, 2^k scalings, axis swap, reflections, quarter turns) applied to the operands of '
         'intersects / contains / relate / coordinate_position / signed_area / Euclidean length / Euclidean '
         'distance on valid grid geometries. Distinct by input text; cases tagged triv (identity map, empty '
         'operands, single singular matrix) are not counted',
 'trusted_base': ['bit-exact comparison whenever the checked-binary64 evaluation of the model (GeoModel/Affine.lean '
                  'Fx: every intermediate value representable) succeeds; otherwise |impl - exact| <= k*u*S with '
                  'u = 2^-53: compose/apply entries 4u*sum|terms|; inverse entries |x/det|*(rho+2u) with rho = '
                  '2*detErr/|det| + 4u, detErr = 3u(|ae|+|bd|), skipped as ill-conditioned when detErr*2^20 >= |det|; '
                  'rotate: |cos,sin - truth| <= 4u(1+|theta|) + 4u and offsets within 4u*sum|terms| of the formula '
                  'with the implementation\'s own cos/sin; skew tangent within (1+t^2)*4u*|theta| + 4u|t| + 2.5e-16; '
                  'trait results with rounded maps within (64+8|theta|)*u*(1+|linear part|)*max|coordinate|',
                  'sin/cos/tan truth only for multiples of 15 degrees (closed forms through sqrt enclosures of '
                  'relative width 2^-90); other angles: matrix shape, unit norm and fixed origin only',
                  'rotate_around_centroid: the centroid is taken from the implementation (Centroid is property C06)',
                  'commutation stream is metamorphic (implementation against itself); the model contributes the '
                  'class of admissible maps (checked per case) and the expected factor (det for signed area, '
                  'sqrt|det| for length and distance); numeric measures only on the dyadic grid |c| <= 2^16, '
                  'multiples of 1/16']}

MANIFEST = {'note': 'Trusted: Lean 4.33 kernel (axioms propext, Classical.choice, Quot.sound only; audited per theorem '
         'each run; no sorry, no native_decide, no added axioms); the Lean compiler running the model; the '
         'Rust harness, generators and line protocol (sampling, not proof). The theorems are about the '
         'hand-written model; the model is tied to the code by running both on the same inputs each run. '
         'The theorems are over exact scalars (any commutative ring / field); floating point enters only through '
         'the correspondence: bit-exact where the f64 evaluation is provably exact (checked per case), stated '
         'rounding bounds elsewhere. Trigonometric values are compared for multiples of 15 degrees only. The '
         'commutation clause is proved for the modelled kernel quantities (orientation determinant, orientation, '
         'squared distance, shoelace sum) and checked metamorphically on the real predicates and measures. Known '
         'finding K3: the integer-typed inverse truncates 1/det to 0.',
 'technique': 'Lean 4 proof (ring/field identities for all matrices and all chains, induction over chains) + '
              'model/implementation correspondence with per-case exactness check + metamorphic commutation stream',
 'text': 'Proved for the model, for every commutative ring of scalars, all matrices and all chains: '
         'compose(a,b).apply = b.apply after a.apply; associativity; identity laws; compose_many = left fold; '
         'the third row stays [0,0,1]; over every field inverse = None exactly when det = 0 and otherwise is a '
         'two-sided inverse that undoes apply; scale/translate/rotate/skew equal the documented map about the '
         'documented origin (which they fix); the trait layers use the bounding-box centre / centroid and leave '
         'empty geometries unchanged. Integer inverse: proved correct for det = +-1 only (inverse_int_partial), '
         'with the theorem that for |det| >= 2 the code returns the zero matrix (K3). Commutation: every affine '
         'map multiplies the orientation determinant and the shoelace sum by det, preserves or flips orient2d '
         'with the sign of det; every chain of the property\'s exact maps is a similarity and multiplies squared '
         'distances by the product of the squared factors. The real code is run on the same inputs: bit-exact '
         'agreement on integer/dyadic matrices, rounding bounds on float matrices, all trait entry points on all '
         'types, i32/i64, and the commutation of intersects/contains/relate/coordinate_position/area/length/'
         'distance with exact similarities.'}
