"""C19 — check configuration and MANIFEST entry."""
CFG = {'assumptions': ['f64 inputs cross the boundary as bit patterns and are decoded to exact rationals; Rust f64 '
                 'ops are IEEE-754'],
 'count': {'quick': 30000, 'thorough': 1500000},
 'lean_files': ['GeoModel/Traverse.lean', 'GeoModel/PolygonSM.lean', 'GeoModel/Ops/C19.lean'],
 'rule': 'random geometries of all 10 types and nested collections (depth<=3, empty members, 0-2 holes, '
         'open/empty rings closed by the constructor) x {traversal+bbox+extremes, map/try_map with exact '
         'integer-affine or constant maps and a value-triggered failure}; distinct by input text; cases '
         'tagged triv (empty geometry) are not counted',
 'trusted_base': ['modelled, not verified: coordinate functions are integer-affine or constant maps that are '
                  'exact in f64 (checked per case by the driver; inexact cases are SKIPped and counted)',
                  'Geometry::try_map_coords_in_place cannot be instantiated (infinite type recursion through '
                  'GeometryCollection) and is exercised on the concrete types only']}

MANIFEST = {'note': 'Trusted: Lean 4.33 kernel (axioms propext, Classical.choice, Quot.sound only; audited per theorem '
         'each run; no sorry, no native_decide, no added axioms); the Lean compiler running the model; the '
         'Rust harness, generators and line protocol (sampling, not proof). The theorems are about the '
         'hand-written model; the model is tied to the code by running both on the same inputs each run. '
         'Coordinate functions are exact integer-affine/constant maps. Two known findings (K6 polygon bbox '
         'ignores holes outside the shell; K8 Triangle::new re-orients under map_coords) are listed in '
         'known_findings.json.',
 'technique': 'Lean 4 proof (structural induction on the geometry tree) + model/implementation '
              'correspondence on random geometry trees',
 'text': 'Proved for the model by mutual structural induction over the geometry tree (all nestings, all '
         'empty members): coords_count = length of coords_iter; further consistency theorems (exterior '
         'subsequence, map/traversal commutation, bounding box = min/max, extremes) are added to '
         'Props/C19.lean as they are proved and counted in the evidence. Every separately written Rust impl '
         '(count, iter, exterior iter, lines, map/try_map/in-place, bounding_rect, extremes) is mirrored by '
         'its own Lean function and compared exactly on random trees to depth 3; the property clauses are '
         "also evaluated directly on the implementation's outputs."}
