"""C19 — check configuration and MANIFEST entry."""
CFG = {
 'translator': True,'assumptions': ['f64 inputs cross the boundary as bit patterns and are decoded to exact rationals; Rust f64 '
                 'ops are IEEE-754'],
 'count': {'quick': 30000, 'thorough': 1500000},
 'lean_files': ['GeoModel/Gen/Kernel.lean', 'GeoProofs/Lemmas/GenKernel.lean', 'GeoModel/Traverse.lean', 'GeoModel/PolygonSM.lean', 'GeoModel/Ops/C19.lean'],
 'rule': 'random geometries of all 10 types and nested collections (depth<=3, empty members, 0-2 holes, '
         'open/empty rings closed by the constructor) x {traversal+bbox+extremes, map/try_map with exact '
         'integer-affine or constant maps and a value-triggered failure}; distinct by input text; cases '
         'tagged triv (empty geometry) are not counted',
 'trusted_base': ['modelled, not verified: coordinate functions are integer-affine or constant maps that are '
                  'exact in f64 (checked per case by the driver; inexact cases are SKIPped and counted)',
                  'Geometry::try_map_coords_in_place cannot be instantiated (infinite type recursion through '
                  'GeometryCollection) and is exercised on the concrete types only']}

MANIFEST = {'note': 'Trusted: Lean 4.33 kernel (axioms propext, Classical.choice, Quot.sound only; audited per theorem '
         'each run; no sorry, no native_decide, no added axioms); the Lean compiler running the model; the '
         'Rust harness, generators and line protocol (sampling, not proof). The theorems are about the '
         'hand-written model; the model is tied to the code by running both on the same inputs each run. '
         'Coordinate functions are exact integer-affine/constant maps. Two known findings (K6 polygon bbox '
         'ignores holes outside the shell; K8 Triangle::new re-orients under map_coords) are listed in '
         'known_findings.json.',
 'technique': 'Lean 4 proof (structural induction on the geometry tree) + model/implementation '
              'correspondence on random geometry trees',
 'text': 'Proved in Lean for the model (GeoModel/Traverse.lean), by mutual structural induction over the '
         'geometry tree (all 10 types, every nesting of collections, empty members): (1) count_eq_length: '
         'coords_count = length of coords_iter. (2) exterior_sublist: exterior_coords_iter is a sub-sequence '
         'of coords_iter; equal when no polygon has interior coordinates (exterior_eq_of_noInteriors / '
         'exterior_eq_of_noPolygons). (3) windows2_eq_zip, windows2_length, windows2_getElem?, '
         'lines_pairs_{lineString,multiLineString,polygon,multiPolygon}: lines_iter is the consecutive '
         'coordinate pairs of each linear component; lines_endpoints: every yielded line has both end points '
         'in coords_iter (Rect, Triangle included). (4) map_traversal: coords_iter(map_coords f g) = map f '
         "(coords_iter g) under the decidable hypothesis mapRegular f g = no Rect member (the property's own "
         'exception; mapCoords_rect states what Rect does, map_traversal_rect_monotone the order-preserving '
         'case), every Triangle member keeps a non-negative cross product under f (otherwise Triangle::new '
         'reverses it: known finding K8, map_triangle_flip_witness), polygon rings closed (the C18 '
         'invariant; map_open_ring_witness shows why); map_count / map_count_closed: coords_count is '
         'preserved. (5) tryMap_ok: try_map_coords with a never-failing function = Ok(map_coords) for every '
         'geometry; tryMapList_first_err, tryMapList_ok_iff, tryMap_err_eq and tryMap_first_err: '
         'try_map_coords returns Err e exactly when some fed coordinate fails with e and all coordinates fed '
         'before it (traversal order) succeed; tryMap_err_mem. (6) getBoundingRect_none_iff, bbox_none_iff: '
         'bounding_rect = None iff the exterior traversal is empty; getBoundingRect_bounds, bbox_spec, '
         'bbox_bounds, bbox_unique, bboxMerge_spec: the box is the unique component-wise min/max of the '
         'exterior traversal (all inside, each bound attained), through the running get_min_max fold '
         '(invariant min<=max) and bounding_rect_merge, for Rect members with min<=max (C18 invariant, '
         'hypothesis rectsValid); that the box ranges over the exterior only is known finding K6 '
         "(bbox_ignores_hole_witness); bbox_none_iff_coords / bbox_bounds_coords give the property's literal "
         'wording (coords_iter) for geometries whose polygons have no interior coordinates. (7) '
         'extremes_attain: each of the four extremes sits at the index it names, attains the bound, and its '
         "index is the first attaining it; extremes_none_iff; extremes_eq_bbox: the extremes' coordinates "
         'equal the bounds bounding_rect reports. Not modelled in Lean (correspondence only): '
         'map_coords_in_place / try_map_coords_in_place agreement with map_coords. Every separately written '
         'Rust impl (count, iter, exterior iter, lines, map/try_map/in-place, bounding_rect, extremes) is '
         'mirrored by its own Lean function and compared exactly on random trees to depth 3; the property '
         "clauses are also evaluated directly on the implementation's outputs."}
