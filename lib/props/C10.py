"""C10 — check configuration and MANIFEST entry."""
CFG = {'assumptions': ['f64 inputs cross the boundary as bit patterns and are decoded to exact rationals; Rust f64 '
                 'ops are IEEE-754',
                 'coordinates are finite; polygons are integer grids (optionally translated by up to 2^27 and scaled '
                 'by 2^-1..2^3), so every coordinate, half-grid query point and triangle_winding_order cross product '
                 'is an exact f64',
                 'orientation tests are exact (RobustKernel::orient2d returns the sign of the exact determinant)',
                 'slice::partition_point on a slice partitioned by the predicate returns the number of leading '
                 'elements satisfying it (std binary search is trusted)',
                 'the Delaunay inside filter uses the f64 centroid of a face: cases where moving the exact centroid '
                 'by 2^-40 (relative) changes the contains() answer are SKIPped and counted (none expected: faces '
                 'are non-degenerate)'],
 'count': {'quick': 8000, 'thorough': 320000},
 'lean_files': ['GeoModel/Triangulate.lean', 'GeoModel/MonoPoly.lean', 'GeoModel/Tiling.lean',
                'GeoModel/Ops/C10.lean', 'GeoModel/RelateSpec.lean', 'GeoModel/Valid.lean', 'GeoModel/Area.lean',
                'GeoProofs/Lemmas/C10Earcut.lean', 'GeoProofs/Lemmas/C10Stitch.lean',
                'GeoProofs/Lemmas/C10Mono.lean'],
 'rule': 'valid polygons and multipolygons on 3x3..6x6 integer grids (polyomino outlines with holes and holes '
         'touching the shell or each other at a point, star polygons, rectangles with a rectangular/triangular hole, '
         'hand-picked families: the L shape of F7 in its 8 symmetries, staircases with vertical segments inside both '
         'chains, combs, collinear vertices on every edge), rings rotated/reversed, a quarter translated by up to '
         '2^27 and scaled by a power of two; ops earcut (polygons whose rings do not touch), cdt (constrained, '
         'constrained_outer, unconstrained Delaunay), mono (monotone_subdivision + MonotonicPolygons/MonoPoly point '
         'queries on every grid and half-grid point of the bounding box grown by one step), stitch '
         '(stitch_triangulation of the ear-cut / constrained Delaunay triangles); invalid polygons (decided exactly by '
         'Valid.lean) are SKIPped; distinct by input text',
 'trusted_base': ['modelled as parameters, not verified: earcutr::earcut, spade (constrained) Delaunay triangulation '
                  'including geo\'s constraint-line preprocessing (snap/dedupe/split, the identity on valid integer '
                  'polygons), the monotone sweep builder (monotone/{builder,sweep,segment}.rs), ring reconstruction '
                  'and ring nesting after find_boundary_lines in stitch.rs (observed only as the set of undirected '
                  'edges of the output rings, which must equal the model\'s boundary lines); their outputs are decided per case by the exact checker '
                  'Tiling.tiles (vertex rule, exact area sum, relateSpec II = F pairwise, locate-sampled containment '
                  '+ no proper edge crossing)',
                  'the checker\'s containment clause samples each piece (vertices, 1/3, 1/2, 2/3 points of every edge, '
                  'centroid of triangles) and forbids proper crossings with target edges; that the four clauses imply '
                  'a tiling of the point set is measure theory and is not formalised',
                  'ear-cut hole start indices are not observable through the public API (only vertices, '
                  'triangle_indices and the triangles are): they are covered by theorem earcut_interior_indexes on '
                  'the model and, on the code, indirectly by the tiling verdict on polygons with holes']}

MANIFEST = {'note': 'Trusted: Lean 4.33 kernel (axioms propext, Classical.choice, Quot.sound only; audited per theorem '
         'each run; no sorry, no native_decide, no added axioms); the Lean compiler running the model and the '
         'checker; the Rust harness, generators and line protocol (sampling, not proof). The theorems are about '
         'the hand-written model of geo\'s glue; the engines (earcutr, spade, the monotone sweep) are parameters '
         'whose outputs are decided per generated case by the exact tiling checker. One defect (F7: MonoPoly point '
         'location with vertical chain segments) was repaired by a fix: commit; the model mirrors the fixed code.',
 'technique': 'Lean 4 proof (list induction over the mirrored glue code; fold invariant for find_boundary_lines; '
              'sorted-chain reasoning for MonoPoly point location) + model/implementation correspondence with an '
              'exact Lean tiling checker on the implementation output',
 'text': 'Exact Lean mirrors of polygon_to_earcutr_input / Iter::next (ear-cut glue), the centroid-inside filter of '
         'constrained_triangulation, ccw_lines / find_boundary_lines (stitch) and MonoPoly point location '
         '(bounding_segment_lex, calculate_coordinate_position, into_polygon, MonotonicPolygons::intersects). Proved '
         'for all inputs: the ear-cut vertex array is the flattened coords_iter, hole start indices are the ring '
         'offsets, triangle_index_to_coord i is the i-th coordinate, decoding pops from the back and for in-range '
         'indices yields indices/3 triangles whose corners are polygon coordinates; the constrained filter keeps '
         'exactly the outer faces whose centroid is contained; find_boundary_lines keeps exactly the lines used an '
         'odd number of times (parity fold invariant); for lexicographically increasing chains MonoPoly point '
         'location is the between-the-chains classification; the tiling checker accepts exactly when its clauses '
         'hold and its area clause is the shoelace formula. NOT proved: that earcutr / spade / the sweep builder '
         'tile (decided on every generated case by the checker), and that the checker clauses imply a point-set '
         'tiling (measure theory).'}
