"""C15 — check configuration and MANIFEST entry."""
CFG = {'assumptions': ['f64 inputs cross the boundary as bit patterns and are decoded to exact rationals; Rust f64 '
                 'ops are IEEE-754; libm hypot is within 1 ulp and exact on perfect squares',
                 'coordinates, ratios, distances and max are finite and of moderate magnitude (no overflow / '
                 'subnormal intermediate results); max_segment_length > 0'],
 'count': {'quick': 24000, 'thorough': 1000000},
 'lean_files': ['GeoModel/Interp.lean', 'GeoModel/Ops/C15.lean', 'GeoProofs/Lemmas/C15.lean'],
 'rule': 'random Lines and LineStrings (0-6 vertices; axis-aligned / Pythagorean steps with rational lengths, '
         'grid and moderate-range float coordinates; repeated vertices, zero-length lines, back-tracking paths) x '
         'ratios {0, 1, dyadic, negative, >1, exactly at a vertex, 1+-eps, +-1e6, random} x distances {0, negative, '
         'length, beyond, exactly at a vertex, random}; densify on Line/LineString/MultiLineString/Polygon/'
         'MultiPolygon/Rect/Triangle with max in {segment/k exact, segment/k*(1+-eps), far below the shortest '
         'segment, above the total, random}; distinct by input text; empty / one-point inputs are tagged triv',
 'trusted_base': ['modelled, not verified: segment lengths are an abstract parameter of the model; the driver '
                  'instantiates it with the exact rational root (perfect squares) or a 2^-80-tight rational '
                  'enclosure',
                  'numeric comparison within (4n+16)*2^-53*(max|coordinate| + length)*(1+|r|+|q|) for interpolated '
                  'points (n = number of segments), 16*2^-53*(max|coordinate| + longest segment) for densified '
                  'points; original vertices must be copied bit-exactly; piece-count near-ties (d/max within 2^-40 '
                  'of an integer without being one) are skipped and counted']}

MANIFEST = {'note': 'Trusted: Lean 4.33 kernel (axioms propext, Classical.choice, Quot.sound only; audited per theorem '
         'each run; no sorry, no native_decide, no added axioms); the Lean compiler running the model; the '
         'Rust harness, generators and line protocol (sampling, not proof). The theorems are about the '
         'hand-written model with segment length as an abstract function (hypotheses: non-negative, symmetric, '
         'zero only for equal endpoints, homogeneous along a segment — each stated where used); the model is '
         'tied to the code by running both on the same inputs each run and comparing within a stated rounding '
         'tolerance.',
 'technique': 'Lean 4 proof (induction over the segment list; field arithmetic over Rat) + '
              'model/implementation correspondence on random paths with exact rational lengths',
 'text': 'Proved for the model: clamping at both ends, ratio form = distance form, from_end = from_start of the '
         'reversed line, the walk lands on the segment containing the arc length and never divides by a zero '
         'length, from_start(r) = from_end(1-r) as points, Line locate inverts interpolate, densify keeps the '
         'original vertices as a sublist, inserts only lerp points with increasing parameter, piece count '
         'ceil(d/max) gives pieces no longer than max and an unchanged total. The real '
         'InterpolateLine / LineInterpolatePoint / LineLocatePoint / Densify code is run on the same inputs and '
         "compared with the exact model; the property clauses are evaluated on the implementation's outputs."}
