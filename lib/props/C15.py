"""C15 — check configuration and MANIFEST entry."""
CFG = {'scale_variants': False,   # max_segment_length / distances are not coordinates: densify at 2^40 would ask for 2^40 points
 'assumptions': ['f64 inputs cross the boundary as bit patterns and are decoded to exact rationals; Rust f64 '
                 'ops are IEEE-754; libm hypot is within 1 ulp and exact where the exact result is a binary64 value',
                 'coordinates, ratios, distances and max are finite and of moderate magnitude (no overflow / '
                 'subnormal intermediate results); max_segment_length > 0. Observed outside that range (not part of '
                 'the stream): for a Line of length 1e-170 the product diff*distance underflows and '
                 'point_at_distance_from_start(0.5*len) returns the start, v.v underflows and line_locate_point returns '
                 '0; for length 1e170 the same products overflow (NaN point, locate None)',
                 'the theorems take the segment length as a rational-valued function satisfying LenAx (non-negative, '
                 'symmetric, zero exactly between equal points) and, for piece lengths, LenLerp (homogeneous along a '
                 'segment); the Euclidean length satisfies both but is rational only on axis-aligned / Pythagorean '
                 'segments'],
 'translator': True,
 'count': {'quick': 120000, 'thorough': 5000000},
 'lean_files': ['GeoModel/Gen/InterpGen.lean', 'GeoModel/Interp.lean', 'GeoModel/Ops/C15.lean', 'GeoProofs/Lemmas/C15.lean',
                'GeoProofs/Lemmas/C15PSimple.lean', 'GeoProofs/Lemmas/C15POn.lean',
                'GeoProofs/Lemmas/C15PDensify.lean'],
 'rule': 'random Lines and LineStrings (0-6 vertices; axis-aligned / Pythagorean steps with rational lengths, '
         'grid and moderate-range float coordinates; repeated vertices, zero-length lines, back-tracking and '
         'self-touching paths) x ratios {0, 1, dyadic, negative, >1, exactly at a vertex, 1+-eps, +-1e6, -0.0, '
         'random} x distances {0, negative, length, beyond, exactly at a vertex, r*length, random}; densify on '
         'Line/LineString/MultiLineString/Polygon/MultiPolygon/Rect/Triangle with max in {segment/k exact, '
         'segment/k*(1+-eps), segment/k rounded, far below the shortest segment, above the total, random}; '
         'distinct by input text; empty / one-point inputs are tagged triv',
 'trusted_base': ['modelled, not verified: segment lengths are an abstract parameter of the model; the driver '
                  'instantiates it with the exact rational root (perfect squares) or the lower end of a '
                  '2^-80-tight rational enclosure',
                  'regime G (tags bit-exact / part-bit-exact): where every intermediate value of the f64 evaluation '
                  '(differences, hypot, running remainder, products, quotient, final sum; frac = 1/n and frac*k for '
                  'densify) is itself a binary64 value — checked per case by the driver — bit-for-bit equality with '
                  'the exact model is demanded',
                  'regime R (elsewhere): |impl - exact| <= (4n+16)*2^-53*(max|coordinate| + length)*(1+|r|+|q|) for '
                  'interpolated points (n = number of segments; the arc-length map is continuous, so rounding near a '
                  'vertex needs no skip), the same over length plus (4n+16)*2^-53 for located fractions, '
                  '16*2^-53*(max|coordinate| + longest segment) for densified points; original vertices must be '
                  'copied bit-exactly; no densified piece longer than max*(1+4*2^-53) plus that tolerance',
                  'piece-count near-ties (d/max above an integer by <= 2^-53 relative when the f64 length is exact, '
                  'within 2^-49 relative of an integer otherwise; tag ceil-near-tie) are not skipped: the '
                  "implementation's count must be one of the two admissible ceilings and its points the lerp points "
                  'k/m for that count; the locate comparison is not made where two candidate segments within '
                  'rounding distance give different fractions (tag loc-ambiguous)',
                  'the locate round trip is demanded only where the line passes through the interpolated point at a '
                  'single arc length (tag multi-preimage otherwise), which is what "simple line" means at that point']}

MANIFEST = {'note': 'Trusted: Lean 4.33 kernel (axioms propext, Classical.choice, Quot.sound only; audited per theorem '
         'each run; no sorry, no native_decide, no added axioms); the Lean compiler running the model; the '
         'Rust harness, generators and line protocol (sampling, not proof). The theorems are about the '
         'hand-written model with the segment length as an abstract rational-valued function (hypotheses LenAx: '
         'non-negative, symmetric, zero exactly between equal points; LenLerp: homogeneous along a segment — '
         'both hold for the Euclidean length, which is rational only on axis-aligned / Pythagorean segments; a '
         'taxicab instance shows the hypotheses are satisfiable). The LineString locate round trip is proved for every simple line string of positive '
         'length (SimpleLS: two segments share a point, in the sense of the Line: Intersects<Coord> kernel, only at '
         'the junction between them) and every ratio; a pointwise form covers non-simple lines where the point is '
         'at positive distance from every earlier segment; the deprecated '
         'LineString::line_interpolate_point returned None on repeated leading vertices / zero-length / '
         'single-coordinate line strings and was repaired by a fix: commit (known finding F11, fixed). f64 results '
         'are compared bit-exactly where the evaluation is provably unrounded and within a stated tolerance '
         'elsewhere; in piece-count rounding near-ties either admissible ceiling is accepted.',
 'technique': 'Lean 4 proof (induction over the segment list, arc-length uniqueness on a chain of segments, field '
              'arithmetic over Rat) + model/implementation correspondence on random paths with exact rational lengths',
 'text': 'Proved for the model, for every line string (repeated vertices, zero-length segments, empty, single '
         'coordinate) and every ratio/distance: ratio form = distance form at r*length; clamping at both ends; '
         'from_end = from_start of the reversed line; the walk stops on the segment whose cumulative interval '
         'contains the distance, with positive length (never divides by zero); the returned point is the unique '
         'point at that arc length; from_start(r) = from_end(1-r) as points for every r; Line ratio and distance '
         'forms coincide; the deprecated line_interpolate_point equals the ratio form; Line locate inverts '
         'interpolate for every r; LineString locate inverts interpolate for every simple line string of '
         'positive length and every r (locate_interpolate_ls; SimpleLS implies the pointwise hypothesis '
         'EarlierApart, including r exactly at a vertex; the hypothesis is sharp: for 0 < r <= 1 the round trip '
         'holds exactly where the point has not been passed before, otherwise locate reports the earlier, '
         'strictly smaller fraction); every interpolated point (ratio and distance forms, '
         'from start and from end, Line and LineString, every r / d) lies on the line in the sense of the '
         'Intersects<Coord> kernel; densify keeps the original vertices as a sublist and the ring ends, inserts exactly the lerp '
         'points k/n with n = ceil(d/max), none for d = 0 or d <= max, every piece has length d/n <= max with n '
         'minimal, and the total length is unchanged; the same for Polygon, MultiPolygon, MultiLineString, Rect and '
         'Triangle (rings closed as built by Polygon::new / to_polygon: the result rings are the densified '
         'rings one for one, no piece longer than max including the closing edge, every ring length and the '
         'perimeter unchanged, vertices kept in order; witness that an unclosed ring would break it). The real InterpolateLine / LineInterpolatePoint / '
         'LineLocatePoint / Densify code is run on the same inputs and compared with the exact model; the property '
         "clauses are evaluated on the implementation's outputs by an independent arc-length checker."}
