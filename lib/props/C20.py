"""C20 — check configuration and MANIFEST entry.

Label: PARTIAL. The Lean part proves what a pure model can carry (the iteration order of the two
maps in stitch.rs no longer reaches the result; the glue around the overlay engine is a pure map
of the engine's answer). Thread schedules, hash seeds and allocation addresses live in the
runtime: that half is a SWEEP over configurations (below), not a proof.
"""
import hashlib, os, subprocess, concurrent.futures

# worker-pool sizes and fresh processes the same generated inputs are re-run under
XCONFIGS = [("t1", {"RAYON_NUM_THREADS": "1"}),
            ("t2", {"RAYON_NUM_THREADS": "2"}),
            ("t16", {"RAYON_NUM_THREADS": "16"}),
            ("p2", {}),      # second fresh process with the default pool (fresh RandomState)
            ("p3", {})]
XCOUNT = {"quick": 1300, "thorough": 40000}
XSHARDS = 4


def _split(line):
    i = line.find(" => ")
    return (line, "") if i < 0 else (line[:i], line[i + 4:])


def cross_process_stream(HBIN, DBIN, workdir, seed, tier, run_stream):
    """Runs the SAME generated inputs (generator is a pure function of seed/index) in several fresh
    harness processes under RAYON_NUM_THREADS = 1, 2, 16 and twice with the default pool, compares
    the complete answers of every case across the runs, and hands one `C20.xproc` line per case to
    the Lean driver, whose checker demands that all runs agree. Returns (input, reply) pairs."""
    n = XCOUNT[tier]
    # a disjoint index range from the main stream would need another generator entry; instead the
    # same generator is used with a different seed so the inputs differ from the main stream
    xseed = seed + 1000003

    def one(cfg, shard):
        label, env = cfg
        e = dict(os.environ)
        e.pop("RAYON_NUM_THREADS", None)
        e.update(env)
        p = subprocess.run([HBIN, "gen", "C20", str(xseed), str(shard), str(XSHARDS), str(n)],
                           stdout=subprocess.PIPE, stderr=subprocess.PIPE, env=e)
        if p.returncode != 0:
            raise RuntimeError("harness failed (%s): %s" % (label, p.stderr.decode()[-300:]))
        return label, shard, p.stdout.decode().splitlines()

    runs = {}
    with concurrent.futures.ThreadPoolExecutor(max_workers=8) as ex:
        futs = [ex.submit(one, cfg, s) for cfg in XCONFIGS for s in range(XSHARDS)]
        for f in futs:
            label, shard, lines = f.result()
            runs.setdefault(label, {})[shard] = lines
    path = os.path.join(workdir, "xproc.lines")
    with open(path, "w") as out:
        for shard in range(XSHARDS):
            cols = [(label, runs[label][shard]) for label, _ in XCONFIGS]
            m = len(cols[0][1])
            for label, lines in cols:
                if len(lines) != m:
                    raise RuntimeError("run %s produced %d lines, expected %d" % (label, len(lines), m))
            for i in range(m):
                inp0 = _split(cols[0][1][i])[0]
                toks = []
                for label, lines in cols:
                    inp, res = _split(lines[i])
                    if inp != inp0:
                        raise RuntimeError("generator is not a function of (seed, index): run %s line %d" % (label, i))
                    toks.append(label + " " + hashlib.blake2b(res.encode(), digest_size=8).hexdigest())
                out.write("C20.xproc %s => %s\n" % (inp0, " ".join(toks)))
    return run_stream("xproc", ["cat", path], workdir)


CFG = {'scale_variants': False,
 'assumptions': ['f64 values cross the boundary as bit patterns; digests are FNV-1a/64 over the exact bit patterns, '
                       'lengths and member order of a result, so two results with equal digests are taken to be identical '
                       '(64-bit collision risk accepted)',
                       'std::collections::BTreeMap iterates in ascending key order whatever its insertion history; '
                       'std::collections::HashMap iterates in an order that may differ between maps with equal contents '
                       '(modelled as an arbitrary permutation parameter)',
                       'Polygon::contains(LineString|Polygon) is relate-backed; in the model it is a parameter, instantiated '
                       'in the driver by the DE-9IM specification (tied to relate by C01); rings that are not simple are '
                       'SKIPped only when the specification and relate disagree on them',
                       'NaN coordinates excluded (bit patterns of NaN results are still compared)'],
       'count': {'quick': 3000, 'thorough': 120000},
       'extra_streams': [cross_process_stream],
       'lean_files': ['GeoModel/Stitch.lean', 'GeoModel/DetGlue.lean', 'GeoModel/Ops/C20.lean'],
       'rule': 'PARTIAL: configurations are swept, not proved. Main stream: every case is evaluated twice in one process; '
               '35% stitch_triangulation of scrambled earcut triangles of separate squares / nested donuts / islands in '
               'holes / polyominoes (full outputs compared with each other and with the Lean model), the rest digests of '
               'BooleanOps::{intersection,union,difference,xor}, unary_union, clip, stitch with up to 60 rings, '
               'earcut/unconstrained/constrained(-outer) Delaunay triangulation, triangulate-then-stitch, concave_hull, '
               'k_nearest_concave_hull, outliers, convex_hull, simplify/simplify_vw/simplify_vw_preserve, relate, and the geo-types '
               'rayon iterators (par_iter / par_iter_mut / into_par_iter on MultiPolygon, MultiLineString, MultiPoint with up to '
               '3000 members, compared with the sequential map); 1 case in '
               '41 is large (>8000 segments: i_overlay fragment splitter on the rayon pool); inputs above 32768 segments are not '
               'generated (the engine runs away in memory on them). One stitch case in 7 violates the documented precondition '
               '(duplicate, missing, overlapping or degenerate triangle). Cross-process stream (C20.xproc): the same inputs in 5 fresh processes with '
               'RAYON_NUM_THREADS=1,2,16 and default x2; all answers must be identical. A case is distinct by its input text.',
       'trusted_base': ['NOT PROVED (sampled only): rayon scheduling inside i_overlay, hash seeds of fresh processes, '
                        'allocation addresses; spade / earcutr / rstar internals',
                        'the geo-types rayon iterators (par_iter on Multi*) are not called by any geo algorithm; they delegate to '
                        "rayon's slice/Vec iterators and are exercised through the harness only (harness/Cargo.toml.in gained a "
                        'rayon dependency for that)']}

MANIFEST = {'note': 'PARTIAL. Trusted: Lean 4.33 kernel (axioms propext, Classical.choice, Quot.sound only; audited per theorem '
                    'each run; no sorry, no native_decide, no added axioms); the Lean compiler running the model; the Rust '
                    'harness, generators, digests and line protocol (sampling, not proof). What is proved concerns the '
                    'hand-written model of stitch.rs and of the bool-ops glue. Thread interleavings, RandomState seeds and '
                    'allocator behaviour cannot be exhibited by a pure model: they are covered by a sweep (twice in-process; '
                    'fresh processes; RAYON_NUM_THREADS 1/2/16), which is sampling. Defect F9 (stitch order depended on '
                    'HashMap iteration) was reproduced through the harness and repaired (BTreeMap).',
            'technique': 'Lean 4 proof (order-independence of the stitch bookkeeping; purity of the engine glue) + '
                         'model/implementation correspondence for stitch_triangulation + configuration sweep (in-process '
                         'repetition, fresh processes, thread-pool sizes) with exact digests',
            'text': 'PARTIAL. Proved in Lean for the model (GeoModel/Stitch.lean mirrors stitch.rs line by line; the two maps of '
                    'stitch_multipolygon_from_lines carry their iteration orders as explicit parameters it1, it2; the '
                    'relate-backed contains tests are parameters): (1) assemble_order_dep_witness, '
                    'assemble_children_order_dep_witness, buildIdxs_keys_order_witness: with hash-map iteration (any '
                    'permutation) the order of the output polygons and of the interiors of a polygon depends on the iteration '
                    'order - the pinned-tree defect F9 (reproduced through the harness: twelve separate squares stitched twice '
                    'in one process give different polygon orders; repaired by a fix: commit replacing both HashMaps by BTreeMaps). '
                    '(2) assemble_ordered_iteration_unique, assemble_ordered_eq_fixed, stitchTriangles_eq_hash_ordered, '
                    'orderedIter_unique, sortKeys_ordered: with maps that iterate in ascending key order (BTreeMap) the result is '
                    'the same for every such map, whatever its layout or insertion history: nothing but the input reaches the '
                    'result. (3) polygons_idxs_spec: for every visiting order, ring k becomes a polygon iff some ring names it (an '
                    'even ring itself, an odd ring its direct parent = the last parent with the most parents) and its interiors are '
                    'the odd rings naming it in visiting order; assemble_hash_perm, findAndFixHoles_equiv, '
                    'stitchTrianglesHash_perm: under arbitrary iteration orders the pinned code fails exactly when the fixed code '
                    'does and otherwise returns the fixed result up to the order of the polygons and of each polygon\'s interiors '
                    '(the repair changes order only). (4) purity of the engine glue (GeoModel/DetGlue.lean; engines are relations '
                    '"may answer", because schedules are not modelled): multiPolygonFromShapes_length/_getElem?/_reverse, '
                    'multiLineStringFromPaths_eq, trianglesOfFaces_getElem?, trianglesOfIndices_length, constrainedOfOuter_sublist: '
                    'results are maps / sub-sequences of the engine answer in the engine order; boolOp_functional, clip_functional, '
                    'unaryUnion_functional, earcut_functional: if the engine answer is determined by its input then so are '
                    'boolean_op, clip, unary_union, earcut_triangles. NOT PROVED and not provable with a pure model: that i_overlay '
                    '(rayon pool), spade, earcutr, rstar answer identically under every schedule, process and pool size. That half '
                    'is a configuration SWEEP (sampling): each case twice in-process; the same inputs in 5 fresh processes with '
                    'RAYON_NUM_THREADS=1,2,16 and default; outputs compared as exact bit patterns with member order (stitch: full '
                    'output, also against the Lean model; others: FNV-1a digests), including inputs of 9-10 thousand segments on '
                    'which the parallel fragment splitter of i_overlay runs. Inputs above 32768 segments (parallel sort) are not '
                    'swept: i_overlay 2.0.5 runs away in memory on most of them, identically for every pool size.'}
