"""C01 — check configuration and MANIFEST entry."""
CFG = {
    "translator": True,
    "count": {"quick": 64000, "thorough": 3000000},
    "lean_files": ["GeoModel/RelateSpec.lean", "GeoModel/Valid.lean", "GeoModel/Locate.lean", "GeoModel/Segment.lean",
                   "GeoModel/LineIntersection.lean", "GeoModel/Ops/C01.lean",
                   "GeoProofs/Lemmas/RelateSpecLemmas.lean", "GeoProofs/Lemmas/RelateSpecLocate.lean",
                   "GeoProofs/Lemmas/RelateSpecBBox.lean", "GeoProofs/Lemmas/RelateSpecSwap.lean",
                   "GeoProofs/Lemmas/RelateSpecDisjoint.lean", "GeoProofs/Lemmas/RelateSpecRewrite.lean",
                   "GeoProofs/Lemmas/RelateSpecReverse.lean", "GeoProofs/Lemmas/C01QAtoms.lean",
                   "GeoProofs/Lemmas/C01QDisjoint.lean", "GeoProofs/Lemmas/C01QTypes.lean",
                   "GeoProofs/Lemmas/C01QAreal.lean", "GeoProofs/Lemmas/C01QPoint.lean",
                   "GeoProofs/Lemmas/C01QTriangle.lean", "GeoProofs/Lemmas/C01QLine.lean",
                   "GeoModel/TRANPrelude.lean", "GeoModel/Gen/DimsGen.lean", "GeoProofs/Lemmas/TRANDims.lean"],
    "rule": "ordered pairs (A, B) over all 10 geometry types (Geometry enum on both sides) drawn from one shared 3..6 grid: polyomino polygons with "
            "holes (incl. holes tangent to the shell), star polygons, rectangles with holes, corner-touching multipolygons, self-avoiding lattice "
            "paths, multi line strings sharing end points (mod-2 rule), half-grid points, same-dimension collections; each case also relates the "
            "operands in the other order and a second representation A' of A (ring start/direction, Rect/Triangle as Polygon, Line as LineString, "
            "singleton Multi*/collection, member order). Operands outside the domain (invalid by the exact Lean validity spec) are SKIPped and counted. "
            "distinct by input text; cases with disjoint or empty bounding boxes are tagged triv and not counted.",
    "trusted_base": [
        "translator/rs2lean.py + rsexpr.py (statement fragment): regenerates the HasDimensions impl bodies (Line, LineString, Polygon, Rect, Triangle, "
        "MultiLineString::dimensions, MultiPolygon::dimensions) and LineString::is_closed from the Rust source on every run; explicit choices: Vec = List, "
        "list-backed iterators (next = head, find = dropWhile of the negated predicate), unreachable!() arms = Empty (dead code; panics are seen by the harness)",
        "spec adequacy (S1): the arrangement atoms (vertices, elementary-edge midpoints, two infinitesimally displaced face samples per edge) meet "
        "every cell of the arrangement of A ∪ B — not proved; the spec is an independent definition (own winding computation, symbolic infinitesimals)",
        "spec adequacy (S2): for a valid ring, non-zero winding number ⇔ topological interior (Jordan)",
        "interior connectedness of polygons is not part of the executable validity predicate",
    ],
    "assumptions": ["valid operands in the OGC sense, decided exactly by GeoModel/Valid.lean; grid coordinates (exact in f64)"],
}

MANIFEST = {
    "technique": "Lean 4 executable DE-9IM specification with proved matrix algebra + implementation-vs-specification correspondence on grid geometry pairs",
    "text": "relate() is compared, cell for cell, with an executable specification of DE-9IM written in Lean (exact point location with the mod-2 rule, "
            "arrangement atoms with symbolic infinitesimal face samples) that shares no code or algorithm with geo's topology-graph implementation; the same "
            "run demands the transposed matrix for swapped operands and the same matrix for a second representation of the same point set. Proved for all "
            "inputs about the specification itself: (1) the matrix is the cell-wise maximum over the arrangement atoms, independent of their order and "
            "repetition (fold_get, fold_perm, fold_subset_congr, relateParts_eq_fold) and transposed by exchanging the atom positions (fold_swap); "
            "(2) transposition: relateSpec b a = (relateSpec a b)^T for all geometries (relateSpec_transpose / relateParts_transpose, via symmetry of the "
            "intersection vertices, order-independence of the sorted vertices on a segment, and (1)); (3) point location is independent of how the point "
            "set is written: segment direction (lineCoord_symm, onAnySeg_congr), ring direction and start vertex (windingE_reverse, windingE_rotate, "
            "windingE_perm, ringEquiv_*, polyEquiv_*, insidePolyE_congr), hence locateParts / locateFace / locate under re-written rings and curves, "
            "permuted members, holes and points (locateParts_congr, locateParts_perm, locateFace_congr, locateFace_perm, locate_polygon_congr, "
            "locate_multiPolygon_member/_perm, locate_lineString_reverse/_rotate, locate_multiLineString_member/_perm, locate_multiPoint_perm), and "
            "Rect/Triangle as Polygon, Line as LineString, singleton Multi*/collection as the member at the level of parts, hence for the whole matrix "
            "(parts_*, locate_rect/_triangle/_line/_collection_single, relateSpec_congr); (4) boundary semantics: mod-2 rule for linear parts "
            "(locateParts_linear_boundary/_inside/_outside), areal boundary = ring points not strictly inside a member (locateParts_areal_boundary, "
            "_conv), points interior-only (locateParts_points_inside/_not_boundary); (5) disjoint-envelope lemma: a point, or perturbed face sample, "
            "strictly outside the coordinate bounding box on any of the four sides is located outside (locate_outside_bbox, locateFace_outside_bbox; the "
            "left side uses that a closed ring crosses a horizontal line upward as often as downward), and in matrix form: for operands whose "
            "coordinate bounding boxes are strictly separated along an axis every arrangement atom is exterior to one operand, so II, IB, BI, BB are F — the "
            "shape FF*FF**** that compute_disjoint emits (atom_outside_of_sep, relateParts_sep, computeDisjoint_shape); matrix algebra (transpose involution, "
            "set_at_least/transposition commutation, symmetry of the disjoint-envelope shortcut). (6) the whole matrix, in either operand position, is invariant under re-writing an operand as the same point set: closed ring / "
            "closed curve started at another vertex, ring / curve / line direction reversed, holes / members / points in another order (relateParts_same, "
            "relateSpec_same_parts, partsSame_members, relateSpec_polygon_same/_ext_reverse/_hole_reverse/_ext_rotate/_hole_rotate/_holes_perm, "
            "relateSpec_multiPolygon_member/_perm, relateSpec_lineString_reverse/_rotate, relateSpec_line_swap, relateSpec_multiLineString_member/_perm, "
            "relateSpec_multiPoint_perm, relateSpec_collection_perm, locate_collection_perm, relateParts_congr; via: intersection vertices independent of segment directions and of the order / multiplicity of "
            "the segments (segVertex_swap_left, segVertex_self, mem_pairVertices_iff), atoms of a segment independent of its direction "
            "(mem_segAtoms_swap)). (7) disjoint-envelope shortcut, full equality: the vertices on a segment are sorted, so the midpoint of an "
            "elementary sub-segment is never an arrangement vertex and every atom is a vertex atom or sits at a non-vertex point of a non-degenerate "
            "segment (mem_atomsOf_cases, exists_atoms_of_seg); for separated operands the cell (X, Exterior) is the largest dimension of an atom located X "
            "(cell_of_rowMax) and the whole matrix equals compute_disjoint of the row maxima (relateParts_disjoint_eq); HasDimensions = row maxima "
            "(Spec.DimsSpec) is proved per type: dimsSpec_point, dimsSpec_multiPoint, dimsSpec_line (degenerate included), dimsSpec_lineString (open / "
            "closed / constant; any length except one coordinate), dimsSpec_multiLineString (boundary by the mod-2 rule across members: count_mlsEnds ties "
            "the fixed boundary_dimensions to the specification's end point count), dimsSpec_rect (positive width and height; interior face sample "
            "computed, rect_interior_sample), dimsSpec_triangle (non-collinear; winding number of the face sample beside the first edge is +-1 in every "
            "position, triangle_interior_sample), dimsSpec_polygon_partial / dimsSpec_multiPolygon_partial (given an interior face sample, "
            "Spec.HasInteriorSample: S2-type fact, hypothesis); hence relateSpec a b = computeDisjoint (dims a) (boundaryDims a) (dims b) (boundaryDims b) "
            "for separated operands of these types (relateSpec_disjoint_eq_partial, relateSpec_sep_row, relateSpec_sep_col); excluded classes with witnesses: "
            "one-coordinate LineString, degenerate Rect, collinear Triangle (dimsSpec_*_witness: HasDimensions and the specification disagree there); "
            "collections are not covered (boundary_dimensions of a collection is the maximum over members, the specification applies the mod-2 rule across "
            "members). (8) spec adequacy S1, restricted forms proved against the point-set definition: rows / columns Interior and Boundary of a Point "
            "against any geometry, cell by cell (relateSpec_point_row, relateSpec_point_col), full matrices Point x Point, Line x Point, Point x Line "
            "(relateSpec_point_point, relateSpec_line_point, relateSpec_point_line); two segments: II != F iff the open segments share a point, II = 1 iff "
            "the segments share more than one point (relateSpec_line_line_ii, relateSpec_line_line_ii_one, via li_single_exact / li_collinear_exact and "
            "exists_atom_between: between two vertices on a segment lies an elementary sub-segment midpoint). Not proved: DimsSpec for polygons without the "
            "interior-sample hypothesis and for collections; cell_complete beyond the forms in (8). The adequacy of the "
            "specification w.r.t. point-set topology in general remains an explicit assumption (S1, S2), not a theorem. "
            "Translator tie (TRAN): hasDimensions_eq_source — the dims / boundaryDims / isEmptyG clauses of Line, LineString, Polygon, Rect, Triangle, "
            "MultiPoint, MultiLineString (dimensions, is_empty), MultiPolygon, GeometryCollection (dimensions and boundary_dimensions, the recursive calls being dims / boundaryDims) and "
            "isClosedLS equal the terms regenerated from dimensions.rs / geo-types on this run (MultiLineString::boundary_dimensions — an iterator chain "
            "with sort_by / chunk_by — and GeometryCollection::is_empty stay hand-written).",
    "note": "Trusted: Lean kernel + audited axioms; the harness/generators (sampling); spec adequacy S1/S2. Defects found by this check and repaired in /repo: "
            "Triangle vertical edge (29720670), MultiPolygon shared vertex (5f41a6da), MultiLineString boundary_dimensions mod-2 (17c66966).",
}
