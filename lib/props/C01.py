"""C01 — check configuration and MANIFEST entry."""
CFG = {'long_max_vertices': 150,   # the exact oracle is quadratic in the vertex count
 
    "translator": True,
    "count": {"quick": 64000, "thorough": 3000000},
    "lean_files": ["GeoModel/RelateSpec.lean", "GeoModel/Valid.lean", "GeoModel/Locate.lean", "GeoModel/Segment.lean",
                   "GeoModel/LineIntersection.lean", "GeoModel/Ops/C01.lean",
                   "GeoProofs/Lemmas/RelateSpecLemmas.lean", "GeoProofs/Lemmas/RelateSpecLocate.lean",
                   "GeoProofs/Lemmas/RelateSpecBBox.lean", "GeoProofs/Lemmas/RelateSpecSwap.lean",
                   "GeoProofs/Lemmas/RelateSpecDisjoint.lean", "GeoProofs/Lemmas/RelateSpecRewrite.lean",
                   "GeoProofs/Lemmas/RelateSpecReverse.lean", "GeoProofs/Lemmas/C01QAtoms.lean",
                   "GeoProofs/Lemmas/C01QDisjoint.lean", "GeoProofs/Lemmas/C01QTypes.lean",
                   "GeoProofs/Lemmas/C01QAreal.lean", "GeoProofs/Lemmas/C01QPoint.lean",
                   "GeoProofs/Lemmas/C01QTriangle.lean", "GeoProofs/Lemmas/C01QLine.lean",
                   "GeoModel/TRANPrelude.lean", "GeoModel/Gen/DimsGen.lean", "GeoProofs/Lemmas/TRANDims.lean",
                   "GeoModel/GeomGraph.lean", "GeoModel/RelateImpl.lean", "GeoModel/RelateImplNodes.lean",
                   "GeoModel/RelateImplTop.lean", "GeoModel/F64.lean",
                   "GeoProofs/Lemmas/RELMMono.lean", "GeoProofs/Lemmas/RELMDisjoint.lean", "GeoProofs/Lemmas/RELMSwap.lean",
                   "GeoProofs/Lemmas/RELMAtoms.lean", "GeoProofs/Lemmas/RELMNodes.lean", "GeoProofs/Lemmas/RELMPoint.lean",
                   "GeoProofs/Lemmas/RELMPoint2.lean", "GeoProofs/Lemmas/RELMPoint3.lean", "GeoProofs/Lemmas/RELMPoint4.lean",
                   "GeoProofs/Lemmas/RELMPointPoint.lean", "GeoProofs/Lemmas/RELMMultiPoint.lean",
                   "GeoProofs/Lemmas/RELMOrder1.lean", "GeoProofs/Lemmas/RELMOrder2.lean", "GeoProofs/Lemmas/RELMOrder3.lean",
                   "GeoProofs/Lemmas/RELMOrder4.lean", "GeoProofs/Lemmas/RELMOrder5.lean",
                   "GeoProofs/Lemmas/RELMDir.lean", "GeoProofs/Lemmas/RELMStar.lean", "GeoProofs/Lemmas/RELMSym1.lean",
                   "GeoProofs/Lemmas/RELMSym2.lean", "GeoProofs/Lemmas/RELMSym3.lean", "GeoProofs/Lemmas/RELMSym4.lean",
                   "GeoProofs/Lemmas/RELMSym5.lean", "GeoProofs/Lemmas/RELMSym6.lean",
                   "GeoProofs/Lemmas/RELMEnds.lean", "GeoProofs/Lemmas/RELMEnds2.lean",
                   "GeoProofs/Lemmas/RELMTotal1.lean", "GeoProofs/Lemmas/RELMTotal2.lean", "GeoProofs/Lemmas/RELMTotal3.lean",
                   "GeoProofs/Lemmas/RELMTotal4.lean", "GeoProofs/Lemmas/RELMTotal5.lean",
                   "GeoProofs/Lemmas/RELM2Node.lean", "GeoProofs/Lemmas/RELM2Areal.lean", "GeoProofs/Lemmas/RELM2Locate.lean",
                   "GeoProofs/Lemmas/RELM2Linear.lean", "GeoProofs/Lemmas/RELM2Dom.lean", "GeoProofs/Lemmas/RELM2Disjoint.lean", "GeoProofs/Lemmas/RELM2Ring.lean",
                   "GeoProofs/Lemmas/RELM3Simple.lean", "GeoProofs/Lemmas/RELM3LineString.lean", "GeoProofs/Lemmas/RELM3Nodes.lean",
                   "GeoProofs/Lemmas/RELM3Multi.lean", "GeoProofs/Lemmas/RELM3Dom.lean", "GeoProofs/Lemmas/RELM3Coll.lean",
                   "GeoProofs/Lemmas/RELM3Areal.lean", "GeoProofs/Lemmas/RELM3Star.lean", "GeoProofs/Lemmas/RELM3ExtNodes.lean",
                   "GeoProofs/Lemmas/RELM3Ext.lean", "GeoProofs/Lemmas/RELM3ExtSpec.lean", "GeoProofs/Lemmas/RELM3Full.lean",
                   "GeoProofs/Lemmas/RELM3ArealExt.lean", "GeoProofs/Lemmas/RELM3ArealFull.lean", "GeoProofs/Lemmas/RELM3Poly.lean",
                   "GeoProofs/Lemmas/RELM3MPoly.lean", "GeoProofs/Lemmas/RELM3PointMP.lean", "GeoProofs/Lemmas/RELM3LineLine.lean"],
    "rule": "ordered pairs (A, B) over all 10 geometry types (Geometry enum on both sides) drawn from one shared 3..6 grid: polyomino polygons with "
            "holes (incl. holes tangent to the shell), star polygons, rectangles with holes, corner-touching multipolygons, self-avoiding lattice "
            "paths, multi line strings sharing end points (mod-2 rule), half-grid points, same-dimension collections; each case also relates the "
            "operands in the other order and a second representation A' of A (ring start/direction, Rect/Triangle as Polygon, Line as LineString, "
            "singleton Multi*/collection, member order). Operands outside the domain (invalid by the exact Lean validity spec) are SKIPped and counted. "
            "distinct by input text; cases with disjoint or empty bounding boxes are tagged triv and not counted. "
            "Every fourth case of the stream is C01.impl <A> <B>: the executable Lean model of the *implementation* (RelateImpl*.lean) against the real "
            "relate, half with the generators above, half with operands outside the validity domain (self-crossing / back-tracking / collapsed line work, "
            "random closed rings, degenerate and empty rings, overlapping members of every dimension in nested collections, zero-length Lines, wild floats "
            "incl. subnormals); AGREE iff the model's matrix (or panic) is the implementation's, prop= is the specification's verdict inside the domain and "
            "PASS outside. The harness reports the points line_intersection returned for the proper crossings relate can meet (within each operand, between "
            "the operands); the model is run with these points and emulated binary64 subtraction, and in exact arithmetic (tag rounded-crossing-changes-matrix "
            "when the two differ). SKIP near-tie:intersection-key-collision: two different points of one segment got the same (segment, rounded distance) key, "
            "so the R-tree's visiting order decides which one an edge keeps. SKIP underflow-range:orientation-inexact: a coordinate below 2^-400 and the model "
            "(exact orientation) disagrees with the code (robust::orient2d is not exact there, K10); about 1 in 200 000. Shared shapes added in rounds 9-10: polygons with pairwise disjoint holes whose boxes overlap, multipolygons with an island in another member's lake.",
    "trusted_base": [
        "translator/rs2lean.py + rsexpr.py (statement fragment): regenerates the HasDimensions impl bodies (Line, LineString, Polygon, Rect, Triangle, "
        "MultiLineString::dimensions, MultiPolygon::dimensions) and LineString::is_closed from the Rust source on every run; explicit choices: Vec = List, "
        "list-backed iterators (next = head, find = dropWhile of the negated predicate), unreachable!() arms = Empty (dead code; panics are seen by the harness)",
        "spec adequacy (S1): the arrangement atoms (vertices, elementary-edge midpoints, two infinitesimally displaced face samples per edge) meet "
        "every cell of the arrangement of A ∪ B — not proved; the spec is an independent definition (own winding computation, symbolic infinitesimals)",
        "spec adequacy (S2): for a valid ring, non-zero winding number ⇔ topological interior (Jordan) — individual consequences are theorems "
        "(a valid polygon has an interior face sample in every arrangement: polygon_interior_sample_valid)",
        "interior connectedness of polygons is not part of the executable validity predicate",
        "model of the implementation (RelateImpl*.lean, GeomGraph.lean): hand-written from relate_operation.rs, edge_end_builder.rs, geomgraph/*.rs, "
        "geomgraph/index/*.rs; checked against the real code on every run (C01.impl), not generated from it. It tests all segment pairs where the code asks "
        "an R-tree for the pairs with intersecting envelopes: proved equivalent in exact arithmetic for any candidate list that contains every pair with "
        "intersecting envelopes, in any order and with repetitions (selfNoding_order_independent, mutualPhase_order_independent); that rstar reports all such "
        "pairs is an assumption about the external crate; BTreeMap/BTreeSet are sorted association lists with the map's own linear key scan (faithful for "
        "consistent comparators; with a zero-length Line up to 11 directions per node); robust orientation is exact; debug_asserts are not modelled",
        "relate's float arithmetic enters the model as a parameter (crossing point of a proper intersection, coordinate subtraction): the theorems hold for "
        "every instance, relateImpl is the exact instance, the correspondence uses the points the code computed (C11 bounds their error)",
    ],
    "assumptions": ["valid operands in the OGC sense, decided exactly by GeoModel/Valid.lean; grid coordinates (exact in f64)"],
}

MANIFEST = {
    "technique": "Lean 4 executable DE-9IM specification with proved matrix algebra + executable Lean model of the topology-graph implementation with proved structural laws + implementation-vs-specification and implementation-vs-model correspondence on grid geometry pairs",
    "text": "relate() is compared, cell for cell, with an executable specification of DE-9IM written in Lean (exact point location with the mod-2 rule, "
            "arrangement atoms with symbolic infinitesimal face samples) that shares no code or algorithm with geo's topology-graph implementation; the same "
            "run demands the transposed matrix for swapped operands and the same matrix for a second representation of the same point set. Proved for all "
            "inputs about the specification itself: (1) the matrix is the cell-wise maximum over the arrangement atoms, independent of their order and "
            "repetition (fold_get, fold_perm, fold_subset_congr, relateParts_eq_fold) and transposed by exchanging the atom positions (fold_swap); "
            "(2) transposition: relateSpec b a = (relateSpec a b)^T for all geometries (relateSpec_transpose / relateParts_transpose, via symmetry of the "
            "intersection vertices, order-independence of the sorted vertices on a segment, and (1)); (3) point location is independent of how the point "
            "set is written: segment direction (lineCoord_symm, onAnySeg_congr), ring direction and start vertex (windingE_reverse, windingE_rotate, "
            "windingE_perm, ringEquiv_*, polyEquiv_*, insidePolyE_congr), hence locateParts / locateFace / locate under re-written rings and curves, "
            "permuted members, holes and points (locateParts_congr, locateParts_perm, locateFace_congr, locateFace_perm, locate_polygon_congr, "
            "locate_multiPolygon_member/_perm, locate_lineString_reverse/_rotate, locate_multiLineString_member/_perm, locate_multiPoint_perm), and "
            "Rect/Triangle as Polygon, Line as LineString, singleton Multi*/collection as the member at the level of parts, hence for the whole matrix "
            "(parts_*, locate_rect/_triangle/_line/_collection_single, relateSpec_congr); (4) boundary semantics: mod-2 rule for linear parts "
            "(locateParts_linear_boundary/_inside/_outside), areal boundary = ring points not strictly inside a member (locateParts_areal_boundary, "
            "_conv), points interior-only (locateParts_points_inside/_not_boundary); (5) disjoint-envelope lemma: a point, or perturbed face sample, "
            "strictly outside the coordinate bounding box on any of the four sides is located outside (locate_outside_bbox, locateFace_outside_bbox; the "
            "left side uses that a closed ring crosses a horizontal line upward as often as downward), and in matrix form: for operands whose "
            "coordinate bounding boxes are strictly separated along an axis every arrangement atom is exterior to one operand, so II, IB, BI, BB are F — the "
            "shape FF*FF**** that compute_disjoint emits (atom_outside_of_sep, relateParts_sep, computeDisjoint_shape); matrix algebra (transpose involution, "
            "set_at_least/transposition commutation, symmetry of the disjoint-envelope shortcut). (6) the whole matrix, in either operand position, is invariant under re-writing an operand as the same point set: closed ring / "
            "closed curve started at another vertex, ring / curve / line direction reversed, holes / members / points in another order (relateParts_same, "
            "relateSpec_same_parts, partsSame_members, relateSpec_polygon_same/_ext_reverse/_hole_reverse/_ext_rotate/_hole_rotate/_holes_perm, "
            "relateSpec_multiPolygon_member/_perm, relateSpec_lineString_reverse/_rotate, relateSpec_line_swap, relateSpec_multiLineString_member/_perm, "
            "relateSpec_multiPoint_perm, relateSpec_collection_perm, locate_collection_perm, relateParts_congr; via: intersection vertices independent of segment directions and of the order / multiplicity of "
            "the segments (segVertex_swap_left, segVertex_self, mem_pairVertices_iff), atoms of a segment independent of its direction "
            "(mem_segAtoms_swap)). (7) disjoint-envelope shortcut, full equality: the vertices on a segment are sorted, so the midpoint of an "
            "elementary sub-segment is never an arrangement vertex and every atom is a vertex atom or sits at a non-vertex point of a non-degenerate "
            "segment (mem_atomsOf_cases, exists_atoms_of_seg); for separated operands the cell (X, Exterior) is the largest dimension of an atom located X "
            "(cell_of_rowMax) and the whole matrix equals compute_disjoint of the row maxima (relateParts_disjoint_eq); HasDimensions = row maxima "
            "(Spec.DimsSpec) is proved per type: dimsSpec_point, dimsSpec_multiPoint, dimsSpec_line (degenerate included), dimsSpec_lineString (open / "
            "closed / constant; any length except one coordinate), dimsSpec_multiLineString (boundary by the mod-2 rule across members: count_mlsEnds ties "
            "the fixed boundary_dimensions to the specification's end point count), dimsSpec_rect (positive width and height; interior face sample "
            "computed, rect_interior_sample), dimsSpec_triangle (non-collinear; winding number of the face sample beside the first edge is +-1 in every "
            "position, triangle_interior_sample), dimsSpec_polygon_partial / dimsSpec_multiPolygon_partial (given an interior face sample, "
            "Spec.HasInteriorSample: S2-type fact, hypothesis); hence relateSpec a b = computeDisjoint (dims a) (boundaryDims a) (dims b) (boundaryDims b) "
            "for separated operands of these types (relateSpec_disjoint_eq_partial, relateSpec_sep_row, relateSpec_sep_col); excluded classes with witnesses: "
            "one-coordinate LineString, degenerate Rect, collinear Triangle (dimsSpec_*_witness: HasDimensions and the specification disagree there); "
            "collections are not covered (boundary_dimensions of a collection is the maximum over members, the specification applies the mod-2 rule across "
            "members). (8) spec adequacy S1, restricted forms proved against the point-set definition: rows / columns Interior and Boundary of a Point "
            "against any geometry, cell by cell (relateSpec_point_row, relateSpec_point_col), full matrices Point x Point, Line x Point, Point x Line "
            "(relateSpec_point_point, relateSpec_line_point, relateSpec_point_line); two segments: II != F iff the open segments share a point, II = 1 iff "
            "the segments share more than one point (relateSpec_line_line_ii, relateSpec_line_line_ii_one, via li_single_exact / li_collinear_exact and "
            "exists_atom_between: between two vertices on a segment lies an elementary sub-segment midpoint). Not proved: DimsSpec for polygons without the "
            "interior-sample hypothesis and for collections; cell_complete beyond the forms in (8). The adequacy of the "
            "specification w.r.t. point-set topology in general remains an explicit assumption (S1, S2), not a theorem. "
            "Translator tie (TRAN): hasDimensions_eq_source — the dims / boundaryDims / isEmptyG clauses of Line, LineString, Polygon, Rect, Triangle, "
            "MultiPoint, MultiLineString (dimensions, is_empty), MultiPolygon, GeometryCollection (dimensions and boundary_dimensions, the recursive calls being dims / boundaryDims) and "
            "isClosedLS equal the terms regenerated from dimensions.rs / geo-types on this run (MultiLineString::boundary_dimensions — an iterator chain "
            "with sort_by / chunk_by — and GeometryCollection::is_empty stay hand-written). "
            "(9) the implementation itself: relateImpl (GeoModel/RelateImpl.lean, RelateImplNodes.lean, RelateImplTop.lean, on top of the C17 graph "
            "construction GeomGraph.lean) mirrors RelateOperation::compute_intersection_matrix statement by statement — envelope test and compute_disjoint, "
            "GeometryGraph::new for both operands, compute_self_nodes (is_rings by geometry type, SegmentIntersector incl. is_trivial_intersection as "
            "written, Edge::add_intersection with segment-index normalisation and compute_edge_distance, add_self_intersection_nodes), "
            "compute_edge_intersections (isolated flags, proper / proper-interior flags against the boundary nodes), compute_intersection_nodes (mod-2 "
            "toggling), copy_nodes_and_labels, label_isolated_nodes / _edges through coordinate_position (GeoModel/Locate.lean), "
            "compute_proper_intersection_im, EdgeEndBuilder (prev/next stubs), EdgeEnd ordering (quadrant, then orientation), EdgeEndBundle::into_labeled "
            "(compute_label_on / _side), EdgeEndBundleStar (propagate_side_labels, the dimensional-collapse flag as the loop leaves it, fill from "
            "coordinate_position), update_intersection_matrix; panics of the code are none. Checked against the real relate on every run (C01.impl: valid "
            "and invalid operands, zero DIFF). Proved about it, for all inputs and every float-arithmetic instance unless said otherwise: matrix cells only "
            "ever increase and EE = 2 (impl_*_monotone, relateImpl_ge_proper, relateImplWith_ee, relateImpl_ee); the result is the cell-wise maximum over "
            "the contributions of the proper-intersection shortcut, isolated edges, nodes and edge-end bundles — the same fold as the specification's "
            "(relateImpl_eq_fold, relateImpl_cell); the disjoint-envelope shortcut (relateImpl_disjoint_shortcut) is sound: = relateSpec for operands whose "
            "coordinates lie in their reported rectangles, proved for every type without hole coordinates, empty operands included "
            "(relateImpl_disjoint_eq_spec_partial, _noInteriors; inherits DimsSpec); label-swap invariance: the graph a prepared geometry hands out "
            "(clone_for_arg_index of the cache self-noded for index 0) is the freshly built and self-noded graph in either operand position, hence prepared "
            "path = plain path (preparedGraph_eq_fresh, relatePrepared_eq_plain, selfNoding_keeps_labels; on C17's swap_buildGraph / swap_selfNodes); "
            "Point x Point and MultiPoint x MultiPoint (all coordinate lists): relateImpl = relateSpec (relateImpl_point_point, "
            "relateImpl_multiPoint_multiPoint); Point x any geometry B, valid or not: row Boundary is F and row Interior has a single 0 in the column of the "
            "position the node map records for the point, which is B.coordinate_position(p) whenever p is not a node of B's graph, hence the rows of the "
            "specification wherever coordinate_position = locate (relateImpl_point_rows, _isolated, relateImpl_point_rows_eq_spec_partial; via the sorted node "
            "map, slot independence of the label operations and 'every component of B ends up Outside of a point'); the transpose law of the implementation: relateImpl b a = "
            "(relateImpl a b)^T, panic for panic, in exact arithmetic, for ALL operands, valid or not, without a zero-length Line (relateImpl_transpose, "
            "relateImpl_transpose_total; from relateImpl_transpose_partial, whose hypothesis 'every edge end has non-zero length' is discharged by: edges built by "
            "GeometryGraph::new have no two equal consecutive coordinates, self-noding and the mutual phase keep sorted lists of valid records on them, so "
            "EdgeEndBuilder's stubs never have length zero) and, through it, the columns of relate(A, Point) from the rows of relate(Point, A) "
            "(relateImpl_point_cols_partial) — via: compare_direction is a strict "
            "weak order on the edge ends of a node (quadrant, then sign of the cross product; transitivity inside a quadrant by the sine addition identity: "
            "impl_compareDirection_spec, impl_direction_order_transitive), hence the star of a node is independent of the insertion order of its edge ends up to "
            "the order inside a bundle (impl_star_order_independent), the label of a bundle is independent of the order of its edge ends and swapped by the label "
            "swap (impl_bundleLabel_perm/_swap), bundle labelling / propagate_side_labels / collapse flag / fill act on one label slot at a time so they commute "
            "across slots (impl_starLabels_swap), line_intersection is symmetric (C11 li_symm) so the mutual phase is, and a sorted node map is determined by its "
            "look-ups. Without the hypothesis the law is false of the code "
            "as written: a zero-length Line makes a zero-length edge end whose key compares Equal to every key, so the bundles depend on "
            "insertion order (relateImpl_transpose_fails_witness: triangle x zero-length Line at a vertex, FF21F1FF2 vs 10FFFF2F2, the real code agrees); "
            "all-pairs loop of the model = R-tree candidate traversal of the code in exact arithmetic: compute_edge_distance is injective along a segment "
            "(impl_edgeDistance_injective), so the key (segment index, distance) of an EdgeIntersection determines its coordinate, the BTreeSet of an edge is the "
            "canonical sorted list of the set of intersections found, and visiting any candidate list that contains all pairs with intersecting envelopes — in "
            "any order, with repetitions — gives the same edges, is_isolated flags and proper-intersection flags, in self-noding and in the mutual phase "
            "(selfNoding_order_independent, selfNoded_edges_wellFormed, mutualPhase_order_independent). relate never panics: "
            "for all operands, valid or not, without a zero-length Line and with closed polygon rings (the geo-types invariant) the model reaches its end in exact "
            "arithmetic — none of 'node should have been labeled by now', the slice indexing of EdgeEndBuilder, 'can't create empty edge', 'found single null "
            "side', 'found partial label' can happen (relateImpl_never_panics; hence relateImpl_transpose_closed for the total function). "
            "(10) Point x B at the nodes of B's graph (RELM2): when p IS a node of B's self-noded graph the node map records the on position "
            "of that node (relateImpl_point_rows_node, any B, any arithmetic); every intersection self-noding records on an edge becomes a node "
            "(selfNoded_intersections_are_nodes); the nodes of the self-noded graph of an areal operand are OnBoundary and lie on its rings "
            "(selfNoded_areal_nodes: ring starts, and recorded intersections as valid records of their edge; valid or not, exact arithmetic); a ring "
            "point of a valid Polygon / MultiPolygon / any Rect / Triangle is located OnBoundary by the specification (locate_ring_point_areal, "
            "MultiPolygon through C02 multiPolygon_members_apart); hence the nodes carry the specification's location for B a Point, MultiPoint, Line, "
            "Polygon (holes touching the shell included), MultiPolygon (touching members included), Rect, Triangle of the domain "
            "(impl_nodes_carry_locate), and rows Interior / Boundary of relate(Point p, B) = rows of the specification at EVERY p, nodes included, "
            "with coordinate_position = locate from C02 coordPos_eq_locate_dom_partial (K9 exclusion vacuous for these types) "
            "(relateImpl_point_rows_eq_spec_of_nodes, relateImpl_point_rows_eq_spec_dom_partial), and columns Interior / Boundary of relate(B, Point p) "
            "through the two transpose laws (relateImpl_point_cols_eq_spec_dom_partial); on both paths of compute_intersection_matrix given DimsSpec of B "
            "(relateImpl_point_rows_eq_spec_both_paths_partial); a closed LineString (a ring written as a line string, simple or not): no self-check, "
            "nothing recorded, start vertex Inside by the mod-2 rule, rows = specification (relateImpl_point_rows_eq_spec_closedLineString). "
            "(11) RELM3: self-noding of a simple open line string records nothing — consecutive segments meet in one point, discarded by "
            "is_trivial_intersection; every other pair has line_intersection = None by lineStringSimple, li_symm for the pairs visited in the other order "
            "(selfNoding_simple_lineString_records_nothing, any arithmetic); the node map of an operand has pairwise distinct coordinates "
            "(impl_mls_node_coordinates_distinct), so C17 mod2_rule speaks about every node; the nodes of the self-noded graph of a LINEAR operand "
            "(Line, LineString, MultiLineString, collections of them) carry the specification's location whatever the way the members meet "
            "(impl_nodes_carry_locate_linear: mod-2 label = parity of the specification's end-point count, a closed member counting 0 there and 2 in the "
            "graph; recorded intersections are valid records of their edges, get Inside only where they are not boundary nodes, and every end point is a "
            "node already); collections of linear / of point members build the graph of the flattened MultiLineString / MultiPoint and the specification "
            "flattens them the same way. Hence rows Interior / Boundary of relate(Point p, B) = specification at EVERY p for EVERY type of B of the domain "
            "— open and closed LineString, MultiLineString INCLUDING the K9 points (a common end point of several members is a node of the graph, so relate "
            "never asks coordinate_position there), collections of linear, of point or of areal members (relateImpl_point_rows_eq_spec_allTypes_partial, hypothesis "
            "pointRowsOk5 = not a collection, or a collection all of whose members are of one kind; areal members: the OnBoundary-nodes-on-rings "
            "invariant passes through add_geometry, and a ring point of one member is not strictly inside another because collectionOk makes the cells "
            "II/IB/BI/BB of every pair F while cell_of_located makes the cell of a common arrangement point non-F: impl_nodes_carry_locate_arealCollection), the columns of relate(B, Point p) "
            "(relateImpl_point_cols_eq_spec_allTypes_partial) and both paths given DimsSpec (relateImpl_point_rows_eq_spec_allTypes_both_paths_partial). "
            "HasDimensions = row maxima of the specification (DimsSpec) follows from validity for every type but Polygon / MultiPolygon / collection "
            "(dimsSpec_dom_partial), so the shortcut returns the specification's whole matrix and the rows hold on both paths without a DimsSpec "
            "hypothesis there (relateImpl_disjoint_eq_spec_noPolygon_partial, relateImpl_point_rows_eq_spec_noPolygon_partial). "
            "(12) The Exterior row for linear B, hence the WHOLE matrix: in the model of the implementation every edge of B stays isolated "
            "(selfNoded_edges_isolated) and contributes (1, E, I); every bundle of every star of line edge ends is labelled Inside in B's slot, no side to "
            "propagate, no collapse; OnBoundary in B's slot of the node map is written by copy_nodes_and_labels only, so EI = 1 iff B has an edge and "
            "EB = 0 iff B's graph has a boundary node away from p (relateImpl_point_exterior_row_lineEdges, any arithmetic, B valid or not); in the "
            "specification EI = 1 iff B has a non-degenerate segment and EB = 0 iff some point other than p is located on B's boundary "
            "(relateSpec_point_linear_exterior_row: an elementary midpoint is not a vertex, hence not p and not an end point; a boundary point is an end "
            "point, hence a vertex); joined by impl_nodes_carry_locate_linear: relate(Point p, B) = relateSpec (Point p) B, all nine cells, on the graph "
            "path for every linear B of the domain with an edge, collections included (relateImpl_point_linear_graph_eq_spec), on both paths for B a Line, "
            "LineString or MultiLineString (relateImpl_point_lineType_eq_spec_partial), and for the total function in both operand orders, relate never "
            "panicking there (relateImpl_point_lineType_eq_spec_total_partial) — the first full-matrix equalities beyond point-like operands. "
            "(13) Areal B: every edge of B is a ring edge area(OnBoundary, l, r) with {l, r} = {Inside, Outside}, isolated from the point, contributing "
            "(1,E,B), (2,E,I), (2,E,E); the bundles of the stars get full area labels whose sides are Inside / Outside (compute_label_side returns nothing "
            "else), nothing for fill-in: EI = 2, EB = 1 (relateImpl_point_exterior_row_ringEdges, any arithmetic, B valid or not); on the specification side a "
            "row maximum of dimension >= 1 is attained in the column Exterior against a point operand, so EI = dim B and EB = dim dB from DimsSpec "
            "(relateSpec_point_exterior_row_of_dimsSpec). DimsSpec itself for EVERY valid polygon: HasDimensions = 2 for a simple shell (polyDims_valid) and an "
            "interior face sample in every arrangement from C02X valid_side_inside (polygon_interior_sample_valid) — S2 for valid polygons is now a theorem — "
            "and for every valid MultiPolygon and the empty ones (dimsSpec_dom_noCollection_partial): the disjoint-envelope shortcut returns the "
            "specification's matrix for ALL operands of the domain that are not collections, no hypothesis left "
            "(relateImpl_disjoint_eq_spec_noCollection_partial). Together: relateImpl (Point p) B = relateSpec (Point p) B and relateImpl B (Point p) = "
            "relateSpec B (Point p), whole matrix, total function, for B a Line, LineString, MultiLineString, Polygon (holes touching the shell included), "
            "MultiPolygon (touching members included), Rect or Triangle of the domain, no further hypothesis "
            "(relateImpl_point_eq_spec_extendedType_partial). "
            "(14) Point x MultiPoint, whole matrix (relateImpl_point_multiPoint_graph: no edge; the nodes of B away from p contribute (0,E,I)); hence "
            "relateImpl (Point p) B = relateSpec (Point p) B and relateImpl B (Point p) = relateSpec B (Point p) for EVERY B of the validity domain that is "
            "not a GeometryCollection, the only hypothesis being the property's own domain (relateImpl_point_eq_spec_noCollection_partial). "
            "(15) Specification, linear x linear (any two lists of curves): every cell with a boundary in it (IB, BI, BB, BE, EB) is 0 exactly when some "
            "point has that pair of locations, F otherwise (relateSpec_linear_boundary_cells); Line x Line: BB, IB, BI, BE, EB in closed form "
            "(relateSpec_line_line_boundary_cells), and IE = 1 iff some point of the open first segment is off the second, never 0 — such a point is not a "
            "vertex of the arrangement, the midpoint of its elementary sub-segment has the same two locations (C02X locate_const) — EI transposed, EE = 2 "
            "(relateSpec_line_line_exterior_cells): with II all nine cells of the specification for two segments are characterised by point-set "
            "conditions (cell_complete for Line x Line). "
            "Collections of linear members or of point members, nested ones included: the whole matrix on the graph path "
            "(relateImpl_point_collection_graph_eq_spec_partial; a linear collection with a bounding rectangle has an edge). "
            "Open there: GeometryCollections on the shortcut path and areal collections (DimsSpec of a collection: pairwise disjoint members, boundary "
            "dimension as a maximum over members); collections mixing kinds only occur with empty members. The disjoint-envelope shortcut on the whole validity domain, polygons with holes "
            "included: 'hole coordinates in the reported rectangle' and 'rings closed' follow from validity (C02X dom_facts), so relateImpl = relateSpec "
            "for domain operands with non-intersecting rectangles wherever HasDimensions agrees with the specification "
            "(relateImpl_disjoint_eq_spec_dom_partial; remaining hypothesis DimsSpec: interior face sample of a valid polygon, collections). "
            "Not proved: relateImpl = relateSpec when neither operand is a point: Line x Line, LineString x LineString and beyond (the specification side of Line x Line is "
            "complete; needs the mutual-intersection phase of the algorithm — proper crossings, edge splitting, stars with edge ends of both operands — "
            "against the arrangement vertices).",
    "note": "Trusted: Lean kernel + audited axioms; the harness/generators (sampling); spec adequacy S1/S2. Defects found by this check and repaired in /repo: "
            "Triangle vertical edge (29720670), MultiPolygon shared vertex (5f41a6da), MultiLineString boundary_dimensions mod-2 (17c66966). The algorithm of "
            "relate is now modelled (relateImpl) and compared with the code on valid and invalid operands; K10 as seen from relate (subnormal coordinate: two "
            "crossing valid segments reported disjoint) is an open known finding outside the property's stated domain.",
}
