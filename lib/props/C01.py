"""C01 — check configuration and MANIFEST entry."""
CFG = {
    "count": {"quick": 64000, "thorough": 3000000},
    "lean_files": ["GeoModel/RelateSpec.lean", "GeoModel/Valid.lean", "GeoModel/Locate.lean", "GeoModel/Segment.lean",
                   "GeoModel/LineIntersection.lean", "GeoModel/Ops/C01.lean"],
    "rule": "ordered pairs (A, B) over all 10 geometry types (Geometry enum on both sides) drawn from one shared 3..6 grid: polyomino polygons with "
            "holes (incl. holes tangent to the shell), star polygons, rectangles with holes, corner-touching multipolygons, self-avoiding lattice "
            "paths, multi line strings sharing end points (mod-2 rule), half-grid points, same-dimension collections; each case also relates the "
            "operands in the other order and a second representation A' of A (ring start/direction, Rect/Triangle as Polygon, Line as LineString, "
            "singleton Multi*/collection, member order). Operands outside the domain (invalid by the exact Lean validity spec) are SKIPped and counted. "
            "distinct by input text; cases with disjoint or empty bounding boxes are tagged triv and not counted.",
    "trusted_base": [
        "spec adequacy (S1): the arrangement atoms (vertices, elementary-edge midpoints, two infinitesimally displaced face samples per edge) meet "
        "every cell of the arrangement of A ∪ B — not proved; the spec is an independent definition (own winding computation, symbolic infinitesimals)",
        "spec adequacy (S2): for a valid ring, non-zero winding number ⇔ topological interior (Jordan)",
        "interior connectedness of polygons is not part of the executable validity predicate",
    ],
    "assumptions": ["valid operands in the OGC sense, decided exactly by GeoModel/Valid.lean; grid coordinates (exact in f64)"],
}

MANIFEST = {
    "technique": "Lean 4 executable DE-9IM specification with proved matrix algebra + implementation-vs-specification correspondence on grid geometry pairs",
    "text": "relate() is compared, cell for cell, with an executable specification of DE-9IM written in Lean (exact point location with the mod-2 rule, "
            "arrangement atoms with symbolic infinitesimal face samples) that shares no code or algorithm with geo's topology-graph implementation; the same "
            "run demands the transposed matrix for swapped operands and the same matrix for a second representation of the same point set. Proved so far: "
            "matrix algebra (transpose involution, set_at_least/transposition commutation, symmetry of the disjoint-envelope shortcut). The adequacy of the "
            "specification w.r.t. point-set topology is an explicit assumption (S1, S2), not a theorem.",
    "note": "Trusted: Lean kernel + audited axioms; the harness/generators (sampling); spec adequacy S1/S2. Defects found by this check and repaired in /repo: "
            "Triangle vertical edge (29720670), MultiPolygon shared vertex (5f41a6da), MultiLineString boundary_dimensions mod-2 (17c66966).",
}
