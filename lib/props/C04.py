"""C04 — check configuration and MANIFEST entry."""
CFG = {'scale_exponents': [-60, -40, -30, -27, -10, -8],   # the membership oracle enumerates lattice points of the bounding box: no scaling up
 
 
    "count": {"quick": 10000, "thorough": 400000},
    "lean_files": ["GeoModel/BoolGlue.lean", "GeoModel/BoolSpec.lean", "GeoModel/Ops/C04.lean", "GeoModel/Winding.lean",
                   "GeoModel/RelateSpec.lean", "GeoModel/Valid.lean", "GeoModel/Area.lean",
                   "GeoProofs/Lemmas/C04Wind.lean", "GeoProofs/Lemmas/C04Locate.lean",
                   "GeoProofs/Lemmas/C04XRound.lean", "GeoProofs/Lemmas/C04XMeasure.lean", "GeoProofs/Lemmas/C04XScan.lean",
                   "GeoProofs/Lemmas/C04XLayer.lean", "GeoProofs/Lemmas/C04XGeneric.lean", "GeoProofs/Lemmas/C04XMulti.lean", "GeoProofs/Lemmas/C04XMembers.lean"],
    "rule": "55% pairs (A, B) of Polygon / MultiPolygon operands on one shared 3..8 grid (polyomino polygons with holes incl. holes tangent to "
            "the shell, star polygons with oblique edges, rectangles with holes, corner-touching / side-by-side multipolygons; identical operands, "
            "a second representation of the same point set, empty Polygon / MultiPolygon operands; a quarter with repeated vertices incl. a repeated "
            "closing vertex; a quarter translated by an integer up to 2^12 and scaled by 2^-3..2^4), all four operations per pair; 15% unary_union of "
            "0..8 consistently wound polygons (both directions, overlapping or edge-sharing members) against the fold of pairwise unions; 20% clip of "
            "simple line strings (lattice paths, paths running along a ring of the polygon, multi line strings) with invert = false and true; 10% the "
            "glue functions alone on raw rings / shapes with 0..3 repeated vertices in every position. Operands outside the domain (invalid by the exact "
            "Lean validity spec, non-simple line strings) are SKIPped and counted; unary_union collections that are NOT consistently wound (about 1 in 12 "
            "of the polygon collections, every member with a direction of its own, and four corpus lines) are outside the domain too but are evaluated: glue "
            "correspondence as usual, verdict always PASS, tags `mixed … region=fill-rule|other covers=… vs-fold=…` record what the real code does. "
            "A case is distinct by its input text; cases with two empty operands / fewer than two union members are tagged triv. Exact similarities place a quarter of the cases at offsets up to 2^30 (round 10).",
    "trusted_base": [
        "modelled, not verified: the overlay engine i_overlay — a parameter of the model with the assumed specification EngineSpec "
        "(GeoModel/BoolSpec.lean): region = rule(fill(subject), fill(clip)) off the input boundaries, output shapes outer-first / outer clockwise / "
        "holes counter-clockwise, clip keeps the parts of the lines in the filled region. Every run validates the assumption end to end: the engine's "
        "recorded answers (verif-hooks probes) instantiate the parameter, and the result of the public API is judged by the exact oracle.",
        "oracle (Lean, exact rationals): shoelace areas; |A∩B| = Σ wᵢwⱼ·area(Tᵢ∩Tⱼ) over origin-fan triangles with Sutherland–Hodgman clipping; "
        "membership by Geo.locate (C01 specification) at the sample points (x0+u(i/2+3/8), y0+u(j/2+5/16)) farther than 8·(w+h)·2^-29 from every input "
        "edge; area tolerance 4·perimeter·D·2^-29 with perimeter and D replaced by their L1 upper bounds; lengths by rational square-root enclosures",
        "engine totality is part of the assumption: i_overlay 2.0.5 was observed (by the C20 check) not to return on inputs above ~32768 segments "
        "(parallel-sort path); the generated operands here stay far below that size",
        "spec adequacy (S2): for a valid polygon, even-odd parity over all its rings = inside — now PROVED from polyValid at every point off the rings "
        "(evenOdd_eq_inside_valid; GeoProofs/Lemmas/C04XScan.lean, C04XLayer.lean, C04XGeneric.lean on top of the WIND / SMLX Jordan lemmas). Member disjointness of a valid MultiPolygon (at most "
        "one member contains a point off the rings) is proved too (members_apart, GeoProofs/Lemmas/C04XMembers.lean: from II = F, dim BB <= 0 of multiPolyValid "
        "through the atoms of the DE-9IM specification). What S2 still rests on: that Geo.polyValid / multiPolyValid (GeoModel/Valid.lean, exact, decidable) "
        "is the right formal reading of 'valid (Multi)Polygon' — the driver uses the same definition to decide the domain",
        "measures: the area / length identities are proved for every finitely additive functional on regions that ignores the tolerance band "
        "(AdditiveOn; weighted finite samples are instances); that Lebesgue area / arc length is such a functional is not formalised (no measure theory "
        "is imported) — the driver compares the exact shoelace areas numerically",
    ],
    "assumptions": ["valid operands in the OGC sense (GeoModel/Valid.lean); coordinates on a power-of-two scaled integer grid (exact in f64 and in "
                    "the engine's fixed-point grid; crossing points of oblique edges are snapped by the engine — covered by the tolerance)",
                    "unary_union: every exterior wound the same way and every hole the opposite way",
                    "clip: every member line string simple, members meeting at most at end points"],
}

MANIFEST = {
    "technique": "Lean 4 proof about geo's glue around an abstract overlay engine (for every engine meeting the assumed specification) + exact Lean oracle "
                 "(areas, intersection area, pointwise membership, winding, clip coverage/length) on the real results + glue correspondence with recorded engine answers",
    "text": "geo contributes glue around i_overlay; the model mirrors it line by line with the engine as a parameter. Proved for every engine meeting "
            "EngineSpec and every input: rings reach the engine as paths without a repeated closing point and with the same winding number around every point "
            "(ringToShapePath_pathOk / _wind / _drops_only_closing — the hypothesis 'no repeated closing vertex' disappeared with the fix), the OverlayRule handed "
            "over means the requested operation with Difference = A ∧ ¬B (opToRule_combine), rebuilt polygons have closed rings, counter-clockwise exteriors, "
            "clockwise holes and the engine's region (polygonFromShape_closed / _winding / _inside), hence inside(result) ⇔ op(evenOdd A, evenOdd B) "
            "(booleanOp_evenOdd) and, with the Jordan-type assumption S2 as an explicit hypothesis, ⇔ op(inside A, inside B) (booleanOp_pointwise_partial); "
            "S2 itself proved from polyValid at every point off the rings (evenOdd_eq_inside_valid: each simple ring winds 0 or by the sign of its area, a hole "
            "winds only where its shell winds, two holes never wind together; first on levels avoiding the coordinates, then everywhere because the half-open "
            "crossing rule is stable under a small move upwards), hence the pointwise statement at full strength for valid Polygon operands "
            "(booleanOp_pointwise_polygon) and for valid MultiPolygon operands (booleanOp_pointwise: at most one member of a valid MultiPolygon contains a "
            "point off the rings, members_apart — members with holes, members inside the holes of other members included); the intermediate forms stay as "
            "theorems (booleanOp_pointwise_multi_partial for members that are only valid one by one, booleanOp_pointwise_multi_holefree_partial); "
            "the indicator identities behind the three area identities, and the area identities themselves for every finitely additive measure on regions "
            "(area_identities, area_eq_expectedArea: the oracle's expected areas are forced by additivity) and for the results of the four operations under "
            "every measure living off the tolerance band (booleanOp_area_identities); the oracle's signed fan carries exactly the shoelace area "
            "(oracle_fan_area); unary_union's fill-rule choice selects the union of a consistently wound collection "
            "and equals the fold of pairwise unions (unaryUnion_region_partial, foldUnion_region) — WindingValid now derived from polyValid + orientation by "
            "exact areas, so the unary_union statement holds at full strength (windingValid_of_valid, unaryUnion_region_valid); on EVERY closed-ring collection unary_union computes the Positive/Negative "
            "region of the summed winding numbers (unaryUnion_fill_region), so in an inconsistently wound collection the members wound against the first ring "
            "are dropped or cut out (unaryUnion_inconsistent_witness; the real code does exactly that: driver tag mixed region=fill-rule covers=less-than-union); "
            "clip keeps exactly the parts inside (inverted: outside) a valid (Multi)Polygon (clip_partition_valid) and conserves length for every measure off the "
            "tolerance band (clip_length_conserved); the area identities with area(A), area(B) the measures of the operands' interiors (booleanOp_area_identities_valid, "
            "S2 for MultiPolygons: evenOdd_eq_inside_multi); the glue round trip polygon_from_shape ∘ ring_to_shape_path "
            "returns every ring of a valid polygon, exterior first, holes in order, reversed and minus the extra closing coordinates, same region "
            "(glue_roundTrip, glue_roundTrip_valid, glue_roundTrip_exact, glue_roundTrip_region); clip(invert) and clip(¬invert) partition the line (clip_partition); the oracle's membership test Geo.locate = Inside is the region of the theorems off the rings (insideSpec_eq_mpInside); EngineSpec is satisfiable with a non-empty far-set (E1_spec). "
            "Every run: the engine's recorded answers instantiate the parameter and the model's output must equal the API's; the API's results are judged by an "
            "exact oracle written in Lean (expected areas from |A|, |B| and the exact |A∩B|, membership at sample points off the input edges, ring direction and "
            "closedness, unary_union vs fold, clip pieces / coverage / length conservation).",
    "note": "Trusted: Lean kernel + audited axioms; the harness/generators (sampling); the engine assumption EngineSpec (validated numerically every run, not proved); "
            "S2 is no longer trusted (proved from polyValid / multiPolyValid). Hook commit a034e536 (feature verif-hooks: glue functions + raw engine probes). Defect found and repaired: repeated closing vertex "
            "halves the area (F5, fix e438f046).",
}
