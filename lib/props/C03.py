"""C03 — check configuration and MANIFEST entry."""
CFG = {
 'translator': True,
    "count": {"quick": 150000, "thorough": 8000000},
    "lean_files": ['GeoModel/Gen/Kernel.lean', 'GeoProofs/Lemmas/GenKernel.lean', 'GeoModel/TRANPrelude.lean', 'GeoModel/Gen/CoordPosGen.lean',
                   'GeoModel/Gen/AreaGen.lean', 'GeoProofs/Lemmas/TRANCoordPos.lean', 'GeoProofs/Lemmas/TRANArea.lean', "GeoModel/Orient.lean", "GeoModel/Segment.lean", "GeoModel/F64.lean", "GeoModel/Ops/C03.lean",
                   "GeoProofs/Lemmas/SegmentSpec.lean", "GeoProofs/Lemmas/RingSpec.lean"],
    "rule": "adversarial f64 inputs: exactly collinear dyadic triples with one coordinate nudged by 0-3 ulps at magnitudes 2^-20..2^58, "
            "the classic 'tiny offsets near a large base point' pattern, rings scaled to 2^0..2^45 with query points on / one ulp off an edge; "
            "ops: Kernel::orient2d (f64 robust, i64 simple incl. beyond the overflow bound), Line x Coord intersects/contains, "
            "coord_pos_relative_to_ring, Triangle x Coord intersects/contains. distinct by input text; a case is trivial (tag triv) when it is an "
            "integer, non-collinear orientation on which naive f64 evaluation agrees. The driver also evaluates the naive f64 formula in exact emulation "
            "of round-to-nearest and tags the cases where it would have given the wrong answer (naive-differs, see coverage.classes). Also (rounds 7-10): the same predicates on f32, i64 and i32 coordinates (products within the type); C03.poly: polygons with several holes whose boxes overlap and triangles as geometries, two thirds of them flat (collinear or repeated corners), through coordinate_position / contains / intersects and three entry points; points exactly on the line of a mixed-sign segment within two ulps of an end.",
    "trusted_base": [
        "robust::orient2d (Shewchuk's adaptive predicate, external crate) is not re-proved: it is compared with the exact sign on every generated case",
        "integer coordinates: release-build wrapping arithmetic is modelled (wrap64); a debug build would panic instead",
    ],
    "assumptions": ["finite f64 input in the normal range (|c| in [2^-400, 2^400] or 0); the underflow range is known finding K10"],
}

MANIFEST = {
    "technique": "Lean 4 proof (algebraic laws of the exact determinant; 64-bit wrap-around exactness) + model/implementation correspondence on adversarial f64 and i64 inputs",
    "text": "The model evaluates every predicate in exact rational arithmetic, so agreement with it on an input means the implementation's answer was not "
            "flipped by rounding. Proved: translation/swap/cyclic/scale laws of the determinant, degenerate cases, and cross_i64_exact (the wrapped i64 "
            "evaluation equals the unbounded one whenever all intermediates fit, with a witness that the bound matters); orientation-level corollaries "
            "orient_translate / orient_swap / orient_cyclic / orient_scale_pos; lineCoord_iff_segMem (point-on-segment = membership in {a + t(b-a), t in [0,1]}); "
            "ringEdge_none_sub, ringPos_boundary_sub (OnBoundary implies the point is on an edge) and ringPos_boundary_iff_partial (for a closed ring with >= 2 "
            "coordinates OnBoundary holds exactly for the points of the edges; closedness is the function's debug_assert precondition and "
            "ringPos_open_ring_witness / ringPos_boundary_iff_partial_witness show it is needed; the real code answers Outside on the witness like the model, "
            "so it is a limit of the statement, not a defect) and ringPos_boundary_iff (every closed coordinate list, no length hypothesis: OnBoundary exactly "
            "when the list is the single coordinate p or p lies on an edge). Lemmas/SegmentSpec.lean additionally proves the rectangle and triangle kernels against their "
            "point-set meaning (rectRect_iff, triCoord_iff_mem, triContainsCoord_iff_interior). Not proved: Inside/Outside of the winding loop against a "
            "point-set definition of the polygon interior. Correspondence: orient2d (f64, i64), "
            "point-on-segment, point-in-ring, point-in-triangle on near-degenerate inputs; the evidence counts the cases on which a naive f64 evaluation "
            "would differ, showing that the stream separates the robust kernel from the naive one. Translator tie (TRAN, pointLocation_eq_source): "
            "coord_pos_relative_to_ring, Triangle::calculate_coordinate_position and Triangle::intersects(Coord) are regenerated as whole functions "
            "(loop with early return; unrolled to_lines().map with a flag set inside the closure; sort + windows) and proved equal to ringPos, "
            "calcTriangle, triCoord.",
    "note": "Trusted: Lean kernel + audited axioms; harness/generators (sampling); the `robust` crate is compared, not proved. winding_order, "
            "segment-segment and line_intersection exactness are exercised by the C05 and C11 checks on the same kernel model. Known finding K10 (underflow range).",
}
