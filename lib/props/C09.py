"""C09 — check configuration and MANIFEST entry."""
CFG = {'long_max_vertices': 200,   # the exact oracle is quadratic in the vertex count
 'assumptions': ['f64 inputs cross the boundary as bit patterns and are decoded to exact rationals; Rust f64 '
                 'ops are IEEE-754',
                 'correspondence inputs have coordinates that are multiples of 1/16 below 2^20 (checked per case by '
                 'the driver, SKIP inexact-regime otherwise): every branch of line_segment_distance, every triangle '
                 'area and every orientation test is then decided exactly in f64',
                 'RDP compares rounded square roots: a case is SKIPped (near-tie) when the farthest squared distance '
                 'is within 2^-40 relative of eps^2, or when two candidates for the farthest vertex are that close '
                 'without being computed bit-identically (f64 error of the distance is below 2^-50 relative)',
                 'the R-tree of simplify_vw_preserve is modelled as the multiset of its segments (envelope query '
                 'complete and exact, remove deletes one equal element)',
                 'std::collections::BinaryHeap is mirrored operation by operation (rebuild, push/sift_up, '
                 'pop/sift_down_to_bottom) for the pinned toolchain; the proved theorems do not depend on which '
                 'minimal entry is popped first'],
 'count': {'quick': 150000, 'thorough': 5000000},
 'translator': True,
 'lean_files': ['GeoModel/TRANPrelude.lean', 'GeoModel/Gen/SimplifyGen.lean', 'GeoProofs/Lemmas/TRAN2Simplify.lean', 'GeoModel/Simplify.lean', 'GeoModel/Ops/C09.lean', 'GeoProofs/Lemmas/C09Rdp.lean', 'GeoProofs/Lemmas/C09Vw.lean',
                'GeoProofs/Lemmas/C09PHeap.lean', 'GeoProofs/Lemmas/C09PExit.lean',
                'GeoProofs/Lemmas/C09PExitP.lean', 'GeoProofs/Lemmas/C09XGlobal.lean',
                'GeoProofs/Lemmas/C09XTrace.lean'],
 'rule': 'random LineString / MultiLineString / Polygon / MultiPolygon (0-28 vertices per component; random grid '
         'points, zig-zags, collinear runs with bumps, back-tracking walks, forced repeats, wide 2^20 coordinates; '
         'closed line strings; rings at the 4-coordinate limit, open rings closed by the constructor) x '
         '{simplify+simplify_idx, simplify_vw+simplify_vw_idx, simplify_vw_preserve} x tolerance in {0, -0, '
         'negative, between attainable values, exactly attainable, larger than the geometry}; distinct by input '
         'text; cases whose largest component has <= 2 vertices are tagged triv and not counted',
 'trusted_base': ['translator/rs2lean.py + rsexpr.py + jobs2.py for the fold closure of compute_rdp and impl Ord / PartialEq for VScore (explicit choices: a.partial_cmp(&b).unwrap() on numbers = the total three-way '
                  'comparison, no NaN; Ordering::then = Ordering.then; exact rationals; the rest of the algorithm - recursion, while loops, '
                  'heaps, sorting - is not regenerated)',
                  'modelled, not verified: the f64 evaluation of distances/areas (exact regime + near-tie filter '
                  'instead of a floating-point proof)',
                  'rstar::RTree and std BinaryHeap internals are represented by their abstract behaviour '
                  '(multiset / mirrored sift operations)']}

MANIFEST = {'note': 'Trusted: Lean 4.33 kernel (axioms propext, Classical.choice, Quot.sound only; audited per theorem '
         'each run; no sorry, no native_decide, no added axioms); the Lean compiler running the model; the '
         'Rust harness, generators and line protocol (sampling, not proof). The theorems are about the '
         'hand-written model; the model is tied to the code by running both on the same inputs each run. '
         'Distances are kept squared in the model; RDP cases that are rounding near-ties are skipped and counted. '
         'Two defects were repaired by fix: commits (one-coordinate LineString under RDP; simplify_vw_idx with '
         'epsilon <= 0) and are listed in known_findings/C09.json with their witnesses in corpus/C09.ops.',
 'technique': 'Lean 4 proof (induction over the RDP recursion; loop invariants of the Visvalingam-Whyatt linked list) '
              '+ model/implementation correspondence on random line strings, rings and tolerances',
 'text': 'Translator tie (TRAN2, rdpSelection_eq_source): one step of the farthest-vertex fold of the model is the closure regenerated from compute_rdp '
         '(>= : the last maximum wins) and VScore.le / lt are not-Greater / Less of the regenerated impl Ord for VScore (GeoModel/Gen/SimplifyGen.lean, read '
         'off simplify.rs / simplify_vw.rs on this run). Proved for the model, for every input and tolerance: the RDP output is a subsequence that keeps first and '
         'last, every dropped vertex is within eps of the retained segment replacing it (Within), simplify_idx lists '
         'exactly the kept positions, eps <= 0 is the identity and the size guard never lets a ring fall below four '
         'coordinates; the Visvalingam-Whyatt outputs are subsequences keeping both ends, index and coordinate '
         'variants agree, eps <= 0 is the identity (first/last via the doubly-linked-list invariant of the adjacency '
         'vector, for every order in which equal-area entries are popped); simplify_vw_preserve outputs are '
         'subsequences keeping both ends and never fall below INITIAL_MIN coordinates (counter = number of live '
         'vertices), so rings stay closed with at least four coordinates. The BinaryHeap mirror is proved correct: '
         'from/rebuild establishes the heap order (every parent area <= its children), push and pop preserve it, '
         'from/push/pop only permute/add/remove entries (List.Perm), and pop returns an entry of minimal area '
         '(heap_from_inv, heap_push_inv, heap_pop_min). With it the exit invariant of simplify_vw is proved '
         '(vw_exit_invariant, vw_exit_invariant_idx, vw_exit_invariant_simplify_idx, vw_exit_invariant_checker): loop invariant every live vertex '
         'with two proper neighbours has its current triangle in the queue, so at exit every three consecutive retained '
         'vertices span a triangle of exact area > eps; the Lean checker also evaluates it on every implementation '
         'output. The analogous statement holds for simplify_vw_preserve (vwp_exit_invariant): when its output has more '
         'than INITIAL_MIN and more than MIN_POINTS coordinates (otherwise the loop may have stopped on one of its two '
         'size rules) every three consecutive retained vertices span a triangle of area > eps, entries demoted to -eps '
         'included. Global guarantees (C09X): every input vertex is kept or lies within eps of a segment between two '
         'consecutive output vertices of simplify (rdp_global_bound; rdp_global_bound_polyline with the kept vertices '
         'folded in) - the guarantee against the whole output polyline, not only against the replacing segment; and the '
         'removal trace of Visvalingam-Whyatt (vw_removal_trace, vw_first_removal): the kept positions are what a '
         'sequence of removals leaves of the adjacency list, and at every removal, in the state at that time, the popped '
         'entry names the current neighbours of a live vertex, its area is the exact area of that triangle, is at most '
         'eps, and is minimal among the current triangles of all live interior vertices (heap order respected; stale '
         'entries are skipped and never remove anything). '
         'The model (state-passing compute_rdp, the adjacency list, a '
         'mirrored BinaryHeap, the segment multiset standing for the R-tree) is compared exactly (vertex lists and '
         "index lists) with the real API on random inputs; the property clauses are also evaluated on the "
         "implementation's own outputs."}
