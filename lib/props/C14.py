"""C14 — check configuration and MANIFEST entry."""
CFG = {
 'assumptions': ['f64 inputs cross the boundary as bit patterns (non-finite values as nan/inf/-inf classes) and are '
                 'decoded to exact rationals; Rust f64 ops are IEEE-754',
                 'reading of the property text: an empty ring is an absent ring, a polygon with an empty exterior is '
                 'the empty polygon, empty geometries are well-formed (as in JTS/OGC); a connected interior is NOT '
                 'demanded (not in the property text, documented as unchecked by geo) and is reported as a class '
                 'tag only; a hole equal to the shell is not "inside" it',
                 'a complaint about a PAIR of rings / members one of which is itself malformed is accepted as '
                 'naming a defective ring (relations between non-simple rings are not well defined)'],
 'count': {'quick': 10000, 'thorough': 400000},
 'translator': True,
 'lean_files': ['GeoModel/TRANPrelude.lean', 'GeoModel/Gen/ValidGen.lean', 'GeoProofs/Lemmas/TRAN2Valid.lean', 'GeoModel/Validation.lean', 'GeoModel/ValidationSpec.lean', 'GeoModel/Valid.lean',
                'GeoModel/RelateSpec.lean', 'GeoModel/Ops/C14.lean',
                'GeoProofs/Lemmas/C14PGeom.lean', 'GeoProofs/Lemmas/C14PRing.lean',
                'GeoProofs/Lemmas/C14PPairs.lean', 'GeoProofs/Lemmas/SMLXHolePair.lean'],
 'rule': 'a quarter valid shapes of all types from the shared generators (two representations), the rest '
         'malformed-leaning: valid polygons with one ring mutated (spike, over/undershoot along an edge, vertex '
         'revisit, consecutive repeat, vertex swap = bow-tie, collinear vertex, moved vertex, NaN/inf/-inf, '
         'flattened onto a line, truncated to 1-2 points, opened/doubly closed), random rings, shells with 1-3 '
         'small rings placed at random (inside, outside, crossing, edge-sharing, equal to the shell, nested, '
         'overlapping, touching, empty), hole chains cutting the interior, multipolygons with identical / '
         'shifted / nested / randomly placed / malformed members, degenerate Point/Line/LineString/Multi*/Rect/'
         'Triangle and nested collections; a sixth translated far from the origin and scaled by 2^k; distinct '
         'by input text; empty geometries are tagged triv. Corpus: witnesses of F8/F11, hand-picked corner cases, and '
         'the 820 convertible isValid cases of the JTS TestValid*.xml files with their expected answers, which are '
         'cross-checked against the specification (811 agree; 9 are invalid in JTS only because the interior is '
         'disconnected, which the property does not ask for)',
 'trusted_base': ['translator/rs2lean.py + rsexpr.py + jobs2.py for validation/utils.rs (explicit choices: f64::is_finite = XNum.isFinite on '
                  'coordinates that may be non-finite; RemoveRepeatedPoints = Vec::dedup under the f64 equality of Coord (V.dedupBy V.ceq); '
                  'chained_lines_overlap and linestring_has_self_intersection on finite (rational) coordinates with orient2d = the sign of the '
                  'exact determinant and Line: Intersects<Line> = the kernel tied in C02; lines().enumerate() = consecutive pairs with their '
                  'indices). Not regenerated: the visit_validation bodies (a handler closure called with `?`: monadic control flow)',
                  'modelled, not verified: `relate` is represented by the executable DE-9IM specification '
                  'relateSpec (property C01 ties relate to it on valid input); ring-pair / member-pair errors '
                  'whose operands are themselves malformed (outside the domain of relate) are left out of the '
                  'model-versus-implementation comparison (tag relate-out-of-domain-entries-ignored; decided '
                  'from the input alone)',
                  'not modelled: the outcome of the pairwise segment test on a ring that contains a non-finite '
                  'coordinate (robust orient2d on NaN/inf); the model takes it from the implementation\'s own '
                  'answer (oracle), all theorems hold for every oracle']}

MANIFEST = {'note': 'Trusted: Lean 4.33 kernel (axioms propext, Classical.choice, Quot.sound only; audited per theorem '
         'each run; no sorry, no native_decide, no added axioms); the Lean compiler running the model; the '
         'Rust harness, generators and line protocol (sampling, not proof). The theorems are about the '
         'hand-written model; the model is tied to the code by running both on the same inputs each run. '
         '`relate` enters the model as an oracle (instantiated with the DE-9IM specification); the segment '
         'test on rings with non-finite coordinates is an oracle too. Two defects were repaired in geo '
         '(F8 flat rings / two-segment spikes accepted; F11 validation_errors panicked on NaN).',
 'technique': 'Lean 4 proof (visitor = fold of the handler over an error list, for every lawful handler monad; '
              'ring-local clauses) + model/implementation correspondence and an independent executable '
              'specification of well-formedness on valid and malformed streams',
 'text': 'Translator tie (TRAN2, validationUtils_eq_source): check_coord_is_not_finite, check_too_few_points, chained_lines_overlap and '
         'linestring_has_self_intersection of the model equal the terms regenerated from validation/utils.rs on this run '
         '(GeoModel/Gen/ValidGen.lean). Proved in Lean for the model (GeoModel/Validation.lean: one visitor per type, generic in the handler '
         'monad exactly as visit_validation is generic in the handler): visitGeom_eq - with ANY lawful handler '
         'the visitor feeds the handler the entries of one list geomErrs in order; hence validationErrors_eq, '
         'checkValidation_eq (the fail-fast visitor returns the first entry the collecting one lists), '
         'isValid_iff_no_errors, errors_nonempty_iff_not_valid, check_error_is_first_listed. Ring-local: '
         'tooFew_iff / tooFew_lineString_iff (fewer than 4 / 2 coordinates after removing consecutive repeats; '
         'dedup_length ties Vec::dedup with f64 equality to the specification), nonFinite_iff, '
         '*_mem_ringErrs, error soundness tooFew_sound / nonFinite_sound against the specification, '
         'nonFinite_rejected. F8: three_segment_ring_accepted_on_pinned_tree (the pinned loop never reported a '
         '3-segment ring), flat_ring_has_self_intersection and flat_ring_polygon_invalid (after the fix every '
         'ring of three distinct collinear points is rejected, for every oracle), chained_pair_flagged_iff, '
         'pairBad_unchained, selfIntersection_iff_pair. Other types against the specification: '
         'lineString_tooFew_iff_spec, lineString_valid_iff_spec, triangle_valid_iff_spec. '
         'The loop against the specification: selfIntersection_iff - on a closed ring that keeps at least 4 '
         'coordinates after removing consecutive repeats (3-segment rings, the wrap-around pair and repeated '
         'coordinates included) hasSelfIntersection = false <-> ringSimple; ringSimple_not_reported (that '
         'direction with no hypothesis); selfIntersection_dedup (the loop answers the same on the ring and on '
         'the deduplicated ring); per-pair classes: adjacent_pair_agrees (consecutive segments: adjacentOk = '
         'not flagged, either operand order), chained_pair_flagged_iff_common_point and '
         'adjacentOk_iff_single_common_point (both sides in terms of the point-set segment SegMem), '
         'shared_end_pair_flagged (where a ring revisiting a vertex is caught although the coordinate '
         'comparison skips the offending pair); ringErrs_nil_iff_ringSimple (per-ring pass empty <-> ring simple); '
         'error soundness selfInt_sound (SelfIntersection names a ring with ringSimple = false, no hypothesis). '
         'Ring-versus-ring clauses with relate = the DE-9IM specification (from the shape of relateParts alone): '
         'boundary_cells_never_area (a cell with a boundary row/column is never 2) hence boundaries_meet_in_points_iff '
         '(dim BB <= 0 <-> BB != 1, the line clause is exact); ringPairErrs_nil_iff_relateSpec (the pass unfolded to '
         'relateParts cells); holePair_no_error_of_spec / polyValidRings_no_holePair_errors (a polygon satisfying '
         'polyValidRings draws no hole-versus-hole error); holePair_iff (the hole-versus-hole clause of the model = the '
         'clause of the specification, both directions, for every pair of coordinate lists and no hypothesis: '
         'holePair_ii_area shows that II of two ring polygons is F or 2 because every 0- and 1-dimensional atom '
         'lies on one of the two rings; holePair_iff_partial is the older form with that fact as a hypothesis); error soundness onArea_sound and onLine_holes_sound against the specification (incl. that '
         'the second hole is non-empty: an empty ring yields F in every non-exterior column). '
         'NOT proved: the shell-versus-hole clauses against polyValidRings - the code relates the shell with the hole as a '
         'LineString, the specification relates two polygons; their agreement rests on the adequacy of the DE-9IM '
         'specification (S1) '
         '(exercised by the correspondence instead). The correspondence runs is_valid, check_validation and '
         'validation_errors of the real code (concrete type and through the Geometry enum) against the model, '
         'and judges the implementation\'s answers against an independent specification (ringSimple + the '
         'DE-9IM specification): no false accept, no false reject, errors non-empty iff not valid, every '
         'reported error names a ring / member / coordinate that has that defect.'}
