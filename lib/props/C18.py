"""C18 — check configuration and MANIFEST entry."""
CFG = {'assumptions': ['f64 inputs cross the boundary as bit patterns and are decoded to exact rationals; Rust f64 '
                 'ops are IEEE-754',
                 "coordinates are finite (NaN != NaN makes 'closed' unsatisfiable)"],
 'translator': True,
 'count': {'quick': 20000, 'thorough': 1000000},
 'lean_files': ['GeoModel/Gen/RectGen.lean', 'GeoModel/Gen/PolygonSMGen.lean', 'GeoModel/TRANPrelude.lean',
                'GeoProofs/Lemmas/TRANPolygonSM.lean', 'GeoModel/PolygonSM.lean', 'GeoModel/Traverse.lean', 'GeoModel/Ops/C18.lean'],
 'rule': 'random API histories (1-13 ops over '
         'Polygon::new/exterior_mut/try_exterior_mut/interiors_mut/try_interiors_mut/interiors_push with '
         'edit-program closures and independent Ok/Err exits), Rect new/set_min/set_max histories incl. '
         'panicking setters, and From/TryFrom conversions on all 10 types; a case is distinct by its input '
         'text; every case is non-trivial (at least a constructor plus one op or a conversion)',
 'trusted_base': ['modelled, not verified: closures are drawn from an 8-instruction edit language (the '
                  'theorems quantify over all functions)',
                  'a panicking Rect setter ends the modelled history (state after unwinding is not '
                  'observed)',
                  'translator/rs2lean.py + rsexpr.py (statement fragment): explicit choices for the Polygon state machine — '
                  'Vec::push = append, `for r in &mut v` = map, `self.0[0]` under the debug_assert!(!self.0.is_empty()) of '
                  'LineString::close, a closure parameter FnOnce(&mut LineString) [-> Result] = a function ring -> (ring, ok), '
                  'FnOnce(&mut [LineString]) = the same on the list of rings fitted back to its length (fitLen)']}

MANIFEST = {'note': 'Trusted: Lean 4.33 kernel (axioms propext, Classical.choice, Quot.sound only; audited per theorem '
         'each run; no sorry, no native_decide, no added axioms); the Lean compiler running the model; the '
         'Rust harness, generators and line protocol (sampling, not proof). The theorems are about the '
         'hand-written model; the model is tied to the code by running both on the same inputs each run and, for the '
         'Polygon state machine and the Rect kernels, by translator tie theorems. '
         'Closures in the correspondence come from an 8-instruction edit language; NaN coordinates excluded; '
         'state after a panicking Rect setter is not observed.',
 'technique': 'Lean 4 proof (invariant by induction over all API histories and all closures) + '
              'model/implementation correspondence on random histories',
 'text': 'Proved for the model, for every history, every closure and both Ok/Err exits: every ring is closed '
         'after every constructor/mutator call (inv_step, inv_run), Rect::new gives min<=max for every '
         'corner order, non-panicking setters keep it, and the Rect/Triangle/Line conversions yield exactly '
         'the documented coordinate lists. The model (a state machine over arbitrary coordinate types) is '
         'tied to geo-types by replaying random histories with Ok/Err exits on the real Polygon/Rect API and '
         "demanding identical states after every call; the closedness checker runs on the implementation's "
         'own states. Translator tie (TRAN, polygon_sm_eq_source): LineString::close, Polygon::new, exterior_mut, '
         'try_exterior_mut, interiors_mut, try_interiors_mut and interiors_push are regenerated from geo-types on every run '
         'and proved equal to close / mkNew / every clause of step, so inv_step and inv_run are theorems about terms read off '
         'the current source (the Rect kernels already were: rect_kernels_eq_source).'}
