"""C02 — check configuration and MANIFEST entry."""
CFG = {
    "translator": True,
    "count": {"quick": 48000, "thorough": 2400000},
    "lean_files": ['GeoModel/Gen/Kernel.lean', 'GeoProofs/Lemmas/GenKernel.lean', 'GeoModel/TRANPrelude.lean', 'GeoModel/Gen/CoordPosGen.lean',
                   'GeoProofs/Lemmas/TRANCoordPos.lean', 'GeoModel/Gen/AreaGen.lean', 'GeoModel/Gen/DimsGen.lean', 'GeoProofs/Lemmas/TRANArea.lean', "GeoModel/Intersects.lean", "GeoModel/Contains.lean", "GeoModel/Locate.lean", "GeoModel/Segment.lean",
                   "GeoModel/RelateSpec.lean", "GeoModel/Valid.lean", "GeoModel/Gen/Masks.lean", "GeoModel/Gen/Enums.lean",
                   "GeoModel/Ops/C02.lean", "GeoProofs/Lemmas/SegmentSpec.lean", "GeoProofs/Lemmas/RingSpec.lean",
                   "GeoProofs/Lemmas/LocateLemmas.lean", "GeoProofs/Lemmas/C02QContains.lean", "GeoProofs/Lemmas/C02QWinding.lean",
                   "GeoProofs/Lemmas/C02QHoles.lean", "GeoProofs/Lemmas/C02QPerturb.lean",
                   "GeoProofs/Lemmas/WINDJump.lean", "GeoProofs/Lemmas/WINDSimple.lean", "GeoProofs/Lemmas/WINDHoles.lean",
                   "GeoProofs/Lemmas/WINDCross.lean", "GeoProofs/Lemmas/WINDJordan.lean",
                   "GeoProofs/Lemmas/C02XTable.lean", "GeoProofs/Lemmas/C02XAdj.lean", "GeoProofs/Lemmas/C02XSide.lean",
                   "GeoProofs/Lemmas/C02XMulti.lean", "GeoProofs/Lemmas/C02XBox.lean", "GeoProofs/Lemmas/C02XConst.lean",
                   "GeoProofs/Lemmas/C02XLinear.lean", "GeoProofs/Lemmas/C02XSegs.lean", "GeoProofs/Lemmas/C02XCommon.lean",
                   "GeoProofs/Lemmas/C02XAcc.lean", "GeoProofs/Lemmas/C02XPoint.lean", "GeoProofs/Lemmas/C02XKernel.lean",
                   "GeoProofs/Lemmas/C02XThin.lean", "GeoProofs/Lemmas/C02XPairs.lean", "GeoProofs/Lemmas/C02XAreal.lean",
                   "GeoProofs/Lemmas/C07XSets.lean", "GeoProofs/Lemmas/C07XValid.lean", "GeoProofs/Lemmas/C07XKern.lean",
                   "GeoProofs/Lemmas/C07XNest.lean", "GeoProofs/Lemmas/C07XPoly.lean",
                   "GeoProofs/Lemmas/C02YAreal.lean", "GeoProofs/Lemmas/C02YPairs.lean", "GeoProofs/Lemmas/C02YMask.lean",
                   "GeoProofs/Lemmas/C02YContains.lean", "GeoProofs/Lemmas/C02YCoords.lean", "GeoProofs/Lemmas/C02YPoint.lean",
                   "GeoProofs/Lemmas/C02YPointSpec.lean", "GeoProofs/Lemmas/C02YAvoid.lean", "GeoProofs/Lemmas/C02YLinear.lean",
                   "GeoProofs/Lemmas/C02YRectWind.lean", "GeoProofs/Lemmas/C02YRect.lean", "GeoProofs/Lemmas/C02YLoop.lean",
                   "GeoProofs/Lemmas/C02ZChain.lean", "GeoProofs/Lemmas/C02ZTrace.lean", "GeoProofs/Lemmas/C02ZSweep.lean",
                   "GeoProofs/Lemmas/C02ZLoop.lean", "GeoProofs/Lemmas/C02ZSimple.lean", "GeoProofs/Lemmas/C02ZLs.lean",
                   "GeoProofs/Lemmas/C02ZPairs.lean", "GeoProofs/Lemmas/C02ZRectE.lean", "GeoProofs/Lemmas/C02ZRectPoly.lean"],
    "rule": "2/3 of the cases: ordered pairs (A, B) over all 10 types (both through the Geometry enum) from one shared grid, B drawn independently or "
            "from A's own vertices / edge midpoints / edges (so containment is frequent): intersects(A,B), intersects(B,A), contains(A,B), is_within(A,B); "
            "1/3: coordinate_position(G, p) with p a vertex, an edge midpoint or a half-grid point. Three-way comparison per case: implementation, "
            "model of the implementation (one Lean term per Rust impl body, composed like the trait dispatch), and the specification (translated mask on "
            "the executable DE-9IM spec / exact point location). Invalid operands are SKIPped. distinct by input text; bbox-disjoint pairs are tagged triv. Rounds 9-10: polygons with disjoint holes whose boxes overlap, island-in-a-lake multipolygons, plates with a non-convex (U-shaped) hole against partners whose vertices all lie in the hole (tongue_pair), 1 case in 25 each.",
    "trusted_base": [
        "spec adequacy S1/S2 as for C01 (the DE-9IM spec and exact point location are definitions, not derived from point-set topology)",
        "translator/rs2lean.py + rsexpr.py (regenerate the mask predicates, enum declaration orders, the Rect/Line kernels and — statement fragment — "
        "every calculate_coordinate_position body, coord_pos_relative_to_ring and the provided coordinate_position method from the Rust source on every run); "
        "its explicit semantic choices (GeoModel/TRANPrelude.lean): Vec = List, usize/i32 counters = Nat/Int without overflow, Option::unwrap and "
        "partial_cmp().unwrap() total (panics are observed by the harness, not modelled), debug_assert! compiled out (release build), "
        "Vec indexing only under a dominating length guard, method resolution by the receiver's static type chosen per job",
    ],
    "assumptions": ["valid operands (GeoModel/Valid.lean); grid coordinates; degenerate (zero-area) Rect/Triangle operands are outside the stream",
                    "contains, three hand-written pairs (C02Z): LineString x Line / LineString x LineString with a CLOSED first operand whose closure point is strictly inside a (proper) "
                    "query segment - second pass of the truncation loop - and Rect x Polygon with every exterior coordinate on the boundary of the Rect - needs 'valid polygon => signed area != 0' - "
                    "are decided by the three-way correspondence, not by proof (hypotheses hnw / harea of the ..._partial theorems)"],
}

MANIFEST = {
    "technique": "Lean 4 proof (translated masks, kernel ↔ point-set lemmas, symmetry) + three-way correspondence implementation / model-of-implementation / DE-9IM specification",
    "text": "Every distinct Rust impl body of Intersects and Contains (and the coordinate_position accumulator per type) is one Lean term, composed exactly as the "
            "trait dispatch composes them; the mask predicates are regenerated from intersection_matrix.rs by a translator on every run and the theorems about them "
            "(is_contains = T*****FF*, is_within = T*F**F***, is_intersects = not FF*FF****, within = contains on the transpose, symmetry) are re-checked. Kernel "
            "theorems: point-on-segment and segment-segment intersects are equivalent to the point-set statements; Rect×Rect and Line×Line symmetric; "
            "within(a,b) = contains(b,a). Fast path = specification, proved for all inputs: geo's ring winding loop adds up exactly the increments of the "
            "specification's winding number (ringWinding_eq, ringPos_eq_spec); coordinate_position = exact point location (locate) for Point, MultiPoint, "
            "Line, LineString (open or closed, incl. soundness of the bounding-box early return), Rect of positive width and height, Triangle (every vertex "
            "order, degenerate or not); for Polygon under explicit hypotheses at the query point (closed rings; a point on a hole ring is not outside the "
            "shell; a point strictly inside a hole is on no hole ring: coordPos_polygon_eq_locate_partial), for MultiPolygon when members agree and no point "
            "is interior to one member and on the boundary of another, for MultiLineString when the point is an end point of at most one open member "
            "(coordPos_mls_eq_locate_partial) with the K9 witness proved (coordPos_mls_ne_locate_witness). Masks on the specification: for every geometry A, "
            "is_contains(relateSpec(A, Point c)) = (locate A c = Inside) and is_intersects(...) = (locate A c != Outside); hence the hand-written "
            "Contains<Point> bodies of Point, MultiPoint, Line, Rect (non-degenerate), Triangle, Polygon (same hypotheses) and the Intersects<Point> paths of "
            "Point, MultiPoint, Line, LineString, Rect, Triangle (non-degenerate; witness for the collinear case), Polygon equal the mask on the specification; "
            "Point.is_within(A) equals its own mask T*F**F*** on the specification whenever A.contains(Point) does. Dispatch: has_disjoint_bboxes is sound for the segment "
            "kernel (LineString x LineString, LineString x Line), MultiPoint / LineString / MultiPolygon / GeometryCollection clauses are (bbox test and) any "
            "over members, intersects is symmetric on every primitive pair except Triangle x Triangle and Polygon x Polygon, and for MultiPoint x primitive. "
            "From validity (C02Q): the specification's winding number is constant along a segment that meets no edge of a closed ring (windingE_const: per edge "
            "the increments at the two end points differ by a potential difference, which telescopes); hence the location relative to the shell is constant on "
            "every elementary sub-segment of a hole edge, and BE = F in polyValid gives hypothesis H1 (hole_ring_in_shell: no point of a hole ring is Outside the "
            "shell ring); coordinate_position = locate and contains(Point) = mask for every OGC-valid polygon under H2 alone "
            "(coordPos_polygon_eq_locate_valid_partial, containsM_polygon_point_valid_partial) and with no hypothesis for at most one hole "
            "(coordPos_polygon_eq_locate_one_hole); off a closed ring the winding number of a point perturbed by the symbolic infinitesimal is that of the point "
            "(windingE_perturb, first half of what H2 needs). H2 from validity (WIND): the winding number of the two face samples m +- delta*n beside a point m "
            "strictly inside an edge of a closed ring, on no other edge occurrence, differs by exactly one (windingE_jump: local form of the winding number of a "
            "perturbed point, windingE_local, plus the increment of the edge through m); a point of a simple ring that is not one of its coordinates lies on exactly "
            "one edge occurrence of the ring as written (ringSimple_unique_edge, through dedupConsecutive / allPairs); a vertex of the arrangement on a ring is moved "
            "to the midpoint of an adjacent elementary sub-segment without changing the winding number about the other ring; hence II = F between two simple rings "
            "keeps each ring out of the other's interior (rings_apart_of_ii_empty: a face atom beside the edge would be interior to both), the hole-pair clause of "
            "polyValid gives H2 (hole_interior_off_rings), and coordinate_position = locate, contains(Point) = mask, intersects(Point) = mask, "
            "Point.is_within(Polygon) = mask hold for EVERY OGC-valid polygon at every point with no further hypothesis (coordPos_polygon_eq_locate_valid, "
            "containsM_polygon_point_valid, intersectsM_polygon_point_valid, withinM_point_polygon_valid); MultiPolygon with valid members keeps only the "
            "member-against-member hypothesis (coordPos_multiPolygon_eq_locate_valid_partial). LineString::contains(Point) with >= 2 coordinates (index argument over enumerate(); witness for the "
            "one-coordinate case) and the fixed MultiLineString::contains(Point) (all member lists) equal the mask on the specification; Rect::contains(Rect) "
            "<=> every point of the inner closed rect is in the outer one (witness: not the DE-9IM mask for a zero-width Rect, K7); Line::contains(Line) <=> both "
            "end points <=> every point of the inner segment on the outer one (inner line a single point: located in the interior of the outer line). "
            "C02X (table of the 100 ordered type pairs x {intersects, contains} in GeoProofs/Lemmas/C02XTable.lean): (1) valid MultiPolygon with no hypothesis left: beside every "
            "non-vertex boundary point of an OGC-valid polygon one of the two face samples is interior (valid_polygon_side_inside: winding jump across a shell edge, "
            "one side of every edge of a simple ring is outside, IE = F / BE = F / BB <= 0 of polyValid keep the other rings away); hence II = F between two valid polygons "
            "forbids a point interior to one and on the boundary of the other (valid_polygons_apart, multiPolygon_members_apart) and coordinate_position = locate for every valid "
            "MultiPolygon (coordPos_multiPolygon_eq_locate_valid). (2) has_disjoint_bboxes is sound for EVERY pair of geometries of the validity domain, in point form and as "
            "'the specification has the shape FF*FF****' (disjointBB_sound_point, disjointBB_sound_spec; bounding_rect ignores holes but BE = F keeps hole coordinates in the shell's box), "
            "and for Polygon x Polygon through Rect/Triangle::to_polygon (polyPoly_shortcut_sound). (3) The mask 'not FF*FF****' on the specification is exactly 'the operands have a common "
            "point' for all operands with closed rings (isIntersects_iff_common_point(_dom)): point location is constant on elementary sub-segments of the arrangement "
            "(Geo.Proofs.C02X.locate_const), a face atom sits beside a point on or inside the polygon, a common point off the arrangement is walked to the first ring it meets. "
            "(4) Every kernel except Polygon x Polygon is a point-set statement: polyLine / rectLine / triangle-to_polygon-Line <=> the segment has a point in the area "
            "(polyLine_iff_point_set, rectLine_iff_point_set, triLine_iff_point_set: a segment missing every ring keeps its winding numbers), rectRect_iff_point_set. "
            "(5) Hence intersects(a, b) = mask on the specification for EVERY pair of the domain in which one operand has no areal member (Point, Line, LineString, MultiPoint, "
            "MultiLineString, collections of these; the other operand arbitrary, nested collections included): intersectsM_eq_spec_partial, intersectsM_iff_common_partial, symmetric "
            "(intersectsM_symm_thin_partial) - 76 of the 100 type pairs, plus Rect x Rect (intersectsM_rect_rect_eq_spec); the nine Line/LineString/MultiLineString pairs for ALL inputs as "
            "'some segment pair shares a point' (intersectsM_linear_iff, intersectsM_linear_eq_spec). Open (correspondence only): the 15 pairs of areal types that run the "
            "Polygon x Polygon body (intersectsM_areal_dispatch); for them: what the body computes is characterised exactly (polyPoly_iff_boundary: a ring point of q in p or a shell "
            "point of p in q, bbox early returns included), true => the mask holds (intersectsM_areal_sound, no false positive), and equality modulo one named step "
            "(intersectsM_polygon_polygon_partial: two valid polygons with a common point and non-meeting boundaries - one lies inside the other). (6) Against a Point, every geometry g of the domain, collections with disjoint members included: "
            "coordinate_position(g, p) = locate (coordPos_eq_locate_dom_partial; away from K9 only), intersects(g, Point) and intersects(Point, g) = mask (intersectsM_geom_point, "
            "intersectsM_point_geom; Point.intersects(g) = g.intersects(Point) for all inputs), contains(g, Point) = T*****FF* (containsM_geom_point), Point.is_within(g) = T*F**F*** "
            "(withinM_point_geom); the accumulator clauses are additive (calcPos_additive) and members of a domain collection are disjoint point sets (collection_members_apart). "
            "(7) contains: the 66 impl_contains_from_relate! pairs and the 8 MultiPolygon x linear/areal pairs are the mask on the matrix by definition (containsM_via_relate, "
            "containsM_multiPolygon_via_relate). "
            "C02Y: (a) the named step of (5) is proved from polyValid: two valid polygons (or to_polygon of a Rect / Triangle) with a common point have a ring point of one in the "
            "other or a shell point of the other in the first (valid_polygons_boundary_meets, contrapositive of C07X disjoint_of_ext_disjoint: exterior rings without a point in the other "
            "polygon are disjoint closed curves, outside each other or one inside a hole of the other - nested_rings, exterior_rings, windingE_const), hence Polygon x Polygon intersects <=> "
            "common point (polyPoly_iff_common) and, repeating the dispatch proof without the thin hypothesis, intersects(a, b) = mask on the specification and intersects symmetric for "
            "EVERY pair of geometries of the validity domain - all 100 type pairs, MultiPolygon operands, Rect / Triangle through to_polygon, collections with areal members "
            "(intersectsM_eq_spec, intersectsM_iff_common, intersectsM_symm). (b) The mask T*****FF* on the specification is a point-set statement when the second operand has no areal "
            "member: some point interior to both and every point of B a point of A (isContains_iff_point_set: every atom located in such a B is a point atom, every point of B has an atom). "
            "Hence the hand-written Contains bodies equal the mask on the validity domain: Point x X for all nine X, nested collections included (containsM_point_geom; model side by mutual "
            "recursion: valid linework has two distinct coordinates, every coordinate of a domain geometry is located in it, dims = Empty exactly for the members a collection skips; witness "
            "that the one-coordinate LineString outside the domain breaks it: pointContains_one_coordinate_witness), MultiPolygon x MultiPoint (containsM_multiPolygon_multiPoint), "
            "Line x Line (containsM_line_line), Line x LineString (containsM_line_lineString; an interior point off finitely many given points exists on every non-degenerate segment). "
            "(c) Rect x Rect (containsM_rect_rect; positive width and height, K7 excluded): both operands areal, the face samples m +- delta*n are located exactly - winding number of "
            "Rect::to_polygon about a point perturbed by the symbolic infinitesimal (rect_windingE) - so a face sample inside the inner Rect is inside the outer one and the sample above the "
            "inner bottom edge is interior to both. (d) LineString x Line: the specification side for ANY line string (isContains_lineString_line: mask <=> every point of the segment is on the "
            "line string), so the equality is reduced to that statement about the two-pass truncation loop (containsM_lineString_line_partial), and one half of it is proved: the loop has no false "
            "positive (containsM_lineString_line_sound; invariant of cutStep: every point of the query is on the line string or on what is left of the query). "
            "C02Z (the last three hand-written contains pairs): (e) LineString x Line, completeness of the truncation loop (lsContainsLine_iff_partial): in the parameter of the query line every "
            "segment of the line string has an empty trace or a closed interval whose end points are the segment's end points (trace_cases); one iteration of cutStep leaves the query alone, cuts it at "
            "an end point of the segment or returns true, and what is left of the query is covered by the LATER segments - finitely many segments are a closed set (covered_plus / covered_minus), and a "
            "segment lying in the middle of the query is impossible on a simple path (SimpleChain: a segment meets a later one only in its own end point or in the closure point; derived from "
            "lineStringSimple through dedupConsecutive / allPairs by simpleChain_of_simple, zero-length segments of the raw coordinate list included) - so the FIRST pass answers true (sweep, "
            "lsContainsLine_complete) for every valid line string and non-degenerate query EXCEPT: closed line string whose first (= last) coordinate lies strictly inside the query (noWrap = false; the "
            "first edge continues the last one and the query runs through the closure point - there only the second pass, up to the first cut segment, finishes; not proved, "
            "lineString_line_wrap_witness shows the class is inhabited and the code right on the witness). Hence LineString x Line = mask outside that class (containsM_lineString_line_noWrap_partial; "
            "all open line strings: containsM_lineString_line_open_partial). (f) LineString x LineString: reduced to the loop for all valid operands (containsM_lineString_lineString_loop_partial: a valid "
            "argument has a proper segment, every coordinate is an end point of a proper segment so the skipped zero-length segments add no point - fix f55ddeac -, a proper segment carries a point interior "
            "to both) and = mask when no proper segment of the argument runs through the closure point of a closed first operand (containsM_lineString_lineString_noWrap_partial). (g) Rect x Polygon "
            "(containsM_rect_polygon_partial; Rect of positive width and height, polygon empty or OGC-valid, holes included): an exterior coordinate outside the Rect is a vertex of the arrangement located in "
            "B and outside A; otherwise every point and every face sample located in the polygon is in the Rect - windingE_in_box: the winding number of a closed ring about a point perturbed by the symbolic "
            "infinitesimal vanishes unless the point is in the half-open coordinate box of the ring in the lexicographic order (infinitesimal versions of the four bounding-box lemmas, the left one by "
            "telescoping) - and a face sample beside a shell edge is interior to both; full strength when some exterior coordinate is strictly inside the Rect (containsM_rect_polygon_inner_partial), and "
            "under the hypothesis 'an OGC-valid polygon has non-zero signed area' when all of them are on the boundary of the Rect (the code's signed_area().is_zero() test; shoelace sum of a simple ring "
            "nonzero is not proved). "
            "Each generated case is compared three ways (implementation = model, implementation = specification). "
            "Translator ties (TRAN): the accumulator model is no longer only hand-written — ringPos_eq_source (coord_pos_relative_to_ring whole: prologue, "
            "winding loop with early return, final test), calculateCoordinatePosition_eq_source (the calculate_coordinate_position bodies of Coord, Point, "
            "Line, LineString, Triangle, Rect, MultiPoint, Polygon incl. the loop over interiors, MultiLineString, MultiPolygon, GeometryCollection as state transformers "
            "PosAcc -> PosAcc) and coordinatePosition_eq_source (the provided trait method) state that calcPoint / calcLine / calcLineString / "
            "calcTriangle / calcRect / calcPolygon+calcHoles / calcMultiPolygon / coordPos equal the terms regenerated from the Rust bodies on this run; "
            "contains_kernels_eq_source does the same for Line::contains(Coord), Line::contains(Line), Rect::contains(Polygon) (loop with early return and "
            "counter) and Triangle::intersects(Coord) (unrolled to_lines().map, sort = sort3, windows(2).any).",
    "note": "Trusted: Lean kernel + audited axioms; translator; harness (sampling); spec adequacy. Repaired in /repo by this work: Triangle coordinate_position "
            "(29720670), MultiPolygon shared vertex (5f41a6da), MultiPolygon::contains(MultiPoint) (d4024e6e), MultiLineString::contains(Point) (81f1ade9). "
            "Open: K9 coordinate_position(MultiLineString) at an end point shared by an even number of members (an existing unit test pins that behaviour). "
            "Proved vs sampled (C02X + C02Y, table in GeoProofs/Lemmas/C02XTable.lean): intersects = mask is PROVED for all inputs of the validity domain on all 100 ordered type pairs "
            "(collections with areal members included); contains = mask is PROVED for X x Point (10), Point x X (9), Line x Line, Line x LineString, MultiPolygon x MultiPoint, Rect x Rect "
            "(non-degenerate; K7 witness for the degenerate case), holds by definition on the 74 pairs that go through relate, and (C02Z) is PROVED outside one named input class each on LineString x Line and "
            "LineString x LineString (excluded, sampled only: closed line string with the query through its closure point - the second pass of the truncation loop) and Rect x Polygon (excluded, "
            "proved only modulo 'valid => signed area != 0': every exterior coordinate on the boundary of the Rect); coordinate_position = locate is PROVED for all ten types and collections (K9 excluded). "
            "The areal x areal proof imports the C07X lemmas (nested_rings / exterior_rings) - the same connectedness argument serves C07.",
}
