"""C08 — check configuration and MANIFEST entry."""
CFG = {'assumptions': ['f64 inputs cross the boundary as bit patterns and are decoded to exact rationals; Rust f64 ops are '
                 'IEEE-754 round-to-nearest-even without fused multiply-add (the model rounds after every arithmetic '
                 'operation of hull_set / square_euclidean_distance with its own roundF64)',
                 'orientation tests are exact: RobustKernel::orient2d returns the sign of the exact determinant for '
                 'f64, SimpleKernel on i64 does not overflow (|c| <= 2^29 enforced by the driver)',
                 'coordinates are finite'],
 'count': {'quick': 40000, 'thorough': 1600000},
 'translator': True,
 'lean_files': ['GeoModel/TRANPrelude.lean', 'GeoModel/TRAN2Prelude.lean', 'GeoModel/Gen/HullGen.lean', 'GeoProofs/Lemmas/TRAN2Hull.lean', 'GeoModel/Hull.lean',
                'GeoModel/Orient.lean',
                'GeoModel/Traverse.lean',
                'GeoModel/Ops/C08.lean',
                'GeoProofs/Lemmas/C08Mem.lean',
                'GeoProofs/Lemmas/C08Trivial.lean',
                'GeoProofs/Lemmas/C08QAlg.lean',
                'GeoProofs/Lemmas/C08QSort.lean',
                'GeoProofs/Lemmas/C08QScan.lean',
                'GeoProofs/Lemmas/C08QHull.lean',
                'GeoProofs/Lemmas/C08QQuick.lean',
                'GeoProofs/Lemmas/C08QRound.lean',
                'GeoProofs/Lemmas/C08QF64.lean',
                'GeoProofs/Lemmas/QHULCyc.lean',
                'GeoProofs/Lemmas/QHULRing.lean',
                'GeoProofs/Lemmas/QHULPart.lean',
                'GeoProofs/Lemmas/QHULSet.lean',
                'GeoProofs/Lemmas/QHULMain.lean',
                'GeoProofs/Lemmas/QHULUniq.lean',
                'GeoProofs/Lemmas/QHULDegen.lean'],
 'rule': 'coordinate multisets of 0-16 points (duplicates inserted) on 3x3..8x8 grids, boundary-heavy sets (many '
         'collinear boundary points), all-collinear sets, fewer than four points, exactly shifted/scaled grids, and '
         'regime-A sets with ~2^40..2^60 coordinates where the farthest-point dot product is rounded; as MultiPoint '
         '/ LineString / Polygon / MultiLineString / GeometryCollection; scalar f64 and i64; ops hull (quick_hull, '
         'graham_hull(false), graham_hull(true), ConvexHull::convex_hull) and mrr (minimum_rotated_rect); distinct '
         'by input text; empty inputs are tagged triv',
 'trusted_base': ['translator/rs2lean.py + rsexpr.py + jobs2.py for utils::lex_cmp, utils::least_index, the comparator closure and the per-point loop body of graham_hull '
                  '(explicit choices: Iterator::min_by = the first minimal element; the while loop runs on a claimed bound output.len() and answers none when it is '
                  'exhausted, proved never to happen; Vec::pop = dropLast, output[len - k] = total indexing; a.partial_cmp(&b).unwrap() on numbers = the total three-way '
                  'comparison, no NaN; Ordering::then = Ordering.then; exact rationals; the rest of the algorithm - recursion, while loops, '
                  'heaps, sorting - is not regenerated)',
                  'modelled, not verified: sort_unstable_by in graham_hull is modelled as insertion sort; cases '
                  'where two distinct collinear points get the same rounded distance (the only way the sorted '
                  'sequence is not unique) are SKIPped and counted',
                  'minimum_rotated_rect is compared numerically (area within 2^-36 relative to the squared '
                  'coordinate scale) with the exact minimum over hull-edge directions; trigonometry is not modelled',
                  'global convexity/containment is proved for the model of convex_hull / quick_hull and of the '
                  'Graham scan: with exact arithmetic (rnd = id: i64, or f64 on exactly representable data) for all '
                  'inputs with three non-collinear coordinates and no further hypothesis '
                  '(convexHull_isStrictHull_exact, quickHull_isStrictHull_exact, grahamHull_isStrictHull_exact); '
                  'with roundF64 for all inputs outside the SKIP class grahamTie '
                  '(convexHull_isStrictHull_f64_partial, quickHull_isStrictHull_f64_partial, '
                  'grahamHull_isStrictHull_f64_partial; roundF64 is proved monotone); the ring quick-hull keeps '
                  'after is_strict_ccw_hull is the strict hull for every rounding function with no hypothesis on the '
                  'arithmetic (quickHull_kept_ring_isStrictHull) - the tie hypothesis is only used by the Graham '
                  'fallback; the checker isStrictHull is still evaluated on the implementation output of every case '
                  '(it ties the model to the code)']}

MANIFEST = {'note': 'Trusted: Lean 4.33 kernel (axioms propext, Classical.choice, Quot.sound only; audited per theorem each '
         'run; no sorry, no native_decide, no added axioms); the Lean compiler running the model; the Rust harness, '
         'generators and line protocol (sampling, not proof). The theorems are about the hand-written model; the '
         'model is tied to the code by running both on the same inputs each run. Global correctness (closed, '
         'strictly convex, counter-clockwise, vertices are input coordinates, contains every input coordinate) IS '
         'proved for the model of convex_hull / quick_hull and of graham_hull(false): with exact arithmetic for all '
         'inputs with three non-collinear coordinates, with binary64 rounding for all such inputs outside the SKIP '
         'class grahamTie (a hypothesis used only by the Graham fallback; the ring quick-hull keeps after its '
         "verification is proved correct for every rounding function). The fix: commit's is_strict_ccw_hull tests "
         'local convexity and single winding only; that this implies global convexity, and that containment of the '
         'input follows from the structure of hull_set, are theorems, so no defect was found in the verified path. '
         'Uniqueness of the strict hull is proved, so quick-hull and Graham provably have the same vertex set. '
         'Degenerate inputs (no three non-collinear coordinates) are characterised exactly. Two defects (F6 ties, K5 '
         'rounding in the farthest-point search) were repaired earlier by one fix: commit that verifies the '
         'quick-hull ring and falls back to the Graham scan.',
 'technique': 'Lean 4 proof (structural induction over the mirrored quick-hull/Graham/trivial-hull code; checker '
              'soundness) + model/implementation correspondence incl. an exact binary64 rounding model',
 'text': 'Translator tie (TRAN2, hullComparators_eq_source): lexLt is Less of the regenerated utils::lex_cmp and grahamLe rnd is not-Greater of the '
         'regenerated comparator closure of graham_hull (GeoModel/Gen/HullGen.lean, read off utils.rs / graham.rs on this run), for every rounding function; leastIndex is the regenerated utils::least_index '
         '(leastIndex_eq_source) and grahamStep is the regenerated body of the per-point loop of graham_hull, pop-while loop and push, on a non-empty stack '
         '(grahamLoopBody_eq_source_partial). '
         'Exact Lean mirrors of quick_hull (slice permutations, last-maximum tie-break, dot product rounded in the '
         'scalar type, ring verification + Graham fallback added by the fix commit), graham_hull, trivial_hull, '
         'ConvexHull and the trigonometry-free skeleton of minimum_rotated_rect. Proved for all inputs and every '
         'rounding function: hull vertices are input coordinates and the ring is closed (hull_set, quick-hull, '
         'Graham, trivial hull, ConvexHull; convex_hull = quick_hull ring); quick_hull returns either a ring that '
         'passed its verification or the Graham ring; the Graham stack pass keeps a strictly left-turning chain '
         '(graham_pass_convex_partial: local invariant, any input order). Global correctness of the Graham scan: the '
         'orientation order around the lexicographically least point is transitive in its half-plane '
         '(orientation_order_trans, graham_cmp_trans) and the comparator is total (graham_cmp_total); the insertion '
         'sort returns a comparator-sorted list for every rounding (graham_sort_sorted), which is SortedAround in '
         'exact terms when rounded distances order collinear points like exact ones '
         '(graham_sort_sortedAround_partial, _exact for rnd = id); a popped point lies in the triangle pivot / point '
         'below / new point (graham_popped_in_triangle); on a sorted list the stack pass keeps pivot + stack in '
         'strictly convex position (every ordered triple turns left) and every processed point in the convex hull of '
         'the stack (graham_pass_global_partial); hence the checker accepts the Graham ring: '
         'grahamHull_isStrictHull_exact (rnd = id, all inputs with three non-collinear coordinates, no further '
         'hypothesis), grahamHull_isStrictHull_partial and graham_contains_partial (any rounding, hypothesis '
         'DistExactPivot: seen from the pivot, rounded squared distances order collinear points like exact ones), '
         'grahamHull_isStrictHull_notie_partial (any monotone rounding with rnd 0 = 0, input outside the SKIP class '
         'grahamTie; distExactPivot_monotone), grahamHull_isStrictHull_f64_partial (rnd = roundF64, which is proved '
         'monotone with roundF64 0 = 0: roundF64_monotone; only hypothesis: not in the SKIP class grahamTie), '
         'graham_contains_exact; the slice quick_hull hands to its Graham fallback has exactly the input coordinates '
         '(quickHullRaw_same_coords). CORRECTNESS OF THE QUICK-HULL PATH: is_strict_ccw_hull (every cyclic triple '
         'strictly left, the lexicographic direction of the edges changes exactly twice) implies that every vertex '
         'of the ring is left of or on every edge (strictCcwHull_is_convex: the edge vectors of each '
         'lexicographically monotone run lie in a half-plane where the cross product is a strict order, so seen from '
         'any edge the cross products with the following edges are positive, then non-positive, and sum to zero); '
         'the check does not test containment of the input - containment is proved from the structure of the '
         'recursion: partition_slice partitions (partition_slice_spec), the first two removals are a '
         'lexicographically least and greatest coordinate (quickHull_min_max), every point dropped by hull_set lies '
         'in the triangle a, b, farthest point whatever point the rounded, tie-prone search picked '
         '(hullSet_spans_slice), so every input coordinate is in the convex hull of the ring for every rounding '
         'function (quickHull_ring_spans_input); hence a verified ring passes the checker '
         '(verified_ring_is_strict_hull, quickHull_kept_ring_isStrictHull, quickHull_isStrictHull_of_verified: any '
         'rounding, no hypothesis on the arithmetic), with three non-collinear coordinates the ring always has four '
         'or more coordinates and is verified (quickHull_ring_verified_when_triangle), the hypothesis hraw of the '
         'wave-3 theorems holds (quickHull_hraw), and convexHull_isStrictHull_exact / quickHull_isStrictHull_exact / '
         'convexHull_contains_exact (rnd = id: all inputs with three non-collinear coordinates, no further '
         'hypothesis), quickHull_isStrictHull_distExact_partial (any rounding, DistExactPivot, needed by the Graham '
         'fallback only), convexHull_isStrictHull_f64_partial / quickHull_isStrictHull_f64_partial (roundF64, '
         'outside the SKIP class grahamTie). UNIQUENESS: two rings accepted by the checker for the same coordinates '
         'have the same vertex set (strict_hull_unique), so quick-hull and Graham agree '
         '(quick_graham_same_vertices_exact, quick_graham_same_vertices_f64_partial). DEGENERATE INPUTS: without '
         'three non-collinear coordinates convex_hull returns the closed pair of a lexicographically least and '
         'greatest coordinate, [m, M, m] for fewer than four coordinates, [M, m, M] for four or more, [m, m] when '
         'all are equal (convexHull_degenerate, quickHull_collinear_ring, close_pair_eq; trivialHull_degenerate for '
         'zero / one coordinate); for fewer than four coordinates with a triangle the whole property holds '
         '(trivialHull_correct, small_hull_correct); the decidable checker isStrictHull is sound and complete for '
         'its four clauses (closed, strict left turn at every vertex hence no repeated vertex and none on the line '
         'through its neighbours, vertices are input coordinates, every input coordinate left of or on every edge) '
         'and accepts nothing for inputs without three non-collinear coordinates; every candidate box of '
         'minimum_rotated_rect contains all hull vertices and the minimum is taken (mrr_contains, minBoxArea_le); '
         'kernel-evaluated witnesses of the two repaired defects. NOT proved: quick-hull / Graham on f64 inputs with '
         'a rounded-distance tie in the Graham fallback (SKIPped; decided on every generated case by the checker on '
         'the implementation output, quick-hull vs Graham vertex sets compared), and area(mrr) <= area(bounding '
         'rect) (needs Freeman-Shapira; checked numerically per case).'}
