"""C08 — check configuration and MANIFEST entry."""
CFG = {'assumptions': ['f64 inputs cross the boundary as bit patterns and are decoded to exact rationals; Rust f64 '
                 'ops are IEEE-754 round-to-nearest-even without fused multiply-add (the model rounds after '
                 'every arithmetic operation of hull_set / square_euclidean_distance with its own roundF64)',
                 'orientation tests are exact: RobustKernel::orient2d returns the sign of the exact determinant '
                 'for f64, SimpleKernel on i64 does not overflow (|c| <= 2^29 enforced by the driver)',
                 'coordinates are finite'],
 'count': {'quick': 40000, 'thorough': 1600000},
 'lean_files': ['GeoModel/Hull.lean', 'GeoModel/Orient.lean', 'GeoModel/Traverse.lean', 'GeoModel/Ops/C08.lean',
                'GeoProofs/Lemmas/C08Mem.lean', 'GeoProofs/Lemmas/C08Trivial.lean'],
 'rule': 'coordinate multisets of 0-16 points (duplicates inserted) on 3x3..8x8 grids, boundary-heavy sets (many '
         'collinear boundary points), all-collinear sets, fewer than four points, exactly shifted/scaled grids, '
         'and regime-A sets with ~2^40..2^60 coordinates where the farthest-point dot product is rounded; '
         'as MultiPoint / LineString / Polygon / MultiLineString / GeometryCollection; scalar f64 and i64; '
         'ops hull (quick_hull, graham_hull(false), graham_hull(true), ConvexHull::convex_hull) and mrr '
         '(minimum_rotated_rect); distinct by input text; empty inputs are tagged triv',
 'trusted_base': ['modelled, not verified: sort_unstable_by in graham_hull is modelled as insertion sort; cases '
                  'where two distinct collinear points get the same rounded distance (the only way the sorted '
                  'sequence is not unique) are SKIPped and counted',
                  'minimum_rotated_rect is compared numerically (area within 2^-36 relative to the squared '
                  'coordinate scale) with the exact minimum over hull-edge directions; trigonometry is not modelled',
                  'global convexity/containment of the recursive hulls is not proved for the model; it is decided '
                  'on every case by the verified checker isStrictHull evaluated on the implementation output']}

MANIFEST = {'note': 'Trusted: Lean 4.33 kernel (axioms propext, Classical.choice, Quot.sound only; audited per theorem '
         'each run; no sorry, no native_decide, no added axioms); the Lean compiler running the model; the '
         'Rust harness, generators and line protocol (sampling, not proof). The theorems are about the '
         'hand-written model; the model is tied to the code by running both on the same inputs each run. '
         'Global correctness of quick-hull/Graham (containment, convexity) is NOT proved; it is decided per case '
         'by the checker isStrictHull whose soundness lemmas are proved. Two defects (F6 ties, K5 rounding in '
         'the farthest-point search) were repaired by one fix: commit that verifies the quick-hull ring and falls '
         'back to the Graham scan.',
 'technique': 'Lean 4 proof (structural induction over the mirrored quick-hull/Graham/trivial-hull code; checker '
              'soundness) + model/implementation correspondence incl. an exact binary64 rounding model',
 'text': 'Exact Lean mirrors of quick_hull (slice permutations, last-maximum tie-break, dot product rounded in the '
         'scalar type, ring verification + Graham fallback added by the fix commit), graham_hull, trivial_hull, '
         'ConvexHull and the trigonometry-free skeleton of minimum_rotated_rect. Proved for all inputs and every '
         'rounding function: hull vertices are input coordinates and the ring is closed (hull_set, quick-hull, '
         'Graham, trivial hull, ConvexHull; convex_hull = quick_hull ring); quick_hull returns either a ring that '
         'passed its verification or the Graham ring; the Graham stack pass keeps a strictly left-turning chain '
         '(graham_pass_convex_partial: local invariant only); for fewer than four coordinates the whole property '
         'holds (trivialHull_correct, small_hull_correct); the decidable checker isStrictHull is sound and '
         'complete for its four clauses (closed, strict left turn at every vertex hence no repeated vertex and '
         'none on the line through its neighbours, vertices are input coordinates, every input coordinate left '
         'of or on every edge) and accepts nothing for inputs without three non-collinear coordinates; every '
         'candidate box of minimum_rotated_rect contains all hull vertices and the minimum is taken '
         '(mrr_contains, minBoxArea_le); kernel-evaluated witnesses of the two repaired defects. NOT proved: '
         'global convexity/containment of quick-hull and Graham for four or more points (decided on every '
         'generated case by the checker on the implementation output, quick-hull vs Graham vertex sets '
         'compared), and area(mrr) <= area(bounding rect) (needs Freeman-Shapira; checked numerically per case).'}
