"""C08 — check configuration and MANIFEST entry."""
CFG = {'assumptions': ['f64 inputs cross the boundary as bit patterns and are decoded to exact rationals; Rust f64 '
                 'ops are IEEE-754 round-to-nearest-even without fused multiply-add (the model rounds after '
                 'every arithmetic operation of hull_set / square_euclidean_distance with its own roundF64)',
                 'orientation tests are exact: RobustKernel::orient2d returns the sign of the exact determinant '
                 'for f64, SimpleKernel on i64 does not overflow (|c| <= 2^29 enforced by the driver)',
                 'coordinates are finite'],
 'count': {'quick': 40000, 'thorough': 1600000},
 'lean_files': ['GeoModel/Hull.lean', 'GeoModel/Orient.lean', 'GeoModel/Traverse.lean', 'GeoModel/Ops/C08.lean',
                'GeoProofs/Lemmas/C08Mem.lean', 'GeoProofs/Lemmas/C08Trivial.lean',
                'GeoProofs/Lemmas/C08QAlg.lean', 'GeoProofs/Lemmas/C08QSort.lean', 'GeoProofs/Lemmas/C08QScan.lean',
                'GeoProofs/Lemmas/C08QHull.lean', 'GeoProofs/Lemmas/C08QQuick.lean', 'GeoProofs/Lemmas/C08QRound.lean',
                'GeoProofs/Lemmas/C08QF64.lean'],
 'rule': 'coordinate multisets of 0-16 points (duplicates inserted) on 3x3..8x8 grids, boundary-heavy sets (many '
         'collinear boundary points), all-collinear sets, fewer than four points, exactly shifted/scaled grids, '
         'and regime-A sets with ~2^40..2^60 coordinates where the farthest-point dot product is rounded; '
         'as MultiPoint / LineString / Polygon / MultiLineString / GeometryCollection; scalar f64 and i64; '
         'ops hull (quick_hull, graham_hull(false), graham_hull(true), ConvexHull::convex_hull) and mrr '
         '(minimum_rotated_rect); distinct by input text; empty inputs are tagged triv',
 'trusted_base': ['modelled, not verified: sort_unstable_by in graham_hull is modelled as insertion sort; cases '
                  'where two distinct collinear points get the same rounded distance (the only way the sorted '
                  'sequence is not unique) are SKIPped and counted',
                  'minimum_rotated_rect is compared numerically (area within 2^-36 relative to the squared '
                  'coordinate scale) with the exact minimum over hull-edge directions; trigonometry is not modelled',
                  'global convexity/containment is proved for the model Graham scan: with exact distances for all inputs '
                  '(grahamHull_isStrictHull_exact), with roundF64 distances for all inputs outside the SKIP class '
                  'grahamTie (grahamHull_isStrictHull_f64_partial; roundF64 is proved monotone); it is not proved for '
                  'the ring kept by the recursive hull_set of quick-hull; there it is decided on every case by the '
                  'verified checker isStrictHull evaluated on the implementation output']}

MANIFEST = {'note': 'Trusted: Lean 4.33 kernel (axioms propext, Classical.choice, Quot.sound only; audited per theorem '
         'each run; no sorry, no native_decide, no added axioms); the Lean compiler running the model; the '
         'Rust harness, generators and line protocol (sampling, not proof). The theorems are about the '
         'hand-written model; the model is tied to the code by running both on the same inputs each run. '
         'Global correctness (containment, convexity) of the Graham scan IS proved for the model: with exact '
         'distances for all inputs, with binary64-rounded distances for all inputs outside the SKIP class grahamTie '
         '(generally under the explicit hypothesis DistExactPivot); for the ring kept by the recursive '
         'quick-hull it is NOT proved; there it is decided per case '
         'by the checker isStrictHull whose soundness lemmas are proved. Two defects (F6 ties, K5 rounding in '
         'the farthest-point search) were repaired by one fix: commit that verifies the quick-hull ring and falls '
         'back to the Graham scan.',
 'technique': 'Lean 4 proof (structural induction over the mirrored quick-hull/Graham/trivial-hull code; checker '
              'soundness) + model/implementation correspondence incl. an exact binary64 rounding model',
 'text': 'Exact Lean mirrors of quick_hull (slice permutations, last-maximum tie-break, dot product rounded in the '
         'scalar type, ring verification + Graham fallback added by the fix commit), graham_hull, trivial_hull, '
         'ConvexHull and the trigonometry-free skeleton of minimum_rotated_rect. Proved for all inputs and every '
         'rounding function: hull vertices are input coordinates and the ring is closed (hull_set, quick-hull, '
         'Graham, trivial hull, ConvexHull; convex_hull = quick_hull ring); quick_hull returns either a ring that '
         'passed its verification or the Graham ring; the Graham stack pass keeps a strictly left-turning chain '
         '(graham_pass_convex_partial: local invariant, any input order). Global correctness of the Graham scan: '
         'the orientation order around the lexicographically least point is transitive in its half-plane '
         '(orientation_order_trans, graham_cmp_trans) and the comparator is total (graham_cmp_total); the insertion '
         'sort returns a comparator-sorted list for every rounding (graham_sort_sorted), which is SortedAround in '
         'exact terms when rounded distances order collinear points like exact ones (graham_sort_sortedAround_partial, '
         '_exact for rnd = id); a popped point lies in the triangle pivot / point below / new point '
         '(graham_popped_in_triangle); on a sorted list the stack pass keeps pivot + stack in strictly convex position '
         '(every ordered triple turns left) and every processed point in the convex hull of the stack '
         '(graham_pass_global_partial); hence the checker accepts the Graham ring: grahamHull_isStrictHull_exact '
         '(rnd = id, all inputs with three non-collinear coordinates, no further hypothesis), '
         'grahamHull_isStrictHull_partial and graham_contains_partial (any rounding, hypothesis DistExactPivot: seen '
         'from the pivot, rounded squared distances order collinear points like exact ones), '
         'grahamHull_isStrictHull_notie_partial (any monotone rounding with rnd 0 = 0, input outside the SKIP class '
         'grahamTie; distExactPivot_monotone), grahamHull_isStrictHull_f64_partial (rnd = roundF64, which is proved '
         'monotone with roundF64 0 = 0: roundF64_monotone; only hypothesis: not in the SKIP class grahamTie), '
         'graham_contains_exact; the slice quick_hull hands to its Graham fallback has exactly the input coordinates '
         '(quickHullRaw_same_coords), so quick_hull / convex_hull are accepted whenever the fallback is taken or fewer '
         'than four coordinates are given (quickHull_isStrictHull_partial, convexHull_isStrictHull_partial: acceptance '
         'of a kept quick-hull ring is a hypothesis); for fewer than four coordinates the whole property '
         'holds (trivialHull_correct, small_hull_correct); the decidable checker isStrictHull is sound and '
         'complete for its four clauses (closed, strict left turn at every vertex hence no repeated vertex and '
         'none on the line through its neighbours, vertices are input coordinates, every input coordinate left '
         'of or on every edge) and accepts nothing for inputs without three non-collinear coordinates; every '
         'candidate box of minimum_rotated_rect contains all hull vertices and the minimum is taken '
         '(mrr_contains, minBoxArea_le); kernel-evaluated witnesses of the two repaired defects. NOT proved: '
         'containment for the ring kept by the recursive quick-hull (four or more points) and Graham on inputs '
         'with a rounded-distance tie (SKIPped) (decided on every '
         'generated case by the checker on the implementation output, quick-hull vs Graham vertex sets '
         'compared), and area(mrr) <= area(bounding rect) (needs Freeman-Shapira; checked numerically per case).'}
