"""C16 — check configuration and MANIFEST entry."""
CFG = {'assumptions': ['f64 inputs and outputs cross the boundary as bit patterns and are decoded to exact rationals; '
                 'Rust f64 ops are IEEE-754',
                 'geographiclib-rs (Karney direct/inverse) is an engine parameter of the model: its accuracy is '
                 "observed through geo's API, not proved",
                 'libm sin/cos/tan/atan2/asin/ln are engine parameters of the model; for Haversine distance, bearing '
                 'and destination the driver instantiates them with truncated series / Newton iterations on a '
                 '2^-100 rational grid (GeoModel/GeodesyNum.lean, accuracy not proved) and demands agreement with '
                 'the implementation to 1e-9 relative / a tenth of the millimetre tolerance'],
 'count': {'quick': 30000, 'thorough': 1500000},
 'lean_files': ['GeoModel/Geodesy.lean', 'GeoModel/GeodesyNum.lean', 'GeoModel/Ops/C16.lean'],
 'rule': 'metric space in {Haversine, HaversineMeasure::new(R), Geodesic (WGS84), GeodesicMeasure::new(a, f), Rhumb} x '
         '{pair (a, b, ratio): distance both ways and to self, bearing both ways, round trip, ratio point, ratio 0/1; '
         'destination (a, bearing in [-720, 1080], distance in [-1e6, 9e6] m, +360k and reversed variants); '
         'Length of Line / LineString (0..8 points) / MultiLineString; points_along_line (max from the real '
         'distance: short-circuit, equal, exact divisors, random)}. Points over the whole sphere: grid '
         'longitudes/latitudes, area-uniform, both sides of the antimeridian, polar caps (|lat| > 89, incl. +-90), '
         'identical, nearly coincident (1e-12..1e-3 deg), nearly antipodal, same meridian, same / almost same '
         'parallel, metre-to-kilometre hops. Distinct by input text; Length of 0/1-point lines is tagged triv.',
 'trusted_base': ['tolerances: round trip / ratio / periodicity 1 mm on the mean Earth radius (scaled with the radius '
                  'for custom spheres/ellipsoids), measured with the implementation\'s own distance AND with an '
                  'exact-rational local metric (2 % slack for ellipsoidal curvature); symmetry 1e-9 relative; '
                  'Length: bit-exact against the binary64-emulated fold of the reported segment distances',
                  "'away from poles and antipodes' is made precise as: both points have |lat| <= 89 deg and a is "
                  'not within about 2 deg of the antipode of b; outside this domain only finiteness, sign, '
                  'symmetry, zero and the bearing range are demanded',
                  'points_along_line step counts of Haversine/Rhumb (total computed internally from a second '
                  'formula) are skipped when total/max is within rounding of an integer (near-tie)',
                  'the Rhumb formulas and the Haversine intermediate-point formula of the model are used by the '
                  'theorems only; they are not evaluated by the driver (no model/implementation comparison of '
                  'their values beyond the identities checked on the implementation side)',
                  'the formulas themselves (spherical trigonometry, loxodrome) are not proved correct: the inverse '
                  'relationship is checked on the implementation\'s values']}

MANIFEST = {'note': 'Label: partial. Trusted: Lean 4.33 kernel (axioms propext, Classical.choice, Quot.sound only; audited '
         'per theorem each run; no sorry, no native_decide, no added axioms); the Lean compiler running the '
         'checker; the Rust harness, generators and line protocol (sampling, not proof). Proved: ranges, '
         'symmetry, sign, zero, sums, dispatch, normalisation (for the model). NOT proved: the inverse '
         'relationship destination(a, bearing(a,b), distance(a,b)) = b and the ratio division (spherical / '
         'ellipsoidal trigonometry is not formalised; libm and geographiclib-rs are engine parameters); these '
         'are checked on the implementation\'s values each run. Two defects found by this check were repaired '
         'in the geo repository (K16a Rhumb near east-west courses, K16b normalize_longitude below -540).',
 'technique': 'Lean 4 proofs about the normalisation / dispatch / fold logic and (over the reals, Mathlib) the '
              'Haversine and Rhumb distance expressions + a Lean checker of the metric identities on the '
              "implementation's values (millimetre tolerance, exact rational arithmetic) on generated point pairs",
 'text': 'see lean/GeoProofs/Props/C16.lean'}
