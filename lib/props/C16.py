"""C16 — check configuration and MANIFEST entry."""
CFG = {'scale_variants': False,   # coordinates are degrees of longitude / latitude
 'assumptions': ['f64 inputs and outputs cross the boundary as bit patterns and are decoded to exact rationals; '
                 'Rust f64 ops are IEEE-754',
                 'geographiclib-rs (Karney direct/inverse) is an engine parameter of the model: its accuracy is '
                 "observed through geo's API, not proved",
                 'libm sin/cos/tan/atan2/asin/ln are engine parameters of the model; for Haversine distance, bearing '
                 'and destination the driver instantiates them with truncated series / Newton iterations on a '
                 '2^-100 rational grid (GeoModel/GeodesyNum.lean) and demands agreement with the implementation '
                 'to 1e-9 relative / a tenth of the millimetre tolerance. Accuracy of the engine: PROVED against '
                 "Mathlib's real functions for piQ (2e-40), sin/cos (2^-92 on the reduced range, 2^-91 up to "
                 '|x| = 1000), sqrt (one grid step) and, given the a posteriori arcsine certificate '
                 '(GeodesyNum.asinCert / havCert, evaluated by the driver on every Haversine pair; a failure is '
                 'a model mismatch), for the Haversine distance: within R*2^-40 (6 micrometres on the mean Earth) '
                 'of the real-number formula. NOT proved: convergence of the Newton arcsine (hence the '
                 'certificate); the engine error of bearing and destination (atan2Q is proved only a posteriori and '
                 'its certificate is not evaluated by the driver)'],
 'count': {'quick': 30000, 'thorough': 1500000},
 'lean_files': ['GeoModel/Geodesy.lean', 'GeoModel/GeodesyNum.lean', 'GeoModel/Ops/C16.lean',
                'GeoProofs/Lemmas/C16QSeries.lean', 'GeoProofs/Lemmas/C16QTaylor.lean',
                'GeoProofs/Lemmas/C16QTrig.lean', 'GeoProofs/Lemmas/C16QAsin.lean',
                'GeoProofs/Lemmas/C16QHav.lean', 'GeoProofs/Lemmas/C16QAtan2.lean'],
 'rule': 'metric space in {Haversine, HaversineMeasure::new(R), Geodesic (WGS84), GeodesicMeasure::new(a, f), Rhumb} x '
         '{pair (a, b, ratio): distance both ways and to self, bearing both ways, round trip, ratio point, ratio 0/1; '
         'destination (a, bearing in [-720, 1080], distance in [-1e6, 9e6] m, +360k and reversed variants); '
         'Length of Line / LineString (0..8 points) / MultiLineString; points_along_line (max from the real '
         'distance: short-circuit, equal, exact divisors, random)}. Points over the whole sphere: grid '
         'longitudes/latitudes, area-uniform, both sides of the antimeridian, polar caps (|lat| > 89, incl. +-90), '
         'identical, nearly coincident (1e-12..1e-3 deg), nearly antipodal, same meridian, same / almost same '
         'parallel, metre-to-kilometre hops. Distinct by input text; Length of 0/1-point lines is tagged triv.',
 'trusted_base': ['tolerances: round trip / ratio / periodicity 1 mm on the mean Earth radius (scaled with the radius '
                  'for custom spheres/ellipsoids), measured with the implementation\'s own distance AND with an '
                  'exact-rational local metric (2 % slack for ellipsoidal curvature); symmetry 1e-9 relative; '
                  'Length: bit-exact against the binary64-emulated fold of the reported segment distances',
                  "'away from poles and antipodes' is made precise as: both points have |lat| <= 89 deg and a is "
                  'not within about 2 deg of the antipode of b; outside this domain only finiteness, sign, '
                  'symmetry, zero and the bearing range are demanded',
                  'points_along_line step counts of Haversine/Rhumb (total computed internally from a second '
                  'formula) are skipped when total/max is within rounding of an integer (near-tie)',
                  'the Rhumb formulas and the Haversine intermediate-point formula of the model are used by the '
                  'theorems only; they are not evaluated by the driver (no model/implementation comparison of '
                  'their values beyond the identities checked on the implementation side)',
                  'the formulas themselves (spherical trigonometry, loxodrome) are not proved correct: the inverse '
                  'relationship is checked on the implementation\'s values']}

MANIFEST = {'note': 'Label: partial. Trusted: Lean 4.33 kernel (axioms propext, Classical.choice, Quot.sound only; audited '
         'per theorem each run; no sorry, no native_decide, no added axioms); the Lean compiler running the '
         'checker; the Rust harness, generators and line protocol (sampling, not proof). Proved: ranges, '
         'symmetry, sign, zero, sums, dispatch, normalisation (for the model). NOT proved: the inverse '
         'relationship destination(a, bearing(a,b), distance(a,b)) = b and the ratio division (spherical / '
         'ellipsoidal trigonometry is not formalised; libm and geographiclib-rs are engine parameters); these '
         'are checked on the implementation\'s values each run. Two defects found by this check were repaired '
         'in the geo repository (K16a Rhumb near east-west courses, K16b normalize_longitude below -540).',
 'technique': 'Lean 4 proofs about the normalisation / dispatch / fold logic and (over the reals, Mathlib) the '
              'Haversine and Rhumb distance expressions + a Lean checker of the metric identities on the '
              "implementation's values (millimetre tolerance, exact rational arithmetic) on generated point pairs",
 'text': 'see lean/GeoProofs/Props/C16.lean. Proved for the model: bearing_range(_rounded), bearing_edges, '
         'normalize_longitude_range / _id / _range_rounded (old formula: _partial + escape witness), length_sum, '
         'length_degenerate, length_two, lengthMLS_sum, pointAtRatio_endpoints / _inner, pointsAlong_short / _ends / '
         '_length, stepLoop_lt_one, geodesic_argument_order / _bearing_range / _distance_inherits / '
         '_roundtrip_partial, haversine_symm / _nonneg / _self, rhumb_nonneg / _self (over the reals). Proved for '
         'the rational engine of the driver against Mathlib real analysis (helpers in lean/GeoProofs/Lemmas/C16Q*.lean): '
         'piQ_close (piQ < pi < piQ + 2e-40), reduce_range, ratSeries_close (33 rounded terms within 2^-93 of '
         'sin/cos for |y| <= 3.15), ratSin_close / ratCos_close (every rational argument: 2^-92 + |k|*4e-40, k the '
         'reduction multiple), ratSinCos_close_reduced (2^-92 on [-piQ, piQ)), ratSinCos_close_1000 (2^-91), '
         'ratSqrt_close (0 <= r, r^2 <= q < (r + 2^-100)^2, residual), ratSqrt_real, arccos_a_posteriori '
         '(|A - arccos x| <= 2t + pi*sqrt(eta/2)), ratAsin_close_partial (2^-42 given asinCert), '
         'ratAtan2_close_partial (2^-41 against Complex.arg, root >= 2^-40, given asinCert), haversine_h_close '
         '(2^-87, h in [0,1]), haversine_distance_engine_close_partial (|engine - real formula| <= R*2^-40 for '
         '|lat| <= 90, |dlon| <= 1000, given havCert), its mean-Earth instance (6 micrometres), and '
         'haversine_distance_engine_close_interior_partial (R*2^-84/delta when h and the arcsine stay delta away '
         'from the ends: neither nearly coincident nor nearly antipodal).'}
