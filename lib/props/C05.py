"""C05 — check configuration and MANIFEST entry."""
CFG = {'assumptions': ['f64 inputs cross the boundary as bit patterns and are decoded to exact rationals; Rust f64 '
                 'ops are IEEE-754 (round to nearest); no overflow (|coordinate| <= 2^52 in the streams)',
                 'robust::orient2d returns the sign of the exact determinant (winding_order is compared '
                 'exactly, also on rounded far-from-origin rings)',
                 'polygon rings are closed (Polygon::new closes them; C18)'],
 'count': {'quick': 200000, 'thorough': 8000000},
 'lean_files': ['GeoModel/Area.lean', 'GeoModel/Winding.lean', 'GeoModel/SimpleRing.lean', 'GeoModel/Orient.lean',
                'GeoModel/Ops/C05.lean', 'GeoProofs/Lemmas/C05Area.lean', 'GeoProofs/Lemmas/C05Winding.lean',
                'GeoProofs/Lemmas/C05PConvex.lean', 'GeoProofs/Lemmas/C05PRotate.lean',
                'GeoProofs/Lemmas/C05PFloat.lean', 'GeoModel/TRANPrelude.lean', 'GeoModel/Gen/AreaGen.lean',
                'GeoProofs/Lemmas/TRANArea.lean', 'GeoModel/Valid.lean',
                'GeoProofs/Lemmas/SMLXSimple.lean', 'GeoProofs/Lemmas/SMLXPivot.lean',
                'GeoProofs/Lemmas/SMLXLevel.lean', 'GeoProofs/Lemmas/SMLXFaces.lean',
                'GeoProofs/Lemmas/SMLXSign.lean', 'GeoProofs/Lemmas/SMLXTurn.lean',
                'GeoProofs/Lemmas/SMLXPivotSide.lean', 'GeoProofs/Lemmas/SMLXMain.lean',
                'GeoProofs/Lemmas/SMLXSegs.lean', 'GeoProofs/Lemmas/SMLXSimpleEq.lean',
                'GeoProofs/Lemmas/WINDJordan.lean', 'GeoProofs/Lemmas/WINDLink.lean',
                'GeoProofs/Lemmas/C12QCross.lean', 'GeoProofs/Lemmas/C12QSimple.lean'],
 'translator': True,
 'rule': 'star-shaped (oblique, non-convex), two-sided histogram (rectilinear, collinear vertices) and junk '
         'rings on 3..8 grids under the 6 grid similarities, random start vertex (least vertex forced last in '
         '1/4), either direction, repeated vertices, doubly closed or open; polygons with 0-3 holes of '
         'independent winding (1/12 outweighing the shell), Rect, Triangle, MultiPolygon, nested '
         'GeometryCollection, zero-area types; placed by an exact integer similarity (scale 2^k, offsets 0, '
         '+-2^27, 1e8: regime G, bit-exact) or by arbitrary f64 scale/offset up to 2e8 (regime R: '
         '|impl-exact| <= 4 n 2^-53 D (D+M) + n 2^-1021 per polygon, 2 sum tol_i + 2 k 2^-53 sum|area_i| per '
         'collection; D = bounding-box diagonal, M = max |coordinate|, n = coordinates); ops: area '
         '(signed, unsigned, polygon form of Rect/Triangle), winding_order/is_cw/is_ccw on raw line '
         'strings, orient default/reversed on Polygon/MultiPolygon; distinct by input text; cases tagged '
         'triv (zero area geometry, open/short ring, no simple ring to orient) are not counted',
 'trusted_base': ['the exactness bound of regime G (all coordinates integers, sum over rings of n*2*B^2 <= 2^52 '
                  'after the shift) is evaluated per case by the driver, not proved',
                  'the decision "simple ring" (domain of the winding clauses) is the Lean definition simpleRing '
                  '(GeoModel/SimpleRing.lean, orientation tests; what the driver branches on); it is proved equal, as a '
                  'Boolean function, to ringSimple (GeoModel/Valid.lean, via line_intersection; the definition the '
                  'lemmas use): simpleRing_eq_ringSimple. That winding_order = sign of the exact area on such rings '
                  'is a theorem (windingOrder_eq_sign_area), no longer an assumption; what stays trusted is that '
                  'these definitions say what "simple closed ring" means',
                  'the rounding tolerance of regime R is a stated bound, not a theorem (the proved bound '
                  'area_rounding_error is the worst-case gamma_(n+3) * sum of product magnitudes under the standard '
                  'model without underflow; it is quadratic in n where the tolerance is linear)',
                  'regime R: a polygon with holes whose exact exterior area is below the tolerance is a '
                  'near-tie of the sign branch in Polygon::signed_area and is SKIPped (counted, ~0.4%)',
                  'translator/rs2lean.py + rsexpr.py (statement fragment; explicit choices: Vec = List, lines() = consecutive '
                  'pairs, Line::map_coords(f) = (f start, f end), abs = rabs, numbers exact — no overflow / rounding)']}

MANIFEST = {'note': 'Trusted: Lean 4.33 kernel (axioms propext, Classical.choice, Quot.sound only; audited per theorem '
         'each run; no sorry, no native_decide, no added axioms); the Lean compiler running the model; the '
         'Rust harness, generators and line protocol (sampling, not proof). The theorems are about the '
         'hand-written model; the model is tied to the code by running both on the same inputs each run. '
         'Floating point: bit-exact agreement is demanded on integer inputs within a per-case exactness '
         'bound, a stated rounding tolerance elsewhere. Winding = sign of area is proved for every simple '
         'ring (simpleRing, the definition the driver uses, proved equal to ringSimple of GeoModel/Valid.lean). One defect repaired (Triangle::signed_area lacked the conditioning shift).',
 'technique': 'Lean 4 proof (telescoping/algebraic identities over exact rationals, list induction, mutual '
              'induction over the geometry tree) + model/implementation correspondence on generated rings, '
              'polygons and collections',
 'text': 'Proved for the model, for all inputs: the shifted shoelace sum of a closed ring equals the unshifted '
         'one (the conditioning shift changes nothing exactly), is negated by reversal, invariant under '
         'rotation of the start vertex and translation, scales by k^2; polygon signed area = sign(exterior) '
         '(|exterior| - sum |holes|), independent of hole windings, positive iff the exterior shoelace is '
         'positive when the holes do not outweigh it; unsigned = |signed|; Rect and Triangle areas equal '
         'those of their polygon form; MultiPolygon and GeometryCollection areas are the sums of their '
         'members, and the whole geometry tree equals the unshifted-shoelace specification (area_eq_spec); '
         'orient returns each ring or its reverse, closed, unsigned area unchanged; winding_order is '
         'characterised by the exact determinant at the lexicographically least vertex, None only for '
         'short/open/all-equal/collinear-pivot rings; for every convex ring (all coordinates on one closed side '
         'of every edge line; repeated and collinear vertices, open, short and flat rings admitted; includes all '
         'triangles, Rect polygon forms and quadrilaterals whose turns have one sign) winding_order is the sign '
         'of the area (ccw iff > 0, cw iff < 0, None iff = 0; fan decomposition from a vertex), reversal flips '
         'it, orient yields the requested windings and is idempotent; a pentagram shows that equal turn signs '
         'alone do not give the fan property; under the hypothesis that the least point is not visited twice '
         '(_partial): reversal flips the winding, the start vertex is irrelevant (any rotation; a pinched ring '
         'shows the hypothesis is needed), orient yields the requested windings and is idempotent. '
         'FOR EVERY SIMPLE RING (ringSimple of GeoModel/Valid.lean: closed, >= 3 distinct vertices after merging '
         'repeated consecutive coordinates, edges meet only in the common vertex of consecutive ones; no other '
         'hypothesis, repeated coordinates allowed; simpleRing_eq_ringSimple: the same Boolean function as the '
         'simpleRing of GeoModel/SimpleRing.lean by which the driver decides the domain - segsMeet <-> the closed '
         'segments share a point, foldsBack <-> consecutive segments overlap): windingOrder_eq_sign_area (stated '
         'for simpleRing) / windingOrder_eq_sign_area_simple (for ringSimple) - winding_order is '
         'CounterClockwise iff twice_signed_ring_area > 0, Clockwise iff < 0, never None, and the exact area is '
         'never 0 (proof: side constant L of the ring from the Jordan-curve lemmas; the shoelace sum cut into '
         'horizontal slabs is sum 2 h F(mid level), F = signed sum of crossing abscissae, and summation by parts '
         'over the sorted crossings gives (2L-1) F > 0; in the slab next to the least vertex edges cannot change '
         'their left-to-right order, so the left-most crossing is on an edge at the least vertex and '
         '(2L-1) cross(prev, pivot, next) > 0); pivotOnce_of_simple (the merged ring satisfies PivotOnce), '
         'windingOrder_reverse_simple, windingOrder_rotate_simple (any number of steps), orient_post_simple, '
         'orient_idem_simple, orient_exact_simple (orient returns the exterior with exactly the requested winding '
         'and every hole with the opposite one) and polygonArea_pos_iff_ccw (signed_area > 0 iff the simple exterior '
         'is counter-clockwise, < 0 iff clockwise, when the holes do not outweigh it) - the _partial statements with PivotOnce discharged on the '
         'property\'s domain. Rounding: '
         'under the standard model fl(x) = x(1+d), |d| <= u, for an arbitrary rounding function applied after '
         'every operation of twice_signed_ring_area, |computed - exact| <= ((1+u)^(n+3) - 1) * sum over edges '
         'of (|dx_i dy_i+1| + |dy_i dx_i+1|) of the shifted coordinates, and (1+u)^k - 1 <= ku/(1-ku). The real code is run on the same inputs: areas '
         'bit-exact on integer grids (offsets to 2^27 and 1e8), within the stated rounding bound otherwise; '
         "winding and orient exact; the shoelace/sign/ring-set clauses are evaluated on the implementation's "
         'own outputs. Translator tie (TRAN, area_eq_source): twice_signed_ring_area (guards, shift, accumulating loop as a '
         'left fold), get_linestring_area, Polygon / MultiPolygon signed and unsigned area and Triangle::signed_area are '
         'regenerated from area.rs on every run and proved equal to the hand-written model, so the theorems above are about '
         'terms read off the current source.'}
