"""C17 — check configuration and MANIFEST entry."""
CFG = {
    "count": {"quick": 16000, "thorough": 640000},
    "translator": True,
    "lean_files": ["GeoModel/TRANPrelude.lean", "GeoModel/Gen/GraphGen.lean", "GeoProofs/Lemmas/TRAN2Graph.lean", "GeoModel/RelateImpl.lean",
                   "GeoModel/RelateImplNodes.lean", "GeoModel/Prepared.lean", "GeoModel/GeomGraph.lean", "GeoModel/Winding.lean", "GeoModel/RelateSpec.lean",
                   "GeoModel/Valid.lean", "GeoModel/Ops/C17.lean"],
    "rule": "three cases in four (C17.hist): histories of 3..10 relate calls over 2..3 geometries of any type from one shared grid; each operand of "
            "each call is the plain geometry, an owned PreparedGeometry or a borrowed PreparedGeometry (created once, reused for the rest of the "
            "history), in either position, repeats included; every answer is compared with the plain answer and with the executable DE-9IM "
            "specification of the underlying geometries; after every call the dump of each prepared operand's cache must be what it was before the call, and the graph "
            "it hands out must equal the freshly built self-noded graph (digests of the hook dumps); histories without any prepared operand are tagged triv. One case in four (C17.graph): one "
            "geometry of any type (valid shapes, and shapes made to exercise graph construction: repeated coordinates, closed / collapsed / empty line "
            "strings sharing end points on a 2x2 grid, rings in either direction with rotated start, degenerate rings, polygons with an empty shell, "
            "nested collections with multipolygons) and an operand position; through the verif-hooks dump the graph built by GeometryGraph::new is "
            "compared exactly with the Lean model buildGraph (edges in insertion order with coordinates and both label slots, nodes in node-map order, "
            "the boundary-rule flag), the self-noded fresh graph must equal the clone handed out by a PreparedGeometry token for token (including "
            "intersection lists and is_isolated), and the nodes of both must equal the model's add_self_intersection_nodes run on the recorded "
            "intersection coordinates; empty graphs are tagged triv. distinct by input text. One case in eight (C17.conc, round 10): the first operand reached through its concrete type (plain and prepared, both positions, against the enum), a third of them degenerate Rect / Triangle / Line values, half of the partners with a disjoint bounding box. Histories also contain self-noded touch points crossed properly by a line (round 8).",
    "trusted_base": [
        "translator/rs2lean.py + rsexpr.py + jobs2.py for TopologyPosition and IntersectionMatrix::{set, set_at_least, set_at_least_if_in_both} (explicit choices: "
        "a &mut match on self binds the named fields as mutable variables and rebuilds the value at the end of the arm; panic! arms = None / state unchanged, "
        "as in the model; self.0[a][b] = the cell accessors IM.get / IM.set; < on Dimensions = comparison of declaration ranks; Label: the two-element array "
        "geometry_topologies = the fields a, b through Label.get / Label.set, index 0 = a, any other index = b). Not regenerated: set_locations (logging macro)",
        "the matrix computation after graph construction and self-noding is shared by both paths in the code and is represented by the DE-9IM specification (C01)",
        "rstar envelope queries return every stored segment whose envelope intersects the query (assumption on the external crate)",
        "the intersection coordinates recorded on the edges during self-noding are taken from the implementation (line intersection is C11's subject); "
        "the model covers graph construction before self-noding and the node-insertion step after it",
        "that clone_for_arg_index deep-copies the Rc<RefCell<Edge>>s is observed (answers of later calls; dump of the clone against a fresh graph), not proved about Rust",
        "the verif-hooks dump function (geo/src/algorithm/relate/mod.rs, `verif`) prints the graph faithfully",
    ],
    "assumptions": ["valid operands (GeoModel/Valid.lean) for the comparison with the true matrix; none for prepared == plain and for the graph cases; grid coordinates"],
}

MANIFEST = {
    "technique": "Lean 4 proof (concrete model of GeometryGraph::new: label-swap theorem by mutual structural induction over all geometry types, mod-2 boundary rule, "
                 "ring-direction independence; state machine: cache immutability ⇒ history independence; candidate completeness) + correspondence on random call "
                 "histories against the DE-9IM specification and on graph dumps of the real code through a verif-hooks function",
    "text": "Model: buildGraph idx g mirrors GeometryGraph::new (add_point / add_line / add_line_string with insert_boundary_point toggling / add_polygon_ring with "
            "left-right from the winding order, repeated coordinates removed / recursion over Multi* and collections; labels as in label.rs and topology_position.rs), "
            "swapLabels and cloneForArg mirror planar_graph.rs, addSelfIntersectionNodes mirrors the node-insertion step of compute_self_nodes. Proved for every "
            "geometry of every type: (buildGraph 0 g).swapLabels = buildGraph 1 g (swap_buildGraph, via every construction step commuting with the swap on every "
            "starting graph), the same after self-noding for any recorded intersections (swap_selfNodes), hence clone_for_arg_index of the cache equals the fresh "
            "graph in both operand positions (cloneForArg_buildGraph, cloneForArg_noded_eq_fresh); building for index 0 leaves slot 1 unset on every node and edge (buildGraph_other_slot_unset) and the node-map order is label-blind (sortNodes_swapLabels); the mod-2 rule: a node of a MultiLineString graph is OnBoundary "
            "iff it is an end point of an odd number of members (mod2_rule, boundary_iff_odd; mod2_rule_after_collapsed for members collapsing to one point, which "
            "the code treats as points); the edge a polygon ring contributes does not depend on the ring's direction up to reversing it and exchanging left and "
            "right (ring_label_reverse_partial: for rings whose lexicographically least point is visited once, as in C05), and marks the same node "
            "(ring_node_reverse). Kept from before: swap_labels is an involution, a relate call leaves the table of prepared geometries unchanged and by "
            "induction over any history the k-th answer equals the one-shot answer (runCalls_eq, prepared_eq_plain); intersecting segments have intersecting "
            "envelopes (candidates_complete). Correspondence: random histories mixing plain / owned-prepared / borrowed-prepared operands with reuse, every answer "
            "must equal the plain answer and the specification's matrix; and graph dumps of the real code (fresh, fresh self-noded, prepared clone) for both "
            "operand positions against buildGraph and against each other.",
    "note": "Translator tie (TRAN2, topologyPosition_eq_source): the TopologyPosition constructors, get, is_empty, is_any_empty, is_area, is_line, flip, "
            "set_all_positions(_if_empty), set_position, set_on_position and IntersectionMatrix::{set, set_at_least, set_at_least_if_in_both} of the model equal the "
            "terms regenerated from topology_position.rs / intersection_matrix.rs on this run (GeoModel/Gen/GraphGen.lean); label_eq_source: the same for the 17 "
            "methods of Label (label.rs). "
            "Trusted: Lean kernel + audited axioms; harness (sampling) and the dump hook; rstar completeness; intersection coordinates of self-noding come from the "
            "implementation; the Rust-level deep copy is observed, not proved.",
}
