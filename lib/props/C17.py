"""C17 — check configuration and MANIFEST entry."""
CFG = {
    "count": {"quick": 12000, "thorough": 600000},
    "lean_files": ["GeoModel/Prepared.lean", "GeoModel/RelateSpec.lean", "GeoModel/Valid.lean", "GeoModel/Ops/C17.lean"],
    "rule": "histories of 3..10 relate calls over 2..3 geometries of any type from one shared grid; each operand of each call is the plain geometry, "
            "an owned PreparedGeometry or a borrowed PreparedGeometry (created once, reused for the rest of the history), in either position, repeats "
            "included; every answer is compared with the executable DE-9IM specification of the underlying geometries. distinct by input text; "
            "histories without any prepared operand are tagged triv.",
    "trusted_base": [
        "the matrix computation after graph construction is shared by both paths in the code and is represented by the DE-9IM specification (C01)",
        "rstar envelope queries return every stored segment whose envelope intersects the query (assumption on the external crate)",
        "that clone_for_arg_index deep-copies the Rc<RefCell<Edge>>s is observed through the answers of later calls, not proved about Rust",
    ],
    "assumptions": ["valid operands (GeoModel/Valid.lean); grid coordinates"],
}

MANIFEST = {
    "technique": "Lean 4 proof (state machine: cache immutability ⇒ history independence; label-swap and candidate-completeness lemmas) + correspondence on random call histories against the DE-9IM specification",
    "text": "Model: a table of prepared geometries whose cached graphs are only ever cloned. Proved: swap_labels is an involution and turns the graph built for "
            "argument 0 into the one built for argument 1 (cloneForArg_eq_fresh, both operand positions), a relate call leaves the table unchanged, and by induction "
            "over any history the k-th answer equals the one-shot answer on the underlying geometries (runCalls_eq, prepared_eq_plain); intersecting segments have "
            "intersecting envelopes (candidates_complete), so an envelope index misses no intersection. Correspondence: random histories mixing plain / owned-prepared / "
            "borrowed-prepared operands with reuse; every answer must equal the specification's matrix.",
    "note": "Trusted: Lean kernel + audited axioms; harness (sampling); rstar completeness; the Rust-level deep copy is observed, not proved.",
}
