"""C11 — check configuration and MANIFEST entry."""
CFG = {
    'translator': True,
    "count": {"quick": 120000, "thorough": 6000000},
    "lean_files": ["GeoModel/Orient.lean", "GeoModel/Segment.lean", "GeoModel/LineIntersection.lean", "GeoModel/Gen/CollinearTable.lean", "GeoModel/Ops/C11.lean",
                   "GeoProofs/Lemmas/SegmentSpec.lean", "GeoProofs/Lemmas/LISpec.lean"],
    "rule": "pairs of segments: 50% on 2..5-grids (all coincidence classes incl. zero-length), 10% collinear on a common lattice line, "
            "20% adversarial f64 (T-junction / touching end point nudged by 1-3 ulps), 10% nearly parallel at magnitudes up to 2^43, 10% wild floats; "
            "each case evaluated in both operand orders and against Line::intersects; distinct by input text; "
            "cases with disjoint bounding boxes are tagged triv and not counted One case in 12 (round 9): a point exactly on the line of a mixed-sign segment within two ulps of an end, as a zero-length first or second operand or as the end of a collinear segment.",
    "trusted_base": [
        "modelled, not verified: the proper intersection point is the exact Cramer solution; the implementation's conditioned f64 solver is compared "
        "within 64*2^-53*M*cond (cond = |dp||dq|/|w|), only bounding-box containment when |w| <= 2^-40 |dp||dq| (tag illcond)",
        "robust::orient2d (Shewchuk) returns the exact sign for normal-range f64 (validated per run on adversarial inputs; fails in the underflow range: K10)",
    ],
    "assumptions": ["finite f64 input; coordinates below 2^-400 in magnitude are reported as known finding K10, not skipped"],
}

MANIFEST = {
    "technique": "Lean 4 proof (case analysis of the decision tree against the point-set specification of a segment) + model/implementation correspondence on grid and adversarial f64 segment pairs",
    "text": "The decision tree of line_intersection (envelope rejection, four orientations, same-side exits, the ten-row collinear table in source order, "
            "the end-point copy cascade) is mirrored in Lean over exact rationals with the exact Cramer point. Specification: SegMem p a b := exists t in [0,1], "
            "p = a + t(b-a) (Lemmas/SegmentSpec.lean), with lineCoord_iff (point-on-segment = SegMem), lineLine_iff (Line x Line intersects = the segments share a "
            "point, including that the duplicated self.end box test loses nothing) and lineLine_symm. Proved in Props/C11.lean for all rational inputs: "
            "li_isSome_iff / li_none_iff (Some exactly when the closed segments share a point), li_agrees_intersects (is_some = Line::intersects), "
            "li_improper_endpoint (improper point is one of the four end points), li_single_on_both and proper_point_on_both (single point lies on both segments), "
            "li_single_exact (it is the only common point: S p n S q = {x}), li_proper_iff (flag = no collinear orientation), li_proper_iff_not_endpoint "
            "(flag = the point is none of the four end points), "
            "li_collinear_sub, li_collinear_all_collinear and li_collinear_exact (overlap ends lie on both segments; all four end points collinear; "
            "the overlap is exactly the common part, S p n S q = S(x,y)), "
            "li_collinear_nondegenerate_partial (overlap ends distinct when both operands have positive length; li_zero_length_witness is the K12 counterexample; "
            "li_collinear_nondegenerate_partial_witness: each of the two hypotheses is needed on its own, the real code returns the degenerate "
            "Collinear answer on both witnesses = open known finding K12), "
            "li_symm (argument order: same class, equal single point and flag, overlap equal up to direction). The correspondence compares "
            "class, copied end points and overlaps for equality in both operand orders, the proper point within a conditioning-aware bound and inside both "
            "bounding boxes, and agreement with Line::intersects.",
    "note": "Trusted: Lean kernel + audited axioms; harness/generators (sampling). Known findings K10 (underflow range), K11 (nearest-endpoint fallback outside a bbox), "
            "K12 (zero-length operand gives degenerate Collinear) are listed in known_findings/C11.json and printed on every run.",
}
