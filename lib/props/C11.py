"""C11 — check configuration and MANIFEST entry."""
CFG = {
    "count": {"quick": 120000, "thorough": 6000000},
    "lean_files": ["GeoModel/Orient.lean", "GeoModel/Segment.lean", "GeoModel/LineIntersection.lean", "GeoModel/Ops/C11.lean"],
    "rule": "pairs of segments: 50% on 2..5-grids (all coincidence classes incl. zero-length), 10% collinear on a common lattice line, "
            "20% adversarial f64 (T-junction / touching end point nudged by 1-3 ulps), 10% nearly parallel at magnitudes up to 2^43, 10% wild floats; "
            "each case evaluated in both operand orders and against Line::intersects; distinct by input text; "
            "cases with disjoint bounding boxes are tagged triv and not counted",
    "trusted_base": [
        "modelled, not verified: the proper intersection point is the exact Cramer solution; the implementation's conditioned f64 solver is compared "
        "within 64*2^-53*M*cond (cond = |dp||dq|/|w|), only bounding-box containment when |w| <= 2^-40 |dp||dq| (tag illcond)",
        "robust::orient2d (Shewchuk) returns the exact sign for normal-range f64 (validated per run on adversarial inputs; fails in the underflow range: K10)",
    ],
    "assumptions": ["finite f64 input; coordinates below 2^-400 in magnitude are reported as known finding K10, not skipped"],
}

MANIFEST = {
    "technique": "Lean 4 proof (case analysis of the decision tree against the point-set specification of a segment) + model/implementation correspondence on grid and adversarial f64 segment pairs",
    "text": "The decision tree of line_intersection (envelope rejection, four orientations, same-side exits, the ten-row collinear table in source order, "
            "the end-point copy cascade) is mirrored in Lean over exact rationals with the exact Cramer point. Theorems in Props/C11.lean relate the "
            "classification to the point-set definition of a segment; the correspondence compares class, copied end points and overlaps for equality in both "
            "operand orders, the proper point within a conditioning-aware bound and inside both bounding boxes, and agreement with Line::intersects.",
    "note": "Trusted: Lean kernel + audited axioms; harness/generators (sampling). Known findings K10 (underflow range), K11 (nearest-endpoint fallback outside a bbox), "
            "K12 (zero-length operand gives degenerate Collinear) are listed in known_findings/C11.json and printed on every run.",
}
