"""C07 — check configuration and MANIFEST entry."""
CFG = {
    "count": {"quick": 16000, "thorough": 640000},
    "lean_files": ["GeoModel/Distance.lean", "GeoModel/Ops/C07.lean", "GeoModel/Segment.lean", "GeoModel/Locate.lean",
                   "GeoModel/RelateSpec.lean", "GeoModel/Valid.lean", "GeoModel/F64.lean",
                   "GeoProofs/Lemmas/C07PSquare.lean", "GeoProofs/Lemmas/C07PSegSeg.lean", "GeoProofs/Lemmas/C07PMin.lean",
                   "GeoProofs/Lemmas/C07PBase.lean", "GeoProofs/Lemmas/C07PParts.lean",
                   "GeoProofs/Lemmas/C07PRings.lean", "GeoProofs/Lemmas/C07XSets.lean", "GeoProofs/Lemmas/C07XValid.lean",
                   "GeoProofs/Lemmas/C07XNest.lean", "GeoProofs/Lemmas/C07XKern.lean", "GeoProofs/Lemmas/C07XPoly.lean",
                   "GeoProofs/Lemmas/C07XDisp.lean", "GeoModel/TRANPrelude.lean", "GeoModel/Gen/DistGen.lean",
                   "GeoProofs/Lemmas/TRANDist.lean"],
    "translator": True,
    "rule": "ordered pairs (A, B) cycling through all 100 ordered pairs of the 10 geometry types (Geometry enum on both sides and the "
            "concrete-type impls), on a shared 3..6 grid with half-grid points: B inside a hole of A (one or two holes, hole touching B or not), "
            "B nested in a polygon without holes, both on the same grid (crossing / touching / overlapping), B shifted by a small vector "
            "(near misses, vertex-vertex, vertex-edge, parallel edges), side-by-side axis-parallel boxes as Rect / ring LineString / Polygon / "
            "MultiPolygon / collection, and well separated pairs; each case also measures (B, A), a second representation A' of A (ring start / "
            "direction, Rect/Triangle as Polygon, Line as LineString, singleton Multi*/collection, member order) and the concrete-type impls in both "
            "orders. Every 25th case is the regime-A probe C07.near: a point 0..3 ulps off a slanted segment at scales 1..1e6. Operands outside "
            "the domain (invalid by the exact Lean validity spec, or without any point) are SKIPped and counted. distinct by input text; "
            "Point x Point cases are tagged triv. 1 case in 20 (round 10): a diamond / kite with a central hole against partners in the corners of its bounding box, and the non-convex-hole plate against partners inside the hole.",
    "trusted_base": [
        "translator/rs2lean.py + rsexpr.py for the point-segment kernel (explicit choices: hypot = an abstract parameter constrained only by its square, "
        "abs = rabs, .into() on a Coord = identity, numbers exact)",
        "[A] rstar: RTree::nearest_neighbor returns a segment of minimal distance_2 (the model takes the minimum over all segments)",
        "spec adequacy, what is left of it: the point set of a Polygon is PolyPts = {x | locate(polygon, x) != Outside} of the independent "
        "specification (on a ring, or winding number != 0 about the shell and = 0 about every hole); that the distance to this set is attained "
        "on the rings, and that the intersects short-circuits fire exactly when the point sets meet, is now PROVED for OGC-valid polygons "
        "(Props/C07 section 8); the driver's brute-force oracle (minimum over all part pairs, relateSpec for 'not disjoint') stays as an "
        "independent run-time cross-check",
        "hypot, one division and one multiplication are the only rounding operations on grid inputs (|x| <= 2^20, multiples of 1/16; checked per "
        "case by the driver): |impl^2 - d2| <= 16 * 2^-53 * d2",
    ],
    "assumptions": ["valid operands in the OGC sense with at least one point, decided exactly by GeoModel/Valid.lean; grid coordinates (exact in f64) "
                    "except in the C07.near probe"],
}

MANIFEST = {
    "technique": "Lean 4 proof (point-segment minimality, zero <=> on-segment / segments-intersect, symmetry, non-negativity, min-fold and dispatch "
                 "lemmas over a squared-distance model of every Distance impl) + implementation-vs-model and implementation-vs-specification "
                 "correspondence on all 100 ordered type pairs",
    "text": "The model (GeoModel/Distance.lean) mirrors every Euclidean Distance impl with squared distances in exact rationals: the three branches "
            "of line_segment_distance, the intersects short-circuits, the containment branches that measure to the holes, nearest_neighbour_distance "
            "as a minimum over all vertex-segment pairs, Rect/Triangle through to_polygon (with the operand order the macros produce), the Multi*/"
            "collection/Geometry dispatch as the list of single-part calls it folds min over. Proved: psd2 is the exact minimum of |p - x|^2 over the "
            "segment and is attained; it is 0 exactly for points of the segment; Line x Line is 0 exactly when the segments share a point and is "
            "symmetric; segseg_min_at_endpoint (T2): for two segments without a common point the smallest of the four end-point-to-segment "
            "distances is the minimum of |a(s) - c(t)|^2 over the whole unit square (a positive semi-definite quadratic without a zero on the "
            "square is matched or undercut on the boundary of the square: homogeneity about the meeting point of the carrier lines, or constancy "
            "along s - k t = const for parallel directions), so Line x Line, Line x LineString, nearest_neighbour_distance (for line strings "
            "whose segments do not meet) and LineString x LineString return the true minimum over ALL pairs of points (IsMinDist: lower bound + "
            "attained), and so does every pair of operands of dimension <= 1; the dispatch recursion visits exactly the pairs (part of a, part of b) "
            "up to operand order (calls_are_part_pairs), so distance(a, b) of two geometries made of Points, Lines and LineStrings (Multi*, nested "
            "collections) is the true minimum over all pairs of points of a and b (distG_is_true_min; with Point x LineString pairs _partial, "
            "where the tolerance test has no false positive, K4); for the areal kernels, once intersects has not fired, the value is the true "
            "minimum over all pairs of points to the rings the branch measures (Line x Polygon: all rings; LineString x Polygon and Polygon x "
            "Polygon: the exterior ring(s) in the exterior branch, the hole rings in the containment branch - the latter _partial under the "
            "bounding-box condition the containment test implies); LineString x LineString is symmetric (its nested bounding-box rejections are sound); nearest_neighbour_distance is the "
            "minimum over all vertex-segment pairs in both directions; all kernels are non-negative and panic-free on non-empty operands; the "
            "dispatch recursion is fuel-independent and equals the min folds of the macros, which lifts zero/minimum through Multi*/collections; "
            "Rect/Triangle/singleton Multi*/collection-of-one wrappers reduce to the wrapped operand. Polygon x Polygon symmetry is proved "
            "unconditionally for polygons without holes (hence all Rect/Triangle pairs); a witness shows the hypothesis-free statement is false "
            "for an invalid operand; the Point x LineString zero-iff is _partial (finding K4). "
            "AREAL OPERANDS (section 8, for OGC-valid polygons = polyValid of GeoModel/Valid.lean; Rect/Triangle are their to_polygon forms and need "
            "no hypothesis): with PolyPts q = {x | the specification's locate does not put x outside q} (closed_polygon_iff: on a ring, or inside "
            "the shell and outside every hole) - polyCoord/polyLine/lsPoly/polyPoly_intersects_iff: each intersects short-circuit (with its "
            "bounding-box rejections and its one-sided look at the holes) holds exactly when the closed point sets share a point; "
            "segment_into_polygon_crosses_ring and outside_point_nearest_to_boundary: a point outside a valid polygon is nearest to its boundary; "
            "ptPoly_zero_iff_partial / ptPoly_dist_is_min_partial (K4 excluded on the hole rings, the only place the code applies the tolerance "
            "test; ptPoly_hole_tolerance_witness inhabits the excluded class; full strength without holes), linePoly_dist_is_min, "
            "lsPoly_dist_is_min (exterior branch and containment branch: a line string inside the shell of a polygon with holes and not meeting "
            "it lies in one hole, whose ring separates it from the polygon; lsPoly_dist_is_hole_min is the former _partial without the "
            "bounding-box hypothesis), polyPoly_dist_is_min (all three branches; two disjoint closed rings are nested or mutually exterior, "
            "proved by a first-hit argument along a segment to a far point), polyPoly_symm_valid; baseD_is_true_min(_partial): all 36 ordered pairs "
            "of single-part types return the minimum of |x-y|^2 over all pairs of points and 0 iff the operands share a point; "
            "distG_is_true_min_areal(_partial): the same through the Multi*/GeometryCollection dispatch for geometries whose parts are Points, "
            "Lines, LineStrings with a segment, valid Polygons, Rects, Triangles; baseD_symm_valid and distG_symm_valid: distance(a,b) = "
            "distance(b,a) for all of them (the two dispatches fold min over the same part pairs). Used from C02/WIND: coordinate_position = "
            "locate for valid polygons, windingE_const, the hole/shell and hole/hole clauses of polyValid, edgeJordan. Each run compares the real code with the model "
            "(zero <=> zero exactly, else 16 ulp relative on the square) and, independently, with a brute-force exact minimum over all part pairs "
            "combined with the DE-9IM specification for 'intersects (including containment)', and demands bit-identical results for exchanged "
            "operands, a second representation and enum-vs-concrete impls. Translator tie (TRAN, lineSegmentDistance_sq_eq_source_partial): "
            "line_segment_distance / point_line_euclidean_distance / line_euclidean_length / Line::{delta,dx,dy} are regenerated from geo-types on "
            "every run with f64::hypot as a parameter; whenever its square is x^2+y^2 at the three argument pairs the code evaluates, the square "
            "of the regenerated result is psd2 (the kernel all psd2_* theorems are about).",
    "note": "Trusted: Lean kernel + audited axioms; the harness/generators (sampling); rstar nearest-neighbour [A]; the definition of the point set "
            "of a polygon by the specification's locate. Open finding K4: Point x LineString (and Point x Polygon through a hole ring) returns "
            "exactly 0 for a point 1-2 ulps off a slanted segment (tolerance test in line_string_contains_point), off-grid inputs only; the "
            "model reproduces it with emulated f64 rounding; the theorems carry it as the hypotheses tolOk / tolOkX / HolesTolOk. Not assumed "
            "any more: 'distance to a disjoint polygon = distance to its rings' and the meaning of the polygon intersects calls (proved for "
            "polyValid operands). Not covered by the theorems: empty members (K14a/b), invalid polygons (outside the property's domain; "
            "polyPoly_symm_invalid_witness shows the statements fail there).",
}
