#!/usr/bin/env python3
"""Regenerates the per-property status table of DESIGN.md §12.2 (between the STATUS-TABLE markers) from
evidence/Cxx.json, and the seeded-mutation table of §12.5 (between the SEEDED-TABLE markers) from seeded/*/meta.json."""
import json, os, re, glob
V = os.path.dirname(os.path.dirname(os.path.abspath(__file__)))
DESC = {
 "C01": ("RelateSpec, Valid, Locate (dims)", "`relate(A,B)`, `relate(B,A)`, `relate(A',B)` cell-for-cell against the executable DE-9IM spec (own winding computation, symbolic-infinitesimal face samples), incl. far-from-origin copies; `HasDimensions` (dims / boundary dims / is_empty) vs model and vs spec"),
 "C02": ("Intersects, Contains, Locate, Gen/Masks, Gen/Kernel", "three-way: impl / model-of-impl (one term per Rust impl body, enum dispatch) / spec; concrete-type impls for all 100 pairs vs spec; `coordinate_position` vs `locate`; junction and empty-member classes"),
 "C03": ("Orient, Segment, F64, Gen/Kernel", "f64 robust + i64 simple `orient2d`, point-on-segment, point-in-ring, point-in-triangle on adversarial inputs (dyadic and generic near-collinear); counts cases where emulated naive f64 would be wrong"),
 "C04": ("BoolGlue, BoolSpec", "glue bit-exact through the hook; results vs exact-area / membership / winding oracle; unary (incl. empty leading members) vs fold; clip coverage + length"),
 "C05": ("Area, Winding, SimpleRing", "bit-exact areas in the exact regime, tolerance otherwise; winding_order, orient"),
 "C06": ("Centroid", "value vs independent `centroidSpec`, hull membership, translation/scaling pairs"),
 "C07": ("Distance", "impl vs model (all 36 base pairs + dispatch) and vs brute-force exact minimum / `relateSpec`-zero; symmetry and representation variants bit-identical; nested-hole classes"),
 "C08": ("Hull", "exact mirror incl. rounded farthest-point search; verified checker `isStrictHull` on impl output; quick vs Graham vertex sets; mrr numerics"),
 "C09": ("Simplify", "RDP / VW / VW-preserve outputs and index lists exactly (near-ties skipped); ε-bound and area checkers on impl output"),
 "C10": ("Triangulate, MonoPoly, Tiling", "exact tiling checker on earcut / CDT / monotone / stitch outputs; MonoPoly location vs chains spec; hand-built tricky-shape family"),
 "C11": ("LineIntersection, Gen/CollinearTable", "class, copied end points, overlaps (both orders), proper point within conditioning-aware bound, agreement with `intersects`; fallback end point checked to be a nearest one"),
 "C12": ("Closest, InteriorPoint", "variant tag, nearest-point optimality, interior point located by `locate`; panics"),
 "C13": ("Affine", "algebra bit-exact where f64-exact (checked per case, incl. tiny/huge determinants), constructors, trait layers, i32/i64; metamorphic commutation on geo's own predicates/measures"),
 "C14": ("Validation, ValidationSpec", "`is_valid` / error multiset / `check_validation` vs model and vs independent validity spec; extreme finite magnitudes; 820 JTS TestValid cases in the corpus"),
 "C15": ("Interp", "interpolation / location / densify exactly where lengths are rational, tolerance otherwise; arc-length checker"),
 "C16": ("Geodesy, GeodesyNum", "normalisation/dispatch logic exactly; identities checked on impl outputs with mm tolerance; Haversine vs rational series engine"),
 "C17": ("Prepared", "histories of 3–10 relate calls mixing plain / owned-prepared / borrowed-prepared operands: prepared == plain for every history, == spec matrix inside the DE-9IM domain"),
 "C18": ("PolygonSM", "states after every API call of random histories with Ok/Err exits; Rect setters; conversions (both Triangle→Polygon entry points)"),
 "C19": ("Traverse, Gen/Kernel", "count / iter / exterior / lines / map / try_map / in-place / bbox / extremes on random trees"),
 "C20": ("Stitch, DetGlue", "stitch vs model; every op twice in-process; prepared-detector k-sequences vs fresh; same inputs in 5 fresh processes with RAYON_NUM_THREADS ∈ {1,2,16,default×2}"),
}
def status_table():
    rows = ["| id | theorems (of which `_partial`) | cases | distinct non-trivial | main model files | what the correspondence compares |",
            "|----|----|----|----|----|----|"]
    total = 0
    for i in range(1, 21):
        p = "C%02d" % i
        e = json.load(open(os.path.join(V, "evidence", p + ".json"))); c = e["coverage"]
        total += c.get("discharged", 0)
        rows.append("| %s | %d (%d) | %s | %s | %s | %s |" % (p, c.get("discharged", 0), len(c.get("partial_theorems", [])),
                    format(c.get("evaluations", 0), ",").replace(",", " "), format(c.get("distinct_nontrivial", 0), ",").replace(",", " "), DESC[p][0], DESC[p][1]))
    rows.append("")
    rows.append("%d property theorems in total (quick tier, seed 1, unchanged tree; regenerated from `evidence/*.json` by `lib/design_status.py`)." % total)
    return "\n".join(rows)
def seeded_table():
    metas = [(os.path.basename(os.path.dirname(f)), json.load(open(f))) for f in sorted(glob.glob(os.path.join(V, "seeded", "*", "meta.json")))]
    rounds = sorted({(n.split("-") + ["1"])[1] for n, _ in metas}, key=int)
    det = [m for _, m in metas if m.get("detected")]
    rows = ["%d seeds in %d rounds; %d recorded as detected (exit 1 with a replay), %d of them only after the generators / clauses were "
            "strengthened as noted, %d carry a note (caught by the check of another property, or recorded at a HEAD strengthened after reading the seed's report); not detected: %s." % (
                len(metas), len(rounds), len(det), sum(1 for m in det if m.get("detected_initially") is False or m.get("strengthening")),
                sum(1 for m in det if m.get("note")), ", ".join(n for n, m in metas if not m.get("detected")) or "none"), "",
            "| seed | change | needs | detected |", "|----|----|----|----|"]
    for name, m in metas:
        det = "yes" if m.get("detected") else "NO"
        if m.get("detected_initially") is False or m.get("strengthening"):
            det += " — after strengthening: " + (m.get("strengthening") or "")[:260]
        if m.get("note"):
            det += " — " + m["note"][:200]
        viol = m.get("check_violation_lines") or []
        rows.append("| %s | %s | %s | %s |" % (name, (m.get("summary") or "").replace("|", "/")[:230], (m.get("needs") or "").replace("|", "/")[:230], det.replace("|", "/")))
    return "\n".join(rows)
def main():
    p = os.path.join(V, "DESIGN.md"); s = open(p).read()
    for tag, fn in (("STATUS-TABLE", status_table), ("SEEDED-TABLE", seeded_table)):
        b, e = "<!-- %s-BEGIN -->" % tag, "<!-- %s-END -->" % tag
        if b in s and e in s:
            s = s[:s.index(b) + len(b)] + "\n" + fn() + "\n" + s[s.index(e):]
    open(p, "w").write(s)
    print("DESIGN.md tables regenerated")
main()
