HOOK_COMMITS = []
NOT_APPLICABLE = {}
NOTE_COMMON = ("Trusted: Lean 4.33 kernel (axioms propext, Classical.choice, Quot.sound only; audited per theorem each run; no sorry, "
               "no native_decide, no added axioms); the Lean compiler running the model; the Rust harness, generators and line "
               "protocol (sampling, not proof). The theorems are about the hand-written model; the model is tied to the code by "
               "running both on the same inputs each run. ")
CHECKS = {
    "C18": {
        "technique": "Lean 4 proof (invariant by induction over all API histories and all closures) + model/implementation correspondence on random histories",
        "text": "Proved for the model, for every history, every closure and both Ok/Err exits: every ring is closed after every "
                "constructor/mutator call (inv_step, inv_run), Rect::new gives min<=max for every corner order, non-panicking setters keep it, "
                "and the Rect/Triangle/Line conversions yield exactly the documented coordinate lists. The model (a state machine over "
                "arbitrary coordinate types) is tied to geo-types by replaying random histories with Ok/Err exits on the real Polygon/Rect API "
                "and demanding identical states after every call; the closedness checker runs on the implementation's own states.",
        "note": NOTE_COMMON + "Closures in the correspondence come from an 8-instruction edit language; NaN coordinates excluded; "
                "state after a panicking Rect setter is not observed.",
    },
    "C19": {
        "technique": "Lean 4 proof (structural induction on the geometry tree) + model/implementation correspondence on random geometry trees",
        "text": "Proved for the model by mutual structural induction over the geometry tree (all nestings, all empty members): coords_count = "
                "length of coords_iter; further consistency theorems (exterior subsequence, map/traversal commutation, bounding box = min/max, "
                "extremes) are added to Props/C19.lean as they are proved and counted in the evidence. Every separately written Rust impl "
                "(count, iter, exterior iter, lines, map/try_map/in-place, bounding_rect, extremes) is mirrored by its own Lean function and compared "
                "exactly on random trees to depth 3; the property clauses are also evaluated directly on the implementation's outputs.",
        "note": NOTE_COMMON + "Coordinate functions are exact integer-affine/constant maps. Two known findings (K6 polygon bbox ignores holes "
                "outside the shell; K8 Triangle::new re-orients under map_coords) are listed in known_findings.json.",
    },
}
