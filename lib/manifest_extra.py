"""Hook commits in /repo and reasons for unclaimed properties."""
HOOK_COMMITS = ["a034e536", "249ad915"]
NOT_APPLICABLE = {}
