"""Hook commits in /repo and reasons for unclaimed properties."""
HOOK_COMMITS = []
NOT_APPLICABLE = {}
