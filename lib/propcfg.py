"""Loads the per-property configuration from lib/props/Cxx.py (CFG = check config, MANIFEST = manifest entry)."""
import glob, importlib.util, os

NOTE_COMMON = ("Trusted: Lean 4.33 kernel (axioms propext, Classical.choice, Quot.sound only; audited per theorem each run; no sorry, "
               "no native_decide, no added axioms); the Lean compiler running the model; the Rust harness, generators and line "
               "protocol (sampling, not proof). The theorems are about the hand-written model; the model is tied to the code by "
               "running both on the same inputs each run. ")

PROPS = {}
MANIFESTS = {}
for f in sorted(glob.glob(os.path.join(os.path.dirname(os.path.abspath(__file__)), "props", "C[0-9][0-9].py"))):
    pid = os.path.basename(f)[:-3]
    spec = importlib.util.spec_from_file_location("props_" + pid, f)
    m = importlib.util.module_from_spec(spec)
    spec.loader.exec_module(m)
    PROPS[pid] = m.CFG
    if getattr(m, "MANIFEST", None):
        MANIFESTS[pid] = m.MANIFEST
