"""Per-property configuration for ./check (counts per tier, model files, trusted base, rule)."""

COMMON_ASSUME = [
    "f64 inputs cross the boundary as bit patterns and are decoded to exact rationals; Rust f64 ops are IEEE-754",
]

PROPS = {
    "C18": {
        "count": {"quick": 20000, "thorough": 1000000},
        "lean_files": ["GeoModel/PolygonSM.lean", "GeoModel/Traverse.lean", "GeoModel/Ops/C18.lean"],
        "rule": "random API histories (1-13 ops over Polygon::new/exterior_mut/try_exterior_mut/interiors_mut/"
                "try_interiors_mut/interiors_push with edit-program closures and independent Ok/Err exits), Rect "
                "new/set_min/set_max histories incl. panicking setters, and From/TryFrom conversions on all 10 types; "
                "a case is distinct by its input text; every case is non-trivial (at least a constructor plus one op or a conversion)",
        "trusted_base": [
            "modelled, not verified: closures are drawn from an 8-instruction edit language (the theorems quantify over all functions)",
            "a panicking Rect setter ends the modelled history (state after unwinding is not observed)",
        ],
        "assumptions": COMMON_ASSUME + ["coordinates are finite (NaN != NaN makes 'closed' unsatisfiable)"],
    },
    "C19": {
        "count": {"quick": 30000, "thorough": 1500000},
        "lean_files": ["GeoModel/Traverse.lean", "GeoModel/PolygonSM.lean", "GeoModel/Ops/C19.lean"],
        "rule": "random geometries of all 10 types and nested collections (depth<=3, empty members, 0-2 holes, "
                "open/empty rings closed by the constructor) x {traversal+bbox+extremes, map/try_map with exact "
                "integer-affine or constant maps and a value-triggered failure}; distinct by input text; "
                "cases tagged triv (empty geometry) are not counted",
        "trusted_base": [
            "modelled, not verified: coordinate functions are integer-affine or constant maps that are exact in f64 "
            "(checked per case by the driver; inexact cases are SKIPped and counted)",
            "Geometry::try_map_coords_in_place cannot be instantiated (infinite type recursion through "
            "GeometryCollection) and is exercised on the concrete types only",
        ],
        "assumptions": COMMON_ASSUME,
    },
}
