#!/usr/bin/env python3
"""Regenerates MANIFEST.json from lib/manifest_props.py (kept valid at all times)."""
import json, os, sys
sys.path.insert(0, os.path.dirname(os.path.abspath(__file__)))
from propcfg import MANIFESTS as CHECKS
from manifest_extra import NOT_APPLICABLE, HOOK_COMMITS
ALL = ["C%02d" % i for i in range(1, 21)]
checks = []
for pid in ALL:
    if pid not in CHECKS:
        continue
    c = CHECKS[pid]
    checks.append({
        "property_id": pid,
        "quick_cmd": "./check %s --tier quick" % pid,
        "thorough_cmd": "./check %s --tier thorough" % pid,
        "evidence_file": "/verif/evidence/%s.json" % pid,
        "replay_cmd_template": "./check %s --replay {path}" % pid,
        "engine": "lean-proof+correspondence",
        "level_claimed": {"category": "proof", "text": c["text"], "design_ref": "DESIGN.md §7 " + pid},
        "level_note": c["note"],
        "technique": c["technique"],
    })
na = [{"property_id": p, "reason": NOT_APPLICABLE.get(p, "check not built yet in this session; the property is in scope of the design (DESIGN.md §7) and will be claimed when its model, theorems and correspondence exist")}
      for p in ALL if p not in CHECKS]
m = {
    "version": 1,
    "setup_cmd": "./setup.sh",
    "hooks": {
        "guard": "cargo feature verif-hooks (geo)",
        "enable": "the harness crate /verif/harness path-depends on /repo/geo and /repo/geo-types and enables feature verif-hooks where a hook exists",
        "baseline_off_cmd": "cd /repo && cargo test --workspace --no-fail-fast --offline",
        "source_commits": HOOK_COMMITS,
        "add_only": True,
    },
    "engines": [
        {"name": "lean-proof+correspondence", "path": "/verif/check",
         "serves_properties": [c["property_id"] for c in checks],
         "kind_free_text": "Lean 4 model (GeoModel, import-free) + theorems (GeoProofs/Props) checked by lake build and a per-theorem #print axioms audit; hand-written model tied to /repo's working tree on every run by a Rust harness that runs the real code and a compiled Lean driver that evaluates the model in exact rational arithmetic on the same inputs; a translator regenerates the table-like fragment (DE-9IM masks) from the Rust source"},
    ],
    "checks": checks,
    "notes": "See DESIGN.md. Known findings: known_findings/*.json. Seeded mutations: seeded/.",
    "not_applicable": na,
}
json.dump(m, open(os.path.join(os.path.dirname(os.path.abspath(__file__)), "..", "MANIFEST.json"), "w"), indent=1)
print("MANIFEST.json: %d checks, %d not claimed" % (len(checks), len(na)))
