#!/bin/sh
# MANIFEST.setup_cmd: build the framework from files on disk only (offline).
set -e
cd "$(dirname "$0")"
export CARGO_NET_OFFLINE=true
mkdir -p .build replays evidence
[ -f translator/rs2lean.py ] && python3 translator/rs2lean.py /repo lean/GeoModel/Gen
(cd lean && lake build GeoModel GeoProofs geodriver)
cp /repo/Cargo.lock harness/Cargo.lock
(cd harness && cargo build --release --offline)
echo setup-ok
