#!/bin/sh
# MANIFEST.setup_cmd: build the framework from files on disk only (offline).
set -e
cd "$(dirname "$0")"
export CARGO_NET_OFFLINE=true
mkdir -p .build replays evidence
REPO="${GEO_REPO:-/repo}"
python3 lib/regen.py
if [ -f translator/rs2lean.py ]; then python3 translator/rs2lean.py "$REPO" lean/GeoModel/Gen; fi
(cd lean && lake build GeoModel GeoProofs geodriver)
cp "$REPO/Cargo.lock" harness/Cargo.lock
(cd harness && cargo build --release --offline)
echo setup-ok
