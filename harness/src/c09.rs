//! C09 — simplification: RDP (`simplify`, `simplify_idx`), Visvalingam-Whyatt (`simplify_vw`,
//! `simplify_vw_idx`) and the topology-preserving variant (`simplify_vw_preserve`).
//!
//! Input text:   `C09.<rdp|vw|vwp> <eps> <geometry>`   (LS | MLS | PG | MPG)
//! Output text:  `<simplified geometry> idx <n i1..in | na>`; the index list is produced for
//! LineString inputs of `rdp` and `vw` (the only types that implement the `*Idx` traits).
use crate::proto::{self, Toks, R};
use crate::rng::Rng;
use geo::algorithm::simplify::{Simplify, SimplifyIdx};
use geo::algorithm::simplify_vw::{SimplifyVw, SimplifyVwIdx, SimplifyVwPreserve};
use geo_types::*;

// ---------- generation (text) ----------

fn c(x: i64, y: i64) -> Coord<f64> {
    Coord { x: x as f64, y: y as f64 }
}

/// One vertex list of length `n` on a `k`-grid, in one of several adversarial styles.
fn gen_path(rng: &mut Rng, k: i64, n: usize) -> Vec<Coord<f64>> {
    let mut v: Vec<Coord<f64>> = Vec::with_capacity(n);
    let style = rng.below(8);
    match style {
        // random grid points (repeats and collinear triples are frequent on small grids)
        0 | 1 | 2 => {
            for _ in 0..n {
                v.push(c(rng.range(0, k), rng.range(0, k)));
            }
        }
        // zig-zag around a base line: many equal distances / equal areas
        3 => {
            let amp = rng.range(1, 3);
            for i in 0..n {
                let y = if i % 2 == 0 { 0 } else { amp };
                v.push(c(i as i64, y + if rng.chance(1, 5) { 1 } else { 0 }));
            }
        }
        // collinear run with occasional bumps
        4 => {
            let (dx, dy) = (rng.range(0, 2), rng.range(0, 2));
            for i in 0..n {
                let i = i as i64;
                if rng.chance(1, 4) {
                    v.push(c(i * dx + rng.range(-1, 1), i * dy + rng.range(-1, 1)));
                } else {
                    v.push(c(i * dx, i * dy));
                }
            }
        }
        // back-tracking walk: steps of -1/0/+1 (revisits vertices, retraces segments)
        5 => {
            let mut p = (rng.range(0, k), rng.range(0, k));
            for _ in 0..n {
                v.push(c(p.0, p.1));
                if rng.chance(1, 2) {
                    p.0 += rng.range(-1, 1);
                } else {
                    p.1 += rng.range(-1, 1);
                }
            }
        }
        // random points with forced repeats of earlier vertices
        6 => {
            for i in 0..n {
                if i > 0 && rng.chance(1, 3) {
                    let j = rng.below(i as u64) as usize;
                    let q = v[j];
                    v.push(q);
                } else {
                    v.push(c(rng.range(0, k), rng.range(0, k)));
                }
            }
        }
        // wide coordinates (up to 2^20): areas and distances almost never tie
        _ => {
            for _ in 0..n {
                v.push(c(rng.range(0, 1 << 20), rng.range(0, 1 << 20)));
            }
        }
    }
    v
}

fn gen_len(rng: &mut Rng) -> usize {
    match rng.below(10) {
        0 => rng.below(4) as usize,        // 0-3 vertex inputs
        1..=5 => rng.range(3, 8) as usize,
        6..=8 => rng.range(6, 14) as usize,
        _ => rng.range(12, 28) as usize,
    }
}

fn gen_ls(rng: &mut Rng, k: i64) -> Vec<Coord<f64>> {
    let n = gen_len(rng);
    let mut v = gen_path(rng, k, n);
    if !v.is_empty() && rng.chance(1, 5) {
        let f = v[0];
        v.push(f); // closed line string
    }
    v
}

/// ring as text input: usually closed explicitly, sometimes left open (the constructor closes it)
fn gen_ring(rng: &mut Rng, k: i64) -> Vec<Coord<f64>> {
    let n = match rng.below(10) {
        0 => rng.below(3) as usize,
        1..=3 => 3,                        // rings at the size limit (4 coordinates once closed)
        4..=5 => 4,
        _ => rng.range(4, 12) as usize,
    };
    let mut v = gen_path(rng, k, n);
    if !v.is_empty() && rng.chance(3, 4) {
        let f = v[0];
        v.push(f);
    }
    v
}

fn gen_poly_txt(rng: &mut Rng, k: i64) -> String {
    let ni = *rng.pick(&[0usize, 0, 0, 1, 1, 2]);
    let mut s = format!("{} {}", ni + 1, proto::coords(&gen_ring(rng, k)));
    for _ in 0..ni {
        s.push(' ');
        s.push_str(&proto::coords(&gen_ring(rng, k)));
    }
    s
}

/// Tolerances. For RDP (a distance): values whose square is not an attainable squared distance
/// on a small grid (odd multiples of 1/1024), plus 0, negatives, attainable values (these mostly
/// SKIP as near-ties) and values larger than the geometry. For VW (an area): areas on the integer
/// grid are multiples of 1/2 and are computed exactly, so attainable values are included on purpose.
fn gen_eps(rng: &mut Rng, k: i64, area: bool) -> f64 {
    let big = if rng.chance(1, 8) { 1 << 20 } else { k };
    if rng.chance(1, 40) {
        return f64::INFINITY; // a legal tolerance: everything removable is removed
    }
    match rng.below(16) {
        0 => 0.0,
        1 => -(rng.range(0, 3) as f64) - 0.5,
        2 => -0.0,
        // tiny positive tolerances (below machine epsilon, down to the smallest normal number): exactly collinear
        // vertices (distance / area 0) are within them, everything else is not
        3 => *rng.pick(&[f64::MIN_POSITIVE, 1e-300, 1e-30, 2.0f64.powi(-60), 1e-17, 2e-16, f64::EPSILON]),
        4 => {
            // larger than the geometry
            let b = big as f64;
            if area { 4.0 * b * b + 1.0 } else { 4.0 * b + 1.0 }
        }
        5 => {
            // exactly attainable: an integer or a half-integer
            rng.range(1, 2 * k) as f64 / 2.0
        }
        6..=9 => {
            // small: between attainable values
            (2 * rng.range(0, 1024 * 2) + 1) as f64 / 1024.0
        }
        _ => {
            let top = if area { (big * big) / 2 } else { big };
            let top = top.max(2);
            let base = rng.range(0, top) as f64;
            let base = if rng.chance(1, 2) { base / (rng.range(1, 4) as f64).exp2() } else { base };
            base + (2 * rng.range(0, 511) + 1) as f64 / 1024.0
        }
    }
}

pub fn gen(rng: &mut Rng, _index: u64) -> String {
    let k = *rng.pick(&[3i64, 4, 6, 8, 8, 16]);
    let algo = match rng.below(10) {
        0..=3 => "rdp",
        4..=6 => "vw",
        _ => "vwp",
    };
    let g = match rng.below(10) {
        0..=3 => format!("LS {}", proto::coords(&gen_ls(rng, k))),
        4 => {
            let m = rng.below(4);
            let mut s = format!("MLS {}", m);
            for _ in 0..m {
                s.push(' ');
                s.push_str(&proto::coords(&gen_ls(rng, k)));
            }
            s
        }
        5..=8 => format!("PG {}", gen_poly_txt(rng, k)),
        _ => {
            let m = rng.below(3);
            let mut s = format!("MPG {}", m);
            for _ in 0..m {
                s.push(' ');
                s.push_str(&gen_poly_txt(rng, k));
            }
            s
        }
    };
    let eps = gen_eps(rng, k, algo != "rdp");
    format!("C09.{} {} {}", algo, proto::num(eps), g)
}

// ---------- evaluation (real geo API) ----------

fn idx_str(v: Option<Vec<usize>>) -> String {
    match v {
        None => "idx na".to_string(),
        Some(v) => {
            let mut s = format!("idx {}", v.len());
            for i in v {
                s.push_str(&format!(" {}", i));
            }
            s
        }
    }
}

pub fn eval(op: &str, t: &mut Toks) -> R<String> {
    let eps = t.num()?;
    let g = t.geom()?;
    if !t.done() {
        return Err("trailing tokens".into());
    }
    let (out, idx): (Geometry<f64>, Option<Vec<usize>>) = match (op, &g) {
        ("C09.rdp", Geometry::LineString(x)) => (x.simplify(eps).into(), Some(x.simplify_idx(eps))),
        ("C09.rdp", Geometry::MultiLineString(x)) => (x.simplify(eps).into(), None),
        ("C09.rdp", Geometry::Polygon(x)) => (x.simplify(eps).into(), None),
        ("C09.rdp", Geometry::MultiPolygon(x)) => (x.simplify(eps).into(), None),
        ("C09.vw", Geometry::LineString(x)) => (x.simplify_vw(eps).into(), Some(x.simplify_vw_idx(eps))),
        ("C09.vw", Geometry::MultiLineString(x)) => (x.simplify_vw(eps).into(), None),
        ("C09.vw", Geometry::Polygon(x)) => (x.simplify_vw(eps).into(), None),
        ("C09.vw", Geometry::MultiPolygon(x)) => (x.simplify_vw(eps).into(), None),
        ("C09.vwp", Geometry::LineString(x)) => (x.simplify_vw_preserve(eps).into(), None),
        ("C09.vwp", Geometry::MultiLineString(x)) => (x.simplify_vw_preserve(eps).into(), None),
        ("C09.vwp", Geometry::Polygon(x)) => (x.simplify_vw_preserve(eps).into(), None),
        ("C09.vwp", Geometry::MultiPolygon(x)) => (x.simplify_vw_preserve(eps).into(), None),
        _ => return Err(format!("unsupported op/type {}", op)),
    };
    Ok(format!("{} {}", proto::geom(&out), idx_str(idx)))
}
