//! C20 — results are a function of the inputs alone.
//!
//! Every case is evaluated TWICE in this process and both results are printed, so that the
//! driver can demand that they are identical (bits and member order):
//!
//!   C20.stitch <n> <6 numbers per triangle>…   => <res> || <res>       res = `ok <k> <poly>…` | `err`
//!   C20.det <kind> <args…>                     => <digest> <digest>    FNV-1a/64 over exact bit
//!                                                                      patterns, lengths and member order
//!   C20.xproc <inner case>                     => <label> <digest> …   the inner case run in fresh
//!        child processes of this binary under RAYON_NUM_THREADS = 1, 2, 16 (and a default one).
//!        Normally produced in bulk by lib/props/C20.py; evaluated here only when a replay file
//!        contains such a line.
use crate::proto::{self, Toks, R};
use crate::rng::Rng;
use crate::shapes::*;
use geo::algorithm::bool_ops::{unary_union, BooleanOps};
use geo::algorithm::concave_hull::ConcaveHull;
use geo::algorithm::convex_hull::ConvexHull;
use geo::algorithm::k_nearest_concave_hull::KNearestConcaveHull;
use geo::algorithm::outlier_detection::OutlierDetection;
use geo::algorithm::relate::Relate;
use geo::algorithm::simplify::Simplify;
use geo::algorithm::simplify_vw::{SimplifyVw, SimplifyVwPreserve};
use geo::algorithm::triangulate_delaunay::{DelaunayTriangulationConfig, TriangulateDelaunay};
use geo::algorithm::triangulate_earcut::TriangulateEarcut;
use geo::StitchTriangles;
use geo_types::*;
use std::panic::{catch_unwind, AssertUnwindSafe};

// ------------------------------------------------------------------ digest

pub struct Fnv(pub u64);
impl Fnv {
    pub fn new() -> Fnv {
        Fnv(0xcbf29ce484222325)
    }
    pub fn u64(&mut self, v: u64) {
        for b in v.to_le_bytes() {
            self.0 ^= b as u64;
            self.0 = self.0.wrapping_mul(0x100000001b3);
        }
    }
    pub fn f(&mut self, v: f64) {
        self.u64(v.to_bits());
    }
    pub fn c(&mut self, c: Coord<f64>) {
        self.f(c.x);
        self.f(c.y);
    }
    pub fn cs(&mut self, cs: &[Coord<f64>]) {
        self.u64(cs.len() as u64);
        for c in cs {
            self.c(*c);
        }
    }
    pub fn poly(&mut self, p: &Polygon<f64>) {
        self.u64(1 + p.interiors().len() as u64);
        self.cs(&p.exterior().0);
        for r in p.interiors() {
            self.cs(&r.0);
        }
    }
    pub fn mpoly(&mut self, m: &MultiPolygon<f64>) {
        self.u64(m.0.len() as u64);
        for p in &m.0 {
            self.poly(p);
        }
    }
    pub fn mls(&mut self, m: &MultiLineString<f64>) {
        self.u64(m.0.len() as u64);
        for l in &m.0 {
            self.cs(&l.0);
        }
    }
    pub fn tris(&mut self, ts: &[Triangle<f64>]) {
        self.u64(ts.len() as u64);
        for t in ts {
            self.c(t.0);
            self.c(t.1);
            self.c(t.2);
        }
    }
    pub fn str(&mut self, s: &str) {
        self.u64(s.len() as u64);
        for b in s.bytes() {
            self.u64(b as u64);
        }
    }
    pub fn hex(&self) -> String {
        format!("{:016x}", self.0)
    }
}

/// Run `f` (which feeds a digest) once; a panic is a result too.
fn once(f: &dyn Fn(&mut Fnv)) -> String {
    match catch_unwind(AssertUnwindSafe(|| {
        let mut h = Fnv::new();
        f(&mut h);
        h.hex()
    })) {
        Ok(s) => s,
        Err(_) => "panic".to_string(),
    }
}

fn twice(f: &dyn Fn(&mut Fnv)) -> String {
    let a = once(f);
    let b = once(f);
    format!("{} {}", a, b)
}

// ------------------------------------------------------------------ parsing helpers

fn tris_in(t: &mut Toks) -> R<Vec<Triangle<f64>>> {
    let n = t.usize()?;
    let mut v = Vec::with_capacity(n);
    for _ in 0..n {
        v.push(Triangle(t.coord()?, t.coord()?, t.coord()?));
    }
    Ok(v)
}

fn tris_out(ts: &[Triangle<f64>]) -> String {
    let mut s = format!("{}", ts.len());
    for t in ts {
        s.push_str(&format!(" {} {} {}", proto::coord(t.0), proto::coord(t.1), proto::coord(t.2)));
    }
    s
}

fn mpoly_in(t: &mut Toks) -> R<MultiPolygon<f64>> {
    match t.geom()? {
        Geometry::MultiPolygon(m) => Ok(m),
        Geometry::Polygon(p) => Ok(MultiPolygon(vec![p])),
        _ => Err("expected MPG or PG".into()),
    }
}

fn coords_of(g: &Geometry<f64>) -> Vec<Coord<f64>> {
    use geo::algorithm::coords_iter::CoordsIter;
    g.coords_iter().collect()
}

// ------------------------------------------------------------------ evaluation

fn stitch_str(ts: &[Triangle<f64>]) -> String {
    match catch_unwind(AssertUnwindSafe(|| ts.stitch_triangulation())) {
        Err(_) => "panic".to_string(),
        Ok(Err(_)) => "err".to_string(),
        Ok(Ok(mp)) => {
            let mut s = format!("ok {}", mp.0.len());
            for p in &mp.0 {
                s.push(' ');
                s.push_str(&proto::poly(p));
            }
            s
        }
    }
}

fn eval_det(t: &mut Toks) -> R<String> {
    let kind = t.tok()?;
    Ok(match kind {
        "bool" => {
            let op = t.tok()?.to_string();
            let a = mpoly_in(t)?;
            let b = mpoly_in(t)?;
            twice(&|h| {
                let r = match op.as_str() {
                    "intersection" => a.intersection(&b),
                    "union" => a.union(&b),
                    "difference" => a.difference(&b),
                    _ => a.xor(&b),
                };
                h.mpoly(&r)
            })
        }
        "triinvalid" => {
            // a long coordinate list (built here from the seed, not sent over the protocol) holding coordinates that the
            // triangulator rejects for DIFFERENT reasons (too large, too small, NaN) at chosen positions: which error comes
            // back must be a function of the input — the first offending coordinate — not of scheduling
            let n = t.usize()?;
            let seed = t.usize()? as u64;
            let variant = t.usize()?;
            if n < 16 || n > (1 << 21) { return Err("triinvalid: n out of range".into()); }
            let mut r = Rng::new(seed, 0, 0);
            let mut cs: Vec<Coord<f64>> = (0..n).map(|_| Coord { x: r.unit() * 1000.0, y: r.unit() * 1000.0 }).collect();
            let big = 2f64.powi(210);
            let small = 2f64.powi(-150);
            let bad = |k: usize| -> Coord<f64> {
                match k % 3 { 0 => Coord { x: big, y: 1.0 }, 1 => Coord { x: small, y: 1.0 }, _ => Coord { x: f64::NAN, y: 1.0 } }
            };
            // the earlier offender sits just before a binary split point of the list, the later one right at it
            let split = n / 2;
            let (i1, i2) = match variant % 4 { 0 => (split - 1, split), 1 => (split / 2 - 1, split), 2 => (split - 1, split + split / 2), _ => (n / 3, 2 * n / 3) };
            cs[i1] = bad(variant / 4);
            cs[i2] = bad(variant / 4 + 1);
            let ls = LineString(cs);
            let mp = MultiLineString(vec![ls.clone()]);
            // (unconstrained only: the random segments cross each other, constraint insertion would take minutes)
            let _ = &ls;
            twice(&|h| {
                match mp.unconstrained_triangulation() { Ok(ts) => h.u64(ts.len() as u64), Err(e) => h.str(&format!("{:?}", e)) }
            })
        }
        "selfop" => {
            // the SAME object as both operands against an equal-valued copy as second operand: the result is a
            // function of the operand values, not of whether the two references alias
            let op = t.tok()?.to_string();
            let a = mpoly_in(t)?;
            let run = |h: &mut Fnv, aliased: bool| {
                let ac = a.clone();
                let b: &MultiPolygon<f64> = if aliased { &a } else { &ac };
                h.mpoly(&match op.as_str() {
                    "intersection" => a.intersection(b),
                    "union" => a.union(b),
                    "difference" => a.difference(b),
                    _ => a.xor(b),
                });
                for (p, q) in a.0.iter().zip(b.0.iter()) {
                    h.mpoly(&match op.as_str() {
                        "intersection" => p.intersection(q),
                        "union" => p.union(q),
                        "difference" => p.difference(q),
                        _ => p.xor(q),
                    });
                }
            };
            let x = once(&|h| run(h, true));
            let y = once(&|h| run(h, false));
            format!("{} {}", x, y)
        }
        "uunion" => {
            let k = t.usize()?;
            let mut v = vec![];
            for _ in 0..k {
                v.push(mpoly_in(t)?);
            }
            twice(&|h| h.mpoly(&unary_union(v.iter())))
        }
        "clip" => {
            let invert = t.usize()? != 0;
            let a = mpoly_in(t)?;
            let l = match t.geom()? {
                Geometry::MultiLineString(m) => m,
                Geometry::LineString(l) => MultiLineString(vec![l]),
                _ => return Err("expected MLS".into()),
            };
            twice(&|h| h.mls(&a.clip(&l, invert)))
        }
        "stitch" => {
            let ts = tris_in(t)?;
            twice(&|h| match ts.stitch_triangulation() {
                Ok(m) => h.mpoly(&m),
                Err(_) => h.str("err"),
            })
        }
        "tri" => {
            let which = t.tok()?.to_string();
            let a = mpoly_in(t)?;
            twice(&|h| {
                let r = match which.as_str() {
                    "earcut" => {
                        let mut v = vec![];
                        for p in &a.0 {
                            v.extend(p.earcut_triangles());
                        }
                        Ok(v)
                    }
                    "unconstrained" => a.unconstrained_triangulation(),
                    "outer" => a.constrained_outer_triangulation(DelaunayTriangulationConfig::default()),
                    _ => a.constrained_triangulation(DelaunayTriangulationConfig::default()),
                };
                match r {
                    Ok(ts) => h.tris(&ts),
                    Err(e) => h.str(&format!("{}", e)),
                }
            })
        }
        "trilines" => {
            // constrained Delaunay triangulation of a line collection with hundreds of lines, several of which cross:
            // the order in which crossings are split must not depend on scheduling
            let g = t.geom()?;
            let mls = match g { Geometry::MultiLineString(m) => m, _ => return Err("trilines wants MLS".into()) };
            twice(&|h| match mls.constrained_outer_triangulation(DelaunayTriangulationConfig::default()) {
                Ok(ts) => h.tris(&ts),
                Err(e) => h.str(&format!("{}", e)),
            })
        }
        "tristitch" => {
            // constrained triangulation followed by stitching it back together
            let a = mpoly_in(t)?;
            twice(&|h| match a.constrained_triangulation(DelaunayTriangulationConfig::default()) {
                Ok(ts) => match ts.stitch_triangulation() {
                    Ok(m) => h.mpoly(&m),
                    Err(_) => h.str("stitch-err"),
                },
                Err(e) => h.str(&format!("{}", e)),
            })
        }
        "concave" => {
            let c = t.num()?;
            let g = t.geom()?;
            twice(&|h| {
                let p = match &g {
                    Geometry::MultiPoint(m) => m.concave_hull(c),
                    Geometry::LineString(m) => m.concave_hull(c),
                    Geometry::MultiLineString(m) => m.concave_hull(c),
                    Geometry::Polygon(m) => m.concave_hull(c),
                    Geometry::MultiPolygon(m) => m.concave_hull(c),
                    other => MultiPoint(coords_of(other).into_iter().map(Point).collect()).concave_hull(c),
                };
                h.poly(&p)
            })
        }
        "kconcave" => {
            let k = t.usize()? as u32;
            let g = t.geom()?;
            let pts: Vec<Coord<f64>> = coords_of(&g);
            twice(&|h| h.poly(&pts.k_nearest_concave_hull(k)))
        }
        "outliers" => {
            let k = t.usize()?;
            let g = t.geom()?;
            let mp = MultiPoint(coords_of(&g).into_iter().map(Point).collect::<Vec<_>>());
            twice(&|h| {
                let o = mp.outliers(k);
                h.u64(o.len() as u64);
                for v in o {
                    h.f(v);
                }
            })
        }
        "lofseq" => {
            // a sequence of k values on ONE prepared detector, against a fresh computation for every call:
            // earlier calls must not influence later ones
            let m = t.usize()?;
            let mut ks = vec![];
            for _ in 0..m {
                ks.push(t.usize()?);
            }
            let g = t.geom()?;
            let mp = MultiPoint(coords_of(&g).into_iter().map(Point).collect::<Vec<_>>());
            let a = once(&|h| {
                let pd = mp.prepared_detector();
                for &k in &ks {
                    let o = pd.outliers(k);
                    h.u64(o.len() as u64);
                    for v in o {
                        h.f(v);
                    }
                }
            });
            let b = once(&|h| {
                for &k in &ks {
                    let o = mp.outliers(k);
                    h.u64(o.len() as u64);
                    for v in o {
                        h.f(v);
                    }
                }
            });
            format!("{} {}", a, b)
        }
        "convex" => {
            let g = t.geom()?;
            twice(&|h| h.poly(&g.convex_hull()))
        }
        "simplify" => {
            let which = t.tok()?.to_string();
            let e = t.num()?;
            let a = mpoly_in(t)?;
            twice(&|h| {
                let r = match which.as_str() {
                    "rdp" => a.simplify(e),
                    "vw" => a.simplify_vw(e),
                    _ => a.simplify_vw_preserve(e),
                };
                h.mpoly(&r)
            })
        }
        "pariter" => {
            // geo-types' rayon iterators on Multi* (feature `multithreading`): an order-preserving
            // parallel map must give what the sequential map gives, member for member
            use geo::algorithm::area::Area;
            use geo::algorithm::line_measures::{Euclidean, Length};
            use rayon::prelude::*;
            let g = t.geom()?;
            twice(&|h| match &g {
                Geometry::MultiPolygon(m) => {
                    let par: Vec<(f64, usize)> = m.par_iter().map(|p| (p.signed_area(), p.exterior().0.len())).collect();
                    let seq: Vec<(f64, usize)> = m.iter().map(|p| (p.signed_area(), p.exterior().0.len())).collect();
                    h.u64((par.len() == seq.len() && par.iter().zip(&seq).all(|(a, b)| a.0.to_bits() == b.0.to_bits() && a.1 == b.1)) as u64);
                    for (a, n) in par {
                        h.f(a);
                        h.u64(n as u64);
                    }
                    let mut mm = m.clone();
                    mm.par_iter_mut().for_each(|p| p.exterior_mut(|e| e.0.reverse()));
                    h.mpoly(&mm);
                    let owned: Vec<Polygon<f64>> = mm.into_par_iter().collect();
                    h.mpoly(&MultiPolygon(owned));
                }
                Geometry::MultiLineString(m) => {
                    let par: Vec<f64> = m.par_iter().map(|l| Euclidean.length(l)).collect();
                    for v in par {
                        h.f(v);
                    }
                    let owned: Vec<LineString<f64>> = m.clone().into_par_iter().collect();
                    h.mls(&MultiLineString(owned));
                }
                Geometry::MultiPoint(m) => {
                    let par: Vec<Coord<f64>> = m.par_iter().map(|p| Coord { x: p.x() * 0.1, y: p.y() + p.x() }).collect();
                    h.cs(&par);
                    let owned: Vec<Point<f64>> = m.clone().into_par_iter().collect();
                    h.cs(&owned.iter().map(|p| p.0).collect::<Vec<_>>());
                }
                _ => h.str("other"),
            })
        }
        "relate" => {
            let a = t.geom()?;
            let b = t.geom()?;
            twice(&|h| h.str(&format!("{:?}", a.relate(&b))))
        }
        "measures" => {
            // scalar measures of a geometry with many members: any parallel reduction inside them would make the
            // low-order bits depend on the worker pool (compared across pool sizes by the cross-process stream)
            use geo::algorithm::area::Area;
            use geo::algorithm::centroid::Centroid;
            use geo::algorithm::chamberlain_duquette_area::ChamberlainDuquetteArea;
            use geo::algorithm::geodesic_area::GeodesicArea;
            use geo::algorithm::bounding_rect::BoundingRect;
            use geo::algorithm::line_measures::{Euclidean, Geodesic, Haversine, Length, Rhumb};
            let g = t.geom()?;
            twice(&|h| {
                h.f(g.signed_area());
                h.f(g.unsigned_area());
                h.f(g.geodesic_area_signed());
                h.f(g.geodesic_area_unsigned());
                h.f(g.geodesic_perimeter());
                let (p, a) = g.geodesic_perimeter_area_signed();
                h.f(p);
                h.f(a);
                h.f(g.chamberlain_duquette_signed_area());
                h.f(g.chamberlain_duquette_unsigned_area());
                if let Some(c) = g.centroid() { h.c(c.0); }
                if let Some(r) = g.bounding_rect() { h.c(r.min()); h.c(r.max()); }
                h.poly(&g.convex_hull());
                if let Geometry::MultiLineString(m) = &g {
                    h.f(Euclidean.length(m));
                    h.f(Haversine.length(m));
                    h.f(Geodesic.length(m));
                    h.f(Rhumb.length(m));
                }
            })
        }
        "prelseq" => {
            // ONE PreparedGeometry answers a sequence of relate calls (as left and as right operand), then the same
            // sequence backwards; every answer must equal a fresh plain relate of the same pair: earlier calls on
            // the cached graph must not influence later ones
            let m = t.usize()?;
            let p = t.geom()?;
            let mut qs = vec![];
            for _ in 0..m {
                qs.push(t.geom()?);
            }
            let a = once(&|h| {
                let prep = geo::PreparedGeometry::from(&p);
                for q in qs.iter().chain(qs.iter().rev()) {
                    h.str(&format!("{:?}", prep.relate(q)));
                    h.str(&format!("{:?}", q.relate(&prep)));
                }
            });
            let b = once(&|h| {
                for q in qs.iter().chain(qs.iter().rev()) {
                    h.str(&format!("{:?}", p.relate(q)));
                    h.str(&format!("{:?}", q.relate(&p)));
                }
            });
            format!("{} {}", a, b)
        }
        _ => return Err(format!("unknown det kind {}", kind)),
    })
}

/// Re-run the inner case in fresh child processes with different worker-pool sizes.
fn eval_xproc(t: &mut Toks) -> R<String> {
    use std::io::Write;
    use std::process::{Command, Stdio};
    let inner: Vec<&str> = t.t[t.i..].to_vec();
    t.i = t.t.len();
    let line = inner.join(" ");
    let exe = std::env::current_exe().map_err(|e| e.to_string())?;
    let mut out = String::new();
    for (label, threads) in [("t1", Some("1")), ("t2", Some("2")), ("t16", Some("16")), ("p2", None)] {
        let mut c = Command::new(&exe);
        c.arg("replay").arg("/dev/stdin").stdin(Stdio::piped()).stdout(Stdio::piped()).stderr(Stdio::null());
        match threads {
            Some(n) => {
                c.env("RAYON_NUM_THREADS", n);
            }
            None => {
                c.env_remove("RAYON_NUM_THREADS");
            }
        }
        let mut ch = c.spawn().map_err(|e| e.to_string())?;
        ch.stdin.take().unwrap().write_all(format!("{}\n", line).as_bytes()).map_err(|e| e.to_string())?;
        let o = ch.wait_with_output().map_err(|e| e.to_string())?;
        let s = String::from_utf8_lossy(&o.stdout).to_string();
        let res = match s.find("=>") {
            Some(p) => s[p + 2..].trim().to_string(),
            None => "child-failed".to_string(),
        };
        // digest of the child's whole answer (both in-process evaluations)
        let mut h = Fnv::new();
        h.str(&res);
        if !out.is_empty() {
            out.push(' ');
        }
        out.push_str(&format!("{} {}", label, h.hex()));
    }
    Ok(out)
}

/// Safety net: cap the address space so that a runaway allocation inside an engine aborts this
/// process instead of exhausting the machine.
#[cfg(target_os = "linux")]
fn cap_memory() {
    use std::sync::Once;
    static ONCE: Once = Once::new();
    #[repr(C)]
    struct Rlimit {
        cur: u64,
        max: u64,
    }
    extern "C" {
        fn setrlimit(resource: i32, rlim: *const Rlimit) -> i32;
    }
    ONCE.call_once(|| {
        let lim = Rlimit { cur: 12 << 30, max: 12 << 30 };
        unsafe {
            setrlimit(9 /* RLIMIT_AS */, &lim);
        }
    });
}
#[cfg(not(target_os = "linux"))]
fn cap_memory() {}

pub fn eval(op: &str, t: &mut Toks) -> R<String> {
    cap_memory();
    match op {
        "C20.stitch" => {
            let ts = tris_in(t)?;
            let a = stitch_str(&ts);
            let b = stitch_str(&ts);
            Ok(format!("{} || {}", a, b))
        }
        "C20.det" => eval_det(t),
        "C20.xproc" => eval_xproc(t),
        "C20.echo" => {
            t.i = t.t.len();
            Ok("-".to_string())
        }
        _ => Err(format!("unknown op {}", op)),
    }
}

// ------------------------------------------------------------------ generation

fn square(x: f64, y: f64, s: f64) -> Polygon<f64> {
    Polygon::new(
        LineString(vec![
            Coord { x, y },
            Coord { x: x + s, y },
            Coord { x: x + s, y: y + s },
            Coord { x, y: y + s },
            Coord { x, y },
        ]),
        vec![],
    )
}

fn rect_ring(x0: i64, y0: i64, x1: i64, y1: i64) -> LineString<f64> {
    LineString(vec![c(x0, y0), c(x1, y0), c(x1, y1), c(x0, y1), c(x0, y0)])
}

/// Triangles of a set of non-overlapping polygons: earcut, then shuffled, each triangle with a
/// random starting corner and orientation.
fn scramble_triangles(rng: &mut Rng, polys: &[Polygon<f64>]) -> Vec<Triangle<f64>> {
    let mut ts: Vec<Triangle<f64>> = vec![];
    for p in polys {
        ts.extend(p.earcut_triangles());
    }
    rng.shuffle(&mut ts);
    ts.into_iter()
        .map(|t| {
            let v = [t.0, t.1, t.2];
            let s = rng.below(3) as usize;
            let (a, b, cc) = (v[s], v[(s + 1) % 3], v[(s + 2) % 3]);
            if rng.chance(1, 2) { Triangle(a, b, cc) } else { Triangle(a, cc, b) }
        })
        .collect()
}

/// Non-overlapping polygon sets that stitch back into several rings.
fn stitch_polys(rng: &mut Rng) -> Vec<Polygon<f64>> {
    match rng.below(10) {
        8 | 9 => {
            // plates with several holes each (2..6 unit holes in a row, sometimes in two rows): the order of the
            // interiors of one polygon is part of the result
            let mut v = vec![];
            let mut x0 = 0i64;
            for _ in 0..rng.range(1, 2) {
                let m = rng.range(2, 6);
                let rows = rng.range(1, 2);
                let mut holes = vec![];
                for r in 0..rows {
                    for i in 0..m {
                        if rng.chance(5, 6) {
                            holes.push(rect_ring(x0 + 2 * i + 1, 2 * r + 1, x0 + 2 * i + 2, 2 * r + 2));
                        }
                    }
                }
                rng.shuffle(&mut holes);
                v.push(Polygon::new(rect_ring(x0, 0, x0 + 2 * m + 1, 2 * rows + 1), holes));
                x0 += 2 * m + 2;
            }
            v
        }
        0 | 1 => {
            // m separate unit squares on a lattice of pitch 2 (no shared edges, no shared corners)
            let m = rng.range(2, 12) as usize;
            let mut cells: Vec<(i64, i64)> = (0..6).flat_map(|x| (0..6).map(move |y| (x, y))).collect();
            rng.shuffle(&mut cells);
            cells.truncate(m);
            cells.iter().map(|&(x, y)| square(2.0 * x as f64, 2.0 * y as f64, 1.0)).collect()
        }
        2 => {
            // nested donuts: ring ⊃ hole ⊃ ring ⊃ hole ⊃ island, to depth d
            let d = rng.range(1, 3);
            let mut v = vec![];
            let mut lo = 0i64;
            let mut hi = 4 * d + 2;
            for _ in 0..d {
                v.push(Polygon::new(rect_ring(lo, lo, hi, hi), vec![rect_ring(lo + 1, lo + 1, hi - 1, hi - 1)]));
                lo += 2;
                hi -= 2;
            }
            if rng.chance(2, 3) {
                v.push(Polygon::new(rect_ring(lo, lo, hi, hi), vec![]));
            }
            // a few separate squares outside, to the right
            for i in 0..rng.below(3) {
                v.push(square((4 * d + 4) as f64 + 2.0 * i as f64, 0.0, 1.0));
            }
            rng.shuffle(&mut v);
            v
        }
        3 => {
            // several islands inside one hole, plus a second donut
            let mut v = vec![Polygon::new(rect_ring(0, 0, 9, 5), vec![rect_ring(1, 1, 8, 4)])];
            for i in 0..rng.range(1, 3) {
                v.push(square(2.0 + 2.0 * i as f64, 2.0, 1.0));
            }
            if rng.chance(1, 2) {
                v.push(Polygon::new(rect_ring(10, 0, 15, 5), vec![rect_ring(11, 1, 14, 4)]));
                if rng.chance(1, 2) {
                    v.push(square(12.0, 2.0, 1.0));
                }
            }
            rng.shuffle(&mut v);
            v
        }
        4 | 5 => {
            // polyominoes (holes, diagonal contacts) at offsets that keep them apart or touching
            let n = rng.range(1, 3);
            let mut v = vec![];
            for i in 0..n {
                let k = *rng.pick(&[3i64, 4, 5]);
                let cells = rng.range(1, 12) as usize;
                v.extend(polyomino_polygons(rng, k, cells, (i * 6, 0)));
            }
            v
        }
        6 => vec![star_polygon(rng, 6)],
        _ => {
            let mp = gen_multipolygon(rng, 4);
            mp.0
        }
    }
}

fn many_points(rng: &mut Rng, n: usize, k: i64) -> Vec<Coord<f64>> {
    let wild = rng.chance(1, 3);
    (0..n)
        .map(|_| {
            if wild {
                Coord { x: rng.unit() * k as f64, y: rng.unit() * k as f64 }
            } else {
                grid_pt(rng, k)
            }
        })
        .collect()
}

/// star-shaped polygon with `n` vertices around (cx, cy); radii pseudo-random in [r0, r1]
fn big_star(rng: &mut Rng, n: usize, cx: f64, cy: f64, r0: f64, r1: f64) -> Polygon<f64> {
    let mut v: Vec<Coord<f64>> = (0..n)
        .map(|i| {
            let a = (i as f64 + 0.5 * rng.unit()) / n as f64 * std::f64::consts::TAU;
            let r = r0 + (r1 - r0) * rng.unit();
            Coord { x: cx + r * a.cos(), y: cy + r * a.sin() }
        })
        .collect();
    let f = v[0];
    v.push(f);
    Polygon::new(LineString(v), vec![])
}

/// many small polyominoes scattered (overlapping) over a w×w area
fn scatter(rng: &mut Rng, count: usize, w: i64) -> Vec<MultiPolygon<f64>> {
    (0..count)
        .map(|_| {
            let off = (rng.range(0, w), rng.range(0, w));
            let cells = rng.range(2, 10) as usize;
            MultiPolygon(polyomino_polygons(rng, 5, cells, off))
        })
        .collect()
}

fn mp_str(m: &MultiPolygon<f64>) -> String {
    proto::geom(&Geometry::MultiPolygon(m.clone()))
}

fn gen_large(rng: &mut Rng, huge: bool) -> String {
    // > 8000 segments: i_overlay switches to the fragment splitter, which runs its bins on the
    // rayon pool; > 32768: the parallel sort as well.
    let n = if huge { 18000 } else { 4500 };
    match rng.below(7) {
        0 | 4 => {
            let a = big_star(rng, n, 0.0, 0.0, 50.0, 100.0);
            let b = big_star(rng, n, 3.0, -2.0, 50.0, 100.0);
            let op = *rng.pick(&["intersection", "union", "difference", "xor"]);
            format!("C20.det bool {} {} {}", op, mp_str(&MultiPolygon(vec![a])), mp_str(&MultiPolygon(vec![b])))
        }
        1 | 5 => {
            let v = scatter(rng, if huge { 2500 } else { 700 }, if huge { 120 } else { 60 });
            let mut s = format!("C20.det uunion {}", v.len());
            for m in &v {
                s.push(' ');
                s.push_str(&mp_str(m));
            }
            s
        }
        2 | 6 => {
            let a = scatter(rng, if huge { 1300 } else { 350 }, if huge { 120 } else { 60 });
            let b = scatter(rng, if huge { 1300 } else { 350 }, if huge { 120 } else { 60 });
            let flat = |v: Vec<MultiPolygon<f64>>| MultiPolygon(v.into_iter().flat_map(|m| m.0).collect::<Vec<_>>());
            let op = *rng.pick(&["intersection", "union", "difference", "xor"]);
            format!("C20.det bool {} {} {}", op, mp_str(&flat(a)), mp_str(&flat(b)))
        }
        _ => {
            // string clip is much slower per segment than the overlay: keep the line set small
            let a = big_star(rng, 8200, 0.0, 0.0, 50.0, 100.0);
            let lines: Vec<LineString<f64>> = (0..8)
                .map(|_| LineString((0..4).map(|_| Coord { x: rng.unit() * 220.0 - 110.0, y: rng.unit() * 220.0 - 110.0 }).collect()))
                .collect();
            format!(
                "C20.det clip {} {} {}",
                rng.below(2),
                mp_str(&MultiPolygon(vec![a])),
                proto::geom(&Geometry::MultiLineString(MultiLineString(lines)))
            )
        }
    }
}

/// `C20_GEN_ONLY=1 geoharness gen C20 …` prints the inputs without evaluating them (debug aid:
/// `C20.echo <case>`; strip the first token to obtain a replay file).
pub fn gen(rng: &mut Rng, index: u64) -> String {
    let s = gen_case(rng, index);
    if std::env::var_os("C20_GEN_ONLY").is_some() { format!("C20.echo {}", s) } else { s }
}

fn gen_case(rng: &mut Rng, index: u64) -> String {
    if index % 97 == 5 {
        let n = 1usize << rng.range(12, 16);
        let inner = format!("C20.det triinvalid {} {} {}", n, rng.below(1 << 30), rng.below(12));
        // half of them across fresh processes with different worker-pool sizes
        return if rng.chance(1, 2) { format!("C20.xproc {}", inner) } else { inner };
    }
    // Inputs beyond 32768 segments (i_overlay's parallel *sort*) are deliberately not generated:
    // on most such inputs `OverlayGraph::extract` of i_overlay 2.0.5 runs away in memory until the
    // process is killed — for every pool size alike, so it is not a C20 matter (see report).
    if index % 41 == 3 {
        return gen_large(rng, false);
    }
    let k = *rng.pick(&[4i64, 6, 8]);
    match rng.below(20) {
        0..=6 => {
            let ps = stitch_polys(rng);
            let mut ts = scramble_triangles(rng, &ps);
            // 1 case in 7 violates the documented precondition (the function must still be a function)
            if !ts.is_empty() && rng.chance(1, 7) {
                let i = rng.below(ts.len() as u64) as usize;
                let t = ts[i];
                match rng.below(4) {
                    0 => ts.push(t), // the same triangle twice: all three edges cancel
                    1 => {
                        ts.remove(i); // a missing triangle: a triangular hole or notch
                    }
                    2 => {
                        // a second triangle on the same side of the edge t.0–t.1: the shared edge is
                        // cancelled although it is not interior, the rest cannot be chained => Err
                        let d = Coord { x: (t.0.x + t.1.x + 2.0 * t.2.x) / 4.0, y: (t.0.y + t.1.y + 2.0 * t.2.y) / 4.0 };
                        ts.push(Triangle(t.0, t.1, d));
                    }
                    _ => {
                        // degenerate (collinear) triangle: no winding order => treated as clockwise
                        let m = Coord { x: (t.0.x + t.1.x) / 2.0, y: (t.0.y + t.1.y) / 2.0 };
                        ts.push(Triangle(t.0, m, t.1));
                    }
                }
            }
            format!("C20.stitch {}", tris_out(&ts))
        }
        7 | 8 if rng.chance(1, 4) => {
            // one operand used twice; ring start vertices rotated away from wherever the overlay would start
            let mut a = gen_multipolygon(rng, k);
            for p in a.0.iter_mut() {
                let r = rng.below(4) as usize;
                let rot = |l: &mut LineString<f64>| {
                    let n = l.0.len();
                    if n > 3 && l.0[0] == l.0[n - 1] {
                        l.0.pop();
                        let m = l.0.len();
                        l.0.rotate_left(r % m);
                        let first = l.0[0];
                        l.0.push(first);
                    }
                };
                p.exterior_mut(|e| rot(e));
                p.interiors_mut(|hs| hs.iter_mut().for_each(|h| rot(h)));
            }
            let op = *rng.pick(&["intersection", "union", "union", "difference", "xor"]);
            format!("C20.det selfop {} {}", op, mp_str(&a))
        }
        7 | 8 => {
            let a = gen_multipolygon(rng, k);
            let b = if rng.chance(1, 3) { MultiPolygon(vec![gen_polygon(rng, k)]) } else { gen_multipolygon(rng, k) };
            let op = *rng.pick(&["intersection", "union", "difference", "xor"]);
            format!("C20.det bool {} {} {}", op, mp_str(&a), mp_str(&b))
        }
        9 => {
            let cnt = rng.range(2, 12) as usize;
            let v = scatter(rng, cnt, 8);
            let mut s = format!("C20.det uunion {}", v.len());
            for m in &v {
                s.push(' ');
                s.push_str(&mp_str(m));
            }
            s
        }
        10 => {
            let a = gen_multipolygon(rng, k);
            let l = gen_multilinestring(rng, k);
            format!("C20.det clip {} {} {}", rng.below(2), mp_str(&a), proto::geom(&Geometry::MultiLineString(l)))
        }
        11 => {
            // many separate/nested rings, digest only
            let mut ps = vec![];
            let m = rng.range(8, 30);
            let mut cells: Vec<(i64, i64)> = (0..8).flat_map(|x| (0..8).map(move |y| (x, y))).collect();
            rng.shuffle(&mut cells);
            for &(x, y) in cells.iter().take(m as usize) {
                if rng.chance(1, 4) {
                    ps.push(Polygon::new(rect_ring(6 * x, 6 * y, 6 * x + 5, 6 * y + 5), vec![rect_ring(6 * x + 1, 6 * y + 1, 6 * x + 4, 6 * y + 4)]));
                    ps.push(square((6 * x + 2) as f64, (6 * y + 2) as f64, 1.0));
                } else {
                    ps.push(square((6 * x) as f64, (6 * y) as f64, 1.0));
                }
            }
            let ts = scramble_triangles(rng, &ps);
            format!("C20.det stitch {}", tris_out(&ts))
        }
        12 | 13 => {
            let a = if rng.chance(1, 2) { MultiPolygon(vec![gen_polygon(rng, k)]) } else { gen_multipolygon(rng, k) };
            let which = *rng.pick(&["earcut", "unconstrained", "outer", "constrained", "constrained"]);
            if rng.chance(1, 4) {
                format!("C20.det tristitch {}", mp_str(&a))
            } else {
                format!("C20.det tri {} {}", which, mp_str(&a))
            }
        }
        14 => {
            let n = rng.range(3, 60) as usize;
            let pts = many_points(rng, n, k);
            let g = Geometry::MultiPoint(MultiPoint(pts.into_iter().map(Point).collect()));
            let conc = *rng.pick(&[0.0f64, 0.5, 1.0, 2.0, 3.0]);
            format!("C20.det concave {} {}", proto::num(conc), proto::geom(&g))
        }
        15 => {
            let g = match rng.below(3) {
                0 => Geometry::MultiPolygon(gen_multipolygon(rng, k)),
                1 => Geometry::MultiLineString(gen_multilinestring(rng, k)),
                _ => Geometry::Polygon(gen_polygon(rng, k)),
            };
            let conc = *rng.pick(&[0.0f64, 1.0, 2.0]);
            format!("C20.det concave {} {}", proto::num(conc), proto::geom(&g))
        }
        16 => {
            let n = rng.range(1, 60) as usize;
            let pts = many_points(rng, n, k);
            let g = Geometry::MultiPoint(MultiPoint(pts.into_iter().map(Point).collect()));
            match rng.below(3) {
                0 => format!("C20.det kconcave {} {}", rng.range(1, 8), proto::geom(&g)),
                1 => format!("C20.det outliers {} {}", rng.range(1, 8), proto::geom(&g)),
                _ => {
                    let m = rng.range(2, 6);
                    let ks: Vec<String> = (0..m).map(|_| rng.range(1, 8).to_string()).collect();
                    format!("C20.det lofseq {} {} {}", m, ks.join(" "), proto::geom(&g))
                }
            }
        }
        17 => {
            let g = if rng.chance(1, 2) {
                let n = rng.range(1, 80) as usize;
                Geometry::MultiPoint(MultiPoint(many_points(rng, n, k).into_iter().map(Point).collect()))
            } else {
                gen_valid(rng, k)
            };
            format!("C20.det convex {}", proto::geom(&g))
        }
        18 => {
            let a = gen_multipolygon(rng, k);
            let which = *rng.pick(&["rdp", "vw", "vwp"]);
            let e = *rng.pick(&[0.0f64, 0.25, 0.5, 1.0, 2.0]);
            format!("C20.det simplify {} {} {}", which, proto::num(e), mp_str(&a))
        }
        19 if rng.chance(1, 2) => {
            // Multi* with many members, so that rayon really splits the work
            let g = match rng.below(3) {
                0 => {
                    let cnt = rng.range(1, 300) as usize;
                    let v = scatter(rng, cnt, 40);
                    Geometry::MultiPolygon(MultiPolygon(v.into_iter().flat_map(|m| m.0).collect::<Vec<_>>()))
                }
                1 => Geometry::MultiLineString(MultiLineString(
                    (0..rng.range(1, 400)).map(|_| LineString(path_coords(&gen_path(rng, 8, None)))).collect(),
                )),
                _ => {
                    let n = rng.range(1, 3000) as usize;
                    Geometry::MultiPoint(MultiPoint(many_points(rng, n, 50).into_iter().map(Point).collect()))
                }
            };
            if rng.chance(1, 4) {
                // 130 … 400 horizontal lines crossed by a few slanted ones
                let n = rng.range(130, 400);
                let mut ls: Vec<LineString<f64>> = (0..n).map(|i| LineString(vec![c(0, i), c(20, i)])).collect();
                for _ in 0..rng.range(2, 4) {
                    let (x0, x1) = (rng.range(1, 19), rng.range(1, 19));
                    let at = rng.below(ls.len() as u64 + 1) as usize;
                    ls.insert(at, LineString(vec![Coord { x: x0 as f64 + 0.5, y: -1.0 }, Coord { x: x1 as f64 + 0.25, y: n as f64 + 1.0 }]));
                }
                return format!("C20.det trilines {}", proto::geom(&Geometry::MultiLineString(MultiLineString(ls))));
            }
            // lon/lat-sized coordinates so that the geodesic measures are meaningful
            let kind = if rng.chance(1, 2) { "pariter" } else { "measures" };
            format!("C20.det {} {}", kind, proto::geom(&g))
        }
        _ if rng.chance(1, 2) => {
            // a prepared polygon asked about geometries inside it, overlapping it, around it and apart from it
            let p = if rng.chance(2, 3) { Geometry::Polygon(gen_polygon(rng, k)) } else { gen_valid(rng, k) };
            let m = rng.range(2, 5) as usize;
            let mut s = format!("C20.det prelseq {} {}", m, proto::geom(&p));
            for _ in 0..m {
                let q = match rng.below(4) {
                    0 => Geometry::Polygon(gen_polygon(rng, k)),
                    1 => {
                        // a rectangle strictly containing everything on the grid
                        Geometry::Polygon(Rect::new(Coord { x: -1.0 - rng.range(0, 3) as f64, y: -2.0 }, Coord { x: k as f64 + 2.0, y: k as f64 + 1.0 + rng.range(0, 3) as f64 }).to_polygon())
                    }
                    _ => gen_valid(rng, k),
                };
                s.push(' ');
                s.push_str(&proto::geom(&q));
            }
            s
        }
        _ => {
            let a = gen_valid(rng, k);
            let b = gen_valid(rng, k);
            format!("C20.det relate {} {}", proto::geom(&a), proto::geom(&b))
        }
    }
}
