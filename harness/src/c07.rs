//! C07 — Euclidean distance is the true minimum distance.
//!
//!   C07.dist <A> <A'> <B>  =>  d(A,B) d(B,A) d(A',B) dconcrete(A,B) dconcrete(B,A)
//!   C07.near <PT> <LS>     =>  d(PT,LS) d(LS,PT) intersects(LS,PT)
//!
//! `d` goes through `Distance<&Geometry, &Geometry>`, `dconcrete` through the impl for the two
//! concrete types (10 × 10 table). Every value is printed as an f64 bit pattern; each call is
//! wrapped in `catch_unwind` (`panic`).
use crate::proto::{self, Toks, R};
use crate::rng::Rng;
use crate::shapes::*;
use geo::algorithm::map_coords::MapCoords;
use geo::{Distance, Euclidean, Intersects};
use geo_types::*;

fn hex(v: f64) -> String {
    format!("h{:016x}", v.to_bits())
}

fn guard<F: FnOnce() -> f64>(f: F) -> String {
    match std::panic::catch_unwind(std::panic::AssertUnwindSafe(f)) {
        Ok(v) => hex(v),
        Err(_) => "panic".into(),
    }
}

macro_rules! concrete_row {
    ($x:expr, $b:expr) => {
        match $b {
            Geometry::Point(y) => Euclidean.distance($x, y),
            Geometry::Line(y) => Euclidean.distance($x, y),
            Geometry::LineString(y) => Euclidean.distance($x, y),
            Geometry::Polygon(y) => Euclidean.distance($x, y),
            Geometry::MultiPoint(y) => Euclidean.distance($x, y),
            Geometry::MultiLineString(y) => Euclidean.distance($x, y),
            Geometry::MultiPolygon(y) => Euclidean.distance($x, y),
            Geometry::GeometryCollection(y) => Euclidean.distance($x, y),
            Geometry::Rect(y) => Euclidean.distance($x, y),
            Geometry::Triangle(y) => Euclidean.distance($x, y),
        }
    };
}

/// the impl for the two concrete operand types (not the `Geometry` enum impls)
fn concrete(a: &Geometry<f64>, b: &Geometry<f64>) -> f64 {
    match a {
        Geometry::Point(x) => concrete_row!(x, b),
        Geometry::Line(x) => concrete_row!(x, b),
        Geometry::LineString(x) => concrete_row!(x, b),
        Geometry::Polygon(x) => concrete_row!(x, b),
        Geometry::MultiPoint(x) => concrete_row!(x, b),
        Geometry::MultiLineString(x) => concrete_row!(x, b),
        Geometry::MultiPolygon(x) => concrete_row!(x, b),
        Geometry::GeometryCollection(x) => concrete_row!(x, b),
        Geometry::Rect(x) => concrete_row!(x, b),
        Geometry::Triangle(x) => concrete_row!(x, b),
    }
}

fn shift(g: &Geometry<f64>, dx: f64, dy: f64) -> Geometry<f64> {
    g.map_coords(|p| Coord { x: p.x + dx, y: p.y + dy })
}

fn rect_ring(x0: i64, y0: i64, x1: i64, y1: i64) -> LineString<f64> {
    LineString(vec![c(x0, y0), c(x1, y0), c(x1, y1), c(x0, y1), c(x0, y0)])
}

/// wrap a polygon as one of the areal kinds
fn wrap_poly(rng: &mut Rng, p: Polygon<f64>, far: (i64, i64)) -> Geometry<f64> {
    match rng.below(4) {
        0 => Geometry::Polygon(p),
        1 => Geometry::MultiPolygon(MultiPolygon(vec![p])),
        2 => {
            // with a second, far away member
            let q = Polygon::new(rect_ring(far.0, far.1, far.0 + 1, far.1 + 1), vec![]);
            let mut v = vec![p, q];
            rng.shuffle(&mut v);
            Geometry::MultiPolygon(MultiPolygon(v))
        }
        _ => Geometry::GeometryCollection(GeometryCollection(vec![Geometry::Polygon(p)])),
    }
}

/// kinds in protocol order: 0 PT 1 LN 2 LS 3 PG 4 MPT 5 MLS 6 MPG 7 RC 8 TR 9 GC
fn gen_pair(rng: &mut Rng, index: u64) -> (Geometry<f64>, Geometry<f64>) {
    let k = *rng.pick(&[3i64, 4, 4, 6]);
    // all 100 ordered kind pairs in turn
    let ka = index % 10;
    let kb = (index / 10) % 10;
    if rng.chance(1, 20) {
        let (a, b) = if rng.chance(1, 2) { box_corner_pair(rng) } else { tongue_pair(rng) };
        return if rng.chance(1, 2) { (a, b) } else { (b, a) };
    }
    match rng.below(10) {
        0 | 1 => {
            // B inside a hole of A (A areal): frame with hole; the hole may touch B's box
            let mut b = gen_kind(rng, k, kb, 1);
            if rng.chance(1, 3) {
                // B is itself a polygon with a hole (both operands holed, one inside the other's hole)
                let (x0, y0) = (rng.range(0, k - 3), rng.range(0, k - 3));
                let (x1, y1) = (rng.range(x0 + 3, k), rng.range(y0 + 3, k));
                let inner = rect_ring(x0 + 1, y0 + 1, x1 - 1, y1 - 1);
                b = wrap_poly(rng, Polygon::new(rect_ring(x0, y0, x1, y1), vec![inner]), (-30, -30));
            }
            let m = rng.range(0, 2); // gap between the hole and the k-grid box
            let w = rng.range(1, 2);
            let hole = rect_ring(-m, -m, k + m, k + m);
            let ext = rect_ring(-m - w, -m - w, k + m + w, k + m + w);
            let mut holes = vec![hole];
            if rng.chance(1, 3) {
                // a second hole elsewhere needs a thicker frame: put it in a side lobe
                holes.clear();
                let ext2 = rect_ring(-m - 1, -m - 1, 2 * k + 2 * m + 4, k + m + 1);
                holes.push(rect_ring(-m, -m, k + m, k + m));
                holes.push(rect_ring(k + m + 1, -m, 2 * k + 2 * m + 3, k + m));
                let a = wrap_poly(rng, Polygon::new(ext2, holes), (-20, -20));
                return if rng.chance(1, 2) { (a, b) } else { (b, a) };
            }
            let a = wrap_poly(rng, Polygon::new(ext, holes), (-20, -20));
            if rng.chance(1, 2) { (a, b) } else { (b, a) }
        }
        2 if rng.chance(1, 2) => {
            // a polygon with two holes whose bounding boxes overlap: an L-shaped hole listed first (or last)
            // wraps around a small square hole; B lies inside one of the two holes
            let ext = rect_ring(-1, -1, 11, 11);
            let l_hole = LineString(vec![c(0, 0), c(10, 0), c(10, 3), c(3, 3), c(3, 10), c(0, 10), c(0, 0)]);
            let sq = rect_ring(5, 5, 9, 9);
            let mut holes = vec![l_hole, sq];
            if rng.chance(1, 3) { holes.reverse(); }
            let a = wrap_poly(rng, Polygon::new(ext, holes), (-30, -30));
            // B: a small geometry of the requested kind inside the square hole or inside a leg of the L
            let inner = gen_kind(rng, 2, kb, 0);
            let (ox, oy) = *rng.pick(&[(6.0, 6.0), (6.0, 6.0), (0.5, 0.5), (6.0, 0.5), (0.5, 6.0)]);
            let b = shift(&inner, ox, oy);
            if rng.chance(1, 2) { (a, b) } else { (b, a) }
        }
        2 => {
            // nested: B inside a big polygon without holes (distance 0 by containment)
            let b = gen_kind(rng, k, kb, 1);
            let a = wrap_poly(rng, Polygon::new(rect_ring(-1, -1, k + 1, k + 1), vec![]), (-20, -20));
            if rng.chance(1, 2) { (a, b) } else { (b, a) }
        }
        3 | 4 => {
            // same grid: crossing / touching / overlapping
            (gen_kind(rng, k, ka, 1), gen_kind(rng, k, kb, 1))
        }
        5 | 6 => {
            // B shifted by a small amount along one or both axes: near misses, touching, parallel edges
            let a = gen_kind(rng, k, ka, 1);
            let b = gen_kind(rng, k, kb, 1);
            let d = rng.range(1, k + 2) as f64;
            let (dx, dy) = *rng.pick(&[(1.0, 0.0), (0.0, 1.0), (1.0, 1.0), (-1.0, 0.0), (0.0, -1.0), (1.0, -1.0), (1.0, 0.5), (0.5, 1.0)]);
            (a, shift(&b, dx * d, dy * d))
        }
        7 => {
            // side by side axis-parallel boxes (parallel-edge closest approach) in areal kinds
            let (w, h) = (rng.range(1, k), rng.range(1, k));
            let g = rng.range(0, 3);
            let off = rng.range(-h, h);
            let pa = Polygon::new(rect_ring(0, 0, w, h), vec![]);
            let (x0, y0) = (w + g, off);
            let pb = Polygon::new(rect_ring(x0, y0, x0 + rng.range(1, k), y0 + rng.range(1, k)), vec![]);
            let mk = |rng: &mut Rng, p: Polygon<f64>| -> Geometry<f64> {
                use geo::algorithm::bounding_rect::BoundingRect;
                match rng.below(3) {
                    0 => Geometry::Rect(p.bounding_rect().unwrap()),
                    1 => Geometry::LineString(p.exterior().clone()),
                    _ => wrap_poly(rng, p, (-20, -20)),
                }
            };
            (mk(rng, pa), mk(rng, pb))
        }
        _ => {
            // well separated
            let a = gen_kind(rng, k, ka, 1);
            let b = gen_kind(rng, k, kb, 1);
            let (dx, dy) = (rng.range(-1, 1) as f64, rng.range(-1, 1) as f64);
            let (dx, dy) = if dx == 0.0 && dy == 0.0 { (1.0, 0.0) } else { (dx, dy) };
            let d = (k + rng.range(1, 6)) as f64;
            (a, shift(&b, dx * d, dy * d))
        }
    }
}

fn next_after(v: f64, up: bool) -> f64 {
    if v == 0.0 {
        return if up { f64::from_bits(1) } else { -f64::from_bits(1) };
    }
    if (v > 0.0) == up { f64::from_bits(v.to_bits() + 1) } else { f64::from_bits(v.to_bits() - 1) }
}

/// a point that misses a slanted segment of a line string by a few ulps (candidate K4)
fn gen_near(rng: &mut Rng) -> String {
    let scale = *rng.pick(&[1.0f64, 1.0, 3.0, 1000.0, 1048576.0, 1e6]);
    let a = Coord { x: rng.range(-4, 4) as f64 * scale, y: rng.range(-4, 4) as f64 * scale };
    let mut d = Coord { x: rng.range(1, 9) as f64 * scale, y: rng.range(1, 9) as f64 * scale };
    if rng.chance(1, 2) {
        d.y = -d.y;
    }
    let b = Coord { x: a.x + d.x, y: a.y + d.y };
    let t = rng.range(1, 15) as f64 / 16.0;
    let mut p = Coord { x: a.x + t * d.x, y: a.y + t * d.y };
    // nudge one ordinate by 0..3 ulps
    let n = rng.range(0, 3);
    for _ in 0..n {
        p.y = next_after(p.y, rng.chance(1, 2));
    }
    let mut cs = vec![a, b];
    if rng.chance(1, 2) {
        cs.push(Coord { x: b.x + scale, y: b.y });
    }
    format!("C07.near PT {} LS {}", proto::coord(p), proto::coords(&cs))
}

pub fn gen(rng: &mut Rng, index: u64) -> String {
    if index % 25 == 24 {
        return gen_near(rng);
    }
    if index % 50 == 9 {
        // point-like operands at magnitudes where squares of coordinate differences overflow (2^520) or underflow
        // (2^-560) while the distance itself is an ordinary number: only an overflow-safe hypot gets these right
        let s = 2f64.powi(if rng.chance(1, 2) { rng.range(515, 525) as i32 } else { -(rng.range(545, 565) as i32) });
        let pt = |rng: &mut Rng| Coord { x: rng.range(-9, 9) as f64 * s, y: rng.range(-9, 9) as f64 * s };
        let a = Geometry::Point(Point(pt(rng)));
        let b = match rng.below(3) {
            0 => Geometry::Point(Point(pt(rng))),
            1 => Geometry::MultiPoint(MultiPoint((0..rng.range(1, 4)).map(|_| Point(pt(rng))).collect())),
            _ => Geometry::GeometryCollection(GeometryCollection(vec![Geometry::Point(Point(pt(rng))), Geometry::Point(Point(pt(rng)))])),
        };
        return format!("C07.dist {} {} {}", proto::geom(&a), proto::geom(&a), proto::geom(&b));
    }
    if index % 50 == 7 {
        // two line strings with more vertices than any indexing threshold: crossing (distance 0) or apart
        let (n1, n2) = (long_count(rng).min(200), long_count(rng).min(200));
        let a = zigzag(n1, 3, 0, 0, false);
        let gap = if rng.chance(1, 2) { 0 } else { rng.range(4, 9) };     // 0: the vertical zig-zag crosses the horizontal one
        let x0 = rng.range(-2, 2);
        let b = zigzag(n2, 3, x0 - if gap > 0 { 3 + gap } else { 1 }, -1, true);
        let (ga, gb) = (Geometry::LineString(LineString(a)), Geometry::LineString(LineString(b)));
        let (ga, gb) = if rng.chance(1, 3) { (Geometry::MultiLineString(MultiLineString(vec![match ga { Geometry::LineString(l) => l, _ => unreachable!() }])), gb) } else { (ga, gb) };
        return format!("C07.dist {} {} {}", proto::geom(&ga), proto::geom(&ga), proto::geom(&gb));
    }
    let (a, b) = gen_pair(rng, index);
    let a2 = variant(rng, &a);
    format!("C07.dist {} {} {}", proto::geom(&a), proto::geom(&a2), proto::geom(&b))
}

pub fn eval(op: &str, t: &mut Toks) -> R<String> {
    match op {
        "C07.dist" => {
            let a = t.geom()?;
            let a2 = t.geom()?;
            let b = t.geom()?;
            Ok(format!(
                "{} {} {} {} {}",
                guard(|| Euclidean.distance(&a, &b)),
                guard(|| Euclidean.distance(&b, &a)),
                guard(|| Euclidean.distance(&a2, &b)),
                guard(|| concrete(&a, &b)),
                guard(|| concrete(&b, &a)),
            ))
        }
        "C07.near" => {
            let p = match t.geom()? {
                Geometry::Point(p) => p,
                _ => return Err("expected PT".into()),
            };
            let ls = match t.geom()? {
                Geometry::LineString(l) => l,
                _ => return Err("expected LS".into()),
            };
            Ok(format!(
                "{} {} {}",
                guard(|| Euclidean.distance(&p, &ls)),
                guard(|| Euclidean.distance(&ls, &p)),
                ls.intersects(&p)
            ))
        }
        _ => Err(format!("unknown op {}", op)),
    }
}
