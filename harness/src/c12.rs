//! C12 — closest_point / interior_point lie on the geometry.
//!
//!   C12.cp <geom> <px> <py> => Intersection x y | SinglePoint x y | Indeterminate | panic
//!   C12.ip <geom>           => none | some x y | panic
use crate::proto::{self, Toks, R};
use crate::rng::Rng;
use crate::shapes::*;
use geo::algorithm::closest_point::ClosestPoint;
use geo::algorithm::coords_iter::CoordsIter;
use geo::algorithm::interior_point::InteriorPoint;
use geo::algorithm::map_coords::MapCoords;
use geo::Closest;
use geo_types::*;

fn grid_k(rng: &mut Rng) -> i64 {
    *rng.pick(&[3i64, 4, 4, 6, 8])
}

/// exact dyadic similarity (integer translation, power-of-two scale): keeps validity and keeps
/// every midpoint `(a + b) / 2` of two coordinates exactly representable
fn far(rng: &mut Rng) -> impl Fn(Coord<f64>) -> Coord<f64> + Copy {
    let s = 2f64.powi(rng.range(-2, 3) as i32);
    let m = *rng.pick(&[20i64, 1000, 1 << 20, 1 << 27]);
    let (dx, dy) = (rng.range(-m, m) as f64, rng.range(-m, m) as f64);
    move |p: Coord<f64>| Coord { x: (p.x + dx) * s, y: (p.y + dy) * s }
}

/// polygon whose hole touches the shell (the sweep's reported failure class): polyominoes with
/// enough cells that an empty cell is enclosed and meets the outside diagonally
fn touching_hole_polygon(rng: &mut Rng) -> Polygon<f64> {
    for _ in 0..400 {
        let k = *rng.pick(&[3i64, 4, 4, 5, 6]);
        let n = (k * k - rng.range(1, 2 + k)) as usize;
        for p in polyomino_polygons(rng, k, n, (0, 0)) {
            if p.interiors().is_empty() {
                continue;
            }
            let touches = p
                .interiors()
                .iter()
                .any(|h| h.0.iter().any(|c| p.exterior().0.contains(c)));
            if touches {
                return p;
            }
        }
    }
    gen_polygon(rng, 4)
}

/// thin sliver / strongly concave shapes on a wider grid
fn sliver_polygon(rng: &mut Rng) -> Polygon<f64> {
    let k = 8;
    match rng.below(3) {
        0 => {
            // thin triangle
            let x0 = rng.range(0, 2);
            let y0 = rng.range(0, k);
            let v = vec![c(x0, y0), c(x0 + rng.range(5, 8), y0 + 1), c(x0 + rng.range(5, 8), y0 + rng.range(1, 2)), c(x0, y0)];
            let mut v2 = v.clone();
            v2.dedup();
            if v2.len() < 4 {
                return Polygon::new(LineString(vec![c(0, 0), c(8, 1), c(8, 2), c(0, 0)]), vec![]);
            }
            Polygon::new(LineString(v2), vec![])
        }
        1 => {
            // "C" / "U" shape whose centroid is outside
            let w = rng.range(3, 8);
            let h = rng.range(3, 8);
            let t = 1;
            let v = vec![c(0, 0), c(w, 0), c(w, t), c(t, t), c(t, h - t), c(w, h - t), c(w, h), c(0, h), c(0, 0)];
            let p = Polygon::new(LineString(v), vec![]);
            if rng.chance(1, 2) { p.map_coords(|q| Coord { x: q.y, y: q.x }) } else { p }
        }
        _ => {
            // zig-zag comb
            let n = rng.range(2, 4);
            let mut v = vec![c(0, 0)];
            for i in 0..n {
                v.push(c(2 * i + 1, rng.range(3, 8)));
                v.push(c(2 * i + 2, rng.range(1, 2)));
            }
            v.push(c(2 * n, 0));
            v.push(c(0, 0));
            Polygon::new(LineString(v), vec![])
        }
    }
}

/// the same polygon with some consecutive vertices repeated (zero-length edges; still valid)
fn dup_vertices(rng: &mut Rng, p: &Polygon<f64>) -> Polygon<f64> {
    let dup = |rng: &mut Rng, r: &LineString<f64>| -> LineString<f64> {
        let mut v = vec![];
        for q in &r.0 {
            v.push(*q);
            if rng.chance(1, 4) {
                v.push(*q);
            }
        }
        LineString(v)
    };
    let e = dup(rng, p.exterior());
    let hs: Vec<LineString<f64>> = p.interiors().iter().map(|h| dup(rng, h)).collect();
    Polygon::new(e, hs)
}

/// very thin valid polygons with non-representable, nearly coincident scan crossings
fn needle_polygon(rng: &mut Rng) -> Polygon<f64> {
    let big = |rng: &mut Rng| -> f64 {
        let e = rng.range(0, 40) as i32;
        (rng.range(1, 1 << 20) as f64) * 2f64.powi(e - 20)
    };
    let (ox, oy) = if rng.chance(1, 2) { (0.0, 0.0) } else { (big(rng) * 8.0, big(rng) * 8.0) };
    let l = big(rng) + 1.0;
    let h1 = big(rng) / 1024.0 + 0.5;
    let eps = 2f64.powi(-(rng.range(1, 45) as i32));
    let n = rng.range(3, 6);
    // fan of nearly parallel edges from the origin corner to the far side
    let mut v = vec![Coord { x: ox, y: oy }];
    for i in 0..(n - 1) {
        v.push(Coord { x: ox + l, y: oy + h1 * (1.0 + eps * i as f64) });
    }
    // make it a polygon: corner, far side going up
    v.dedup();
    if v.len() < 3 {
        return Polygon::new(LineString(vec![c(0, 0), c(8, 1), c(8, 2), c(0, 0)]), vec![]);
    }
    let f = v[0];
    v.push(f);
    let p = Polygon::new(LineString(v), vec![]);
    match rng.below(3) {
        0 => p,
        1 => p.map_coords(|q| Coord { x: q.y, y: q.x }),
        _ => p.map_coords(|q| Coord { x: -q.x, y: q.y + q.x * 0.5 }),
    }
}

/// collection of mixed dimension, members shifted apart
/// two real areal members with a degenerate value of an areal type (zero-width Rect, flat Triangle) between them, where the
/// centroid of the collection falls; sometimes nested one level
fn degenerate_between(rng: &mut Rng) -> Geometry<f64> {
    let (ox, oy) = (rng.range(-3, 3) as f64, rng.range(-3, 3) as f64);
    let c = |x: f64, y: f64| Coord { x: x + ox, y: y + oy };
    let sq = |x0: f64| Polygon::new(LineString(vec![c(x0, 0.0), c(x0 + 2.0, 0.0), c(x0 + 2.0, 2.0), c(x0, 2.0), c(x0, 0.0)]), vec![]);
    let left = match rng.below(3) { 0 => Geometry::Rect(Rect::new(c(0.0, 0.0), c(2.0, 2.0))), 1 => Geometry::Triangle(Triangle(c(0.0, 0.0), c(2.0, 0.0), c(0.0, 2.0))), _ => Geometry::Polygon(sq(0.0)) };
    let right = if rng.chance(1, 2) { Geometry::Polygon(sq(10.0)) } else { Geometry::MultiPolygon(MultiPolygon(vec![sq(10.0)])) };
    let mid = match rng.below(4) {
        0 => Geometry::Rect(Rect::new(c(6.0, 0.0), c(6.0, 2.0))),
        1 => Geometry::Rect(Rect::new(c(5.0, 1.0), c(7.0, 1.0))),
        2 => Geometry::Triangle(Triangle(c(6.0, 0.0), c(6.0, 1.0), c(6.0, 2.0))),
        _ => Geometry::Triangle(Triangle(c(5.0, 0.0), c(6.0, 1.0), c(7.0, 2.0))),
    };
    let mid = if rng.chance(1, 3) { Geometry::GeometryCollection(GeometryCollection(vec![mid])) } else { mid };
    let mut v = vec![left, mid, right];
    rng.shuffle(&mut v);
    Geometry::GeometryCollection(GeometryCollection(v))
}

fn mixed_collection(rng: &mut Rng) -> Geometry<f64> {
    if rng.chance(1, 6) {
        return degenerate_between(rng);
    }
    let n = rng.range(1, 4);
    let mut v = vec![];
    for i in 0..n {
        let kind = rng.below(9);
        let g = gen_kind(rng, 2, kind, 0);
        let (ox, oy) = ((i as f64) * 3.0, ((i * 2) % 3) as f64 * 3.0);
        v.push(g.map_coords(|p| Coord { x: p.x + ox, y: p.y + oy }));
    }
    Geometry::GeometryCollection(GeometryCollection(v))
}

/// degenerate but meaningful inputs: empty things, zero-length lines, single coordinates
fn degenerate(rng: &mut Rng, k: i64) -> Geometry<f64> {
    let a = grid_pt(rng, k);
    match rng.below(9) {
        0 => Geometry::Line(Line::new(a, a)),
        1 => Geometry::LineString(LineString(vec![])),
        2 => Geometry::LineString(LineString(vec![a, a])),
        3 => Geometry::MultiPoint(MultiPoint(vec![])),
        4 => Geometry::MultiLineString(MultiLineString(vec![LineString(vec![]), LineString(vec![])])),
        5 => Geometry::MultiPolygon(MultiPolygon(vec![])),
        6 => Geometry::GeometryCollection(GeometryCollection(vec![])),
        7 => Geometry::Polygon(Polygon::new(LineString(vec![]), vec![])),
        _ => Geometry::GeometryCollection(GeometryCollection(vec![
            Geometry::LineString(LineString(vec![])),
            Geometry::MultiPoint(MultiPoint(vec![])),
        ])),
    }
}

fn gen_geom(rng: &mut Rng, for_ip: bool) -> Geometry<f64> {
    let k = grid_k(rng);
    let g = match rng.below(20) {
        0 => degenerate(rng, k),
        1 | 2 => mixed_collection(rng),
        3 => Geometry::Polygon(sliver_polygon(rng)),
        4 if for_ip && rng.chance(1, 2) => Geometry::Polygon(needle_polygon(rng)),
        4 => Geometry::Polygon(sliver_polygon(rng)),
        5 | 6 | 7 if for_ip => Geometry::Polygon(touching_hole_polygon(rng)),
        5 => Geometry::Polygon(touching_hole_polygon(rng)),
        8 | 9 => Geometry::Polygon(gen_polygon(rng, k)),
        10 => Geometry::MultiPolygon(gen_multipolygon(rng, k)),
        _ => gen_valid(rng, k),
    };
    // repeat some consecutive ring vertices (zero-length edges: points in the sweep)
    let g = match g {
        Geometry::Polygon(p) if rng.chance(1, 6) => Geometry::Polygon(dup_vertices(rng, &p)),
        g => g,
    };
    if rng.chance(1, 4) {
        let f = far(rng);
        g.map_coords(f)
    } else {
        g
    }
}

fn query_point(rng: &mut Rng, g: &Geometry<f64>) -> Coord<f64> {
    let cs: Vec<Coord<f64>> = g.coords_iter().collect();
    if cs.is_empty() {
        return grid_pt(rng, 4);
    }
    let (mut x0, mut y0, mut x1, mut y1) = (cs[0].x, cs[0].y, cs[0].x, cs[0].y);
    for q in &cs {
        x0 = x0.min(q.x);
        y0 = y0.min(q.y);
        x1 = x1.max(q.x);
        y1 = y1.max(q.y);
    }
    let span = (x1 - x0).max(y1 - y0).max(1.0);
    // unit of the (possibly scaled) grid: a power of two ≤ span
    let unit = 2f64.powi((span.log2().floor() as i32 - 3).max(-3));
    // inside a hole (the interiors are what the Polygon impl must not forget)
    let holes: Vec<&LineString<f64>> = match g {
        Geometry::Polygon(p) => p.interiors().iter().collect(),
        Geometry::MultiPolygon(mp) => mp.0.iter().flat_map(|p| p.interiors().iter()).collect(),
        _ => vec![],
    };
    if !holes.is_empty() && rng.chance(1, 3) {
        let h = *rng.pick(&holes);
        let n = (h.0.len() - 1).max(1) as f64;
        let (sx, sy) = h.0.iter().take(h.0.len() - 1).fold((0.0, 0.0), |a, q| (a.0 + q.x, a.1 + q.y));
        // vertex average, snapped to the quarter-unit lattice so that it stays exactly representable
        let q = |v: f64| (v / n * 4.0 / unit).round() * unit / 4.0;
        return Coord { x: q(sx), y: q(sy) };
    }
    match rng.below(8) {
        // on a vertex
        0 => *rng.pick(&cs),
        // midpoint of two consecutive coordinates (on an edge for most types)
        1 | 2 => {
            let i = rng.below(cs.len() as u64) as usize;
            let j = (i + 1) % cs.len();
            Coord { x: (cs[i].x + cs[j].x) / 2.0, y: (cs[i].y + cs[j].y) / 2.0 }
        }
        // a point near a vertex (one grid unit away): outside or inside, often equidistant
        3 => {
            let v = *rng.pick(&cs);
            Coord { x: v.x + unit * rng.range(-2, 2) as f64, y: v.y + unit * rng.range(-2, 2) as f64 }
        }
        // centre of the bounding box (equidistant from several parts for symmetric shapes)
        4 => Coord { x: (x0 + x1) / 2.0, y: (y0 + y1) / 2.0 },
        // anywhere in the slightly enlarged bounding box, on the half-unit lattice
        _ => {
            let nx = ((x1 - x0) / unit) as i64 + 4;
            let ny = ((y1 - y0) / unit) as i64 + 4;
            Coord {
                x: x0 + unit * (rng.range(-4, 2 * nx) as f64) / 2.0,
                y: y0 + unit * (rng.range(-4, 2 * ny) as f64) / 2.0,
            }
        }
    }
}

/// holed polygons in which a query that misses the polygon lies in the bounding box of a hole it is *not* in:
/// (a) triangular shell, triangular hole whose bounding-box corner pokes beyond the hypotenuse (query outside
/// the shell); (b) square shell with two triangular holes whose bounding boxes overlap (query inside the other
/// hole). The nearest ring is then not the one whose box contains the query.
fn bbox_trap(rng: &mut Rng) -> (Geometry<f64>, Coord<f64>) {
    let c = |x: i64, y: i64| Coord { x: x as f64, y: y as f64 };
    let ring = |v: &[(i64, i64)]| { let mut r: Vec<Coord<f64>> = v.iter().map(|&(x, y)| c(x, y)).collect(); r.push(r[0]); LineString(r) };
    let (poly, q) = if rng.chance(1, 2) {
        let n = rng.range(4, 9);                       // shell (0,0) (4n,0) (0,4n)
        let a = rng.range(1, n - 2);
        let b = rng.range(2 * n + 1, 4 * n - a - 1);    // a + b < 4n (inside), 2b > 4n (box corner outside)
        let shell = ring(&[(0, 0), (4 * n, 0), (0, 4 * n)]);
        let hole = ring(&[(a, a), (b, a), (a, b)]);
        // query beyond the shell's hypotenuse, inside the hole's box
        let qx = rng.range(2 * n + 1, b);
        let qy = rng.range((4 * n - qx + 1).max(a), b);
        (Polygon::new(shell, vec![hole]), c(qx, qy))
    } else {
        let n = rng.range(3, 6);                        // shell [0,4n]^2
        let m = 4 * n;
        let shell = ring(&[(0, 0), (m, 0), (m, m), (0, m)]);
        let h1 = ring(&[(1, 1), (m - 3, 1), (1, m - 3)]);            // hypotenuse x + y = m - 2
        let h2 = ring(&[(m - 1, m - 1), (m - 1, 3), (3, m - 1)]);    // hypotenuse x + y = m + 2
        let mut hs = vec![h1, h2];
        if rng.chance(1, 2) { hs.reverse(); }
        // query strictly inside one hole and inside the other hole's box
        let q = if rng.chance(1, 2) {
            let x = rng.range(n + 2, m - 4); let y = (m + 3 - x).max(4).min(m - 4); c(x, y.max(m + 3 - x))
        } else {
            let x = rng.range(2, m / 2 - 2); let y = (m - 3 - x).min(m - 4); c(x, y.min(m - 3 - x))
        };
        (Polygon::new(shell, hs), q)
    };
    // an exact isometry of the grid + dyadic similarity
    let sw = rng.chance(1, 2); let fx = rng.chance(1, 2); let fy = rng.chance(1, 2);
    let f = far(rng);
    let t = move |p: Coord<f64>| {
        let (mut x, mut y) = if sw { (p.y, p.x) } else { (p.x, p.y) };
        if fx { x = -x; }
        if fy { y = -y; }
        f(Coord { x, y })
    };
    let g = Geometry::Polygon(poly).map_coords(t);
    let g = if rng.chance(1, 3) { Geometry::MultiPolygon(MultiPolygon(vec![match g { Geometry::Polygon(p) => p, _ => unreachable!() }])) } else { g };
    (g, t(q))
}

/// non-grid coordinates for the projection arithmetic
fn wild_cp(rng: &mut Rng) -> (Geometry<f64>, Coord<f64>) {
    let w = |rng: &mut Rng| Coord { x: (rng.unit() - 0.5) * 200.0, y: (rng.unit() - 0.5) * 200.0 };
    let g = match rng.below(4) {
        0 => Geometry::Line(Line::new(w(rng), w(rng))),
        1 => Geometry::LineString(LineString(vec![w(rng), w(rng)])),
        2 => Geometry::Triangle(Triangle::new(w(rng), w(rng), w(rng))),
        _ => Geometry::Rect(Rect::new(w(rng), w(rng))),
    };
    let cs: Vec<Coord<f64>> = g.coords_iter().collect();
    let p = match rng.below(3) {
        0 => *rng.pick(&cs),
        1 => Coord { x: (cs[0].x + cs[1].x) / 2.0, y: (cs[0].y + cs[1].y) / 2.0 },
        _ => w(rng),
    };
    (g, p)
}

pub fn gen(rng: &mut Rng, _index: u64) -> String {
    // diagnostic streams (not used by ./check): C12_STREAM=touch | poly
    if let Ok(st) = std::env::var("C12_STREAM") {
        let g = match st.as_str() {
            "touch" => Geometry::Polygon(touching_hole_polygon(rng)),
            "needle" => Geometry::Polygon(needle_polygon(rng)),
            "dup" => { let p = if rng.chance(1, 2) { touching_hole_polygon(rng) } else { gen_polygon(rng, 6) }; Geometry::Polygon(dup_vertices(rng, &p)) }
            _ => Geometry::Polygon(gen_polygon(rng, 6)),
        };
        let g = if rng.chance(1, 3) { let f = far(rng); g.map_coords(f) } else { g };
        return format!("C12.ip {}", proto::geom(&g));
    }
    if rng.chance(1, 2) {
        if rng.chance(1, 10) {
            let (g, p) = wild_cp(rng);
            return format!("C12.cp {} {}", proto::geom(&g), proto::coord(p));
        }
        if rng.chance(1, 40) {
            // a MultiPoint / collection of points at magnitudes where squared distances overflow or underflow
            let s = 2f64.powi(if rng.chance(1, 2) { rng.range(515, 525) as i32 } else { -(rng.range(545, 565) as i32) });
            let pt = |rng: &mut Rng| Coord { x: rng.range(-9, 9) as f64 * s, y: rng.range(-9, 9) as f64 * s };
            let pts: Vec<Point<f64>> = (0..rng.range(2, 6)).map(|_| Point(pt(rng))).collect();
            let g = if rng.chance(2, 3) { Geometry::MultiPoint(MultiPoint(pts)) } else { Geometry::GeometryCollection(GeometryCollection(pts.into_iter().map(Geometry::Point).collect())) };
            let p = pt(rng);
            return format!("C12.cp {} {}", proto::geom(&g), proto::coord(p));
        }
        if rng.chance(1, 10) {
            let (g, p) = bbox_trap(rng);
            return format!("C12.cp {} {}", proto::geom(&g), proto::coord(p));
        }
        let g = gen_geom(rng, false);
        let p = query_point(rng, &g);
        format!("C12.cp {} {}", proto::geom(&g), proto::coord(p))
    } else {
        let g = gen_geom(rng, true);
        format!("C12.ip {}", proto::geom(&g))
    }
}

pub fn eval(op: &str, t: &mut Toks) -> R<String> {
    match op {
        "C12.cp" => {
            let g = t.geom()?;
            let p = Point(t.coord()?);
            // a Point operand is asked through each of its three entry points in rotation: the `Geometry` enum, the
            // `Point` impl and the `Coord` impl (which has a body of its own)
            let r = match &g {
                Geometry::Point(q) => match (q.x().to_bits() ^ p.y().to_bits().rotate_left(9)) % 3 {
                    0 => g.closest_point(&p),
                    1 => q.closest_point(&p),
                    _ => q.0.closest_point(&p),
                },
                _ => g.closest_point(&p),
            };
            Ok(match r {
                Closest::Intersection(x) => format!("Intersection {}", proto::coord(x.0)),
                Closest::SinglePoint(x) => format!("SinglePoint {}", proto::coord(x.0)),
                Closest::Indeterminate => "Indeterminate".to_string(),
            })
        }
        "C12.ip" => {
            let g = t.geom()?;
            // the panic message is only of interest when diagnosing (C12_PANIC_MSG=1)
            let r = std::panic::catch_unwind(std::panic::AssertUnwindSafe(|| g.interior_point()));
            Ok(match r {
                Ok(None) => "none".to_string(),
                Ok(Some(x)) => format!("some {}", proto::coord(x.0)),
                Err(e) => {
                    if std::env::var("C12_PANIC_MSG").is_ok() {
                        let m = e.downcast_ref::<String>().cloned().or_else(|| e.downcast_ref::<&str>().map(|s| s.to_string()));
                        eprintln!("panic: {:?}", m);
                    }
                    "panic".to_string()
                }
            })
        }
        _ => Err(format!("unknown op {}", op)),
    }
}
