//! C11 — line_intersection classification and location.
use crate::gen::*;
use crate::proto::{self, Toks, R};
use crate::rng::Rng;
use geo::algorithm::line_intersection::{line_intersection, LineIntersection};
use geo::Intersects;
use geo_types::*;

fn next_after(v: f64, up: bool) -> f64 {
    if v == 0.0 {
        return if up { f64::from_bits(1) } else { -f64::from_bits(1) };
    }
    let b = v.to_bits();
    let nb = if (v > 0.0) == up { b + 1 } else { b - 1 };
    f64::from_bits(nb)
}

pub fn nudge(rng: &mut Rng, v: f64) -> f64 {
    let mut r = v;
    for _ in 0..rng.range(1, 3) {
        r = next_after(r, rng.chance(1, 2));
    }
    r
}

fn lerp(a: Coord<f64>, b: Coord<f64>, t: f64) -> Coord<f64> {
    Coord { x: a.x + (b.x - a.x) * t, y: a.y + (b.y - a.y) * t }
}

pub fn gen(rng: &mut Rng, _index: u64) -> String {
    let k = *rng.pick(&[2i64, 3, 4, 5]);
    let (p1, p2, q1, q2);
    match rng.below(12) {
        11 => {
            let (a, b, pt) = crate::shapes::ulp_beyond_end(rng);
            // the point as a zero-length segment, first or second operand, or as the end of a proper collinear segment
            match rng.below(3) {
                0 => { p1 = pt; p2 = pt; q1 = a; q2 = b; }
                1 => { p1 = a; p2 = b; q1 = pt; q2 = pt; }
                _ => { p1 = a; p2 = b; q1 = pt; q2 = Coord { x: pt.x + (pt.x - a.x), y: pt.y + (pt.y - a.y) }; }
            }
        }
        10 => {
            // decimal (non-dyadic) coordinates, segments sharing an end point in every arrangement (V, chain, T):
            // exactness of any centre / extent arithmetic is lost here, the predicates must not depend on it
            let d = |rng: &mut Rng| Coord { x: rng.range(-30, 30) as f64 / 10.0, y: rng.range(-30, 30) as f64 / 10.0 };
            let (a, b, c2) = (d(rng), d(rng), d(rng));
            match rng.below(6) {
                4 | 5 => {
                    // an axis-parallel stem meeting (or just crossing) an oblique decimal segment: near-T junctions
                    let t = rng.range(1, 9) as f64 / 10.0;
                    let m = Coord { x: a.x + t * (b.x - a.x), y: a.y + t * (b.y - a.y) };
                    let far = if rng.chance(1, 2) { Coord { x: m.x, y: m.y + rng.range(-30, 30) as f64 / 10.0 } } else { Coord { x: m.x + rng.range(-30, 30) as f64 / 10.0, y: m.y } };
                    let near = if rng.chance(1, 2) { m } else if far.x == m.x { Coord { x: m.x, y: m.y - (far.y - m.y) * 1e-3 } } else { Coord { x: m.x - (far.x - m.x) * 1e-3, y: m.y } };
                    p1 = a; p2 = b; q1 = near; q2 = far;
                }
                0 => { p1 = a; p2 = b; q1 = a; q2 = c2; }
                1 => { p1 = a; p2 = b; q1 = b; q2 = c2; }
                2 => { p1 = b; p2 = a; q1 = c2; q2 = a; }
                _ => { p1 = a; p2 = b; q1 = c2; q2 = d(rng); }
            }
        }
        0..=4 => {
            // regime G: small grid, all coincidence classes frequent (incl. zero-length)
            p1 = grid_coord(rng, k); p2 = grid_coord(rng, k);
            q1 = grid_coord(rng, k); q2 = grid_coord(rng, k);
        }
        5 => {
            // collinear on a common line through grid points, scaled/offset
            let o = grid_coord(rng, k);
            let d = Coord { x: rng.range(-3, 3) as f64, y: rng.range(-3, 3) as f64 };
            let at = |t: i64| Coord { x: o.x + d.x * t as f64, y: o.y + d.y * t as f64 };
            p1 = at(rng.range(-3, 3)); p2 = at(rng.range(-3, 3));
            q1 = at(rng.range(-3, 3)); q2 = at(rng.range(-3, 3));
        }
        6 | 7 => {
            // regime A: T-junction / touching endpoint, one to three ulps off
            let a = wild_coord(rng); let b = wild_coord(rng);
            let u = rng.unit();
            let t = *rng.pick(&[0.0, 0.25, 0.5, 0.75, 1.0, u]);
            let m = lerp(a, b, t);
            let m2 = if rng.chance(1, 2) { m } else { Coord { x: nudge(rng, m.x), y: nudge(rng, m.y) } };
            p1 = a; p2 = b; q1 = m2; q2 = wild_coord(rng);
        }
        8 => {
            // nearly parallel, large magnitude
            let s = 2f64.powi(rng.range(0, 40) as i32);
            let a = Coord { x: rng.range(-9, 9) as f64 * s, y: rng.range(-9, 9) as f64 * s };
            let b = Coord { x: a.x + rng.range(1, 9) as f64 * s, y: a.y + rng.range(-9, 9) as f64 * s };
            p1 = a; p2 = b;
            let off = if rng.chance(1, 2) { 0.0 } else { s };
            q1 = Coord { x: nudge(rng, a.x), y: nudge(rng, a.y + off) };
            q2 = Coord { x: nudge(rng, b.x), y: nudge(rng, b.y) };
        }
        _ => {
            p1 = wild_coord(rng); p2 = wild_coord(rng); q1 = wild_coord(rng); q2 = wild_coord(rng);
        }
    }
    format!("C11.li {} {} {} {}", proto::coord(p1), proto::coord(p2), proto::coord(q1), proto::coord(q2))
}

fn li_str(r: Option<LineIntersection<f64>>) -> String {
    match r {
        None => "none".into(),
        Some(LineIntersection::SinglePoint { intersection, is_proper }) => format!(
            "single {} {}",
            proto::coord(intersection),
            if is_proper { "proper" } else { "improper" }
        ),
        Some(LineIntersection::Collinear { intersection }) => {
            format!("collinear {} {}", proto::coord(intersection.start), proto::coord(intersection.end))
        }
    }
}

pub fn eval(op: &str, t: &mut Toks) -> R<String> {
    match op {
        "C11.li" => {
            let p = Line::new(t.coord()?, t.coord()?);
            let q = Line::new(t.coord()?, t.coord()?);
            Ok(format!(
                "li {} swapped {} isx {} {}",
                li_str(line_intersection(p, q)),
                li_str(line_intersection(q, p)),
                p.intersects(&q),
                q.intersects(&p)
            ))
        }
        _ => Err(format!("unknown op {}", op)),
    }
}
