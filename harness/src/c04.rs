//! C04 — Boolean operations (intersection / union / difference / xor, unary_union, clip).
//!
//! Ops (input text → output text). `u` is the grid unit of the case (a power of two), used by the
//! driver to place its sample points. Engine answers ("raw") come from the `verif-hooks` probes
//! `geo::algorithm::bool_ops::verif::engine_*`, which call i_overlay exactly as the glue does; the
//! results ("res") come from the public API.
//!
//!   C04.bool u <PG|MPG A> <PG|MPG B>
//!       → `subj <paths> clip <paths> raw <shapes>×7 rules <name>×4 res <MPG>×4`
//!         (raw: the engine's answer for each of its seven `OverlayRule`s in declaration order, fill
//!         EvenOdd; rules / res: for Intersection, Union, Difference, Xor)
//!   C04.unary u n <PG|MPG>…   (all members of one type; a mix is evaluated as MultiPolygons)
//!       → `subj <paths> pos <raw shapes> neg <raw shapes> res <MPG> fold <MPG>`
//!         (`fold` = members folded with the pairwise `union`, starting from the empty MultiPolygon)
//!   C04.clip u <PG|MPG> <MLS>
//!       → `lines <paths> clip <paths> in <raw paths> out <raw paths> resin <MLS> resout <MLS>`
//!   C04.glue ring <n x y…>          → `<path>`                 (`ring_to_shape_path`, ring as written)
//!   C04.glue shape <k <path>…>      → `PG …`                   (`polygon_from_shape`)
//!   C04.glue rule                   → the four `OverlayRule` names for Intersection, Union, Difference, Xor
//!
//! paths = `k <n x y…>…`; shapes = `n <k <n x y…>…>…` (same grammar as the body of `MPG`, rings as
//! written, never closed).
use crate::proto::{self, Toks, R};
use crate::rng::Rng;
use crate::shapes::*;
use geo::algorithm::bool_ops::verif;
use geo::algorithm::bool_ops::{unary_union, BooleanOps, OpType};
use geo::algorithm::orient::{Direction, Orient};
use geo_types::*;

type Path = Vec<(f64, f64)>;

// ------------------------------------------------------------------ printing

fn path_str(p: &Path) -> String {
    let mut s = format!("{}", p.len());
    for &(x, y) in p {
        s.push_str(&format!(" {} {}", proto::num(x), proto::num(y)));
    }
    s
}
fn paths_str(ps: &[Path]) -> String {
    let mut s = format!("{}", ps.len());
    for p in ps {
        s.push(' ');
        s.push_str(&path_str(p));
    }
    s
}
fn shapes_str(ss: &[Vec<Path>]) -> String {
    let mut s = format!("{}", ss.len());
    for sh in ss {
        s.push(' ');
        s.push_str(&paths_str(sh));
    }
    s
}
fn mpg_str(m: &MultiPolygon<f64>) -> String {
    proto::geom(&Geometry::MultiPolygon(m.clone()))
}
fn mls_str(m: &MultiLineString<f64>) -> String {
    proto::geom(&Geometry::MultiLineString(m.clone()))
}

// ------------------------------------------------------------------ evaluation

enum Areal {
    P(Polygon<f64>),
    M(MultiPolygon<f64>),
}

fn areal(t: &mut Toks) -> R<Areal> {
    match t.geom()? {
        Geometry::Polygon(p) => Ok(Areal::P(p)),
        Geometry::MultiPolygon(m) => Ok(Areal::M(m)),
        _ => Err("expected PG or MPG".into()),
    }
}

fn rings_of(a: &Areal) -> Vec<Path> {
    match a {
        Areal::P(p) => p.rings().map(verif::ring_to_shape_path).collect(),
        Areal::M(m) => m.rings().map(verif::ring_to_shape_path).collect(),
    }
}

fn four<A: BooleanOps<Scalar = f64>, B: BooleanOps<Scalar = f64>>(a: &A, b: &B) -> [MultiPolygon<f64>; 4] {
    [a.intersection(b), a.union(b), a.difference(b), a.xor(b)]
}

fn clip2<A: BooleanOps<Scalar = f64>>(a: &A, m: &MultiLineString<f64>) -> (MultiLineString<f64>, MultiLineString<f64>) {
    (a.clip(m, false), a.clip(m, true))
}

const OPS: [OpType; 4] = [OpType::Intersection, OpType::Union, OpType::Difference, OpType::Xor];

pub fn eval(op: &str, t: &mut Toks) -> R<String> {
    match op {
        "C04.bool" => {
            let _u = t.num()?;
            let a = areal(t)?;
            let b = areal(t)?;
            let subj = rings_of(&a);
            let clip = rings_of(&b);
            let res = match (&a, &b) {
                (Areal::P(a), Areal::P(b)) => four(a, b),
                (Areal::P(a), Areal::M(b)) => four(a, b),
                (Areal::M(a), Areal::P(b)) => four(a, b),
                (Areal::M(a), Areal::M(b)) => four(a, b),
            };
            let mut s = format!("subj {} clip {} raw", paths_str(&subj), paths_str(&clip));
            // the engine's answer for every rule it knows (the model chooses, not the harness)
            for rule in ["Subject", "Clip", "Intersect", "Union", "Difference", "InverseDifference", "Xor"] {
                let raw = verif::engine_overlay(&subj, &clip, rule, "EvenOdd");
                s.push_str(&format!(" {}", shapes_str(&raw)));
            }
            s.push_str(" rules");
            for o in OPS.iter() {
                s.push_str(&format!(" {}", verif::overlay_rule_name(*o)));
            }
            s.push_str(" res");
            for r in res.iter() {
                s.push_str(&format!(" {}", mpg_str(r)));
            }
            Ok(s)
        }
        "C04.unary" => {
            let _u = t.num()?;
            let n = t.usize()?;
            let mut bs = vec![];
            for _ in 0..n {
                bs.push(areal(t)?);
            }
            // `unary_union` takes one boppable type: all Polygon, or all MultiPolygon
            let all_poly = bs.iter().all(|b| matches!(b, Areal::P(_)));
            let subj: Vec<Path> = bs.iter().flat_map(rings_of).collect();
            let pos = verif::engine_single(&subj, "Positive");
            let neg = verif::engine_single(&subj, "Negative");
            let mut fold = MultiPolygon::<f64>(vec![]);
            let res = if all_poly {
                let ps: Vec<Polygon<f64>> = bs.iter().map(|b| match b { Areal::P(p) => p.clone(), Areal::M(_) => unreachable!() }).collect();
                for p in &ps {
                    fold = fold.union(p);
                }
                unary_union(ps.iter())
            } else {
                let ms: Vec<MultiPolygon<f64>> = bs.iter().map(|b| match b { Areal::P(p) => MultiPolygon(vec![p.clone()]), Areal::M(m) => m.clone() }).collect();
                for m in &ms {
                    fold = fold.union(m);
                }
                unary_union(ms.iter())
            };
            Ok(format!(
                "subj {} pos {} neg {} res {} fold {}",
                paths_str(&subj),
                shapes_str(&pos),
                shapes_str(&neg),
                mpg_str(&res),
                mpg_str(&fold)
            ))
        }
        "C04.clip" => {
            let _u = t.num()?;
            let a = areal(t)?;
            let m = match t.geom()? {
                Geometry::MultiLineString(m) => m,
                _ => return Err("expected MLS".into()),
            };
            let clip = rings_of(&a);
            let lines: Vec<Path> = m.0.iter().map(|l| l.0.iter().map(|c| (c.x, c.y)).collect()).collect();
            let rin = verif::engine_clip(&lines, &clip, "EvenOdd", false, true);
            let rout = verif::engine_clip(&lines, &clip, "EvenOdd", true, true);
            let (resin, resout) = match &a {
                Areal::P(p) => clip2(p, &m),
                Areal::M(p) => clip2(p, &m),
            };
            Ok(format!(
                "lines {} clip {} in {} out {} resin {} resout {}",
                paths_str(&lines),
                paths_str(&clip),
                paths_str(&rin),
                paths_str(&rout),
                mls_str(&resin),
                mls_str(&resout)
            ))
        }
        "C04.glue" => match t.tok()? {
            "ring" => {
                let r = LineString(t.coords()?);
                Ok(path_str(&verif::ring_to_shape_path(&r)))
            }
            "shape" => {
                let k = t.usize()?;
                let mut sh: Vec<Path> = vec![];
                for _ in 0..k {
                    sh.push(t.coords()?.into_iter().map(|c| (c.x, c.y)).collect());
                }
                Ok(proto::geom(&Geometry::Polygon(verif::polygon_from_shape(&sh))))
            }
            "rule" => Ok(OPS.iter().map(|o| verif::overlay_rule_name(*o)).collect::<Vec<_>>().join(" ")),
            x => Err(format!("unknown glue op {}", x)),
        },
        _ => Err(format!("unknown op {}", op)),
    }
}

// ------------------------------------------------------------------ generation

/// insert repeated vertices (the property's input class names them, incl. a repeated closing vertex)
fn repeat_vertices(rng: &mut Rng, r: &LineString<f64>) -> LineString<f64> {
    let mut v = r.0.clone();
    if v.len() < 4 {
        return LineString(v);
    }
    let n = rng.below(3);
    for _ in 0..n {
        let i = rng.below(v.len() as u64) as usize;
        let c = v[i];
        v.insert(i, c);
    }
    if rng.chance(1, 3) {
        let c = v[0];
        v.push(c); // repeated closing vertex
        if rng.chance(1, 4) {
            v.push(c);
        }
    }
    LineString(v)
}

fn repeat_poly(rng: &mut Rng, p: &Polygon<f64>) -> Polygon<f64> {
    let e = repeat_vertices(rng, p.exterior());
    let hs = p.interiors().iter().map(|h| if rng.chance(1, 2) { repeat_vertices(rng, h) } else { h.clone() }).collect();
    Polygon::new(e, hs)
}

/// rectangle with 0..2 rectangular / triangular holes strictly inside it (or touching it / each other
/// at single points), random start vertex and direction per ring
fn holed_rect(rng: &mut Rng, k: i64) -> Polygon<f64> {
    let k = k.max(4);
    let (x0, y0) = (rng.range(0, 1), rng.range(0, 1));
    let (x1, y1) = (rng.range(k - 1, k), rng.range(k - 1, k));
    let ring = |rng: &mut Rng, v: Vec<(i64, i64)>| -> LineString<f64> {
        let n = v.len();
        let s = rng.below(n as u64) as usize;
        let mut w: Vec<(i64, i64)> = (0..n).map(|i| v[(s + i) % n]).collect();
        if rng.chance(1, 2) {
            w.reverse();
        }
        let f = w[0];
        w.push(f);
        LineString(w.into_iter().map(|(x, y)| c(x, y)).collect())
    };
    let ext = ring(rng, vec![(x0, y0), (x1, y0), (x1, y1), (x0, y1)]);
    let mut holes = vec![];
    // holes live in the left / right half so that two of them never overlap
    let mid = (x0 + x1) / 2;
    let nh = rng.range(0, 2);
    for h in 0..nh {
        let (lo, hi) = if nh == 1 { (x0, x1) } else if h == 0 { (x0, mid) } else { (mid, x1) };
        let slack = if rng.chance(1, 5) { 0 } else { 1 }; // 0: may touch the shell
        if hi - lo < 2 * slack + 1 || y1 - y0 < 2 * slack + 1 {
            continue;
        }
        let hx0 = rng.range(lo + slack, hi - slack - 1);
        let hx1 = rng.range(hx0 + 1, hi - slack);
        let hy0 = rng.range(y0 + slack, y1 - slack - 1);
        let hy1 = rng.range(hy0 + 1, y1 - slack);
        let v = match rng.below(3) {
            0 => vec![(hx0, hy0), (hx1, hy0), (hx0, hy1)],
            1 => vec![(hx0, hy0), (hx1, hy1), (hx0, hy1)],
            _ => vec![(hx0, hy0), (hx1, hy0), (hx1, hy1), (hx0, hy1)],
        };
        holes.push(ring(rng, v));
    }
    Polygon::new(ext, holes)
}

fn gen_areal(rng: &mut Rng, k: i64) -> Geometry<f64> {
    match rng.below(16) {
        0 => Geometry::Polygon(Polygon::new(LineString(vec![]), vec![])),
        1 => Geometry::MultiPolygon(MultiPolygon(vec![])),
        2 | 3 | 4 => {
            let m = gen_multipolygon(rng, k);
            if m.0.is_empty() { Geometry::MultiPolygon(MultiPolygon(vec![gen_polygon(rng, k)])) } else { Geometry::MultiPolygon(m) }
        }
        5 | 6 | 7 | 8 => Geometry::Polygon(holed_rect(rng, k)),
        _ => Geometry::Polygon(gen_polygon(rng, k)),
    }
}

fn with_repeats(rng: &mut Rng, g: Geometry<f64>) -> Geometry<f64> {
    if !rng.chance(1, 4) {
        return g;
    }
    match g {
        Geometry::Polygon(p) => Geometry::Polygon(repeat_poly(rng, &p)),
        Geometry::MultiPolygon(m) => Geometry::MultiPolygon(MultiPolygon(m.0.iter().map(|p| repeat_poly(rng, p)).collect())),
        g => g,
    }
}

/// exact similarity: integer translation then scaling by a power of two; returns the unit
fn place(rng: &mut Rng, gs: Vec<Geometry<f64>>) -> (f64, Vec<Geometry<f64>>) {
    use geo::algorithm::map_coords::MapCoords;
    if !rng.chance(1, 4) {
        return (1.0, gs);
    }
    let s = 2f64.powi(rng.range(-3, 4) as i32);
    let m = *rng.pick(&[5i64, 100, 1 << 12, 1 << 28, 1 << 30]);
    let (dx, dy) = (rng.range(-m, m) as f64, rng.range(-m, m) as f64);
    let f = move |p: Coord<f64>| Coord { x: (p.x + dx) * s, y: (p.y + dy) * s };
    (s, gs.into_iter().map(|g| g.map_coords(f)).collect())
}

fn gen_bool(rng: &mut Rng) -> String {
    let k = *rng.pick(&[3i64, 4, 4, 6, 6, 8]);
    let a = gen_areal(rng, k);
    let b = match rng.below(12) {
        0 => a.clone(),          // identical operands
        1 => variant(rng, &a),   // the same point set, written differently
        _ => gen_areal(rng, k),
    };
    let b = match b {
        Geometry::GeometryCollection(gc) => gc.0.into_iter().next().unwrap_or(Geometry::MultiPolygon(MultiPolygon(vec![]))),
        g => g,
    };
    let a = with_repeats(rng, a);
    let b = with_repeats(rng, b);
    let (u, gs) = place(rng, vec![a, b]);
    format!("C04.bool {} {} {}", proto::num(u), proto::geom(&gs[0]), proto::geom(&gs[1]))
}

fn gen_unary(rng: &mut Rng) -> String {
    let k = *rng.pick(&[3i64, 4, 6]);
    if rng.chance(1, 5) {
        // a collection of MultiPolygons (members may overlap each other), consistently wound
        let d = if rng.chance(1, 2) { Direction::Default } else { Direction::Reversed };
        let n = rng.range(1, 3);
        let gs: Vec<Geometry<f64>> = (0..n)
            .map(|_| {
                let m = gen_multipolygon(rng, k);
                let m = if m.0.is_empty() { MultiPolygon(vec![gen_polygon(rng, k)]) } else { m };
                Geometry::MultiPolygon(m.orient(d))
            })
            .collect();
        // empty members (an empty MultiPolygon, or one whose first polygon is empty) at any
        // position, the front included: the fill rule must come from the first ring that has a winding
        let mut gs = gs;
        if rng.chance(1, 4) {
            let e = if rng.chance(1, 2) {
                Geometry::MultiPolygon(MultiPolygon(vec![]))
            } else {
                let mut m = match &gs[0] { Geometry::MultiPolygon(m) => m.clone(), _ => MultiPolygon(vec![]) };
                m.0.insert(0, Polygon::new(LineString(vec![]), vec![]));
                Geometry::MultiPolygon(m)
            };
            let at = if rng.chance(2, 3) { 0 } else { rng.below(gs.len() as u64 + 1) as usize };
            gs.insert(at, e);
        }
        let (u, gs) = place(rng, gs);
        let mut s = format!("C04.unary {} {}", proto::num(u), gs.len());
        for g in &gs {
            s.push(' ');
            s.push_str(&proto::geom(g));
        }
        return s;
    }
    let mut ps: Vec<Polygon<f64>> = vec![];
    match rng.below(4) {
        0 => {
            // adjacent / corner-touching polyomino pieces (shared edges)
            let n1 = rng.range(1, 5) as usize;
            ps.extend(polyomino_polygons(rng, 3, n1, (0, 0)));
            let off = *rng.pick(&[(3i64, 0i64), (3, 3), (2, 0), (0, 3), (3, 2), (1, 1)]);
            let n2 = rng.range(1, 5) as usize;
            ps.extend(polyomino_polygons(rng, 3, n2, off));
        }
        _ => {
            let n = rng.below(5);
            for _ in 0..n {
                ps.push(gen_polygon(rng, k));
            }
        }
    }
    // consistently wound (the property's domain); once in a while left as generated
    // (then every member gets a direction of its own: outside the domain, the driver records what the code does)
    if !rng.chance(1, 12) {
        let d = if rng.chance(1, 2) { Direction::Default } else { Direction::Reversed };
        ps = ps.iter().map(|p| p.orient(d)).collect();
    } else {
        ps = ps
            .iter()
            .map(|p| p.orient(if rng.chance(1, 2) { Direction::Default } else { Direction::Reversed }))
            .collect();
    }
    let mut ps: Vec<Polygon<f64>> = ps.iter().map(|p| if rng.chance(1, 5) { repeat_poly(rng, p) } else { p.clone() }).collect();
    // an empty polygon (no ring, so no winding) at the front or elsewhere
    if rng.chance(1, 5) {
        let at = if rng.chance(2, 3) { 0 } else { rng.below(ps.len() as u64 + 1) as usize };
        ps.insert(at, Polygon::new(LineString(vec![]), vec![]));
    }
    let gs: Vec<Geometry<f64>> = ps.into_iter().map(Geometry::Polygon).collect();
    let (u, gs) = place(rng, gs);
    let mut s = format!("C04.unary {} {}", proto::num(u), gs.len());
    for g in &gs {
        s.push(' ');
        s.push_str(&proto::geom(g));
    }
    s
}

/// a path that runs along a ring of the polygon for a while, optionally leaving it at both ends
fn boundary_path(rng: &mut Rng, k: i64, r: &LineString<f64>) -> Vec<Coord<f64>> {
    let n = r.0.len() - 1;
    let s = rng.below(n as u64) as usize;
    let len = rng.range(1, (n as i64 - 1).max(1)) as usize;
    let mut v: Vec<Coord<f64>> = (0..=len).map(|i| r.0[(s + i) % n]).collect();
    if rng.chance(1, 2) {
        v.reverse();
    }
    if rng.chance(1, 2) {
        v.insert(0, c(rng.range(0, k), rng.range(0, k)));
    }
    if rng.chance(1, 2) {
        v.push(c(rng.range(0, k), rng.range(0, k)));
    }
    v
}

fn gen_clip(rng: &mut Rng) -> String {
    let k = *rng.pick(&[3i64, 4, 6]);
    let a = match rng.below(8) {
        0 | 1 => Geometry::MultiPolygon(gen_multipolygon(rng, k)),
        2 | 3 | 4 => Geometry::Polygon(holed_rect(rng, k)),
        _ => Geometry::Polygon(gen_polygon(rng, k)),
    };
    let rings: Vec<LineString<f64>> = match &a {
        Geometry::Polygon(p) => p.rings().cloned().collect(),
        Geometry::MultiPolygon(m) => m.rings().cloned().collect(),
        _ => vec![],
    };
    let m = match rng.below(8) {
        0 | 1 | 2 if !rings.is_empty() => {
            let r = rng.pick(&rings).clone();
            if r.0.len() >= 4 { MultiLineString(vec![LineString(boundary_path(rng, k, &r))]) } else { gen_multilinestring(rng, k) }
        }
        3 => {
            let m = gen_multilinestring(rng, k);
            if m.0.is_empty() { MultiLineString(vec![LineString(path_coords(&gen_path(rng, k, None)))]) } else { m }
        }
        _ => MultiLineString(vec![LineString(path_coords(&gen_path(rng, k, None)))]),
    };
    let a = with_repeats(rng, a);
    let (u, gs) = place(rng, vec![a, Geometry::MultiLineString(m)]);
    format!("C04.clip {} {} {}", proto::num(u), proto::geom(&gs[0]), proto::geom(&gs[1]))
}

fn gen_glue(rng: &mut Rng) -> String {
    let k = 4;
    let pt = |rng: &mut Rng| format!("{} {}", rng.range(0, k), rng.range(0, k));
    let raw_ring = |rng: &mut Rng| -> Vec<String> {
        // rings with 0..3 repeated vertices in every position, both windings, empty / short rings
        let n = *rng.pick(&[0usize, 1, 2, 3, 4, 4, 5, 6]);
        let mut v: Vec<String> = (0..n).map(|_| pt(rng)).collect();
        for _ in 0..rng.below(4) {
            if v.is_empty() {
                break;
            }
            let i = rng.below(v.len() as u64) as usize;
            let c = v[i].clone();
            v.insert(i, c);
        }
        if !v.is_empty() && rng.chance(3, 4) {
            for _ in 0..rng.range(1, 3) {
                let c = v[0].clone();
                v.push(c);
            }
        }
        v
    };
    match rng.below(8) {
        0 => "C04.glue rule".to_string(),
        1 | 2 | 3 => {
            let k = rng.below(4);
            let mut s = format!("C04.glue shape {}", k);
            for _ in 0..k {
                let r = raw_ring(rng);
                s.push_str(&format!(" {} {}", r.len(), r.join(" ")));
            }
            s.split_whitespace().collect::<Vec<_>>().join(" ")
        }
        _ => {
            let r = raw_ring(rng);
            format!("C04.glue ring {} {}", r.len(), r.join(" ")).trim().to_string()
        }
    }
}

pub fn gen(rng: &mut Rng, _index: u64) -> String {
    match rng.below(20) {
        0..=10 => gen_bool(rng),
        11..=13 => gen_unary(rng),
        14..=17 => gen_clip(rng),
        _ => gen_glue(rng),
    }
}
