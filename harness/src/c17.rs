//! C17 — PreparedGeometry answers exactly like the plain geometry, over call histories.
use crate::proto::{self, Toks, R};
use crate::rng::Rng;
use crate::shapes::*;
use geo::algorithm::relate::{verif, PreparedGeometry, Relate};
use geo_types::*;
use std::panic::{catch_unwind, AssertUnwindSafe};

pub fn gen(rng: &mut Rng, index: u64) -> String {
    // every fourth case is a graph-construction case, the rest are call histories
    if index % 4 == 3 {
        return gen_graph(rng);
    }
    if index % 8 == 5 {
        return gen_conc(rng);
    }
    gen_hist(rng)
}

/// A point of the tiny grid used for the graph cases: coincidences (shared end points, a point on a
/// vertex, repeated coordinates) are the rule rather than the exception.
fn tiny(rng: &mut Rng, k: i64) -> Coord<f64> {
    if rng.chance(1, 12) {
        Coord { x: rng.range(0, 2 * k) as f64 / 2.0, y: rng.range(0, 2 * k) as f64 / 2.0 }
    } else {
        c(rng.range(0, k), rng.range(0, k))
    }
}

/// A line string made to exercise `add_line_string`: repeated coordinates, closed, collapsed to one
/// point, empty.
fn dirty_linestring(rng: &mut Rng, k: i64) -> LineString<f64> {
    match rng.below(10) {
        0 => LineString(vec![]),
        1 => {
            // collapses to a single point
            let p = tiny(rng, k);
            LineString((0..rng.range(1, 3)).map(|_| p).collect())
        }
        _ => {
            let n = rng.range(2, 5);
            let mut v: Vec<Coord<f64>> = vec![];
            for _ in 0..n {
                let p = tiny(rng, k);
                v.push(p);
                if rng.chance(1, 5) {
                    v.push(p);
                }
            }
            if rng.chance(1, 3) {
                let f = v[0];
                v.push(f);
            }
            LineString(v)
        }
    }
}

/// A ring made to exercise `add_polygon_ring`: either orientation, rotated start, repeated
/// coordinates, degenerate (fewer than 4 coordinates after removing repeats, no winding order).
fn dirty_ring(rng: &mut Rng, k: i64) -> LineString<f64> {
    match rng.below(8) {
        0 => LineString(vec![]),
        1 => {
            let p = tiny(rng, k);
            let q = tiny(rng, k);
            LineString(if rng.chance(1, 2) { vec![p, p, p] } else { vec![p, q, p] })
        }
        2 => {
            // collinear: no winding order
            let x = rng.range(0, k);
            LineString(vec![c(x, 0), c(x, 1), c(x, 2), c(x, 0)])
        }
        _ => {
            let mut r = if rng.chance(1, 2) { gen_polygon(rng, k).exterior().clone() } else { star_polygon(rng, k).exterior().clone() };
            if r.0.len() >= 4 {
                let n = r.0.len() - 1;
                let s = rng.below(n as u64) as usize;
                let mut v: Vec<Coord<f64>> = (0..n).map(|i| r.0[(s + i) % n]).collect();
                if rng.chance(1, 2) {
                    v.reverse();
                }
                let f = v[0];
                v.push(f);
                // repeated coordinates, possibly the closing one
                let mut w = vec![];
                for p in v {
                    w.push(p);
                    if rng.chance(1, 6) {
                        w.push(p);
                    }
                }
                r = LineString(w);
            }
            r
        }
    }
}

fn dirty_polygon(rng: &mut Rng, k: i64) -> Polygon<f64> {
    let ext = dirty_ring(rng, k);
    let holes: Vec<LineString<f64>> = (0..rng.below(3)).map(|_| dirty_ring(rng, 2)).collect();
    Polygon::new(ext, holes)
}

fn graph_geom(rng: &mut Rng, depth: u32) -> Geometry<f64> {
    let k = *rng.pick(&[2i64, 3, 3, 4]);
    match rng.below(20) {
        0..=4 => gen_valid(rng, k),
        5 => {
            let g = gen_valid(rng, k);
            variant(rng, &g)
        }
        6 | 7 | 8 => Geometry::MultiLineString(MultiLineString((0..rng.range(0, 5)).map(|_| dirty_linestring(rng, 2)).collect())),
        9 => Geometry::LineString(dirty_linestring(rng, k)),
        10 | 11 => Geometry::Polygon(dirty_polygon(rng, k)),
        12 | 13 => Geometry::MultiPolygon(MultiPolygon((0..rng.range(0, 3)).map(|_| dirty_polygon(rng, k)).collect())),
        14 => Geometry::MultiPoint(MultiPoint((0..rng.range(0, 4)).map(|_| Point(tiny(rng, 2))).collect())),
        15 => {
            let a = tiny(rng, 2);
            let b = tiny(rng, 2);
            Geometry::Line(Line::new(a, b))
        }
        _ => {
            // collections: members of every dimension on one tiny grid, nested collections,
            // multipolygons inside (they switch the boundary determination rule off for the graph)
            let n = rng.range(0, 4);
            let mut v = vec![];
            for _ in 0..n {
                if depth > 0 && rng.chance(1, 4) {
                    v.push(graph_geom(rng, depth - 1));
                } else {
                    v.push(match rng.below(8) {
                        0 => Geometry::Point(Point(tiny(rng, 2))),
                        1 => Geometry::LineString(dirty_linestring(rng, 2)),
                        2 => Geometry::MultiLineString(MultiLineString((0..rng.range(0, 3)).map(|_| dirty_linestring(rng, 2)).collect())),
                        3 => Geometry::Polygon(dirty_polygon(rng, 2)),
                        4 => Geometry::MultiPolygon(MultiPolygon((0..rng.range(0, 2)).map(|_| dirty_polygon(rng, 2)).collect())),
                        5 => Geometry::GeometryCollection(GeometryCollection(vec![])),
                        6 => { let kind = *rng.pick(&[7u64, 8]); gen_kind(rng, 2, kind, 0) }
                        _ => gen_valid(rng, 2),
                    });
                }
            }
            Geometry::GeometryCollection(GeometryCollection(v))
        }
    }
}

/// the first operand through its concrete type; a third are degenerate Rect / Triangle / Line values (flat triangles,
/// zero-width rectangles, zero-length lines), partners overlapping or with a disjoint bounding box
fn gen_conc(rng: &mut Rng) -> String {
    let k = *rng.pick(&[3i64, 4, 6]);
    let a = if rng.chance(1, 3) {
        let p = tiny(rng, k);
        let (dx, dy) = *rng.pick(&[(1.0, 0.0), (0.0, 1.0), (1.0, 1.0), (2.0, -1.0)]);
        let at = |t: f64| Coord { x: p.x + dx * t, y: p.y + dy * t };
        match rng.below(5) {
            0 | 1 => Geometry::Triangle(Triangle(at(0.0), at(rng.range(0, 2) as f64), at(rng.range(1, 3) as f64))),
            2 => Geometry::Rect(Rect::new(p, Coord { x: p.x, y: p.y + rng.range(0, 3) as f64 })),
            3 => Geometry::Rect(Rect::new(p, Coord { x: p.x + rng.range(0, 3) as f64, y: p.y })),
            _ => Geometry::Line(Line::new(p, if rng.chance(1, 2) { p } else { at(1.0) })),
        }
    } else {
        let kind = rng.below(10);
        gen_kind(rng, k, kind, 1)
    };
    let b = gen_valid(rng, k);
    let b = if rng.chance(1, 2) {
        use geo::algorithm::map_coords::MapCoords;
        let d = (k + rng.range(2, 6)) as f64;
        let (sx, sy) = *rng.pick(&[(1.0, 0.0), (0.0, 1.0), (1.0, 1.0), (-1.0, 0.0)]);
        b.map_coords(|c| Coord { x: c.x + sx * d, y: c.y + sy * d })
    } else { b };
    format!("C17.conc {} {}", proto::geom(&a), proto::geom(&b))
}

fn gen_graph(rng: &mut Rng) -> String {
    let g = graph_geom(rng, 2);
    format!("C17.graph {} {}", rng.below(2), proto::geom(&g))
}

/// An areal geometry that gets a boundary node only through self-noding — a hole that touches the
/// middle of a shell segment at a hole vertex which is not the hole's start, or two members of a
/// MultiPolygon / collection touching vertex-on-edge-interior — and a line that crosses a segment of
/// it properly exactly at that touch point (or just beside it).
fn touch_pair(rng: &mut Rng) -> (Geometry<f64>, Geometry<f64>) {
    let s = 2 * rng.range(4, 8); // shell side
    let t = rng.range(2, s - 2); // touch abscissa on the bottom edge
    let sym = rng.below(8);
    let (ox, oy) = (rng.range(-3, 3), rng.range(-3, 3));
    let tr = |x: i64, y: i64| -> Coord<f64> {
        let (x, y) = if sym & 1 == 1 { (s - x, y) } else { (x, y) };
        let (x, y) = if sym & 2 == 2 { (x, s - y) } else { (x, y) };
        let (x, y) = if sym & 4 == 4 { (y, x) } else { (x, y) };
        c(x + ox, y + oy)
    };
    let ring = |v: &[(i64, i64)], start: usize| -> LineString<f64> {
        let n = v.len();
        let mut cs: Vec<Coord<f64>> = (0..n).map(|i| { let (x, y) = v[(start + i) % n]; tr(x, y) }).collect();
        cs.push(cs[0]);
        LineString(cs)
    };
    let shell = [(0, 0), (s, 0), (s, s), (0, s)];
    let h = rng.range(2, s - 2);
    let w = rng.range(1, t.min(s - t) - 1).max(1);
    let areal = match rng.below(4) {
        0 | 1 => {
            // hole touching the bottom shell edge at (t, 0); the hole starts at another vertex
            let hole = [(t, 0), (t + w, h), (t - w, h)];
            Geometry::Polygon(Polygon::new(ring(&shell, rng.below(4) as usize), vec![ring(&hole, rng.range(1, 2) as usize)]))
        }
        2 => {
            // a second member below the shell, its apex on the bottom edge
            let tri = [(t, 0), (t - w, -h), (t + w, -h)];
            Geometry::MultiPolygon(MultiPolygon(vec![
                Polygon::new(ring(&shell, rng.below(4) as usize), vec![]),
                Polygon::new(ring(&tri, rng.range(1, 2) as usize), vec![]),
            ]))
        }
        _ => {
            let tri = [(t, 0), (t - w, -h), (t + w, -h)];
            let mut v = vec![
                Geometry::Polygon(Polygon::new(ring(&shell, rng.below(4) as usize), vec![])),
                Geometry::Polygon(Polygon::new(ring(&tri, rng.range(1, 2) as usize), vec![])),
            ];
            if rng.chance(1, 2) { v.reverse(); }
            Geometry::GeometryCollection(GeometryCollection(v))
        }
    };
    // the crossing line: through the touch point (mostly), vertical or slanted, short or long
    let (dx, dy) = *rng.pick(&[(0i64, 1i64), (0, 2), (1, 1), (-1, 1), (1, 2), (-1, 2), (0, 3)]);
    let off = if rng.chance(1, 5) { *rng.pick(&[-1i64, 1]) } else { 0 };
    let (a, b) = ((t + off - dx, -dy), (t + off + dx, dy));
    let line = match rng.below(4) {
        0 => Geometry::Line(Line::new(tr(a.0, a.1), tr(b.0, b.1))),
        1 => Geometry::MultiLineString(MultiLineString(vec![LineString(vec![tr(b.0, b.1), tr(a.0, a.1)])])),
        2 => Geometry::LineString(LineString(vec![tr(a.0 - 1, a.1), tr(a.0, a.1), tr(b.0, b.1)])),
        _ => Geometry::LineString(LineString(vec![tr(a.0, a.1), tr(b.0, b.1)])),
    };
    (areal, line)
}

fn gen_hist(rng: &mut Rng) -> String {
    let k = *rng.pick(&[3i64, 4, 4, 6]);
    let n = rng.range(2, 3) as usize;
    let mut return_poly: Option<Vec<Coord<f64>>> = None;
    let touch = if rng.chance(1, 12) { Some(touch_pair(rng)) } else { None };
    let gs: Vec<Geometry<f64>> = (0..n)
        .map(|i| {
            if let Some((areal, line)) = &touch {
                if i < 2 {
                    return if i == 0 { areal.clone() } else { line.clone() };
                }
            }
            if rng.chance(1, 25) {
                // a polygon with many boundary segments and decimal (non-dyadic) coordinates; its partners are points
                // within an ulp of a slanted edge (`a + t (b − a)` in f64), isolated nodes of the partner's graph
                let m = rng.range(16, 40);
                let ring: Vec<Coord<f64>> = parabola_ring(m).into_iter().map(|p| Coord { x: p.x * 0.1, y: p.y * 0.01 }).collect();
                return_poly = Some(ring.clone());
                Geometry::Polygon(Polygon::new(LineString(ring), vec![]))
            } else if let (Some(ring), true) = (&return_poly, rng.chance(2, 3)) {
                let pts: Vec<Point<f64>> = (0..rng.range(1, 6)).map(|_| {
                    let i = rng.below(ring.len() as u64 - 1) as usize;
                    let (a, b) = (ring[i], ring[i + 1]);
                    let t = rng.range(1, 99) as f64 / 100.0;
                    Point(Coord { x: a.x + t * (b.x - a.x), y: a.y + t * (b.y - a.y) })
                }).collect();
                if pts.len() == 1 { Geometry::Point(pts[0]) } else { Geometry::MultiPoint(MultiPoint(pts)) }
            } else if rng.chance(1, 5) {
                // mixed-dimension collections and point-like members lying outside the extent of all
                // segments (outside C01's domain for the *true* matrix, but prepared must still equal plain)
                let kind = *rng.pick(&[2u64, 3, 5, 6, 7, 8]);
                let mut members = vec![gen_kind(rng, k, kind, 0)];
                let far = c(rng.range(k + 2, k + 6), rng.range(k + 2, k + 6));
                members.push(match rng.below(3) {
                    0 => Geometry::Point(Point(far)),
                    1 => Geometry::MultiPoint(MultiPoint(vec![Point(far), Point(c(rng.range(0, k), rng.range(0, k)))])),
                    _ => Geometry::LineString(LineString(vec![far])),
                });
                if rng.chance(1, 2) { members.reverse(); }
                Geometry::GeometryCollection(GeometryCollection(members))
            } else if rng.chance(1, 8) {
                // a partner near such an outlying point
                let x = rng.range(k + 1, k + 5);
                Geometry::LineString(LineString(vec![c(x, x), c(x + 2, x + 2)]))
            } else {
                gen_valid(rng, k)
            }
        })
        .collect();
    let calls = rng.range(3, 10);
    let mut s = format!("C17.hist {}", n);
    for g in &gs {
        s.push(' ');
        s.push_str(&proto::geom(g));
    }
    s.push_str(&format!(" {}", calls));
    for _ in 0..calls {
        // operand index and mode: p = plain, o = owned prepared, b = borrowed prepared
        let i = rng.below(n as u64);
        let j = rng.below(n as u64);
        let mi = *rng.pick(&["p", "o", "o", "b", "b"]);
        let mj = *rng.pick(&["p", "o", "o", "b", "b"]);
        s.push_str(&format!(" {} {} {} {}", i, mi, j, mj));
    }
    s
}

/// FNV-1a over the bytes of a dump: the digests are compared on the Lean side
fn fnv(s: &str) -> u64 {
    let mut h: u64 = 0xcbf29ce484222325;
    for b in s.bytes() {
        h ^= b as u64;
        h = h.wrapping_mul(0x100000001b3);
    }
    h
}

fn im_str(m: geo::algorithm::relate::IntersectionMatrix) -> String {
    let s = format!("{:?}", m);
    s.trim_start_matches("IntersectionMatrix(").trim_end_matches(')').to_string()
}

pub fn eval(op: &str, t: &mut Toks) -> R<String> {
    match op {
        "C17.conc" => {
            let a = t.geom()?;
            let b = t.geom()?;
            macro_rules! conc {
                ($x:expr) => {{
                    let x = $x;
                    let m1 = catch_unwind(AssertUnwindSafe(|| x.relate(&b)));
                    let m2 = catch_unwind(AssertUnwindSafe(|| PreparedGeometry::from(x).relate(&b)));
                    let m3 = catch_unwind(AssertUnwindSafe(|| b.relate(x)));
                    let m4 = catch_unwind(AssertUnwindSafe(|| b.relate(&PreparedGeometry::from(x))));
                    let m5 = catch_unwind(AssertUnwindSafe(|| a.relate(&b)));
                    let st = |m: std::thread::Result<geo::algorithm::relate::IntersectionMatrix>| match m { Ok(m) => im_str(m), Err(_) => "panic".to_string() };
                    format!("{} {} {} {} {}", st(m1), st(m2), st(m3), st(m4), st(m5))
                }};
            }
            Ok(match &a {
                Geometry::Point(x) => conc!(x),
                Geometry::Line(x) => conc!(x),
                Geometry::LineString(x) => conc!(x),
                Geometry::Polygon(x) => conc!(x),
                Geometry::MultiPoint(x) => conc!(x),
                Geometry::MultiLineString(x) => conc!(x),
                Geometry::MultiPolygon(x) => conc!(x),
                Geometry::Rect(x) => conc!(x),
                Geometry::Triangle(x) => conc!(x),
                Geometry::GeometryCollection(x) => conc!(x),
            })
        }
        "C17.hist" => {
            let n = t.usize()?;
            let mut gs: Vec<Geometry<f64>> = vec![];
            for _ in 0..n {
                gs.push(t.geom()?);
            }
            let calls = t.usize()?;
            // prepared forms are created lazily, once, and reused for the rest of the history
            let mut owned: Vec<Option<PreparedGeometry<'static, Geometry<f64>, f64>>> = (0..n).map(|_| None).collect();
            let mut borrowed: Vec<Option<PreparedGeometry<'_, &Geometry<f64>, f64>>> = (0..n).map(|_| None).collect();
            let mut out = String::new();
            for _ in 0..calls {
                let i = t.usize()?;
                let mi = t.tok()?.to_string();
                let j = t.usize()?;
                let mj = t.tok()?.to_string();
                if i >= n || j >= n {
                    return Err("operand index out of range".into());
                }
                for (idx, m) in [(i, &mi), (j, &mj)] {
                    if m == "o" && owned[idx].is_none() {
                        // every second operand is a *clone* of its prepared geometry (the original is dropped): a clone
                        // must answer exactly like the original
                        let prep = PreparedGeometry::from(gs[idx].clone());
                        owned[idx] = Some(if idx % 2 == 1 { prep.clone() } else { prep });
                    }
                    if m == "b" && borrowed[idx].is_none() {
                        borrowed[idx] = Some(PreparedGeometry::from(&gs[idx]));
                    }
                }
                // digest of the caches of the prepared operands of this call (hook `prepared_cache_dump`)
                macro_rules! caches {
                    () => {{
                        let mut d = String::new();
                        for (idx, m) in [(i, &mi), (j, &mj)] {
                            match m.as_str() {
                                "o" => d.push_str(&verif::prepared_cache_dump(owned[idx].as_ref().unwrap())),
                                "b" => d.push_str(&verif::prepared_cache_dump(borrowed[idx].as_ref().unwrap())),
                                _ => {}
                            }
                            d.push(';');
                        }
                        fnv(&d)
                    }};
                }
                let cache_before = catch_unwind(AssertUnwindSafe(|| caches!()));
                let r = catch_unwind(AssertUnwindSafe(|| {
                    macro_rules! rhs {
                        ($a:expr) => {
                            match mj.as_str() {
                                "p" => $a.relate(&gs[j]),
                                "o" => $a.relate(owned[j].as_ref().unwrap()),
                                _ => $a.relate(borrowed[j].as_ref().unwrap()),
                            }
                        };
                    }
                    match mi.as_str() {
                        "p" => rhs!(gs[i]),
                        "o" => rhs!(owned[i].as_ref().unwrap()),
                        _ => rhs!(borrowed[i].as_ref().unwrap()),
                    }
                }));
                if !out.is_empty() {
                    out.push(' ');
                }
                match r {
                    Ok(m) => out.push_str(&im_str(m)),
                    Err(_) => out.push_str("panic"),
                }
                // the plain answer for the same operands, for the prepared == plain clause
                out.push(' ');
                match catch_unwind(AssertUnwindSafe(|| gs[i].relate(&gs[j]))) {
                    Ok(m) => out.push_str(&im_str(m)),
                    Err(_) => out.push_str("panic"),
                }
                // the caches after the call, against before it
                let cache_after = catch_unwind(AssertUnwindSafe(|| caches!()));
                match (cache_before, cache_after) {
                    (Ok(a), Ok(b)) => out.push_str(&format!(" {:016x}:{:016x}", a, b)),
                    _ => out.push_str(" panic:panic"),
                }
                // what the (by now reused) prepared operands hand out for their positions, against the
                // freshly built and self-noded graphs of the plain geometries for the same positions
                let clone_vs_fresh = catch_unwind(AssertUnwindSafe(|| {
                    let mut cl = String::new();
                    let mut fr = String::new();
                    for (pos, (idx, m)) in [(i, &mi), (j, &mj)].into_iter().enumerate() {
                        match m.as_str() {
                            "o" => cl.push_str(&verif::prepared_graph_dump(owned[idx].as_ref().unwrap(), pos)),
                            "b" => cl.push_str(&verif::prepared_graph_dump(borrowed[idx].as_ref().unwrap(), pos)),
                            _ => continue,
                        }
                        fr.push_str(&verif::graph_dump_noded(&gs[idx], pos));
                        cl.push(';');
                        fr.push(';');
                    }
                    (fnv(&cl), fnv(&fr))
                }));
                match clone_vs_fresh {
                    Ok((a, b)) => out.push_str(&format!(" {:016x}:{:016x}", a, b)),
                    Err(_) => out.push_str(" panic:panic"),
                }
            }
            Ok(out)
        }
        "C17.graph" => {
            // the graph of one operand: freshly built, freshly built and self-noded (what `relate`
            // works on for a plain operand), and as handed out by a prepared geometry
            let idx = t.usize()?;
            if idx > 1 {
                return Err("arg index must be 0 or 1".into());
            }
            let g = t.geom()?;
            let part = |f: &dyn Fn() -> String| match catch_unwind(AssertUnwindSafe(f)) {
                Ok(s) => s,
                Err(_) => "panic".to_string(),
            };
            Ok(format!(
                "{} | {} | {}",
                part(&|| verif::graph_dump(&g, idx, false)),
                part(&|| verif::graph_dump_noded(&g, idx)),
                part(&|| verif::graph_dump(&g, idx, true))
            ))
        }
        _ => Err(format!("unknown op {}", op)),
    }
}
