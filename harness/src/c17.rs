//! C17 — PreparedGeometry answers exactly like the plain geometry, over call histories.
use crate::proto::{self, Toks, R};
use crate::rng::Rng;
use crate::shapes::*;
use geo::algorithm::relate::{PreparedGeometry, Relate};
use geo_types::*;
use std::panic::{catch_unwind, AssertUnwindSafe};

pub fn gen(rng: &mut Rng, _index: u64) -> String {
    let k = *rng.pick(&[3i64, 4, 4, 6]);
    let n = rng.range(2, 3) as usize;
    let gs: Vec<Geometry<f64>> = (0..n)
        .map(|_| {
            if rng.chance(1, 5) {
                // mixed-dimension collections and point-like members lying outside the extent of all
                // segments (outside C01's domain for the *true* matrix, but prepared must still equal plain)
                let kind = *rng.pick(&[2u64, 3, 5, 6, 7, 8]);
                let mut members = vec![gen_kind(rng, k, kind, 0)];
                let far = c(rng.range(k + 2, k + 6), rng.range(k + 2, k + 6));
                members.push(match rng.below(3) {
                    0 => Geometry::Point(Point(far)),
                    1 => Geometry::MultiPoint(MultiPoint(vec![Point(far), Point(c(rng.range(0, k), rng.range(0, k)))])),
                    _ => Geometry::LineString(LineString(vec![far])),
                });
                if rng.chance(1, 2) { members.reverse(); }
                Geometry::GeometryCollection(GeometryCollection(members))
            } else if rng.chance(1, 8) {
                // a partner near such an outlying point
                let x = rng.range(k + 1, k + 5);
                Geometry::LineString(LineString(vec![c(x, x), c(x + 2, x + 2)]))
            } else {
                gen_valid(rng, k)
            }
        })
        .collect();
    let calls = rng.range(3, 10);
    let mut s = format!("C17.hist {}", n);
    for g in &gs {
        s.push(' ');
        s.push_str(&proto::geom(g));
    }
    s.push_str(&format!(" {}", calls));
    for _ in 0..calls {
        // operand index and mode: p = plain, o = owned prepared, b = borrowed prepared
        let i = rng.below(n as u64);
        let j = rng.below(n as u64);
        let mi = *rng.pick(&["p", "o", "o", "b", "b"]);
        let mj = *rng.pick(&["p", "o", "o", "b", "b"]);
        s.push_str(&format!(" {} {} {} {}", i, mi, j, mj));
    }
    s
}

fn im_str(m: geo::algorithm::relate::IntersectionMatrix) -> String {
    let s = format!("{:?}", m);
    s.trim_start_matches("IntersectionMatrix(").trim_end_matches(')').to_string()
}

pub fn eval(op: &str, t: &mut Toks) -> R<String> {
    match op {
        "C17.hist" => {
            let n = t.usize()?;
            let mut gs: Vec<Geometry<f64>> = vec![];
            for _ in 0..n {
                gs.push(t.geom()?);
            }
            let calls = t.usize()?;
            // prepared forms are created lazily, once, and reused for the rest of the history
            let mut owned: Vec<Option<PreparedGeometry<'static, Geometry<f64>, f64>>> = (0..n).map(|_| None).collect();
            let mut borrowed: Vec<Option<PreparedGeometry<'_, &Geometry<f64>, f64>>> = (0..n).map(|_| None).collect();
            let mut out = String::new();
            for _ in 0..calls {
                let i = t.usize()?;
                let mi = t.tok()?.to_string();
                let j = t.usize()?;
                let mj = t.tok()?.to_string();
                if i >= n || j >= n {
                    return Err("operand index out of range".into());
                }
                for (idx, m) in [(i, &mi), (j, &mj)] {
                    if m == "o" && owned[idx].is_none() {
                        owned[idx] = Some(PreparedGeometry::from(gs[idx].clone()));
                    }
                    if m == "b" && borrowed[idx].is_none() {
                        borrowed[idx] = Some(PreparedGeometry::from(&gs[idx]));
                    }
                }
                let r = catch_unwind(AssertUnwindSafe(|| {
                    macro_rules! rhs {
                        ($a:expr) => {
                            match mj.as_str() {
                                "p" => $a.relate(&gs[j]),
                                "o" => $a.relate(owned[j].as_ref().unwrap()),
                                _ => $a.relate(borrowed[j].as_ref().unwrap()),
                            }
                        };
                    }
                    match mi.as_str() {
                        "p" => rhs!(gs[i]),
                        "o" => rhs!(owned[i].as_ref().unwrap()),
                        _ => rhs!(borrowed[i].as_ref().unwrap()),
                    }
                }));
                if !out.is_empty() {
                    out.push(' ');
                }
                match r {
                    Ok(m) => out.push_str(&im_str(m)),
                    Err(_) => out.push_str("panic"),
                }
                // the plain answer for the same operands, for the prepared == plain clause
                out.push(' ');
                match catch_unwind(AssertUnwindSafe(|| gs[i].relate(&gs[j]))) {
                    Ok(m) => out.push_str(&im_str(m)),
                    Err(_) => out.push_str("panic"),
                }
            }
            Ok(out)
        }
        _ => Err(format!("unknown op {}", op)),
    }
}
