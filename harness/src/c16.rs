//! C16 — Haversine / Geodesic / Rhumb measures: bearing, destination, distance, interpolation, length.
//!
//! The harness only *calls the real API* and prints the values; every comparison is done by the
//! Lean driver (`lean/GeoModel/Ops/C16.lean`).
use crate::proto::{self, Toks, R};
use crate::rng::Rng;
use geo::line_measures::metric_spaces::{GeodesicMeasure, HaversineMeasure};
use geo::{Bearing, Destination, Distance, Geodesic, Haversine, InterpolatePoint, Length, Rhumb};
use geo_types::*;

// ------------------------------------------------------------------ metric space selector

#[derive(Clone, Copy, Debug)]
enum Ms {
    Hav,             // the `Haversine` constant (GRS80 mean radius)
    HavR(f64),       // HaversineMeasure::new(radius)
    Geo,             // the `Geodesic` static (WGS84)
    GeoC(f64, f64),  // GeodesicMeasure::new(equatorial_radius, flattening)
    Rh,              // Rhumb
}

fn ms_str(m: Ms) -> String {
    match m {
        Ms::Hav => "hav".into(),
        Ms::HavR(r) => format!("havr {}", proto::num(r)),
        Ms::Geo => "geo".into(),
        Ms::GeoC(a, f) => format!("geoc {} {}", proto::num(a), proto::num(f)),
        Ms::Rh => "rh".into(),
    }
}

fn parse_ms(t: &mut Toks) -> R<Ms> {
    Ok(match t.tok()? {
        "hav" => Ms::Hav,
        "havr" => Ms::HavR(t.num()?),
        "geo" => Ms::Geo,
        "geoc" => Ms::GeoC(t.num()?, t.num()?),
        "rh" => Ms::Rh,
        x => return Err(format!("bad metric space {}", x)),
    })
}

/// Run `$body` with `$m` bound to the real metric-space value.
macro_rules! with_ms {
    ($ms:expr, $m:ident, $body:expr) => {
        match $ms {
            Ms::Hav => { let $m = &Haversine; $body }
            Ms::HavR(r) => { let hm = HaversineMeasure::new(r); let $m = &hm; $body }
            Ms::Geo => { let $m = &Geodesic; $body }
            Ms::GeoC(a, f) => { let gm = GeodesicMeasure::new(a, f); let $m = &gm; $body }
            Ms::Rh => { let $m = &Rhumb; $body }
        }
    };
}

fn pt(p: Point<f64>) -> String {
    proto::coord(p.0)
}

// ------------------------------------------------------------------ deprecated aliases
//
// The pre-0.29 trait methods (`rhumb_bearing`, `haversine_distance`, `geodesic_length`, …) are still
// public entry points to the same measures. Every second case (decided by the bits of the operands)
// reaches distance / bearing / destination / interpolation / length through them, for the default
// Haversine, Geodesic and Rhumb spaces; the values go into the same reply fields, so the driver
// judges them exactly as it judges the `Distance` / `Bearing` / … traits. `haversine_bearing` and
// `geodesic_bearing` are left out: they document a different range, (-180, 180].

fn via_alias(a: Point<f64>, b: Point<f64>) -> bool {
    let h = a.x().to_bits() ^ a.y().to_bits().rotate_left(17) ^ b.x().to_bits().rotate_left(31) ^ b.y().to_bits().rotate_left(47);
    (h.wrapping_mul(0x9E37_79B9_7F4A_7C15) >> 40) & 1 == 1
}

#[allow(deprecated)]
fn alias_distance(ms: Ms, a: Point<f64>, b: Point<f64>) -> Option<f64> {
    use geo::{GeodesicDistance, HaversineDistance, RhumbDistance};
    match ms {
        Ms::Hav => Some(a.haversine_distance(&b)),
        Ms::Geo => Some(a.geodesic_distance(&b)),
        Ms::Rh => Some(a.rhumb_distance(&b)),
        _ => None,
    }
}

#[allow(deprecated)]
fn alias_bearing(ms: Ms, a: Point<f64>, b: Point<f64>) -> Option<f64> {
    use geo::RhumbBearing;
    match ms {
        Ms::Rh => Some(a.rhumb_bearing(b)),
        _ => None,
    }
}

#[allow(deprecated)]
fn alias_destination(ms: Ms, a: Point<f64>, brg: f64, d: f64) -> Option<Point<f64>> {
    use geo::{GeodesicDestination, HaversineDestination, RhumbDestination};
    match ms {
        Ms::Hav => Some(a.haversine_destination(brg, d)),
        Ms::Geo => Some(a.geodesic_destination(brg, d)),
        Ms::Rh => Some(a.rhumb_destination(brg, d)),
        _ => None,
    }
}

#[allow(deprecated)]
fn alias_ratio(ms: Ms, a: Point<f64>, b: Point<f64>, r: f64) -> Option<Point<f64>> {
    use geo::{GeodesicIntermediate, HaversineIntermediate, RhumbIntermediate};
    match ms {
        Ms::Hav => Some(a.haversine_intermediate(&b, r)),
        Ms::Geo => Some(a.geodesic_intermediate(&b, r)),
        Ms::Rh => Some(a.rhumb_intermediate(&b, r)),
        _ => None,
    }
}

#[allow(deprecated)]
fn alias_fill(ms: Ms, a: Point<f64>, b: Point<f64>, max: f64, incl: bool) -> Option<Vec<Point<f64>>> {
    use geo::{GeodesicIntermediate, HaversineIntermediate, RhumbIntermediate};
    match ms {
        Ms::Hav => Some(a.haversine_intermediate_fill(&b, max, incl)),
        Ms::Geo => Some(a.geodesic_intermediate_fill(&b, max, incl)),
        Ms::Rh => Some(a.rhumb_intermediate_fill(&b, max, incl)),
        _ => None,
    }
}

#[allow(deprecated)]
fn alias_length(ms: Ms, g: &Geometry<f64>) -> Option<f64> {
    use geo::{GeodesicLength, HaversineLength, RhumbLength};
    Some(match (ms, g) {
        (Ms::Hav, Geometry::Line(l)) => l.haversine_length(),
        (Ms::Hav, Geometry::LineString(l)) => l.haversine_length(),
        (Ms::Hav, Geometry::MultiLineString(l)) => l.haversine_length(),
        (Ms::Geo, Geometry::Line(l)) => l.geodesic_length(),
        (Ms::Geo, Geometry::LineString(l)) => l.geodesic_length(),
        (Ms::Geo, Geometry::MultiLineString(l)) => l.geodesic_length(),
        (Ms::Rh, Geometry::Line(l)) => l.rhumb_length(),
        (Ms::Rh, Geometry::LineString(l)) => l.rhumb_length(),
        (Ms::Rh, Geometry::MultiLineString(l)) => l.rhumb_length(),
        _ => return None,
    })
}

// ------------------------------------------------------------------ generators

/// A longitude in [-180, 180].
fn gen_lon(rng: &mut Rng) -> f64 {
    match rng.below(8) {
        0 => *rng.pick(&[-180.0, -135.0, -90.0, -45.0, 0.0, 45.0, 90.0, 135.0, 180.0]),
        1 => rng.range(-180, 180) as f64,
        2 => 180.0 - rng.unit() * 2.0,   // just west of the antimeridian
        3 => -180.0 + rng.unit() * 2.0,  // just east of it
        _ => (rng.unit() * 360.0 - 180.0).clamp(-180.0, 180.0),
    }
}

/// A latitude in [-90, 90]; `polar` allows the caps above 89 degrees.
fn gen_lat(rng: &mut Rng, polar: bool) -> f64 {
    if polar {
        let s = if rng.chance(1, 2) { 1.0 } else { -1.0 };
        return s * match rng.below(4) {
            0 => 90.0,
            1 => 90.0 - rng.unit() * 1e-6,
            2 => 90.0 - rng.unit() * 1e-2,
            _ => 90.0 - rng.unit(),
        };
    }
    match rng.below(8) {
        0 => *rng.pick(&[-60.0, -45.0, -30.0, 0.0, 0.0, 30.0, 45.0, 60.0]),
        1 => rng.range(-85, 85) as f64,
        2 => rng.unit() * 2.0 - 1.0, // near the equator
        _ => {
            // area-uniform on the sphere, cut at 88 degrees
            let z: f64 = rng.unit() * 2.0 - 1.0;
            z.asin().to_degrees().clamp(-88.0, 88.0)
        }
    }
}

fn wrap_lon(l: f64) -> f64 {
    let mut l = l;
    while l > 180.0 { l -= 360.0; }
    while l < -180.0 { l += 360.0; }
    l
}

fn tiny(rng: &mut Rng) -> f64 {
    let s = if rng.chance(1, 2) { 1.0 } else { -1.0 };
    s * match rng.below(5) {
        0 => 0.0,
        1 => rng.unit() * 1e-12,
        2 => rng.unit() * 1e-9,
        3 => rng.unit() * 1e-6,
        _ => rng.unit() * 1e-3,
    }
}

/// A pair of points with a class label (the label is only a comment for humans; the driver
/// re-derives the class from the coordinates).
fn gen_pair(rng: &mut Rng) -> (Point<f64>, Point<f64>) {
    let cls = rng.below(16);
    let polar = cls == 0;
    let a = Point::new(gen_lon(rng), gen_lat(rng, polar));
    let b = match cls {
        // identical
        1 => a,
        // nearly coincident
        2 | 3 => Point::new(wrap_lon(a.x() + tiny(rng)), (a.y() + tiny(rng)).clamp(-90.0, 90.0)),
        // nearly antipodal
        4 => Point::new(wrap_lon(a.x() + 180.0 + tiny(rng) * 10.0), (-a.y() + tiny(rng) * 10.0).clamp(-90.0, 90.0)),
        // same meridian
        5 => Point::new(a.x(), gen_lat(rng, false)),
        // same parallel (east-west course)
        6 => Point::new(gen_lon(rng), a.y()),
        // almost the same parallel: latitude differs by a few ulps .. 1e-6 degrees
        7 => Point::new(gen_lon(rng), (a.y() + tiny(rng) * 1e-3).clamp(-90.0, 90.0)),
        // across the antimeridian
        8 | 9 => {
            let e = rng.unit() * *rng.pick(&[1e-3, 1.0, 30.0]);
            let w = rng.unit() * *rng.pick(&[1e-3, 1.0, 30.0]);
            let (la, lb) = if rng.chance(1, 2) { (180.0 - e, -180.0 + w) } else { (-180.0 + w, 180.0 - e) };
            return (Point::new(la, a.y()), Point::new(lb, gen_lat(rng, false)));
        }
        // short hop (metres to kilometres)
        10 => {
            let s = *rng.pick(&[1e-5, 1e-3, 1e-1]);
            Point::new(wrap_lon(a.x() + (rng.unit() - 0.5) * s), (a.y() + (rng.unit() - 0.5) * s).clamp(-90.0, 90.0))
        }
        // one point polar, other anywhere
        0 => { let pol = rng.chance(1, 3); Point::new(gen_lon(rng), gen_lat(rng, pol)) }
        _ => Point::new(gen_lon(rng), gen_lat(rng, false)),
    };
    if rng.chance(1, 2) { (a, b) } else { (b, a) }
}

fn gen_ms(rng: &mut Rng) -> Ms {
    match rng.below(10) {
        0 | 1 | 2 => Ms::Hav,
        3 => Ms::HavR(*rng.pick(&[6_371_007.181, 6_371_000.79, 3_389_500.0, 1.0, 1737.4e3])),
        4 | 5 => Ms::Geo,
        6 => {
            let (a, f) = *rng.pick(&[
                (3_396_200.0, 0.00589),           // Mars (the repository's own test)
                (6_378_137.0, 0.0),               // a sphere
                (6_378_388.0, 1.0 / 297.0),       // International 1924
                (1_737_400.0, 0.0012),            // Moon-like
            ]);
            Ms::GeoC(a, f)
        }
        _ => Ms::Rh,
    }
}

fn gen_ratio(rng: &mut Rng) -> f64 {
    match rng.below(8) {
        0 => 0.0,
        1 => 1.0,
        2 => 0.5,
        3 => *rng.pick(&[0.25, 0.75, 0.125, 0.1, 0.9, 1.0 / 3.0]),
        4 => rng.unit() * 1e-6,
        5 => 1.0 - rng.unit() * 1e-6,
        _ => rng.unit(),
    }
}

fn gen_bearing(rng: &mut Rng) -> f64 {
    match rng.below(6) {
        0 => *rng.pick(&[0.0, 45.0, 90.0, 135.0, 180.0, 225.0, 270.0, 315.0, 360.0, -90.0, -180.0, 450.0, 720.0]),
        1 => rng.range(-720, 1080) as f64,
        2 => rng.unit() * 360.0,
        3 => -rng.unit() * 360.0,
        4 => 360.0 + rng.unit() * 720.0,
        _ => rng.unit() * 360.0,
    }
}

fn gen_dist(rng: &mut Rng) -> f64 {
    match rng.below(8) {
        0 => 0.0,
        1 => rng.unit() * 1.0,
        2 => rng.unit() * 1e3,
        3 => rng.unit() * 1e5,
        4 => rng.unit() * 1e6,
        5 => rng.unit() * 9e6,
        6 => -rng.unit() * 1e6,
        _ => rng.range(1, 5000) as f64 * 1000.0,
    }
}

fn gen_path(rng: &mut Rng) -> Vec<Coord<f64>> {
    // now and then a long track (more vertices than any block size an implementation might sum by)
    let n = if rng.chance(1, 40) { rng.range(1025, 1300) as usize } else { *rng.pick(&[0usize, 1, 2, 2, 3, 4, 5, 8]) };
    if n > 1000 {
        let mut p = Coord { x: gen_lon(rng), y: gen_lat(rng, false) * 0.5 };
        let mut v = vec![p];
        for _ in 1..n {
            p = Coord { x: wrap_lon(p.x + (rng.unit() - 0.3) * 0.02), y: (p.y + (rng.unit() - 0.5) * 0.02).clamp(-89.0, 89.0) };
            v.push(p);
        }
        return v;
    }
    let mut v: Vec<Coord<f64>> = Vec::new();
    for i in 0..n {
        let c = if i > 0 && rng.chance(1, 4) {
            // short step or repeat
            let p = v[i - 1];
            if rng.chance(1, 3) { p } else {
                Coord { x: wrap_lon(p.x + (rng.unit() - 0.5) * 0.1), y: (p.y + (rng.unit() - 0.5) * 0.1).clamp(-90.0, 90.0) }
            }
        } else {
            { let pol = rng.chance(1, 20); Coord { x: gen_lon(rng), y: gen_lat(rng, pol) } }
        };
        v.push(c);
    }
    v
}

pub fn gen(rng: &mut Rng, _index: u64) -> String {
    let ms = gen_ms(rng);
    match rng.below(10) {
        0 | 1 | 2 | 3 => {
            let (a, b) = gen_pair(rng);
            format!("C16.pair {} {} {} {}", ms_str(ms), pt(a), pt(b), proto::num(gen_ratio(rng)))
        }
        4 | 5 => {
            let pol = rng.chance(1, 16);
            let a = Point::new(gen_lon(rng), gen_lat(rng, pol));
            let k = *rng.pick(&[1i64, 1, -1, 2, -2, 3]);
            format!("C16.dest {} {} {} {} {}", ms_str(ms), pt(a), proto::num(gen_bearing(rng)), proto::num(gen_dist(rng)), k)
        }
        6 | 7 => {
            let g = match rng.below(4) {
                0 => {
                    let (a, b) = gen_pair(rng);
                    Geometry::Line(Line::new(a.0, b.0))
                }
                1 => Geometry::MultiLineString(MultiLineString((0..rng.below(4)).map(|_| LineString(gen_path(rng))).collect())),
                _ => Geometry::LineString(LineString(gen_path(rng))),
            };
            format!("C16.len {} {}", ms_str(ms), proto::geom(&g))
        }
        _ => {
            let (a, b) = gen_pair(rng);
            // choose max_distance from the real distance so that the number of steps is small
            let d: f64 = with_ms!(ms, m, m.distance(a, b));
            let max = if d.is_finite() && d > 0.0 {
                match rng.below(5) {
                    0 => d * 2.0,                                 // total <= max: short circuit
                    1 => d,                                       // exactly equal
                    2 => d / (rng.range(1, 12) as f64),           // exact divisor (up to rounding)
                    _ => d / (1.0 + rng.unit() * 20.0),
                }
            } else {
                1000.0
            };
            let max = if max > 0.0 { max } else { 1.0 };
            format!("C16.along {} {} {} {} {}", ms_str(ms), pt(a), pt(b), proto::num(max), if rng.chance(1, 2) { 1 } else { 0 })
        }
    }
}

// ------------------------------------------------------------------ evaluation (real API only)

fn eval_pair(t: &mut Toks) -> R<String> {
    let ms = parse_ms(t)?;
    let a = Point(t.coord()?);
    let b = Point(t.coord()?);
    let r = t.num()?;
    let old = via_alias(a, b);
    Ok(with_ms!(ms, m, {
        let dab = alias_distance(ms, a, b).filter(|_| old).unwrap_or_else(|| m.distance(a, b));
        let dba = m.distance(b, a);
        let daa = alias_distance(ms, a, a).filter(|_| old).unwrap_or_else(|| m.distance(a, a));
        let dbb = m.distance(b, b);
        let bab = alias_bearing(ms, a, b).filter(|_| old).unwrap_or_else(|| m.bearing(a, b));
        let bba = m.bearing(b, a);
        let dest = alias_destination(ms, a, bab, dab).filter(|_| old).unwrap_or_else(|| m.destination(a, bab, dab));
        let ddb = m.distance(dest, b);
        let mid = alias_ratio(ms, a, b, r).filter(|_| old).unwrap_or_else(|| m.point_at_ratio_between(a, b, r));
        let dam = m.distance(a, mid);
        let dmb = m.distance(mid, b);
        let m0 = m.point_at_ratio_between(a, b, 0.0);
        let m1 = m.point_at_ratio_between(a, b, 1.0);
        format!(
            "d {} {} {} {} brg {} {} dest {} {} mid {} {} {} m0 {} m1 {}",
            proto::num(dab), proto::num(dba), proto::num(daa), proto::num(dbb),
            proto::num(bab), proto::num(bba),
            pt(dest), proto::num(ddb),
            pt(mid), proto::num(dam), proto::num(dmb),
            pt(m0), pt(m1)
        )
    }))
}

fn eval_dest(t: &mut Toks) -> R<String> {
    let ms = parse_ms(t)?;
    let a = Point(t.coord()?);
    let brg = t.num()?;
    let dist = t.num()?;
    let k = t.i64()?;
    let old = via_alias(a, Point::new(brg, dist));
    Ok(with_ms!(ms, m, {
        let p = alias_destination(ms, a, brg, dist).filter(|_| old).unwrap_or_else(|| m.destination(a, brg, dist));
        let dap = alias_distance(ms, a, p).filter(|_| old).unwrap_or_else(|| m.distance(a, p));
        let bap = alias_bearing(ms, a, p).filter(|_| old).unwrap_or_else(|| m.bearing(a, p));
        let q = m.destination(a, brg + 360.0 * (k as f64), dist);
        let dpq = m.distance(p, q);
        let n = m.destination(a, brg + 180.0, -dist);
        let dpn = m.distance(p, n);
        format!(
            "p {} {} {} q {} {} n {} {}",
            pt(p), proto::num(dap), proto::num(bap),
            pt(q), proto::num(dpq),
            pt(n), proto::num(dpn)
        )
    }))
}

fn eval_len(t: &mut Toks) -> R<String> {
    let ms = parse_ms(t)?;
    let g = t.geom()?;
    let old = {
        use geo::CoordsIter;
        let cs: Vec<Coord<f64>> = g.coords_iter().collect();
        cs.len() >= 2 && via_alias(Point(cs[0]), Point(cs[cs.len() - 1]))
    };
    let total = alias_length(ms, &g).filter(|_| old);
    Ok(with_ms!(ms, m, {
        let seg = |ls: &LineString<f64>| -> String {
            let ds: Vec<String> = ls.lines().map(|l| proto::num(m.distance(l.start_point(), l.end_point()))).collect();
            format!("{} {}", ds.len(), ds.join(" ")).trim_end().to_string()
        };
        match &g {
            Geometry::Line(l) => format!(
                "len {} parts 1 1 {}",
                proto::num(total.unwrap_or_else(|| m.length(l))),
                proto::num(m.distance(l.start_point(), l.end_point()))
            ),
            Geometry::LineString(ls) => format!("len {} parts 1 {}", proto::num(total.unwrap_or_else(|| m.length(ls))), seg(ls)),
            Geometry::MultiLineString(mls) => {
                let parts: Vec<String> = mls.0.iter().map(|ls| seg(ls)).collect();
                format!("len {} parts {} {}", proto::num(total.unwrap_or_else(|| m.length(mls))), mls.0.len(), parts.join(" ")).trim_end().to_string()
            }
            _ => return Err("C16.len wants LN, LS or MLS".into()),
        }
    }))
}

fn eval_along(t: &mut Toks) -> R<String> {
    let ms = parse_ms(t)?;
    let a = Point(t.coord()?);
    let b = Point(t.coord()?);
    let max = t.num()?;
    let incl = t.i64()? != 0;
    if !(max > 0.0) {
        return Err("max_distance must be positive (the loop does not terminate otherwise)".into());
    }
    Ok(with_ms!(ms, m, {
        let dab = m.distance(a, b);
        if !(dab / max < 5000.0) {
            // not run (the result list would be huge, or the distance is not a number): the driver
            // decides whether that is a SKIP or a failure of the distance
            return Ok(format!("notrun {}", proto::num(dab)));
        }
        let pts: Vec<Point<f64>> = alias_fill(ms, a, b, max, incl)
            .filter(|_| via_alias(a, b))
            .unwrap_or_else(|| m.points_along_line(a, b, max, incl).collect());
        let cs: Vec<Coord<f64>> = pts.iter().map(|p| p.0).collect();
        let da: Vec<String> = pts.iter().map(|p| proto::num(m.distance(a, *p))).collect();
        format!("d {} pts {} da {}", proto::num(dab), proto::coords(&cs), da.join(" ")).trim_end().to_string()
    }))
}

pub fn eval(op: &str, t: &mut Toks) -> R<String> {
    match op {
        "C16.pair" => eval_pair(t),
        "C16.dest" => eval_dest(t),
        "C16.len" => eval_len(t),
        "C16.along" => eval_along(t),
        _ => Err(format!("unknown op {}", op)),
    }
}
