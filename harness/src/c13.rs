//! C13 — affine algebra, constructors, trait entry points, integer scalar types and the
//! commutation (metamorphic) stream.
use crate::gen::*;
use crate::proto::{self, Toks, R};
use crate::rng::Rng;
use geo::algorithm::affine_ops::{AffineOps, AffineTransform};
use geo::algorithm::area::Area;
use geo::algorithm::centroid::Centroid;
use geo::algorithm::contains::Contains;
use geo::algorithm::coordinate_position::{CoordPos, CoordinatePosition};
use geo::algorithm::intersects::Intersects;
use geo::algorithm::relate::Relate;
use geo::algorithm::rotate::Rotate;
use geo::algorithm::scale::Scale;
use geo::algorithm::skew::Skew;
use geo::algorithm::translate::Translate;
use geo::{Distance, Euclidean, Length};
use geo_types::*;

type M = AffineTransform<f64>;

// ---------------------------------------------------------------- printing / parsing

fn mat6(m: &M) -> String {
    format!(
        "{} {} {} {} {} {}",
        proto::num(m.a()), proto::num(m.b()), proto::num(m.xoff()),
        proto::num(m.d()), proto::num(m.e()), proto::num(m.yoff())
    )
}
fn mat6v(v: &[f64; 6]) -> String {
    v.iter().map(|x| proto::num(*x)).collect::<Vec<_>>().join(" ")
}
fn read_mat(t: &mut Toks) -> R<M> {
    let mut v = [0.0; 6];
    for x in v.iter_mut() {
        *x = t.num()?;
    }
    // the three public ways to build a matrix from its six entries, in rotation (decided by the entries themselves, so
    // that a case always takes the same one): `new`, `From<[T; 6]>`, `From<(T, T, T, T, T, T)>` — all documented as
    // `[a, b, xoff, d, e, yoff]`
    let pick = v.iter().fold(0u64, |h, x| h.wrapping_mul(31).wrapping_add(x.to_bits())) % 3;
    Ok(match pick {
        0 => M::new(v[0], v[1], v[2], v[3], v[4], v[5]),
        1 => M::from([v[0], v[1], v[2], v[3], v[4], v[5]]),
        _ => M::from((v[0], v[1], v[2], v[3], v[4], v[5])),
    })
}
fn b(x: bool) -> &'static str {
    if x { "true" } else { "false" }
}

// ---------------------------------------------------------------- generators

fn dyadic(rng: &mut Rng, lo: i64, hi: i64, den: i64) -> f64 {
    rng.range(lo * den, hi * den) as f64 / den as f64
}

/// one of the generators of the "exact similarity" group, as a matrix
fn sim_generator(rng: &mut Rng) -> [f64; 6] {
    match rng.below(7) {
        0 => [1.0, 0.0, rng.range(-20, 20) as f64, 0.0, 1.0, rng.range(-20, 20) as f64],
        1 => {
            let s = (2.0f64).powi(rng.range(-3, 5) as i32);
            [s, 0.0, 0.0, 0.0, s, 0.0]
        }
        2 => [0.0, 1.0, 0.0, 1.0, 0.0, 0.0],   // axis swap
        3 => [-1.0, 0.0, 0.0, 0.0, 1.0, 0.0],  // reflect x
        4 => [1.0, 0.0, 0.0, 0.0, -1.0, 0.0],  // reflect y
        5 => [0.0, -1.0, 0.0, 1.0, 0.0, 0.0],  // quarter turn
        _ => [1.0, 0.0, rng.range(-4096, 4096) as f64, 0.0, 1.0, rng.range(-4096, 4096) as f64],
    }
}

fn compose6(a: &[f64; 6], o: &[f64; 6]) -> [f64; 6] {
    // other * self, exact for the generator chains used here
    [
        o[0] * a[0] + o[1] * a[3],
        o[0] * a[1] + o[1] * a[4],
        o[0] * a[2] + o[1] * a[5] + o[2],
        o[3] * a[0] + o[4] * a[3],
        o[3] * a[1] + o[4] * a[4],
        o[3] * a[2] + o[4] * a[5] + o[5],
    ]
}

/// a random element of the exact-similarity group (chain of 1–4 generators)
fn sim_matrix(rng: &mut Rng) -> [f64; 6] {
    let mut m = sim_generator(rng);
    for _ in 0..rng.below(4) {
        m = compose6(&m, &sim_generator(rng));
    }
    m
}

/// matrices whose determinant is ±2^k (products of shears, swaps and dyadic scalings)
fn unimodularish(rng: &mut Rng) -> [f64; 6] {
    let mut m = [1.0, 0.0, rng.range(-9, 9) as f64, 0.0, 1.0, rng.range(-9, 9) as f64];
    for _ in 0..(1 + rng.below(4)) {
        let g = match rng.below(4) {
            0 => [1.0, rng.range(-3, 3) as f64, 0.0, 0.0, 1.0, 0.0],
            1 => [1.0, 0.0, 0.0, rng.range(-3, 3) as f64, 1.0, 0.0],
            2 => [0.0, 1.0, 0.0, 1.0, 0.0, 0.0],
            _ => [(2.0f64).powi(rng.range(-2, 2) as i32), 0.0, 0.0, 0.0, -(2.0f64).powi(rng.range(-2, 2) as i32), 0.0],
        };
        m = compose6(&m, &g);
    }
    m
}

fn gen_matrix(rng: &mut Rng, class: u64) -> [f64; 6] {
    match class {
        0 => [
            rng.range(-4, 4) as f64, rng.range(-4, 4) as f64, rng.range(-9, 9) as f64,
            rng.range(-4, 4) as f64, rng.range(-4, 4) as f64, rng.range(-9, 9) as f64,
        ],
        1 => [
            dyadic(rng, -4, 4, 4), dyadic(rng, -4, 4, 4), dyadic(rng, -9, 9, 8),
            dyadic(rng, -4, 4, 4), dyadic(rng, -4, 4, 4), dyadic(rng, -9, 9, 8),
        ],
        2 => sim_matrix(rng),
        3 => {
            // singular: second row a multiple of the first (or a zero row / column)
            let a = rng.range(-4, 4) as f64;
            let bb = rng.range(-4, 4) as f64;
            let k = dyadic(rng, -2, 2, 2);
            [a, bb, rng.range(-9, 9) as f64, k * a, k * bb, rng.range(-9, 9) as f64]
        }
        4 => unimodularish(rng),
        6 => {
            // tiny / huge but exactly representable determinants: (signed) power-of-two scalings far from 1,
            // optionally with an integer shear and a translation. Non-singular however small det is.
            let ea = rng.range(-45, 20) as i32;
            let eb = rng.range(-45, 20) as i32;
            let sa = if rng.chance(1, 4) { -1.0 } else { 1.0 };
            let sh = if rng.chance(1, 3) { rng.range(-2, 2) as f64 } else { 0.0 };
            [sa * 2f64.powi(ea), sh * 2f64.powi(ea), rng.range(-9, 9) as f64, 0.0, 2f64.powi(eb), rng.range(-9, 9) as f64]
        }
        _ => [wild_f64(rng), wild_f64(rng), wild_f64(rng), wild_f64(rng), wild_f64(rng), wild_f64(rng)],
    }
}

fn gen_point(rng: &mut Rng, k: i64) -> Coord<f64> {
    match rng.below(6) {
        0 => Coord { x: rng.range(0, 2 * k) as f64 / 2.0, y: rng.range(0, 2 * k) as f64 / 2.0 },
        1 => wild_coord(rng),
        _ => grid_coord(rng, k),
    }
}

fn gen_alg(rng: &mut Rng) -> String {
    let k = grid_size(rng);
    let wild = rng.chance(1, 8);
    let n = if wild { 1 + rng.below(2) } else { 1 + rng.below(8) };
    let mut s = format!("C13.alg {}", n);
    for i in 0..n {
        let class = if wild { 5 } else if i == 0 { *rng.pick(&[0u64, 0, 1, 2, 3, 4, 4, 6]) } else { *rng.pick(&[0u64, 1, 2, 3, 4, 6]) };
        s.push(' ');
        s.push_str(&mat6v(&gen_matrix(rng, class)));
    }
    let p = if wild { wild_coord(rng) } else { gen_point(rng, k) };
    s.push(' ');
    s.push_str(&proto::coord(p));
    s
}

const ANGLES15: [i64; 12] = [0, 15, 30, 45, 60, 75, 90, 120, 135, 180, 270, 360];

fn gen_angle(rng: &mut Rng) -> f64 {
    match rng.below(8) {
        0 => dyadic(rng, -360, 360, 4),                       // arbitrary (trig unverified)
        1 => (rng.range(-48, 48) * 15) as f64,
        _ => {
            let a = *rng.pick(&ANGLES15);
            if rng.chance(1, 3) { -(a as f64) } else { a as f64 }
        }
    }
}
/// skew angles stay away from the poles of tan (90 + 180k)
fn gen_skew_angle(rng: &mut Rng) -> f64 {
    match rng.below(8) {
        0 => dyadic(rng, -80, 80, 4),
        _ => {
            let a = *rng.pick(&[0i64, 15, 30, 45, 60, 75, 180, 135, 360]);
            if rng.chance(1, 3) { -(a as f64) } else { a as f64 }
        }
    }
}
fn gen_factor(rng: &mut Rng) -> f64 {
    match rng.below(6) {
        0 => rng.range(-3, 3) as f64,
        1 => dyadic(rng, -4, 4, 4),
        2 => (2.0f64).powi(rng.range(-3, 4) as i32),
        3 => -1.0,
        4 => rng.range(-30, 30) as f64 * 0.1,
        _ => rng.range(1, 4) as f64,
    }
}

fn gen_ctor(rng: &mut Rng) -> String {
    let k = grid_size(rng);
    let bc = *rng.pick(&[0u64, 1, 2, 4]);
    let base = gen_matrix(rng, bc);
    let o = gen_point(rng, k);
    let kind = match rng.below(4) {
        0 => format!("scale {} {} {}", proto::num(gen_factor(rng)), proto::num(gen_factor(rng)), proto::coord(o)),
        1 => format!("translate {} {}", proto::num(wild_or_grid(rng, k)), proto::num(wild_or_grid(rng, k))),
        2 => format!("rotate {} {}", proto::num(gen_angle(rng)), proto::coord(o)),
        _ => format!("skew {} {} {}", proto::num(gen_skew_angle(rng)), proto::num(gen_skew_angle(rng)), proto::coord(o)),
    };
    format!("C13.ctor {} {}", mat6v(&base), kind)
}

fn wild_or_grid(rng: &mut Rng, k: i64) -> f64 {
    if rng.chance(1, 5) { wild_f64(rng) } else { rng.range(-k, k) as f64 }
}

fn gen_trait(rng: &mut Rng) -> String {
    let k = grid_size(rng);
    let g = gen_any_geom(rng, k, 2);
    let o = gen_point(rng, k);
    let method = match rng.below(12) {
        0 => format!("translate {} {}", proto::num(wild_or_grid(rng, k)), proto::num(wild_or_grid(rng, k))),
        1 => format!("scale {}", proto::num(gen_factor(rng))),
        2 => format!("scale_xy {} {}", proto::num(gen_factor(rng)), proto::num(gen_factor(rng))),
        3 => format!("scale_pt {} {} {}", proto::num(gen_factor(rng)), proto::num(gen_factor(rng)), proto::coord(o)),
        4 => format!("skew {}", proto::num(gen_skew_angle(rng))),
        5 => format!("skew_xy {} {}", proto::num(gen_skew_angle(rng)), proto::num(gen_skew_angle(rng))),
        6 => format!("skew_pt {} {} {}", proto::num(gen_skew_angle(rng)), proto::num(gen_skew_angle(rng)), proto::coord(o)),
        7 => format!("rot_centroid {}", proto::num(gen_angle(rng))),
        8 => format!("rot_center {}", proto::num(gen_angle(rng))),
        9 => format!("rot_pt {} {}", proto::num(gen_angle(rng)), proto::coord(o)),
        _ => {
            let mc = *rng.pick(&[0u64, 1, 2, 3, 4]);
            format!("affine {}", mat6v(&gen_matrix(rng, mc)))
        }
    };
    let wrap = if rng.chance(1, 4) { "enum" } else { "conc" };
    format!("C13.trait {} {} {}", wrap, method, proto::geom(&g))
}

fn gen_int(rng: &mut Rng) -> String {
    let bits = if rng.chance(1, 2) { 32 } else { 64 };
    let mut s = format!("C13.int {}", bits);
    for i in 0..2 {
        let m: [i64; 6] = if i == 0 && rng.chance(1, 3) {
            // det = ±1 by construction: shears and swaps
            let u = unimod_int(rng);
            [u[0], u[1], rng.range(-9, 9), u[2], u[3], rng.range(-9, 9)]
        } else if rng.chance(1, 6) {
            let a = rng.range(-4, 4);
            let bb = rng.range(-4, 4);
            let kk = rng.range(-2, 2);
            [a, bb, rng.range(-9, 9), kk * a, kk * bb, rng.range(-9, 9)]
        } else {
            [rng.range(-4, 4), rng.range(-4, 4), rng.range(-9, 9), rng.range(-4, 4), rng.range(-4, 4), rng.range(-9, 9)]
        };
        for v in m {
            s.push_str(&format!(" {}", v));
        }
    }
    s.push_str(&format!(" {} {}", rng.range(-9, 9), rng.range(-9, 9)));
    s
}
fn unimod_int(rng: &mut Rng) -> [i64; 4] {
    let mut m = [1i64, 0, 0, 1];
    for _ in 0..(1 + rng.below(4)) {
        let g: [i64; 4] = match rng.below(4) {
            0 => [1, rng.range(-2, 2), 0, 1],
            1 => [1, 0, rng.range(-2, 2), 1],
            2 => [0, 1, 1, 0],
            _ => [-1, 0, 0, 1],
        };
        m = [
            g[0] * m[0] + g[1] * m[2], g[0] * m[1] + g[1] * m[3],
            g[2] * m[0] + g[3] * m[2], g[2] * m[1] + g[3] * m[3],
        ];
    }
    m
}

// ---- valid geometries for the commutation stream (valid by construction)

fn c(x: i64, y: i64) -> Coord<f64> {
    Coord { x: x as f64, y: y as f64 }
}
fn cross_i(o: (i64, i64), a: (i64, i64), bb: (i64, i64)) -> i64 {
    (a.0 - o.0) * (bb.1 - o.1) - (a.1 - o.1) * (bb.0 - o.0)
}
/// strict convex hull (monotone chain) of grid points; None if degenerate
fn hull_poly(rng: &mut Rng, k: i64) -> Option<Vec<Coord<f64>>> {
    let n = 3 + rng.below(5);
    let mut pts: Vec<(i64, i64)> = (0..n).map(|_| (rng.range(0, k), rng.range(0, k))).collect();
    pts.sort();
    pts.dedup();
    if pts.len() < 3 {
        return None;
    }
    let mut h: Vec<(i64, i64)> = vec![];
    for &p in &pts {
        while h.len() >= 2 && cross_i(h[h.len() - 2], h[h.len() - 1], p) <= 0 {
            h.pop();
        }
        h.push(p);
    }
    let lower = h.len() + 1;
    for &p in pts.iter().rev().skip(1) {
        while h.len() >= lower && cross_i(h[h.len() - 2], h[h.len() - 1], p) <= 0 {
            h.pop();
        }
        h.push(p);
    }
    h.pop();
    if h.len() < 3 {
        return None;
    }
    Some(h.into_iter().map(|(x, y)| c(x, y)).collect())
}
fn finish_ring(rng: &mut Rng, mut r: Vec<Coord<f64>>) -> LineString<f64> {
    // random start vertex, random direction, closed
    let n = r.len();
    let s = rng.below(n as u64) as usize;
    r.rotate_left(s);
    if rng.chance(1, 2) {
        r.reverse();
    }
    let f = r[0];
    r.push(f);
    LineString(r)
}
fn gen_valid_poly(rng: &mut Rng, k: i64) -> Polygon<f64> {
    loop {
        match rng.below(4) {
            0 => {
                // rectangle, optionally with a rectangular hole strictly inside
                let x0 = rng.range(0, k - 1);
                let y0 = rng.range(0, k - 1);
                let x1 = rng.range(x0 + 1, k);
                let y1 = rng.range(y0 + 1, k);
                let ext = finish_ring(rng, vec![c(x0, y0), c(x1, y0), c(x1, y1), c(x0, y1)]);
                let mut holes = vec![];
                if x1 - x0 >= 3 && y1 - y0 >= 3 && rng.chance(1, 2) {
                    let hx0 = rng.range(x0 + 1, x1 - 2);
                    let hy0 = rng.range(y0 + 1, y1 - 2);
                    let hx1 = rng.range(hx0 + 1, x1 - 1);
                    let hy1 = rng.range(hy0 + 1, y1 - 1);
                    holes.push(finish_ring(rng, vec![c(hx0, hy0), c(hx1, hy0), c(hx1, hy1), c(hx0, hy1)]));
                }
                return Polygon::new(ext, holes);
            }
            1 => {
                if let Some(h) = hull_poly(rng, k) {
                    return Polygon::new(finish_ring(rng, h), vec![]);
                }
            }
            2 => {
                // L-shape
                if k >= 3 {
                    let a = rng.range(2, k);
                    let d = rng.range(2, k);
                    let cc = rng.range(1, a - 1);
                    let bb = rng.range(1, d - 1);
                    let r = vec![c(0, 0), c(a, 0), c(a, bb), c(cc, bb), c(cc, d), c(0, d)];
                    return Polygon::new(finish_ring(rng, r), vec![]);
                }
            }
            _ => {
                // axis-aligned right triangle as a polygon (vertical + horizontal edge)
                let x0 = rng.range(0, k - 1);
                let y0 = rng.range(0, k - 1);
                let w = rng.range(1, k - x0);
                let h = rng.range(1, k - y0);
                return Polygon::new(finish_ring(rng, vec![c(x0, y0), c(x0 + w, y0), c(x0, y0 + h)]), vec![]);
            }
        }
    }
}
fn gen_valid_tri(rng: &mut Rng, k: i64) -> Triangle<f64> {
    loop {
        if rng.chance(1, 2) {
            let x0 = rng.range(0, k - 1);
            let y0 = rng.range(0, k - 1);
            let w = rng.range(1, k - x0);
            let h = rng.range(1, k - y0);
            let mut v = [c(x0, y0), c(x0 + w, y0), c(x0, y0 + h)];
            rng.shuffle(&mut v);
            return Triangle(v[0], v[1], v[2]);
        }
        let p = [(rng.range(0, k), rng.range(0, k)), (rng.range(0, k), rng.range(0, k)), (rng.range(0, k), rng.range(0, k))];
        if cross_i(p[0], p[1], p[2]) != 0 {
            return Triangle(c(p[0].0, p[0].1), c(p[1].0, p[1].1), c(p[2].0, p[2].1));
        }
    }
}
fn half_coord(rng: &mut Rng, k: i64) -> Coord<f64> {
    if rng.chance(1, 3) {
        Coord { x: rng.range(0, 2 * k) as f64 / 2.0, y: rng.range(0, 2 * k) as f64 / 2.0 }
    } else {
        grid_coord(rng, k)
    }
}
/// a path whose consecutive vertices are distinct (no zero-length segment)
fn gen_path(rng: &mut Rng, k: i64) -> LineString<f64> {
    let n = 2 + rng.below(4) as usize;
    let mut v: Vec<Coord<f64>> = vec![grid_coord(rng, k)];
    while v.len() < n {
        let cnd = grid_coord(rng, k);
        if cnd != *v.last().unwrap() {
            v.push(cnd);
        }
    }
    LineString(v)
}
fn gen_line(rng: &mut Rng, k: i64) -> Line<f64> {
    let l = gen_path(rng, k);
    Line::new(l.0[0], l.0[1])
}
fn gen_valid_geom(rng: &mut Rng, k: i64, depth: u32) -> Geometry<f64> {
    let top = if depth == 0 { 9 } else { 10 };
    match rng.below(top) {
        0 => Geometry::Point(Point(half_coord(rng, k))),
        1 => Geometry::Line(gen_line(rng, k)),
        2 => Geometry::LineString(gen_path(rng, k)),
        3 => Geometry::Polygon(gen_valid_poly(rng, k)),
        4 => Geometry::MultiPoint(MultiPoint((0..rng.below(4)).map(|_| Point(half_coord(rng, k))).collect())),
        5 => Geometry::MultiLineString(MultiLineString((0..rng.below(3)).map(|_| gen_path(rng, k)).collect())),
        6 => {
            // two polygons in disjoint halves of a doubled grid (valid MultiPolygon)
            let a = gen_valid_poly(rng, k);
            if rng.chance(1, 2) {
                let bb = gen_valid_poly(rng, k).translate((k + 1) as f64, 0.0);
                Geometry::MultiPolygon(MultiPolygon(vec![a, bb]))
            } else {
                Geometry::MultiPolygon(MultiPolygon(vec![a]))
            }
        }
        7 => {
            let x0 = rng.range(0, k - 1);
            let y0 = rng.range(0, k - 1);
            Geometry::Rect(Rect::new(c(x0, y0), c(rng.range(x0 + 1, k), rng.range(y0 + 1, k))))
        }
        8 => Geometry::Triangle(gen_valid_tri(rng, k)),
        _ => {
            // members live in disjoint vertical bands (a collection with overlapping members is
            // outside the domain of relate)
            let n = rng.below(3) as i64;
            let w = (k + 1) * 3; // a member is at most 2k+1 wide (MultiPolygon)
            Geometry::GeometryCollection(GeometryCollection(
                (0..n).map(|i| gen_valid_geom(rng, k, depth - 1).translate((i * w) as f64, 0.0)).collect(),
            ))
        }
    }
}

fn gen_comm(rng: &mut Rng) -> String {
    let k = grid_size(rng);
    let phi = sim_matrix(rng);
    let measure = *rng.pick(&["intersects", "contains", "relate", "relate", "relate", "area", "sarea", "length", "distance", "coordpos"]);
    let a = match measure {
        "length" => match rng.below(3) {
            0 => Geometry::Line(gen_line(rng, k)),
            1 => Geometry::LineString(gen_path(rng, k)),
            _ => Geometry::MultiLineString(MultiLineString((0..rng.below(3)).map(|_| gen_path(rng, k)).collect())),
        },
        "sarea" => {
            if rng.chance(2, 3) {
                Geometry::Polygon(gen_valid_poly(rng, k))
            } else {
                let a = gen_valid_poly(rng, k);
                let bb = gen_valid_poly(rng, k).translate((k + 1) as f64, 0.0);
                Geometry::MultiPolygon(MultiPolygon(vec![a, bb]))
            }
        }
        "area" => match rng.below(5) {
            0 => Geometry::Polygon(gen_valid_poly(rng, k)),
            1 => Geometry::Triangle(gen_valid_tri(rng, k)),
            _ => gen_valid_geom(rng, k, 1),
        },
        _ => gen_valid_geom(rng, k, 1),
    };
    let mut s = format!("C13.comm {} {} {}", measure, mat6v(&phi), proto::geom(&a));
    match measure {
        "area" | "sarea" | "length" => {}
        "coordpos" => {
            s.push(' ');
            s.push_str(&proto::geom(&Geometry::Point(Point(half_coord(rng, k)))));
        }
        _ => {
            s.push(' ');
            s.push_str(&proto::geom(&gen_valid_geom(rng, k, 1)));
        }
    }
    s
}

pub fn gen(rng: &mut Rng, _index: u64) -> String {
    match rng.below(16) {
        0..=3 => gen_alg(rng),
        4..=5 => gen_ctor(rng),
        6..=8 => gen_trait(rng),
        9 => gen_int(rng),
        _ => gen_comm(rng),
    }
}

// ---------------------------------------------------------------- evaluation

fn eval_alg(t: &mut Toks) -> R<String> {
    let n = t.usize()?;
    let mut ms = vec![];
    for _ in 0..n {
        ms.push(read_mat(t)?);
    }
    let p = t.coord()?;
    if ms.is_empty() {
        return Err("no matrix".into());
    }
    let many = ms[0].compose_many(&ms[1..]);
    let mut fold = ms[0];
    for m in &ms[1..] {
        fold = fold.compose(m);
    }
    let applyc = many.apply(p);
    let mut applys = p;
    for m in &ms {
        applys = m.apply(applys);
    }
    let mut s = format!(
        "many {} fold {} isid {} applyc {} applys {} inv ",
        mat6(&many), mat6(&fold), b(many.is_identity()), proto::coord(applyc), proto::coord(applys)
    );
    match ms[0].inverse() {
        None => s.push_str("none"),
        Some(i) => {
            let back = i.apply(ms[0].apply(p));
            s.push_str(&format!(
                "some {} rt {} {} back {}",
                mat6(&i), b(ms[0].compose(&i).is_identity()), b(i.compose(&ms[0]).is_identity()), proto::coord(back)
            ));
        }
    }
    Ok(s)
}

fn eval_ctor(t: &mut Toks) -> R<String> {
    let base = read_mat(t)?;
    let (ctor, cum) = match t.tok()? {
        "scale" => {
            let fx = t.num()?;
            let fy = t.num()?;
            let o = t.coord()?;
            (M::scale(fx, fy, o), base.scaled(fx, fy, o))
        }
        "translate" => {
            let dx = t.num()?;
            let dy = t.num()?;
            (M::translate(dx, dy), base.translated(dx, dy))
        }
        "rotate" => {
            let d = t.num()?;
            let o = t.coord()?;
            (M::rotate(d, o), base.rotated(d, o))
        }
        "skew" => {
            let xs = t.num()?;
            let ys = t.num()?;
            let o = t.coord()?;
            (M::skew(xs, ys, o), base.skewed(xs, ys, o))
        }
        x => return Err(format!("bad ctor {}", x)),
    };
    let cmp = base.compose(&ctor);
    Ok(format!("ctor {} cum {} cmp {}", mat6(&ctor), mat6(&cum), mat6(&cmp)))
}

enum Method {
    Translate(f64, f64),
    Scale(f64),
    ScaleXy(f64, f64),
    ScalePt(f64, f64, Coord<f64>),
    Skew(f64),
    SkewXy(f64, f64),
    SkewPt(f64, f64, Coord<f64>),
    RotCentroid(f64),
    RotCenter(f64),
    RotPt(f64, Coord<f64>),
    Affine(M),
}

/// functional form and in-place form of one trait method on one concrete type
fn run_method<G>(g: &G, m: &Method) -> (G, G)
where
    G: Clone + Rotate<f64> + Scale<f64> + Skew<f64> + Translate<f64> + AffineOps<f64>,
{
    let mut h = g.clone();
    let f = match m {
        Method::Translate(dx, dy) => {
            h.translate_mut(*dx, *dy);
            g.translate(*dx, *dy)
        }
        Method::Scale(f) => {
            h.scale_mut(*f);
            g.scale(*f)
        }
        Method::ScaleXy(fx, fy) => {
            h.scale_xy_mut(*fx, *fy);
            g.scale_xy(*fx, *fy)
        }
        Method::ScalePt(fx, fy, o) => {
            h.scale_around_point_mut(*fx, *fy, *o);
            g.scale_around_point(*fx, *fy, *o)
        }
        Method::Skew(d) => {
            h.skew_mut(*d);
            g.skew(*d)
        }
        Method::SkewXy(dx, dy) => {
            h.skew_xy_mut(*dx, *dy);
            g.skew_xy(*dx, *dy)
        }
        Method::SkewPt(dx, dy, o) => {
            h.skew_around_point_mut(*dx, *dy, *o);
            g.skew_around_point(*dx, *dy, *o)
        }
        Method::RotCentroid(d) => {
            h.rotate_around_centroid_mut(*d);
            g.rotate_around_centroid(*d)
        }
        Method::RotCenter(d) => {
            h.rotate_around_center_mut(*d);
            g.rotate_around_center(*d)
        }
        Method::RotPt(d, o) => {
            h.rotate_around_point_mut(*d, Point(*o));
            g.rotate_around_point(*d, Point(*o))
        }
        Method::Affine(t) => {
            h.affine_transform_mut(t);
            g.affine_transform(t)
        }
    };
    (f, h)
}

fn eval_trait(t: &mut Toks) -> R<String> {
    let wrap = t.tok()? == "enum";
    let m = match t.tok()? {
        "translate" => Method::Translate(t.num()?, t.num()?),
        "scale" => Method::Scale(t.num()?),
        "scale_xy" => Method::ScaleXy(t.num()?, t.num()?),
        "scale_pt" => Method::ScalePt(t.num()?, t.num()?, t.coord()?),
        "skew" => Method::Skew(t.num()?),
        "skew_xy" => Method::SkewXy(t.num()?, t.num()?),
        "skew_pt" => Method::SkewPt(t.num()?, t.num()?, t.coord()?),
        "rot_centroid" => Method::RotCentroid(t.num()?),
        "rot_center" => Method::RotCenter(t.num()?),
        "rot_pt" => Method::RotPt(t.num()?, t.coord()?),
        "affine" => Method::Affine(read_mat(t)?),
        x => return Err(format!("bad method {}", x)),
    };
    let g = t.geom()?;
    macro_rules! on {
        ($x:expr, $v:path) => {{
            let (f, h) = run_method($x, &m);
            ($v(f), $v(h))
        }};
    }
    let (f, h): (Geometry<f64>, Geometry<f64>) = if wrap {
        run_method(&g, &m)
    } else {
        match &g {
            Geometry::Point(x) => on!(x, Geometry::Point),
            Geometry::Line(x) => on!(x, Geometry::Line),
            Geometry::LineString(x) => on!(x, Geometry::LineString),
            Geometry::Polygon(x) => on!(x, Geometry::Polygon),
            Geometry::MultiPoint(x) => on!(x, Geometry::MultiPoint),
            Geometry::MultiLineString(x) => on!(x, Geometry::MultiLineString),
            Geometry::MultiPolygon(x) => on!(x, Geometry::MultiPolygon),
            Geometry::Rect(x) => on!(x, Geometry::Rect),
            Geometry::Triangle(x) => on!(x, Geometry::Triangle),
            Geometry::GeometryCollection(x) => on!(x, Geometry::GeometryCollection),
        }
    };
    let cen = match m {
        Method::RotCentroid(_) => match g.centroid() {
            None => "none".to_string(),
            Some(p) => format!("some {}", coord_x(p.0)),
        },
        _ => "na".to_string(),
    };
    Ok(format!("cen {} res {} mut {}", cen, geom_x(&f), geom_x(&h)))
}

/// like proto::num but non-finite values become tokens the driver understands
fn num_x(v: f64) -> String {
    if v.is_nan() {
        "nan".into()
    } else if v.is_infinite() {
        if v > 0.0 { "inf".into() } else { "-inf".into() }
    } else {
        proto::num(v)
    }
}
fn coord_x(cd: Coord<f64>) -> String {
    format!("{} {}", num_x(cd.x), num_x(cd.y))
}
fn geom_x(g: &Geometry<f64>) -> String {
    use geo::algorithm::coords_iter::CoordsIter;
    if g.coords_iter().all(|cd| cd.x.is_finite() && cd.y.is_finite()) {
        proto::geom(g)
    } else {
        "nonfinite".to_string()
    }
}

fn eval_int(t: &mut Toks) -> R<String> {
    let bits = t.usize()?;
    let mut v = [0i64; 14];
    for x in v.iter_mut() {
        *x = t.i64()?;
    }
    macro_rules! go {
        ($ty:ty) => {{
            let m1 = AffineTransform::<$ty>::from([v[0] as $ty, v[1] as $ty, v[2] as $ty, v[3] as $ty, v[4] as $ty, v[5] as $ty]);
            let m2 = AffineTransform::<$ty>::new(v[6] as $ty, v[7] as $ty, v[8] as $ty, v[9] as $ty, v[10] as $ty, v[11] as $ty);
            let p = Coord { x: v[12] as $ty, y: v[13] as $ty };
            let cm = m1.compose(&m2);
            let ap = cm.apply(p);
            let sq = m2.apply(m1.apply(p));
            let pm = |m: &AffineTransform<$ty>| format!("{} {} {} {} {} {}", m.a(), m.b(), m.xoff(), m.d(), m.e(), m.yoff());
            let mut s = format!("comp {} app {} {} seq {} {} inv ", pm(&cm), ap.x, ap.y, sq.x, sq.y);
            match m1.inverse() {
                None => s.push_str("none"),
                Some(i) => {
                    let back = i.apply(m1.apply(p));
                    s.push_str(&format!(
                        "some {} rt {} {} back {} {}",
                        pm(&i), b(m1.compose(&i).is_identity()), b(i.compose(&m1).is_identity()), back.x, back.y
                    ));
                }
            }
            s
        }};
    }
    Ok(match bits {
        32 => go!(i32),
        64 => go!(i64),
        _ => return Err("bad int width".into()),
    })
}

fn im_string(im: &geo::algorithm::relate::IntersectionMatrix) -> String {
    let mut s = String::new();
    for a in [CoordPos::Inside, CoordPos::OnBoundary, CoordPos::Outside] {
        for bb in [CoordPos::Inside, CoordPos::OnBoundary, CoordPos::Outside] {
            s.push(match im.get(a, bb) {
                geo::algorithm::dimensions::Dimensions::Empty => 'F',
                geo::algorithm::dimensions::Dimensions::ZeroDimensional => '0',
                geo::algorithm::dimensions::Dimensions::OneDimensional => '1',
                geo::algorithm::dimensions::Dimensions::TwoDimensional => '2',
            });
        }
    }
    s
}

fn measure(name: &str, a: &Geometry<f64>, bb: Option<&Geometry<f64>>) -> R<String> {
    let need = || bb.ok_or_else(|| "second operand missing".to_string());
    Ok(match name {
        "intersects" => b(a.intersects(need()?)).to_string(),
        "contains" => b(a.contains(need()?)).to_string(),
        "relate" => im_string(&a.relate(need()?)),
        "area" => num_x(a.unsigned_area()),
        "sarea" => num_x(a.signed_area()),
        "length" => num_x(match a {
            Geometry::Line(x) => Euclidean.length(x),
            Geometry::LineString(x) => Euclidean.length(x),
            Geometry::MultiLineString(x) => Euclidean.length(x),
            _ => return Err("length: not a linear geometry".into()),
        }),
        "distance" => num_x(Euclidean.distance(a, need()?)),
        "coordpos" => match need()? {
            Geometry::Point(p) => format!("{:?}", a.coordinate_position(&p.0)),
            _ => return Err("coordpos: second operand must be a point".into()),
        },
        x => return Err(format!("bad measure {}", x)),
    })
}

fn eval_comm(t: &mut Toks) -> R<String> {
    let name = t.tok()?;
    let phi = read_mat(t)?;
    let a = t.geom()?;
    let bb = if t.done() { None } else { Some(t.geom()?) };
    let r0 = measure(name, &a, bb.as_ref())?;
    let a1 = a.affine_transform(&phi);
    let b1 = bb.as_ref().map(|g| g.affine_transform(&phi));
    let r1 = measure(name, &a1, b1.as_ref())?;
    Ok(format!("r0 {} r1 {}", r0, r1))
}

pub fn eval(op: &str, t: &mut Toks) -> R<String> {
    match op {
        "C13.alg" => eval_alg(t),
        "C13.ctor" => eval_ctor(t),
        "C13.trait" => eval_trait(t),
        "C13.int" => eval_int(t),
        "C13.comm" => eval_comm(t),
        _ => Err(format!("unknown op {}", op)),
    }
}
