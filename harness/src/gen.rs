//! Shared input generators (DESIGN.md §4). Grid-based so that coincidences are frequent.
use crate::rng::Rng;
use geo_types::*;

pub fn grid_size(rng: &mut Rng) -> i64 {
    *rng.pick(&[3i64, 4, 6, 8])
}

pub fn grid_coord(rng: &mut Rng, k: i64) -> Coord<f64> {
    Coord { x: rng.range(0, k) as f64, y: rng.range(0, k) as f64 }
}

/// random coordinate list on the grid (may repeat, may be collinear)
pub fn grid_coords(rng: &mut Rng, k: i64, n: usize) -> Vec<Coord<f64>> {
    (0..n).map(|_| grid_coord(rng, k)).collect()
}

/// A "wild" finite float: mixes small ints, halves, large magnitudes, negative zero, subnormals.
pub fn wild_f64(rng: &mut Rng) -> f64 {
    match rng.below(8) {
        0 => rng.range(-8, 8) as f64,
        1 => rng.range(-16, 16) as f64 / 2.0,
        2 => (rng.unit() - 0.5) * 1e6,
        3 => rng.range(-8, 8) as f64 + 134217728.0,
        4 => -0.0,
        5 => f64::from_bits(rng.below(1 << 20)), // subnormal
        6 => (rng.unit() - 0.5) * 1e-3,
        _ => rng.range(-1000, 1000) as f64 * 0.1,
    }
}
pub fn wild_coord(rng: &mut Rng) -> Coord<f64> {
    Coord { x: wild_f64(rng), y: wild_f64(rng) }
}

/// mostly-grid coordinate with an occasional wild float
pub fn gen_coord(rng: &mut Rng, k: i64) -> Coord<f64> {
    if rng.chance(1, 6) { wild_coord(rng) } else { grid_coord(rng, k) }
}

pub fn gen_ring(rng: &mut Rng, k: i64) -> Vec<Coord<f64>> {
    let n = *rng.pick(&[0usize, 1, 2, 3, 3, 4, 4, 5, 6]);
    let mut r: Vec<Coord<f64>> = (0..n).map(|_| gen_coord(rng, k)).collect();
    if n > 0 && rng.chance(1, 2) {
        let f = r[0];
        r.push(f); // already closed
        if rng.chance(1, 4) {
            r.push(f); // doubly closed
        }
    }
    r
}


pub fn gen_any_geom(rng: &mut Rng, k: i64, depth: u32) -> Geometry<f64> {
    let top = if depth == 0 { 9 } else { 10 };
    match rng.below(top) {
        0 => Geometry::Point(Point(gen_coord(rng, k))),
        1 => Geometry::Line(Line::new(gen_coord(rng, k), gen_coord(rng, k))),
        2 => Geometry::LineString(LineString(gen_ring(rng, k))),
        3 => Geometry::Polygon(gen_poly(rng, k)),
        4 => Geometry::MultiPoint(MultiPoint(gen_ring(rng, k).into_iter().map(Point).collect())),
        5 => Geometry::MultiLineString(MultiLineString((0..rng.below(3)).map(|_| LineString(gen_ring(rng, k))).collect())),
        6 => Geometry::MultiPolygon(MultiPolygon((0..rng.below(3)).map(|_| gen_poly(rng, k)).collect())),
        7 => Geometry::Rect(Rect::new(gen_coord(rng, k), gen_coord(rng, k))),
        8 => Geometry::Triangle(Triangle(gen_coord(rng, k), gen_coord(rng, k), gen_coord(rng, k))),
        _ => Geometry::GeometryCollection(GeometryCollection((0..rng.below(4)).map(|_| gen_any_geom(rng, k, depth - 1)).collect())),
    }
}

pub fn gen_poly(rng: &mut Rng, k: i64) -> Polygon<f64> {
    let ni = *rng.pick(&[0usize, 0, 1, 2]);
    Polygon::new(LineString(gen_ring(rng, k)), (0..ni).map(|_| LineString(gen_ring(rng, k))).collect())
}

