//! Shared input generators (DESIGN.md §4). Grid-based so that coincidences are frequent.
use crate::rng::Rng;
use geo_types::*;

pub fn grid_size(rng: &mut Rng) -> i64 {
    *rng.pick(&[3i64, 4, 6, 8])
}

pub fn grid_coord(rng: &mut Rng, k: i64) -> Coord<f64> {
    Coord { x: rng.range(0, k) as f64, y: rng.range(0, k) as f64 }
}

/// random coordinate list on the grid (may repeat, may be collinear)
pub fn grid_coords(rng: &mut Rng, k: i64, n: usize) -> Vec<Coord<f64>> {
    (0..n).map(|_| grid_coord(rng, k)).collect()
}

/// A "wild" finite float: mixes small ints, halves, large magnitudes, negative zero, subnormals.
pub fn wild_f64(rng: &mut Rng) -> f64 {
    match rng.below(8) {
        0 => rng.range(-8, 8) as f64,
        1 => rng.range(-16, 16) as f64 / 2.0,
        2 => (rng.unit() - 0.5) * 1e6,
        3 => rng.range(-8, 8) as f64 + 134217728.0,
        4 => -0.0,
        5 => f64::from_bits(rng.below(1 << 20)), // subnormal
        6 => (rng.unit() - 0.5) * 1e-3,
        _ => rng.range(-1000, 1000) as f64 * 0.1,
    }
}
pub fn wild_coord(rng: &mut Rng) -> Coord<f64> {
    Coord { x: wild_f64(rng), y: wild_f64(rng) }
}
