//! C08 — convex hull (quick_hull, graham_hull, ConvexHull trait) and minimum_rotated_rect.
//!
//!   C08.hull <f64|i64> <geom>  =>  qh <ring> gh <ring> ghi <ring> ch <k> <ring>
//!   C08.mrr <geom>             =>  none | some <k> <ring>
//!
//! `qh` = quick_hull on the exterior coordinates, `gh` = graham_hull(.., false),
//! `ghi` = graham_hull(.., true), `ch` = ConvexHull::convex_hull (number of rings, exterior).
use crate::gen::*;
use crate::proto::{self, Toks, R};
use crate::rng::Rng;
use geo::algorithm::convex_hull::{graham_hull, quick_hull};
use geo::algorithm::coords_iter::CoordsIter;
use geo::algorithm::map_coords::MapCoords;
use geo::{ConvexHull, GeoNum, MinimumRotatedRect};
use geo_types::*;

// ------------------------------------------------------------------ generation

fn pts_to_geom(rng: &mut Rng, pts: Vec<Coord<f64>>) -> Geometry<f64> {
    match rng.below(8) {
        0 | 1 | 2 | 3 => Geometry::MultiPoint(MultiPoint(pts.into_iter().map(Point).collect())),
        4 | 5 => Geometry::LineString(LineString(pts)),
        6 => Geometry::Polygon(Polygon::new(LineString(pts), vec![])),
        _ => {
            // split over a collection / multi line string: traversal order is kept
            let cut = if pts.is_empty() { 0 } else { rng.below(pts.len() as u64 + 1) as usize };
            let (a, b) = pts.split_at(cut);
            if rng.chance(1, 2) {
                Geometry::MultiLineString(MultiLineString(vec![LineString(a.to_vec()), LineString(b.to_vec())]))
            } else {
                Geometry::GeometryCollection(GeometryCollection(vec![
                    Geometry::LineString(LineString(a.to_vec())),
                    Geometry::MultiPoint(MultiPoint(b.iter().map(|c| Point(*c)).collect())),
                ]))
            }
        }
    }
}

/// points on a line through two grid points (all collinear)
fn collinear_pts(rng: &mut Rng, k: i64, n: usize) -> Vec<Coord<f64>> {
    let dirs = [(1i64, 0i64), (0, 1), (1, 1), (1, -1), (2, 1), (1, 2), (-2, 1)];
    let (dx, dy) = *rng.pick(&dirs);
    let (ox, oy) = (rng.range(0, k), rng.range(0, k));
    (0..n)
        .map(|_| {
            let t = rng.range(-k, k);
            Coord { x: (ox + t * dx) as f64, y: (oy + t * dy) as f64 }
        })
        .collect()
}

/// many points on the boundary of a convex grid polygon (collinear boundary points) plus interior ones
fn boundary_heavy(rng: &mut Rng, k: i64, n: usize) -> Vec<Coord<f64>> {
    let k = k.max(2);
    let mut v = vec![];
    for _ in 0..n {
        let t = rng.range(0, k);
        let c = match rng.below(6) {
            0 => (t, 0),
            1 => (t, k),
            2 => (0, t),
            3 => (k, t),
            4 => (t, k - t), // anti-diagonal
            _ => (rng.range(0, k), rng.range(0, k)),
        };
        v.push(Coord { x: c.0 as f64, y: c.1 as f64 });
    }
    v
}

/// Regime A: large coordinates where `hull_set`'s farthest-point dot product is rounded.
fn big_pts(rng: &mut Rng, n: usize) -> Vec<Coord<f64>> {
    let e = *rng.pick(&[40i32, 48, 50, 52, 60]);
    let big = 2f64.powi(e);
    let mut v = vec![];
    match rng.below(3) {
        0 => {
            // two far anchors on a slanted line, small (fractional) points near the middle
            let (sx, sy) = *rng.pick(&[(1.0, 1.0), (1.0, 0.5), (1.0, -1.0), (1.0, 0.0), (0.5, 1.0)]);
            v.push(Coord { x: -big * sx, y: -big * sy });
            v.push(Coord { x: big * sx, y: big * sy });
            for _ in 0..n {
                v.push(Coord { x: rng.range(-8, 8) as f64 / 8.0, y: rng.range(-8, 8) as f64 / 8.0 });
            }
        }
        1 => {
            // grid translated far away: differences are exact, products are not
            let k = grid_size(rng);
            let (ox, oy) = (big * rng.range(-1, 1) as f64, big * rng.range(-1, 1) as f64);
            let s = *rng.pick(&[1.0, 3.0, 1e7, 123456789.0]);
            for _ in 0..n + 2 {
                let c = grid_coord(rng, k);
                v.push(Coord { x: ox + c.x * s, y: oy + c.y * s });
            }
        }
        _ => {
            // long thin sliver: anchors (0,0),(big,1) and points on nearly parallel lines
            v.push(Coord { x: 0.0, y: 0.0 });
            v.push(Coord { x: big, y: rng.range(0, 2) as f64 });
            let y0 = 2f64.powi(rng.range(0, 6) as i32);
            for _ in 0..n {
                v.push(Coord { x: rng.range(0, 6) as f64, y: y0 * rng.range(0, 2) as f64 + rng.range(-1, 1) as f64 * y0 * 2f64.powi(-50) });
            }
        }
    }
    rng.shuffle(&mut v);
    v
}

/// Wide-integer regime: hull vertices on an almost straight chain with coordinates up to 2^28.6, so that the
/// orientation determinants (~2^57) are far beyond 2^53 while still exact in i64: a middle point that is a genuine
/// hull vertex by a determinant of 1 or 2 disappears if the predicate is evaluated in floating point.
fn wide_int_chain(rng: &mut Rng) -> Vec<Coord<f64>> {
    let n0 = rng.range(1 << 26, 1 << 27);
    let (dx, dy) = *rng.pick(&[(n0, n0 + 1), (n0 + 1, n0), (n0, -(n0 + 1)), (n0 + 2, n0 - 1)]);
    let mut v = vec![];
    for k in 0..=3i64 {
        let (ex, ey) = if k == 0 || k == 3 { (0, 0) } else { (rng.range(-1, 1), rng.range(-1, 1)) };
        v.push(Coord { x: (k * dx + ex) as f64, y: (k * dy + ey) as f64 });
    }
    // an anchor well off the chain on either side
    if rng.chance(1, 2) { v.push(Coord { x: (3 * dx) as f64, y: 0.0 }); } else { v.push(Coord { x: 0.0, y: (3 * dy) as f64 }); }
    if rng.chance(1, 2) { v.push(Coord { x: (dx + dx / 2) as f64, y: (dy + dy / 2) as f64 }); }
    let (sw, fx) = (rng.chance(1, 2), rng.chance(1, 2));
    let mut v: Vec<Coord<f64>> = v.into_iter().map(|c| {
        let (x, y) = if sw { (c.y, c.x) } else { (c.x, c.y) };
        Coord { x: if fx { -x } else { x }, y }
    }).collect();
    rng.shuffle(&mut v);
    v
}

/// 64 … 300 decimal coordinates (multiples of 0.1 / 0.01: not dyadic) among which several hull vertices are nearly
/// collinear with their neighbours: points `B + t (R − B)` computed in f64 lie within an ulp of the chord, on either side
fn many_decimal(rng: &mut Rng) -> Vec<Coord<f64>> {
    let n = 64 + rng.below(240) as usize;
    let d = |rng: &mut Rng, lo: i64, hi: i64| rng.range(lo, hi) as f64 * if rng.chance(1, 2) { 0.1 } else { 0.01 };
    let (l, b, r, t) = (Coord { x: d(rng, -40, -20), y: d(rng, -5, 5) }, Coord { x: d(rng, -5, 5), y: d(rng, -40, -20) },
                        Coord { x: d(rng, 20, 40), y: d(rng, -5, 5) }, Coord { x: d(rng, -5, 5), y: d(rng, 20, 40) });
    let mut v = vec![l, b, r, t];
    let sides = [(l, b), (b, r), (r, t), (t, l)];
    while v.len() < n {
        let (p, q) = *rng.pick(&sides);
        let tt = rng.range(1, 99) as f64 / 100.0;
        let on = Coord { x: p.x + tt * (q.x - p.x), y: p.y + tt * (q.y - p.y) };
        match rng.below(4) {
            0 => v.push(on),                                                     // within an ulp of the side
            1 => v.push(Coord { x: on.x * 0.5, y: on.y * 0.5 }),                 // well inside
            _ => v.push(Coord { x: d(rng, -15, 15), y: d(rng, -15, 15) }),       // inside
        }
    }
    rng.shuffle(&mut v);
    v
}

fn gen_pts(rng: &mut Rng) -> (Vec<Coord<f64>>, bool) {
    let k = *rng.pick(&[3i64, 4, 5, 6, 6, 8]);
    let n = if rng.chance(1, 12) { rng.below(4) as usize } else { 4 + rng.below(13) as usize };
    match rng.below(20) {
        0 => { let m = rng.below(4) as usize; (grid_coords(rng, k, m), false) } // fewer than four points
        1 => (collinear_pts(rng, k, n), false),
        2 => {
            // collinear but for one point
            let mut v = collinear_pts(rng, k, n);
            let at = rng.below(v.len() as u64 + 1) as usize;
            v.insert(at, grid_coord(rng, k));
            (v, false)
        }
        3 => if rng.chance(1, 2) { (wide_int_chain(rng), true) } else { (many_decimal(rng), true) },
        4 | 5 | 6 => (boundary_heavy(rng, k, n), false),
        7 | 8 => (big_pts(rng, n.min(8)), true),
        9 => {
            // small-integer grid shifted/scaled exactly
            let s = *rng.pick(&[1.0, 2.0, 0.5, 1024.0]);
            let o = *rng.pick(&[0.0, -3.0, 134217728.0]);
            (grid_coords(rng, k, n).into_iter().map(|c| Coord { x: c.x * s + o, y: c.y * s - o }).collect(), false)
        }
        _ => (grid_coords(rng, k, n), false),
    }
}

pub fn gen(rng: &mut Rng, _index: u64) -> String {
    let (mut pts, big) = gen_pts(rng);
    // duplicates
    if !pts.is_empty() && rng.chance(1, 3) {
        for _ in 0..rng.below(3) {
            let c = *rng.pick(&pts);
            let at = rng.below(pts.len() as u64 + 1) as usize;
            pts.insert(at, c);
        }
    }
    let all_int = pts.iter().all(|c| c.x == c.x.trunc() && c.y == c.y.trunc() && c.x.abs() < 5e8 && c.y.abs() < 5e8);
    let g = pts_to_geom(rng, pts);
    if !big && rng.chance(1, 6) {
        return format!("C08.mrr {}", proto::geom(&g));
    }
    let wide = all_int && big;
    let ty = if all_int && (rng.chance(1, 3) || (wide && rng.chance(2, 3))) { "i64" } else { "f64" };
    format!("C08.hull {} {}", ty, proto::geom(&g))
}

// ------------------------------------------------------------------ evaluation

fn ring_str<T: GeoNum>(cs: &[Coord<T>], pr: &dyn Fn(Coord<T>) -> String) -> String {
    let mut s = format!("{}", cs.len());
    for c in cs {
        s.push(' ');
        s.push_str(&pr(*c));
    }
    s
}

fn run_hull<T: GeoNum>(g: &Geometry<T>, pr: &dyn Fn(Coord<T>) -> String) -> String {
    let pts: Vec<Coord<T>> = g.exterior_coords_iter().collect();
    // Both functions take the points as a scratch buffer they may reorder. In every second case (by the number of points)
    // each reported hull is computed on a buffer that already went through one of the hull functions: a reordered
    // buffer still holds the same points, so the hull of it is the hull of the input.
    let reuse = pts.len() % 2 == 1;
    let mut a = pts.clone();
    if reuse { let _ = graham_hull(&mut a, false); }
    let qh = quick_hull(&mut a);
    let mut b = pts.clone();
    if reuse { let _ = quick_hull(&mut b); let _ = graham_hull(&mut b, true); }
    let gh = graham_hull(&mut b, false);
    let mut c = pts.clone();
    if reuse { let _ = graham_hull(&mut c, false); }
    let ghi = graham_hull(&mut c, true);
    let ch = g.convex_hull();
    format!(
        "qh {} gh {} ghi {} ch {} {}",
        ring_str(&qh.0, pr),
        ring_str(&gh.0, pr),
        ring_str(&ghi.0, pr),
        ch.interiors().len() + 1,
        ring_str(&ch.exterior().0, pr)
    )
}

fn eval_hull(t: &mut Toks) -> R<String> {
    let ty = t.tok()?;
    let g = t.geom()?;
    match ty {
        "f64" => Ok(run_hull::<f64>(&g, &|c| proto::coord(c))),
        "i64" => {
            let gi: Geometry<i64> = g.map_coords(|c| Coord { x: c.x as i64, y: c.y as i64 });
            Ok(run_hull::<i64>(&gi, &|c| format!("{} {}", c.x, c.y)))
        }
        x => Err(format!("bad scalar type {}", x)),
    }
}

fn eval_mrr(t: &mut Toks) -> R<String> {
    let g = t.geom()?;
    Ok(match g.minimum_rotated_rect() {
        None => "none".to_string(),
        Some(p) => format!("some {} {}", p.interiors().len() + 1, proto::coords(&p.exterior().0)),
    })
}

pub fn eval(op: &str, t: &mut Toks) -> R<String> {
    match op {
        "C08.hull" => eval_hull(t),
        "C08.mrr" => eval_mrr(t),
        _ => Err(format!("unknown op {}", op)),
    }
}
