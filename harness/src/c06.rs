//! C06 — centroid.
//!
//!   C06.cen  <geom>                       => none | some <x> <y>
//!   C06.meta <e> <dx> <dy> <geom> <geom'> => <opt> <opt>     (geom' = 2^e * geom + (dx,dy))
use crate::proto::{self, Toks, R};
use crate::rng::Rng;
use geo::algorithm::centroid::Centroid;
use geo_types::*;

// ---------------------------------------------------------------- coordinate systems

/// How integer grid coordinates become f64 coordinates for one case.
#[derive(Clone, Copy)]
struct Sys {
    k: i64,       // grid 0..=k
    scale: f64,   // power of two
    ox: f64,
    oy: f64,
    jitter: bool, // add a random non-dyadic fraction to every coordinate (rounded regime)
}

impl Sys {
    fn plain(rng: &mut Rng) -> Sys {
        Sys { k: *rng.pick(&[3i64, 4, 6, 8]), scale: 1.0, ox: 0.0, oy: 0.0, jitter: false }
    }
    fn pick(rng: &mut Rng) -> Sys {
        let mut s = Sys::plain(rng);
        match rng.below(10) {
            0..=5 => {}
            6 | 7 => {
                // exact regime far from the origin: integer offset, power-of-two scale
                let mag = *rng.pick(&[1i64 << 10, 1 << 20, 1 << 26, 1 << 30, 1_000_000_007, 123_456_789_012]);
                s.ox = (rng.range(-mag, mag)) as f64;
                s.oy = (rng.range(-mag, mag)) as f64;
                if rng.chance(1, 3) {
                    s.scale = (2.0f64).powi(rng.range(1, 4) as i32);
                }
            }
            _ => {
                // rounded regime
                s.jitter = true;
                if rng.chance(1, 2) {
                    let mag = *rng.pick(&[1000.0, 1e6, 1e8]);
                    s.ox = (rng.unit() - 0.5) * mag;
                    s.oy = (rng.unit() - 0.5) * mag;
                }
            }
        }
        s
    }
    fn c(&self, rng: &mut Rng, x: i64, y: i64) -> Coord<f64> {
        let (mut fx, mut fy) = (x as f64, y as f64);
        if self.jitter {
            fx += (rng.unit() - 0.5) * 0.5;
            fy += (rng.unit() - 0.5) * 0.5;
        }
        Coord { x: fx * self.scale + self.ox, y: fy * self.scale + self.oy }
    }
    /// a coordinate that does not get jitter (keeps exact coincidences / collinearity)
    fn c_exact(&self, x: i64, y: i64) -> Coord<f64> {
        Coord { x: x as f64 * self.scale + self.ox, y: y as f64 * self.scale + self.oy }
    }
    fn rnd(&self, rng: &mut Rng) -> Coord<f64> {
        let (x, y) = (rng.range(0, self.k), rng.range(0, self.k));
        self.c(rng, x, y)
    }
}

type IPt = (i64, i64);

fn icross(o: IPt, a: IPt, b: IPt) -> i64 {
    (a.0 - o.0) * (b.1 - o.1) - (a.1 - o.1) * (b.0 - o.0)
}

/// convex hull (ccw, no collinear points) of integer points
fn ihull(mut p: Vec<IPt>) -> Vec<IPt> {
    p.sort();
    p.dedup();
    if p.len() < 3 {
        return p;
    }
    let mut h: Vec<IPt> = vec![];
    for &q in p.iter() {
        while h.len() >= 2 && icross(h[h.len() - 2], h[h.len() - 1], q) <= 0 {
            h.pop();
        }
        h.push(q);
    }
    let lo = h.len() + 1;
    for &q in p.iter().rev().skip(1) {
        while h.len() >= lo && icross(h[h.len() - 2], h[h.len() - 1], q) <= 0 {
            h.pop();
        }
        h.push(q);
    }
    h.pop();
    h
}

fn ring_from(s: &Sys, rng: &mut Rng, pts: &[IPt], reverse: bool, exact: bool) -> Vec<Coord<f64>> {
    let mut r: Vec<Coord<f64>> =
        pts.iter().map(|&(x, y)| if exact { s.c_exact(x, y) } else { s.c(rng, x, y) }).collect();
    if reverse {
        r.reverse();
    }
    if !r.is_empty() {
        // rotate the start vertex, then close explicitly half of the time
        let n = r.len();
        r.rotate_left(rng.below(n as u64) as usize);
        if rng.chance(1, 2) {
            let f = r[0];
            r.push(f);
        }
    }
    r
}

/// Pythagorean / axis-aligned steps: every segment has a rational length
const STEPS: [IPt; 12] =
    [(1, 0), (0, 1), (-1, 0), (0, -1), (3, 4), (4, 3), (-3, 4), (4, -3), (2, 0), (0, 3), (-4, -3), (5, 12)];

fn gen_line_coords(s: &Sys, rng: &mut Rng) -> Vec<Coord<f64>> {
    let n = *rng.pick(&[0usize, 1, 2, 2, 3, 3, 4, 5, 6]);
    match rng.below(4) {
        0 => {
            // exact lengths
            let mut p: IPt = (rng.range(0, s.k), rng.range(0, s.k));
            let mut v = vec![];
            for _ in 0..n {
                v.push(s.c_exact(p.0, p.1));
                if !rng.chance(1, 8) {
                    let d = *rng.pick(&STEPS);
                    p = (p.0 + d.0, p.1 + d.1);
                }
            }
            v
        }
        1 => {
            // collinear / repeated points
            let a: IPt = (rng.range(0, s.k), rng.range(0, s.k));
            let d: IPt = *rng.pick(&[(1, 0), (0, 1), (1, 1), (1, -1), (2, 1), (0, 0)]);
            (0..n).map(|_| { let t = rng.range(0, 3); s.c_exact(a.0 + t * d.0, a.1 + t * d.1) }).collect()
        }
        _ => (0..n).map(|_| s.rnd(rng)).collect(),
    }
}

fn gen_polygon(s: &Sys, rng: &mut Rng) -> Polygon<f64> {
    let k = s.k;
    match rng.below(10) {
        0 | 1 => {
            // arbitrary rings (often self-intersecting, holes anywhere)
            let ne = *rng.pick(&[0usize, 1, 2, 3, 3, 4, 4, 5, 6]);
            let ext: Vec<Coord<f64>> = (0..ne).map(|_| s.rnd(rng)).collect();
            let ni = *rng.pick(&[0usize, 0, 1, 2]);
            let ints = (0..ni)
                .map(|_| {
                    let n = *rng.pick(&[0usize, 1, 2, 3, 4]);
                    LineString((0..n).map(|_| s.rnd(rng)).collect())
                })
                .collect();
            Polygon::new(LineString(ext), ints)
        }
        2 | 3 | 4 => {
            // convex shell, either winding, no holes (or degenerate holes)
            let n = rng.range(3, 7) as usize;
            let pts: Vec<IPt> = (0..n).map(|_| (rng.range(0, k), rng.range(0, k))).collect();
            let h = ihull(pts);
            let rev = rng.chance(1, 2);
            let ext = ring_from(s, rng, &h, rev, false);
            let mut ints = vec![];
            if rng.chance(1, 5) {
                // a hole without area: must not change anything
                let a = (rng.range(0, k), rng.range(0, k));
                let b = (rng.range(0, k), rng.range(0, k));
                ints.push(LineString(vec![s.c_exact(a.0, a.1), s.c_exact(b.0, b.1), s.c_exact(a.0, a.1)]));
            }
            Polygon::new(LineString(ext), ints)
        }
        5 | 6 | 7 => {
            // valid polygon with holes: shell = box [0,3m]^2 with cut corners, holes inside the cells of
            // the inner 2x2 partition, each strictly inside its cell
            let m = rng.range(2, 4);
            let w = 3 * m + 2;
            let cut = rng.range(0, 1);
            let shell: Vec<IPt> = if cut == 0 {
                vec![(0, 0), (w, 0), (w, w), (0, w)]
            } else {
                vec![(1, 0), (w - 1, 0), (w, 1), (w, w - 1), (w - 1, w), (1, w), (0, w - 1), (0, 1)]
            };
            let rev = rng.chance(1, 2);
            let ext = ring_from(s, rng, &shell, rev, false);
            let mut ints = vec![];
            let half = w / 2;
            for cx in 0..2 {
                for cy in 0..2 {
                    if !rng.chance(1, 2) {
                        continue;
                    }
                    // cell interior: x in (1 + cx*half .. cx*half + half - 1)
                    let (x0, y0) = (1 + cx * half, 1 + cy * half);
                    let span = half - 2;
                    if span < 1 {
                        continue;
                    }
                    let (a, b) = (rng.range(0, span - 1), rng.range(0, span - 1));
                    let (wd, ht) = (rng.range(1, span - a), rng.range(1, span - b));
                    let hole: Vec<IPt> = if rng.chance(1, 2) {
                        vec![(x0 + a, y0 + b), (x0 + a + wd, y0 + b), (x0 + a + wd, y0 + b + ht), (x0 + a, y0 + b + ht)]
                    } else {
                        vec![(x0 + a, y0 + b), (x0 + a + wd, y0 + b), (x0 + a, y0 + b + ht)]
                    };
                    let rev = rng.chance(1, 2);
                    ints.push(LineString(ring_from(s, rng, &hole, rev, true)));
                }
            }
            Polygon::new(LineString(ext), ints)
        }
        8 => {
            // flat or single-point polygon, possibly with flat / point holes
            let a: IPt = (rng.range(0, k), rng.range(0, k));
            let d: IPt = *rng.pick(&[(1, 0), (0, 1), (1, 1), (3, 4), (0, 0), (2, -1)]);
            let n = rng.range(1, 5) as usize;
            let ext: Vec<Coord<f64>> =
                (0..n).map(|_| { let t = rng.range(0, 3); s.c_exact(a.0 + t * d.0, a.1 + t * d.1) }).collect();
            let ni = *rng.pick(&[0usize, 0, 1, 2]);
            let ints = (0..ni)
                .map(|_| {
                    let b: IPt = (rng.range(0, k), rng.range(0, k));
                    let e: IPt = *rng.pick(&[(1, 0), (0, 1), (0, 0), (4, 3)]);
                    let n = rng.range(1, 3) as usize;
                    LineString((0..n).map(|_| { let t = rng.range(0, 3); s.c_exact(b.0 + t * e.0, b.1 + t * e.1) }).collect())
                })
                .collect();
            Polygon::new(LineString(ext), ints)
        }
        _ => {
            // shell whose holes cover it completely (zero net area): falls back to the outline
            let (x0, y0) = (rng.range(0, k), rng.range(0, k));
            let (w, h) = (2 * rng.range(1, 3), rng.range(1, 4));
            let shell = vec![(x0, y0), (x0 + w, y0), (x0 + w, y0 + h), (x0, y0 + h)];
            let h1 = vec![(x0, y0), (x0 + w / 2, y0), (x0 + w / 2, y0 + h), (x0, y0 + h)];
            let h2 = vec![(x0 + w / 2, y0), (x0 + w, y0), (x0 + w, y0 + h), (x0 + w / 2, y0 + h)];
            let r0 = rng.chance(1, 2);
            let r1 = rng.chance(1, 2);
            let r2 = rng.chance(1, 2);
            Polygon::new(
                LineString(ring_from(s, rng, &shell, r0, true)),
                vec![LineString(ring_from(s, rng, &h1, r1, true)), LineString(ring_from(s, rng, &h2, r2, true))],
            )
        }
    }
}

fn gen_rect(s: &Sys, rng: &mut Rng) -> Rect<f64> {
    let a = s.rnd(rng);
    let b = match rng.below(5) {
        0 => a,
        1 => Coord { x: a.x, y: s.rnd(rng).y },
        _ => s.rnd(rng),
    };
    Rect::new(a, b)
}

fn gen_triangle(s: &Sys, rng: &mut Rng) -> Triangle<f64> {
    match rng.below(6) {
        0 => {
            let a = s.rnd(rng);
            Triangle(a, a, a)
        }
        1 => {
            // exactly collinear
            let a: IPt = (rng.range(0, s.k), rng.range(0, s.k));
            let d: IPt = *rng.pick(&[(1, 0), (0, 1), (1, 1), (3, 4), (2, -1)]);
            let t: Vec<i64> = (0..3).map(|_| rng.range(0, 3)).collect();
            Triangle(
                s.c_exact(a.0 + t[0] * d.0, a.1 + t[0] * d.1),
                s.c_exact(a.0 + t[1] * d.0, a.1 + t[1] * d.1),
                s.c_exact(a.0 + t[2] * d.0, a.1 + t[2] * d.1),
            )
        }
        2 if rng.chance(1, 2) => {
            // exactly collinear corners of very different magnitudes on y = m·x + c (every ordinate exact): any rounded
            // cross product of coordinate differences is non-zero here, the exact one is zero — the triangle is a segment
            let m = *rng.pick(&[7.0, 3.0, -5.0, 2.0, 0.5]);
            let c0 = *rng.pick(&[2.0, -3.0, 1.0, 0.0]);
            let xs = [
                rng.range(1, 30) as f64,
                (2 * rng.range(0, 4) + 1) as f64 * 2f64.powi(-(rng.range(40, 50) as i32)),
                rng.range(1, 15) as f64 / 8.0,
            ];
            let at = |x: f64| Coord { x, y: m * x + c0 };
            let mut v = vec![at(xs[0]), at(xs[1]), at(xs[2])];
            rng.shuffle(&mut v);
            Triangle(v[0], v[1], v[2])
        }
        _ => Triangle(s.rnd(rng), s.rnd(rng), s.rnd(rng)),
    }
}

fn gen_geom(s: &Sys, rng: &mut Rng, depth: u32) -> Geometry<f64> {
    let top = if depth == 0 { 9 } else { 12 };
    match rng.below(top) {
        0 => Geometry::Point(Point(s.rnd(rng))),
        1 => {
            let a = s.rnd(rng);
            let b = if rng.chance(1, 5) { a } else { s.rnd(rng) };
            Geometry::Line(Line::new(a, b))
        }
        2 => Geometry::LineString(LineString(gen_line_coords(s, rng))),
        3 => Geometry::Polygon(gen_polygon(s, rng)),
        4 => {
            let n = rng.below(5) as usize;
            Geometry::MultiPoint(MultiPoint((0..n).map(|_| Point(s.rnd(rng))).collect()))
        }
        5 => Geometry::MultiLineString(MultiLineString(
            (0..rng.below(4)).map(|_| LineString(gen_line_coords(s, rng))).collect(),
        )),
        6 => Geometry::MultiPolygon(MultiPolygon((0..rng.below(4)).map(|_| gen_polygon(s, rng)).collect())),
        7 => Geometry::Rect(gen_rect(s, rng)),
        8 => Geometry::Triangle(gen_triangle(s, rng)),
        _ => Geometry::GeometryCollection(GeometryCollection(
            (0..rng.below(5)).map(|_| gen_geom(s, rng, depth - 1)).collect(),
        )),
    }
}

// ---------------------------------------------------------------- structural coordinate map

fn xf_ring(r: &LineString<f64>, f: &dyn Fn(Coord<f64>) -> Coord<f64>) -> LineString<f64> {
    LineString(r.0.iter().map(|&c| f(c)).collect())
}
fn xf_poly(p: &Polygon<f64>, f: &dyn Fn(Coord<f64>) -> Coord<f64>) -> Polygon<f64> {
    Polygon::new(xf_ring(p.exterior(), f), p.interiors().iter().map(|r| xf_ring(r, f)).collect())
}
/// maps every stored coordinate, keeping the structure (no re-orientation of triangles)
fn xform(g: &Geometry<f64>, f: &dyn Fn(Coord<f64>) -> Coord<f64>) -> Geometry<f64> {
    match g {
        Geometry::Point(p) => Geometry::Point(Point(f(p.0))),
        Geometry::Line(l) => Geometry::Line(Line::new(f(l.start), f(l.end))),
        Geometry::LineString(l) => Geometry::LineString(xf_ring(l, f)),
        Geometry::Polygon(p) => Geometry::Polygon(xf_poly(p, f)),
        Geometry::MultiPoint(m) => Geometry::MultiPoint(MultiPoint(m.0.iter().map(|p| Point(f(p.0))).collect())),
        Geometry::MultiLineString(m) => Geometry::MultiLineString(MultiLineString(m.0.iter().map(|l| xf_ring(l, f)).collect())),
        Geometry::MultiPolygon(m) => Geometry::MultiPolygon(MultiPolygon(m.0.iter().map(|p| xf_poly(p, f)).collect())),
        Geometry::Rect(r) => Geometry::Rect(Rect::new(f(r.min()), f(r.max()))),
        Geometry::Triangle(t) => Geometry::Triangle(Triangle(f(t.0), f(t.1), f(t.2))),
        Geometry::GeometryCollection(gc) => {
            Geometry::GeometryCollection(GeometryCollection(gc.0.iter().map(|g| xform(g, f)).collect()))
        }
    }
}

pub fn gen(rng: &mut Rng, _index: u64) -> String {
    if rng.chance(1, 5) {
        // metamorphic pair: the same geometry translated and uniformly scaled (exactly)
        let s = Sys::plain(rng);
        let g = gen_geom(&s, rng, 2);
        let e = rng.range(-2, 3);
        let k = (2.0f64).powi(e as i32);
        let mag = *rng.pick(&[8i64, 1 << 10, 1 << 20, 1 << 28]);
        let (dx, dy) = (rng.range(-mag, mag) as f64, rng.range(-mag, mag) as f64);
        let g2 = xform(&g, &|c| Coord { x: c.x * k + dx, y: c.y * k + dy });
        format!("C06.meta {} {} {} {} {}", e, proto::num(dx), proto::num(dy), proto::geom(&g), proto::geom(&g2))
    } else if rng.chance(1, 150) {
        // a line string with more coordinates than any block size (a unit staircase: every length is 1)
        let n = 2049 + rng.below(300) as i64;
        let (x0, y0) = (rng.range(-50, 50), rng.range(-50, 50));
        let v: Vec<Coord<f64>> = (0..n).map(|i| Coord { x: (x0 + (i + 1) / 2) as f64, y: (y0 + i / 2) as f64 }).collect();
        let g = if rng.chance(1, 3) { Geometry::MultiLineString(MultiLineString(vec![LineString(v)])) } else { Geometry::LineString(LineString(v)) };
        format!("C06.cen {}", proto::geom(&g))
    } else {
        let s = Sys::pick(rng);
        let g = gen_geom(&s, rng, 3);
        format!("C06.cen {}", proto::geom(&g))
    }
}

fn opt_str(p: Option<Point<f64>>) -> String {
    match p {
        None => "none".to_string(),
        Some(p) => format!("some {}", proto::coord(p.0)),
    }
}

pub fn eval(op: &str, t: &mut Toks) -> R<String> {
    match op {
        "C06.cen" => {
            let g = t.geom()?;
            Ok(opt_str(g.centroid()))
        }
        "C06.meta" => {
            let _e = t.i64()?;
            let _d = t.coord()?;
            let g = t.geom()?;
            let g2 = t.geom()?;
            Ok(format!("{} {}", opt_str(g.centroid()), opt_str(g2.centroid())))
        }
        _ => Err(format!("unknown op {}", op)),
    }
}
