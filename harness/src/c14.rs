//! C14 — Validation: is_valid / validation_errors / check_validation.
//!
//! Output of `C14.valid <geom>`:
//!   `valid <bool> check <ok|ERR> errors <n> <ERR>… wrap <bool>`
//! where every error is ONE token (fields separated by `:`), see `fmt_*` below, and `wrap`
//! says whether going through the `Geometry` enum gives the same three answers as the
//! concrete type (Polygon / MultiPolygon are called on the concrete type).
use crate::proto::{self, Toks, R};
use crate::rng::Rng;
use crate::shapes::*;
use geo::algorithm::validation::*;
use geo_types::*;
use std::panic::{catch_unwind, AssertUnwindSafe};

// ------------------------------------------------------------------ rendering of errors

fn role(r: &RingRole) -> String {
    match r {
        RingRole::Exterior => "E".into(),
        RingRole::Interior(i) => format!("I{}", i),
    }
}
fn fmt_pt(e: &InvalidPoint) -> String {
    match e {
        InvalidPoint::NonFiniteCoord => "PT.NonFinite".into(),
    }
}
fn fmt_ln(e: &InvalidLine) -> String {
    match e {
        InvalidLine::IdenticalCoords => "LN.Identical".into(),
        InvalidLine::NonFiniteCoord(i) => format!("LN.NonFinite:{}", i.0),
    }
}
fn fmt_ls(e: &InvalidLineString) -> String {
    match e {
        InvalidLineString::TooFewPoints => "LS.TooFew".into(),
        InvalidLineString::NonFiniteCoord(i) => format!("LS.NonFinite:{}", i.0),
    }
}
fn fmt_pg(e: &InvalidPolygon) -> String {
    match e {
        InvalidPolygon::TooFewPointsInRing(r) => format!("PG.TooFew:{}", role(r)),
        InvalidPolygon::SelfIntersection(r) => format!("PG.SelfInt:{}", role(r)),
        InvalidPolygon::NonFiniteCoord(r, i) => format!("PG.NonFinite:{}:{}", role(r), i.0),
        InvalidPolygon::InteriorRingNotContainedInExteriorRing(r) => format!("PG.NotContained:{}", role(r)),
        InvalidPolygon::IntersectingRingsOnALine(a, b) => format!("PG.OnLine:{}:{}", role(a), role(b)),
        InvalidPolygon::IntersectingRingsOnAnArea(a, b) => format!("PG.OnArea:{}:{}", role(a), role(b)),
    }
}
fn fmt_mpt(e: &InvalidMultiPoint) -> String {
    match e {
        InvalidMultiPoint::InvalidPoint(i, e) => format!("MPT:{}:{}", i.0, fmt_pt(e)),
    }
}
fn fmt_mls(e: &InvalidMultiLineString) -> String {
    match e {
        InvalidMultiLineString::InvalidLineString(i, e) => format!("MLS:{}:{}", i.0, fmt_ls(e)),
    }
}
fn fmt_mpg(e: &InvalidMultiPolygon) -> String {
    match e {
        InvalidMultiPolygon::InvalidPolygon(i, e) => format!("MPG:{}:{}", i.0, fmt_pg(e)),
        InvalidMultiPolygon::ElementsOverlaps(i, j) => format!("MPG.Overlap:{}:{}", i.0, j.0),
        InvalidMultiPolygon::ElementsTouchOnALine(i, j) => format!("MPG.TouchLine:{}:{}", i.0, j.0),
    }
}
fn fmt_rc(e: &InvalidRect) -> String {
    match e {
        InvalidRect::NonFiniteCoord(i) => format!("RC.NonFinite:{}", i.0),
    }
}
fn fmt_tr(e: &InvalidTriangle) -> String {
    match e {
        InvalidTriangle::NonFiniteCoord(i) => format!("TR.NonFinite:{}", i.0),
        InvalidTriangle::IdenticalCoords(i, j) => format!("TR.Identical:{}:{}", i.0, j.0),
        InvalidTriangle::CollinearCoords => "TR.Collinear".into(),
    }
}
fn fmt_gc(e: &InvalidGeometryCollection) -> String {
    match e {
        InvalidGeometryCollection::InvalidGeometry(i, e) => format!("GC:{}:{}", i.0, fmt_g(e)),
    }
}
fn fmt_g(e: &InvalidGeometry) -> String {
    match e {
        InvalidGeometry::InvalidPoint(e) => fmt_pt(e),
        InvalidGeometry::InvalidLine(e) => fmt_ln(e),
        InvalidGeometry::InvalidLineString(e) => fmt_ls(e),
        InvalidGeometry::InvalidPolygon(e) => fmt_pg(e),
        InvalidGeometry::InvalidMultiPoint(e) => fmt_mpt(e),
        InvalidGeometry::InvalidMultiLineString(e) => fmt_mls(e),
        InvalidGeometry::InvalidMultiPolygon(e) => fmt_mpg(e),
        InvalidGeometry::InvalidGeometryCollection(e) => fmt_gc(e),
        InvalidGeometry::InvalidRect(e) => fmt_rc(e),
        InvalidGeometry::InvalidTriangle(e) => fmt_tr(e),
    }
}

/// the three observables of one `Validation` value, each guarded against panics separately
fn observe<V: Validation>(v: &V, f: &dyn Fn(&V::Error) -> String) -> String {
    let valid = match catch_unwind(AssertUnwindSafe(|| v.is_valid())) {
        Ok(b) => format!("{}", b),
        Err(_) => "panic".into(),
    };
    let check = match catch_unwind(AssertUnwindSafe(|| v.check_validation())) {
        Ok(Ok(())) => "ok".into(),
        Ok(Err(e)) => f(&e),
        Err(_) => "panic".into(),
    };
    let errors = match catch_unwind(AssertUnwindSafe(|| v.validation_errors())) {
        Ok(es) => {
            let mut s = format!("{}", es.len());
            for e in &es {
                s.push(' ');
                s.push_str(&f(e));
            }
            s
        }
        Err(_) => "panic".into(),
    };
    format!("valid {} check {} errors {}", valid, check, errors)
}

pub fn eval(op: &str, t: &mut Toks) -> R<String> {
    match op {
        "C14.valid" | "C14.jts" => {
            if op == "C14.jts" {
                // expected answer from the JTS test file; used by the driver to cross-check the
                // *specification*, not passed to geo
                let _label = t.tok()?;
            }
            let g = t.geom()?;
            let via_enum = observe(&g, &fmt_g);
            let concrete = match &g {
                Geometry::Polygon(p) => observe(p, &fmt_pg),
                Geometry::MultiPolygon(p) => observe(p, &fmt_mpg),
                Geometry::LineString(p) => observe(p, &fmt_ls),
                Geometry::Triangle(p) => observe(p, &fmt_tr),
                _ => via_enum.clone(),
            };
            Ok(format!("{} wrap {}", concrete, concrete == via_enum))
        }
        "C14.valid32" => {
            // the same validation on single-precision coordinates (every coordinate of the case must be an f32)
            use geo::algorithm::map_coords::MapCoords;
            use geo::algorithm::coords_iter::CoordsIter;
            let g = t.geom()?;
            if !g.coords_iter().all(|c| (c.x as f32) as f64 == c.x && (c.y as f32) as f64 == c.y) {
                return Ok("notf32".into());
            }
            let g32: Geometry<f32> = g.map_coords(|c| Coord { x: c.x as f32, y: c.y as f32 });
            let via_enum = observe(&g32, &fmt_g);
            Ok(format!("{} wrap true", via_enum))
        }
        _ => Err(format!("unknown op {}", op)),
    }
}

// ------------------------------------------------------------------ generation

type Ring = Vec<Coord<f64>>;

fn close(mut r: Ring) -> Ring {
    if let Some(&f) = r.first() {
        if r.last() != Some(&f) {
            r.push(f);
        }
    }
    r
}

fn rect_ring(x0: i64, y0: i64, x1: i64, y1: i64) -> Ring {
    vec![c(x0, y0), c(x1, y0), c(x1, y1), c(x0, y1), c(x0, y0)]
}

/// a small simple ring somewhere in [lo, hi]²: rectangle, right triangle, diamond, or a star
fn small_ring(rng: &mut Rng, lo: i64, hi: i64) -> Ring {
    let x0 = rng.range(lo, hi - 1);
    let y0 = rng.range(lo, hi - 1);
    let w = rng.range(1, (hi - x0).min(4));
    let h = rng.range(1, (hi - y0).min(4));
    let r = match rng.below(5) {
        0 | 1 => rect_ring(x0, y0, x0 + w, y0 + h),
        2 => {
            let mut t = vec![c(x0, y0), c(x0 + w, y0), c(x0, y0 + h)];
            if rng.chance(1, 2) {
                t = vec![c(x0 + w, y0 + h), c(x0 + w, y0), c(x0, y0 + h)];
            }
            close(t)
        }
        3 => {
            // diamond with half-grid / grid centre
            let (cx, cy) = (x0 as f64 + w as f64 / 2.0, y0 as f64 + h as f64 / 2.0);
            close(vec![
                Coord { x: cx, y: y0 as f64 },
                Coord { x: (x0 + w) as f64, y: cy },
                Coord { x: cx, y: (y0 + h) as f64 },
                Coord { x: x0 as f64, y: cy },
            ])
        }
        _ => {
            let p = star_polygon(rng, (hi - lo).max(2));
            p.exterior().0.iter().map(|q| Coord { x: q.x + lo as f64, y: q.y + lo as f64 }).collect()
        }
    };
    if rng.chance(1, 2) {
        let mut v = r;
        v.reverse();
        v
    } else {
        r
    }
}

fn non_finite(rng: &mut Rng) -> f64 {
    *rng.pick(&[f64::NAN, f64::INFINITY, f64::NEG_INFINITY, f64::NAN])
}

/// one random mutation of a closed ring towards a named defect (or a harmless one)
fn mutate_ring(rng: &mut Rng, ring: &Ring, k: i64) -> Ring {
    let mut r = ring.clone();
    if r.len() < 4 {
        return r;
    }
    let n = r.len() - 1; // distinct positions
    let i = rng.below(n as u64) as usize;
    match rng.below(13) {
        12 => {
            // wound twice around the same loop: every pair of segments is identical, chained or disjoint
            let once: Ring = r[..n].to_vec();
            r = once.iter().chain(once.iter()).cloned().collect();
            let f = r[0];
            r.push(f);
        }
        0 => {
            // spike out and back: …, v, s, v, …
            let s = grid_pt(rng, k);
            let v = r[i];
            r.insert(i + 1, s);
            r.insert(i + 2, v);
        }
        1 => {
            // overshoot along the incoming edge and come back: a, b → a, b + t(b-a), b
            let a = r[i];
            let b = r[i + 1];
            let t = *rng.pick(&[0.5, 1.0, 2.0]);
            let s = Coord { x: b.x + t * (b.x - a.x), y: b.y + t * (b.y - a.y) };
            r.insert(i + 1, s);
        }
        2 => {
            // undershoot: a, b → a, b, m (m between a and b), continuing from m
            let a = r[i];
            let b = r[i + 1];
            let m = Coord { x: (a.x + b.x) / 2.0, y: (a.y + b.y) / 2.0 };
            r.insert(i + 2, m);
        }
        3 => {
            // revisit another vertex
            let j = rng.below(n as u64) as usize;
            let v = r[j];
            r.insert(i + 1, v);
        }
        4 => {
            // consecutive repeat (harmless)
            let v = r[i];
            r.insert(i + 1, v);
            if rng.chance(1, 3) {
                r.insert(i + 1, v);
            }
        }
        5 => {
            // swap two vertices (bow-tie)
            let j = rng.below(n as u64) as usize;
            if i != 0 && j != 0 {
                r.swap(i, j);
            } else {
                r.swap(1, 2.min(n - 1));
            }
        }
        6 => {
            // collinear (harmless) vertex on an edge
            let a = r[i];
            let b = r[i + 1];
            r.insert(i + 1, Coord { x: (a.x + b.x) / 2.0, y: (a.y + b.y) / 2.0 });
        }
        7 => {
            // move one vertex anywhere
            let p = grid_pt(rng, k);
            r[i] = p;
            if i == 0 {
                r[n] = p;
            }
        }
        8 => {
            // non-finite coordinate
            let v = non_finite(rng);
            if rng.chance(1, 2) { r[i].x = v } else { r[i].y = v }
            if i == 0 && rng.chance(1, 2) {
                r[n] = r[0];
            }
        }
        9 => {
            // flatten onto a line
            let y = r[0].y;
            let dx = *rng.pick(&[0.0, 1.0]);
            for (t, p) in r.iter_mut().enumerate() {
                p.y = y + dx * (p.x - ring[0].x);
                if t == n {
                    p.x = ring[0].x;
                    p.y = y;
                }
            }
        }
        10 => {
            // too few points
            r.truncate(rng.range(1, 3) as usize);
            if rng.chance(1, 2) {
                let f = r[0];
                r.push(f);
            }
        }
        _ => {
            // open the ring (the constructor re-closes it), or double-close
            if rng.chance(1, 2) { r.pop(); } else { let f = r[0]; r.push(f); }
        }
    }
    r
}

fn random_ring(rng: &mut Rng, k: i64) -> Ring {
    let n = rng.range(3, 7) as usize;
    close((0..n).map(|_| grid_pt(rng, k)).collect())
}

fn mk_poly(ext: Ring, holes: Vec<Ring>) -> Polygon<f64> {
    Polygon::new(LineString(ext), holes.into_iter().map(LineString).collect())
}

/// polygon stream: valid shapes, mutated rings, random rings, shells with randomly placed holes
/// a concave (U-shaped) shell with a hole whose vertices all lie strictly inside the shell — two in the arms, one in the
/// base — while the edge between the arms runs across the notch, outside the shell (invalid); or the same hole pulled
/// down into the base (valid)
fn notch_hole_polygon(rng: &mut Rng) -> Polygon<f64> {
    let (sw, fx) = (rng.chance(1, 2), rng.chance(1, 2));
    let c = |x: i64, y: i64| { let (x, y) = if sw { (y, x) } else { (x, y) }; Coord { x: if fx { -(x as f64) } else { x as f64 }, y: y as f64 } };
    let shell = vec![c(0, 0), c(12, 0), c(12, 8), c(8, 8), c(8, 4), c(4, 4), c(4, 8), c(0, 8), c(0, 0)];
    let hole = if rng.chance(2, 3) {
        let y = rng.range(5, 7);
        vec![c(rng.range(1, 3), y), c(rng.range(9, 11), y), c(6, rng.range(1, 2)), c(0, 0)]     // crosses the notch
    } else {
        vec![c(2, 3), c(10, 3), c(6, 1), c(0, 0)]                                               // stays in the base
    };
    let mut hole = hole;
    let n = hole.len();
    hole[n - 1] = hole[0];
    let k = rng.below(3) as usize;
    let mut h: Vec<Coord<f64>> = hole[..3].to_vec();
    h.rotate_left(k);
    if rng.chance(1, 2) { h.reverse(); }
    let f = h[0];
    h.push(f);
    Polygon::new(LineString(shell), vec![LineString(h)])
}

fn gen_poly_case(rng: &mut Rng, k: i64) -> Polygon<f64> {
    if rng.chance(1, 25) {
        return notch_hole_polygon(rng);
    }
    match rng.below(10) {
        0 | 1 => gen_polygon(rng, k),
        2 | 3 => {
            // a valid polygon with one ring mutated
            let p = gen_polygon(rng, k);
            let (e, mut hs) = p.into_inner();
            let which = rng.below(1 + hs.len() as u64) as usize;
            if which == 0 {
                mk_poly(mutate_ring(rng, &e.0, k), hs.into_iter().map(|h| h.0).collect())
            } else {
                let m = mutate_ring(rng, &hs[which - 1].0, k);
                hs[which - 1] = LineString(m);
                mk_poly(e.0, hs.into_iter().map(|h| h.0).collect())
            }
        }
        4 => {
            let nh = rng.below(2);
            mk_poly(random_ring(rng, k), (0..nh).map(|_| small_ring(rng, 0, k)).collect())
        }
        5 => {
            // thin shell with diamond holes spanning it: rings fine, interior cut in pieces
            let w = rng.range(3, 8);
            let ext = rect_ring(0, 0, w, 2);
            let mut hs = vec![];
            let mut x = rng.range(1, 2);
            while x < w && hs.len() < 3 {
                let top = if rng.chance(3, 4) { 2.0 } else { 1.5 };
                hs.push(close(vec![
                    Coord { x: x as f64, y: 0.0 },
                    Coord { x: x as f64 + 0.5, y: 1.0 },
                    Coord { x: x as f64, y: top },
                    Coord { x: x as f64 - 0.5, y: 1.0 },
                ]));
                x += rng.range(1, 3);
            }
            mk_poly(ext, hs)
        }
        6 => {
            // two holes touching each other and the shell (a chain from shell to shell)
            let ext = rect_ring(0, 0, 4, 4);
            let a = close(vec![c(0, 2), c(1, 1), c(2, 2), c(1, 3)]);
            let b = close(vec![c(2, 2), c(3, 1), c(if rng.chance(1, 2) { 4 } else { 3 }, 2), c(3, 3)]);
            let mut hs = vec![a, b];
            if rng.chance(1, 2) { hs.swap(0, 1); }
            if rng.chance(1, 3) { hs.push(small_ring(rng, 0, 4)); }
            mk_poly(ext, hs)
        }
        _ => {
            // a shell and 1–3 small rings placed at random: inside / outside / crossing /
            // edge-sharing / nested / overlapping / touching holes
            let ext = if rng.chance(2, 3) {
                let m = rng.range(0, 1);
                rect_ring(m, m, k - m + rng.range(0, 1), k - m)
            } else {
                gen_polygon(rng, k).exterior().0.clone()
            };
            let nh = rng.range(1, 3);
            let mut hs: Vec<Ring> = (0..nh).map(|_| { let lo = -1 + rng.range(0, 1); small_ring(rng, lo, k + 1) }).collect();
            if rng.chance(1, 8) {
                let j = rng.below(hs.len() as u64) as usize;
                hs[j] = mutate_ring(rng, &hs[j].clone(), k);
            }
            if rng.chance(1, 12) {
                hs.push(ext.clone()); // a hole equal to the shell
            }
            if rng.chance(1, 10) {
                hs.insert(0, vec![]); // an empty interior ring
            }
            mk_poly(ext, hs)
        }
    }
}

fn shift_poly(p: &Polygon<f64>, dx: f64, dy: f64) -> Polygon<f64> {
    use geo::algorithm::map_coords::MapCoords;
    p.map_coords(|q| Coord { x: q.x + dx, y: q.y + dy })
}

fn gen_mpoly_case(rng: &mut Rng, k: i64) -> MultiPolygon<f64> {
    match rng.below(8) {
        0 | 1 => gen_multipolygon(rng, k),
        2 => {
            // valid multipolygon with one member replaced by a malformed polygon
            let mut m = gen_multipolygon(rng, k);
            if m.0.is_empty() {
                m.0.push(gen_poly_case(rng, k));
            } else {
                let j = rng.below(m.0.len() as u64) as usize;
                m.0[j] = gen_poly_case(rng, 3);
            }
            m
        }
        3 => {
            // a member and a copy of it: identical / shifted by one (edge-sharing or overlapping)
            let p = gen_polygon(rng, 3);
            let (dx, dy) = *rng.pick(&[(0.0, 0.0), (1.0, 0.0), (3.0, 0.0), (0.0, 3.0), (3.0, 3.0), (0.5, 0.5), (4.0, 1.0)]);
            MultiPolygon(vec![p.clone(), shift_poly(&p, dx, dy)])
        }
        4 => {
            // a member inside a hole of another (fine), touching the hole, or poking out of it
            let outer = mk_poly(rect_ring(0, 0, 6, 6), vec![rect_ring(1, 1, 5, 5)]);
            let inner = mk_poly(small_ring(rng, 0, 6), vec![]);
            let mut v = vec![outer, inner];
            if rng.chance(1, 2) { v.swap(0, 1); }
            MultiPolygon(v)
        }
        _ => {
            // 2–3 small members placed at random
            let n = rng.range(2, 3);
            let kk = k.max(4);
            MultiPolygon((0..n).map(|_| {
                if rng.chance(1, 6) { gen_poly_case(rng, 3) } else {
                    let e = small_ring(rng, 0, kk);
                    mk_poly(e, vec![])
                }
            }).collect())
        }
    }
}

fn maybe_nf(rng: &mut Rng, k: i64) -> Coord<f64> {
    let p = grid_pt(rng, k);
    if rng.chance(1, 5) {
        let v = non_finite(rng);
        if rng.chance(1, 2) { Coord { x: v, y: p.y } } else { Coord { x: p.x, y: v } }
    } else {
        p
    }
}

/// the other geometry types, well-formed and not
fn gen_other(rng: &mut Rng, k: i64, depth: u32) -> Geometry<f64> {
    match rng.below(9) {
        0 => Geometry::Point(Point(maybe_nf(rng, k))),
        1 => {
            let a = maybe_nf(rng, 2);
            let b = maybe_nf(rng, 2);
            Geometry::Line(Line::new(a, b))
        }
        2 => {
            let n = *rng.pick(&[0usize, 1, 2, 2, 3, 4]);
            let kk = *rng.pick(&[0i64, 1, k]);
            Geometry::LineString(LineString((0..n).map(|_| maybe_nf(rng, kk)).collect()))
        }
        3 => Geometry::MultiPoint(MultiPoint((0..rng.below(4)).map(|_| Point(maybe_nf(rng, k))).collect())),
        4 => {
            let m = rng.below(3);
            Geometry::MultiLineString(MultiLineString((0..m).map(|_| {
                let n = *rng.pick(&[0usize, 1, 2, 3]);
                let kk = *rng.pick(&[0i64, 1, k]);
                LineString((0..n).map(|_| maybe_nf(rng, kk)).collect())
            }).collect()))
        }
        5 => Geometry::Rect(Rect::new(maybe_nf(rng, k), maybe_nf(rng, k))),
        6 => {
            let kk = *rng.pick(&[1i64, 2, k]);
            Geometry::Triangle(Triangle(maybe_nf(rng, kk), maybe_nf(rng, kk), maybe_nf(rng, kk)))
        }
        7 => gen_valid(rng, k),
        _ => {
            let n = rng.below(4);
            Geometry::GeometryCollection(GeometryCollection((0..n).map(|_| {
                if depth > 0 { gen_case(rng, 3, depth - 1) } else { gen_other(rng, 3, 0) }
            }).collect()))
        }
    }
}

fn gen_case(rng: &mut Rng, k: i64, depth: u32) -> Geometry<f64> {
    match rng.below(10) {
        0..=4 => Geometry::Polygon(gen_poly_case(rng, k)),
        5..=7 => Geometry::MultiPolygon(gen_mpoly_case(rng, k)),
        _ => gen_other(rng, k, depth),
    }
}

/// finite coordinates of extreme magnitude (up to f64::MAX): finiteness must be judged per ordinate
fn huge(rng: &mut Rng) -> f64 {
    let m = *rng.pick(&[f64::MAX, 1e308, 8.9e307, 1.7e308, 4.5e307, 1e300, f64::MIN_POSITIVE, 5e-324]);
    if rng.chance(1, 3) { -m } else { m }
}
fn huge_coord(rng: &mut Rng) -> Coord<f64> {
    Coord { x: huge(rng), y: huge(rng) }
}

pub fn gen(rng: &mut Rng, _index: u64) -> String {
    let k = *rng.pick(&[3i64, 4, 4, 6]);
    if rng.chance(1, 25) {
        // types whose validity is (almost) only coordinate finiteness, at extreme finite magnitudes
        let g = match rng.below(5) {
            0 => Geometry::Point(Point(huge_coord(rng))),
            1 => Geometry::MultiPoint(MultiPoint((0..rng.range(1, 3)).map(|_| Point(huge_coord(rng))).collect())),
            2 => {
                let a = huge_coord(rng);
                let mut b = huge_coord(rng);
                if a == b { b.x = -b.x; }
                Geometry::Line(Line::new(a, b))
            }
            3 => Geometry::Rect(Rect::new(huge_coord(rng), huge_coord(rng))),
            _ => Geometry::GeometryCollection(GeometryCollection(vec![
                Geometry::Point(Point(huge_coord(rng))),
                Geometry::Rect(Rect::new(huge_coord(rng), huge_coord(rng))),
            ])),
        };
        return format!("C14.valid {}", proto::geom(&g));
    }
    if rng.chance(1, 30) {
        // single precision at a scale where products of extents underflow in f32 (2^-80) but nothing else does:
        // small-grid polygons (valid and mutated ones) scaled exactly
        use geo::algorithm::map_coords::MapCoords;
        let g = if rng.chance(1, 2) { Geometry::Polygon(gen_poly_case(rng, k)) } else { gen_valid(rng, k) };
        let s = 2f64.powi(*rng.pick(&[-80, -80, -70, -100, 0, 60]));
        let g = g.map_coords(|c| Coord { x: c.x * s, y: c.y * s });
        return format!("C14.valid32 {}", proto::geom(&g));
    }
    if rng.chance(1, 30) {
        // needles: valid polygons with a very acute vertex at coordinates of 2^26 … 2^30 (twice the area is exactly 1
        // or 2): a rounded cross product calls the two sides at the tip collinear — a spike — the exact one does not
        let n = rng.range(1 << 26, 1 << 30);
        let (sw, fx) = (rng.chance(1, 2), rng.chance(1, 2));
        let c = |x: i64, y: i64| { let (x, y) = if sw { (y, x) } else { (x, y) }; Coord { x: if fx { -(x as f64) } else { x as f64 }, y: y as f64 } };
        let tip = c(0, 0);
        let ring = match rng.below(3) {
            0 => vec![tip, c(n + 1, n), c(n, n - 1), tip],
            1 => vec![c(n + 1, n), c(n, n - 1), tip, c(n + 1, n)],
            _ => vec![tip, c(n + 2, n + 1), c(n + 1, n), c(n, n - 1), tip],   // needle with a collinear point on its far side? no: (n+2,n+1),(n+1,n),(n,n-1) are collinear
        };
        let p = Polygon::new(LineString(ring), vec![]);
        let g = if rng.chance(1, 3) { Geometry::MultiPolygon(MultiPolygon(vec![p])) } else { Geometry::Polygon(p) };
        return format!("C14.valid {}", proto::geom(&g));
    }
    let g = if rng.chance(1, 4) {
        // the valid stream of the shared generators, in two representations
        let g = gen_valid(rng, k);
        if rng.chance(1, 2) { variant(rng, &g) } else { g }
    } else {
        gen_case(rng, k, 1)
    };
    // some cases far from the origin / scaled by a power of two (exact on the grid)
    let g = if rng.chance(1, 6) {
        use geo::algorithm::map_coords::MapCoords;
        let s = 2f64.powi(rng.range(-2, 3) as i32);
        let m = *rng.pick(&[20i64, 1000, 1 << 20]);
        let (dx, dy) = (rng.range(-m, m) as f64, rng.range(-m, m) as f64);
        g.map_coords(|p| Coord { x: (p.x + dx) * s, y: (p.y + dy) * s })
    } else {
        g
    };
    format!("C14.valid {}", proto::geom(&g))
}
