//! C18 — structural invariants over API histories; conversions.
use crate::gen::*;
use crate::proto::{self, Toks, R};
use crate::rng::Rng;
use geo_types::*;
use std::convert::TryFrom;

// ---------- generation (text) ----------

fn gen_edit(rng: &mut Rng, k: i64) -> String {
    match rng.below(9) {
        0 | 1 => format!("push {}", proto::coord(gen_coord(rng, k))),
        2 | 3 => "pop".into(),
        4 => if rng.chance(1, 3) { "clear".into() } else { "rev".into() },
        5 => format!("set {} {}", rng.below(6), proto::coord(gen_coord(rng, k))),
        6 => format!("swap {} {}", rng.below(6), rng.below(6)),
        7 => format!("trunc {}", rng.below(6)),
        _ => format!("ins {} {}", rng.below(6), proto::coord(gen_coord(rng, k))),
    }
}

fn gen_prog(rng: &mut Rng, k: i64) -> String {
    let n = rng.below(4);
    let mut s = format!("{}", n);
    for _ in 0..n {
        s.push(' ');
        s.push_str(&gen_edit(rng, k));
    }
    s
}

fn gen_rings_prog(rng: &mut Rng, k: i64) -> String {
    let n = rng.below(4);
    let mut s = format!("{}", n);
    for _ in 0..n {
        if rng.chance(1, 4) {
            s.push_str(&format!(" rswap {} {}", rng.below(3), rng.below(3)));
        } else {
            s.push_str(&format!(" ring {} {}", rng.below(3), gen_prog(rng, k)));
        }
    }
    s
}

fn gen_new(rng: &mut Rng, k: i64) -> String {
    let ni = *rng.pick(&[0usize, 0, 1, 2, 3]);
    let mut s = format!("new {} {}", ni + 1, proto::coords(&gen_ring(rng, k)));
    for _ in 0..ni {
        s.push(' ');
        s.push_str(&proto::coords(&gen_ring(rng, k)));
    }
    s
}

pub fn gen(rng: &mut Rng, _index: u64) -> String {
    let k = grid_size(rng);
    match rng.below(10) {
        0..=5 => {
            let n = rng.range(1, 12) as usize;
            let mut s = format!("C18.poly {} {}", n + 1, gen_new(rng, k));
            for _ in 0..n {
                s.push(' ');
                let res = if rng.chance(1, 2) { "ok" } else { "err" };
                s.push_str(&match rng.below(12) {
                    0 => gen_new(rng, k),
                    1 | 2 => format!("ext {}", gen_prog(rng, k)),
                    3 | 4 | 5 => format!("text {} {}", gen_prog(rng, k), res),
                    6 => format!("ints {}", gen_rings_prog(rng, k)),
                    7 | 8 | 9 => format!("tints {} {}", gen_rings_prog(rng, k), res),
                    _ => format!("ipush {}", proto::coords(&gen_ring(rng, k))),
                });
            }
            s
        }
        6 | 7 => {
            let n = rng.below(6);
            let mut s = format!(
                "C18.rect {} {} {}",
                proto::coord(gen_coord(rng, k)),
                proto::coord(gen_coord(rng, k)),
                n
            );
            for _ in 0..n {
                let which = if rng.chance(1, 2) { "min" } else { "max" };
                s.push_str(&format!(" {} {}", which, proto::coord(gen_coord(rng, k))));
            }
            s
        }
        _ => format!("C18.conv {}", proto::geom(&gen_any_geom(rng, k, 2))),
    }
}

// ---------- evaluation (runs the real code) ----------

fn apply_edit(t: &mut Toks, r: &mut Vec<Coord<f64>>) -> R<()> {
    match t.tok()? {
        "push" => r.push(t.coord()?),
        "pop" => { r.pop(); }
        "clear" => r.clear(),
        "set" => { let i = t.usize()?; let c = t.coord()?; if i < r.len() { r[i] = c; } }
        "swap" => { let i = t.usize()?; let j = t.usize()?; if i < r.len() && j < r.len() { r.swap(i, j); } }
        "trunc" => { let n = t.usize()?; r.truncate(n); }
        "ins" => { let i = t.usize()?; let c = t.coord()?; if i <= r.len() { r.insert(i, c); } }
        "rev" => r.reverse(),
        x => return Err(format!("bad edit {}", x)),
    }
    Ok(())
}

fn apply_prog(t: &mut Toks, r: &mut Vec<Coord<f64>>) -> R<()> {
    let n = t.usize()?;
    for _ in 0..n {
        apply_edit(t, r)?;
    }
    Ok(())
}

fn apply_rings_prog(t: &mut Toks, rs: &mut [LineString<f64>]) -> R<()> {
    let n = t.usize()?;
    for _ in 0..n {
        match t.tok()? {
            "ring" => {
                let i = t.usize()?;
                if i < rs.len() {
                    apply_prog(t, &mut rs[i].0)?;
                } else {
                    let mut dummy = vec![];
                    apply_prog(t, &mut dummy)?;
                }
            }
            "rswap" => {
                let i = t.usize()?;
                let j = t.usize()?;
                if i < rs.len() && j < rs.len() {
                    rs.swap(i, j);
                }
            }
            x => return Err(format!("bad rings edit {}", x)),
        }
    }
    Ok(())
}

fn res(t: &mut Toks) -> R<bool> {
    match t.tok()? {
        "ok" => Ok(true),
        "err" => Ok(false),
        x => Err(format!("bad result {}", x)),
    }
}

fn eval_poly(t: &mut Toks) -> R<String> {
    let n = t.usize()?;
    let mut p: Polygon<f64> = Polygon::new(LineString(vec![]), vec![]);
    let mut out = String::new();
    for _ in 0..n {
        let mut ok = true;
        let mut perr: Option<String> = None;
        match t.tok()? {
            "new" => {
                let (e, i) = t.raw_poly()?;
                // into_inner + new is the only way to "re-new" an existing value
                let _ = p.clone().into_inner();
                p = Polygon::new(LineString(e), i.into_iter().map(LineString).collect());
            }
            "ext" => {
                p.exterior_mut(|e| { if let Err(x) = apply_prog(t, &mut e.0) { perr = Some(x); } });
            }
            "text" => {
                // the closure needs the result flag, which follows the program in the text:
                // run the program first into a scratch ring to find it.
                let save = t.i;
                let mut scratch = p.exterior().0.clone();
                apply_prog(t, &mut scratch)?;
                let want_ok = res(t)?;
                let end = t.i;
                t.i = save;
                let r: Result<(), ()> = p.try_exterior_mut(|e| {
                    if let Err(x) = apply_prog(t, &mut e.0) { perr = Some(x); }
                    if want_ok { Ok(()) } else { Err(()) }
                });
                t.i = end;
                ok = r.is_ok();
            }
            "ints" => {
                p.interiors_mut(|rs| { if let Err(x) = apply_rings_prog(t, rs) { perr = Some(x); } });
            }
            "tints" => {
                let save = t.i;
                let mut scratch: Vec<LineString<f64>> = p.interiors().to_vec();
                apply_rings_prog(t, &mut scratch)?;
                let want_ok = res(t)?;
                let end = t.i;
                t.i = save;
                let r: Result<(), ()> = p.try_interiors_mut(|rs| {
                    if let Err(x) = apply_rings_prog(t, rs) { perr = Some(x); }
                    if want_ok { Ok(()) } else { Err(()) }
                });
                t.i = end;
                ok = r.is_ok();
            }
            "ipush" => {
                let r = t.coords()?;
                p.interiors_push(LineString(r));
            }
            x => return Err(format!("bad op {}", x)),
        }
        if let Some(e) = perr {
            return Err(e);
        }
        if !out.is_empty() {
            out.push(' ');
        }
        out.push_str(if ok { "ok " } else { "err " });
        out.push_str(&proto::poly(&p));
    }
    Ok(out)
}

fn eval_rect(t: &mut Toks) -> R<String> {
    let a = t.coord()?;
    let b = t.coord()?;
    let n = t.usize()?;
    let mut r = Rect::new(a, b);
    let mut out = format!("ok {} {}", proto::coord(r.min()), proto::coord(r.max()));
    for _ in 0..n {
        let which = t.tok()?;
        let c = t.coord()?;
        let mut r2 = r;
        let res = std::panic::catch_unwind(std::panic::AssertUnwindSafe(|| {
            if which == "min" { r2.set_min(c) } else { r2.set_max(c) }
        }));
        if res.is_err() {
            out.push_str(" panic");
            break;
        }
        r = r2;
        out.push_str(&format!(" ok {} {}", proto::coord(r.min()), proto::coord(r.max())));
    }
    Ok(out)
}

macro_rules! roundtrip {
    ($g:expr, $t:ty, $wrong:ty) => {{
        let orig: $t = $g.clone();
        let wrapped: Geometry<f64> = Geometry::from(orig.clone());
        let wrong_is_err = <$wrong>::try_from(wrapped.clone()).is_err();
        match <$t>::try_from(wrapped) {
            Ok(back) if wrong_is_err => Geometry::from(back),
            _ => Geometry::Point(Point::new(-999.0, -999.0)),
        }
    }};
}

fn eval_conv(t: &mut Toks) -> R<String> {
    let g = t.geom()?;
    let back: Geometry<f64> = match &g {
        Geometry::Point(x) => roundtrip!(x, Point<f64>, Line<f64>),
        Geometry::Line(x) => roundtrip!(x, Line<f64>, LineString<f64>),
        Geometry::LineString(x) => roundtrip!(x, LineString<f64>, Polygon<f64>),
        Geometry::Polygon(x) => roundtrip!(x, Polygon<f64>, MultiPoint<f64>),
        Geometry::MultiPoint(x) => roundtrip!(x, MultiPoint<f64>, MultiLineString<f64>),
        Geometry::MultiLineString(x) => roundtrip!(x, MultiLineString<f64>, MultiPolygon<f64>),
        Geometry::MultiPolygon(x) => roundtrip!(x, MultiPolygon<f64>, Rect<f64>),
        Geometry::Rect(x) => roundtrip!(x, Rect<f64>, Triangle<f64>),
        Geometry::Triangle(x) => roundtrip!(x, Triangle<f64>, Point<f64>),
        Geometry::GeometryCollection(x) => {
            let wrapped = Geometry::GeometryCollection(x.clone());
            let wrong_is_err = Point::<f64>::try_from(wrapped.clone()).is_err();
            match GeometryCollection::<f64>::try_from(wrapped) {
                Ok(back) if wrong_is_err => Geometry::GeometryCollection(back),
                _ => Geometry::Point(Point::new(-999.0, -999.0)),
            }
        }
    };
    let mut out = format!("rt {}", proto::geom(&back));
    match &g {
        Geometry::Rect(r) => {
            let f: Polygon<f64> = Polygon::from(*r);
            let tp = r.to_polygon();
            let lines: Vec<Coord<f64>> = r.to_lines().iter().flat_map(|l| [l.start, l.end]).collect();
            out.push_str(&format!(
                " from {} to {} lines {}",
                proto::coords(&f.exterior().0),
                proto::coords(&tp.exterior().0),
                proto::coords(&lines)
            ));
        }
        Geometry::Triangle(tr) => {
            // both entry points, printed separately (they must agree, and both must be [a, b, c, a])
            let p1: Polygon<f64> = Polygon::from(*tr);
            let p2 = tr.to_polygon();
            out.push_str(&format!(
                " poly {} {} topoly {} {}",
                p1.interiors().len(),
                proto::coords(&p1.exterior().0),
                p2.interiors().len(),
                proto::coords(&p2.exterior().0)
            ));
            // the array conversions and the edge list
            let t2: Triangle<f64> = Triangle::from([tr.0, tr.1, tr.2]);
            let ls: Vec<Coord<f64>> = t2.to_lines().iter().flat_map(|l| [l.start, l.end]).collect();
            out.push_str(&format!(" arr {} lines {}", proto::coords(&t2.to_array()), proto::coords(&ls)));
        }
        Geometry::Line(l) => {
            let ls: LineString<f64> = LineString::from(*l);
            out.push_str(&format!(" ls {}", proto::coords(&ls.0)));
        }
        _ => {}
    }
    Ok(out)
}

pub fn eval(op: &str, t: &mut Toks) -> R<String> {
    match op {
        "C18.poly" => eval_poly(t),
        "C18.rect" => eval_rect(t),
        "C18.conv" => eval_conv(t),
        _ => Err(format!("unknown op {}", op)),
    }
}
