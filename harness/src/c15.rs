//! C15 — interpolation, location and densification along a line (Euclidean).
//!
//!   C15.interp  <LN|LS> r <r> q <q> d <d>
//!       => len L rl r*L ql q*L rs P re P ds P de P drs P dre P li P loc X
//!   C15.densify <LN|LS|MLS|PG|MPG|RC|TR> max <m>  =>  <geometry>
#![allow(deprecated)]
use crate::proto::{self, Toks, R};
use crate::rng::Rng;
use geo::algorithm::line_measures::{Densify, Euclidean, InterpolateLine, Length};
use geo::{LineInterpolatePoint, LineLocatePoint};
use geo_types::*;

// ------------------------------------------------------------------ generation

/// step vectors with rational Euclidean length: axis-aligned and Pythagorean
const STEPS: &[(i64, i64)] = &[
    (1, 0), (2, 0), (3, 0), (5, 0), (0, 1), (0, 2), (0, 4), (0, 7),
    (3, 4), (4, 3), (6, 8), (5, 12), (12, 5), (8, 15), (15, 8), (9, 12), (7, 24), (20, 21),
];

#[derive(Clone, Copy, PartialEq)]
enum Mode {
    Exact,
    Grid,
    Wild,
}

fn moderate_f64(rng: &mut Rng) -> f64 {
    match rng.below(5) {
        0 => rng.range(-1000, 1000) as f64 * 0.1,
        1 => (rng.unit() - 0.5) * 1e3,
        2 => rng.range(-8, 8) as f64 + 134217728.0,
        3 => (rng.unit() - 0.5) * 1e-3,
        _ => rng.range(-16, 16) as f64 / 2.0,
    }
}

fn gen_mode(rng: &mut Rng) -> Mode {
    match rng.below(20) {
        0..=14 => Mode::Exact,
        15..=17 => Mode::Grid,
        _ => Mode::Wild,
    }
}

/// a path of `n` vertices
fn gen_path(rng: &mut Rng, n: usize, mode: Mode) -> Vec<Coord<f64>> {
    let mut v: Vec<Coord<f64>> = vec![];
    match mode {
        Mode::Exact => {
            // power-of-two scale and integer offset keep lengths rational
            let scale = *rng.pick(&[1.0, 1.0, 1.0, 0.5, 0.25, 2.0, 8.0]);
            let (mut ox, mut oy) = if rng.chance(1, 4) {
                (rng.range(-100, 100) as f64, rng.range(-100, 100) as f64)
            } else {
                (rng.range(0, 4) as f64, rng.range(0, 4) as f64)
            };
            // one path in eight at a tiny or huge dyadic scale about the origin (segments far shorter than
            // sqrt(epsilon), or far longer than 2^26): everything stays exactly representable
            let scale = if rng.chance(1, 8) {
                ox = 0.0;
                oy = 0.0;
                2f64.powi(*rng.pick(&[-60, -40, -30, -27, -20, 20, 40]))
            } else {
                scale
            };
            let (mut x, mut y) = (0i64, 0i64);
            for i in 0..n {
                if i > 0 && !rng.chance(1, 7) {
                    let (sx, sy) = *rng.pick(STEPS);
                    let m = *rng.pick(&[1i64, 1, 1, 2, 3]);
                    let sgx = if rng.chance(1, 2) { 1 } else { -1 };
                    let sgy = if rng.chance(1, 2) { 1 } else { -1 };
                    x += sx * m * sgx;
                    y += sy * m * sgy;
                } // else: repeated vertex (zero-length segment)
                v.push(Coord { x: ox + x as f64 * scale, y: oy + y as f64 * scale });
            }
        }
        Mode::Grid => {
            let k = *rng.pick(&[3i64, 4, 6, 8]);
            for i in 0..n {
                if i > 0 && rng.chance(1, 8) {
                    let p = v[i - 1];
                    v.push(p);
                } else {
                    v.push(Coord { x: rng.range(0, k) as f64, y: rng.range(0, k) as f64 });
                }
            }
        }
        Mode::Wild => {
            for i in 0..n {
                if i > 0 && rng.chance(1, 8) {
                    let p = v[i - 1];
                    v.push(p);
                } else {
                    v.push(Coord { x: moderate_f64(rng), y: moderate_f64(rng) });
                }
            }
        }
    }
    v
}

fn seg_lens(v: &[Coord<f64>]) -> Vec<f64> {
    v.windows(2).map(|w| Euclidean.length(&Line::new(w[0], w[1]))).collect()
}

fn gen_interp(rng: &mut Rng) -> String {
    let mode = gen_mode(rng);
    let is_line = rng.chance(3, 10);
    let n = if is_line { 2 } else { *rng.pick(&[0usize, 1, 2, 2, 3, 3, 4, 4, 5, 6]) };
    let v = gen_path(rng, n, mode);
    let lens = seg_lens(&v);
    let total: f64 = lens.iter().sum();
    let mut cums = vec![0.0];
    for l in &lens {
        let c = cums[cums.len() - 1] + l;
        cums.push(c);
    }
    let r: f64 = match rng.below(12) {
        0 => 0.0,
        1 => 1.0,
        2 | 3 => {
            let j = rng.range(1, 5) as u32;
            rng.range(1, (1 << j) - 1) as f64 / (1u64 << j) as f64
        }
        4 => -(rng.range(1, 8) as f64) / 4.0,
        5 => 1.0 + rng.range(1, 8) as f64 / 4.0,
        6 | 7 => {
            // the ratio of a vertex
            if total > 0.0 { *rng.pick(&cums) / total } else { 0.5 }
        }
        8 => *rng.pick(&[-0.0, -1e6, 1e6, 1.0 + f64::EPSILON, 1.0 - f64::EPSILON / 2.0, f64::MIN_POSITIVE]),
        9 => rng.range(1, 9) as f64 / 10.0,
        _ => rng.unit(),
    };
    let q: f64 = if rng.chance(9, 10) { 1.0 - r } else { rng.range(-2, 6) as f64 / 4.0 };
    let d: f64 = match rng.below(12) {
        0 => 0.0,
        1 => -(rng.range(1, 9) as f64) / 2.0,
        2 => total,
        3 => total + rng.range(1, 9) as f64 / 2.0,
        4 | 5 => *rng.pick(&cums),
        6 => r * total,
        7 => total * 2.0,
        8 => (rng.range(1, 15) as f64 / 16.0) * total,
        _ => rng.unit() * total,
    };
    let g = if is_line {
        Geometry::Line(Line::new(v[0], v[1]))
    } else {
        Geometry::LineString(LineString(v))
    };
    format!("C15.interp {} r {} q {} d {}", proto::geom(&g), proto::num(r), proto::num(q), proto::num(d))
}

fn gen_ring(rng: &mut Rng, mode: Mode) -> Vec<Coord<f64>> {
    match rng.below(6) {
        0 => vec![],
        1 => {
            // axis-aligned rectangle with a few collinear extra vertices
            let (x0, y0) = (rng.range(-5, 5) as f64, rng.range(-5, 5) as f64);
            let (w, h) = (rng.range(1, 9) as f64, rng.range(1, 9) as f64);
            let mut v = vec![
                Coord { x: x0, y: y0 },
                Coord { x: x0 + w, y: y0 },
                Coord { x: x0 + w, y: y0 + h },
                Coord { x: x0, y: y0 + h },
            ];
            if rng.chance(1, 3) {
                v.insert(1, Coord { x: x0 + w / 2.0, y: y0 });
            }
            if rng.chance(1, 4) {
                let p = v[2];
                v.insert(2, p);
            }
            v
        }
        2 => {
            // Pythagorean right triangle
            let (a, b) = *rng.pick(&[(3.0, 4.0), (5.0, 12.0), (8.0, 15.0), (6.0, 8.0), (1.5, 2.0)]);
            let (x0, y0) = (rng.range(-5, 5) as f64, rng.range(-5, 5) as f64);
            vec![Coord { x: x0, y: y0 }, Coord { x: x0 + a, y: y0 }, Coord { x: x0, y: y0 + b }]
        }
        3 => {
            // out and back along the same path (closed, rational lengths)
            let n = rng.range(2, 4) as usize;
            let mut v = gen_path(rng, n, mode);
            let mut back: Vec<Coord<f64>> = v.iter().rev().skip(1).cloned().collect();
            v.append(&mut back);
            v
        }
        _ => {
            let n = rng.range(1, 5) as usize;
            gen_path(rng, n, mode)
        }
    }
}

fn gen_poly(rng: &mut Rng, mode: Mode) -> Polygon<f64> {
    let ni = *rng.pick(&[0usize, 0, 1, 2]);
    Polygon::new(LineString(gen_ring(rng, mode)), (0..ni).map(|_| LineString(gen_ring(rng, mode))).collect())
}

fn rings_of(g: &Geometry<f64>) -> Vec<Vec<Coord<f64>>> {
    match g {
        Geometry::Line(l) => vec![vec![l.start, l.end]],
        Geometry::LineString(ls) => vec![ls.0.clone()],
        Geometry::MultiLineString(m) => m.0.iter().map(|l| l.0.clone()).collect(),
        Geometry::Polygon(p) => {
            let mut v = vec![p.exterior().0.clone()];
            v.extend(p.interiors().iter().map(|r| r.0.clone()));
            v
        }
        Geometry::MultiPolygon(m) => m.0.iter().flat_map(|p| rings_of(&Geometry::Polygon(p.clone()))).collect(),
        Geometry::Rect(r) => rings_of(&Geometry::Polygon(r.to_polygon())),
        Geometry::Triangle(t) => rings_of(&Geometry::Polygon(t.to_polygon())),
        _ => vec![],
    }
}

fn gen_densify(rng: &mut Rng) -> String {
    let mode = gen_mode(rng);
    let g: Geometry<f64> = match rng.below(12) {
        0 | 1 => {
            let v = gen_path(rng, 2, mode);
            Geometry::Line(Line::new(v[0], v[1]))
        }
        2 | 3 | 4 | 5 => {
            let n = *rng.pick(&[0usize, 1, 2, 3, 3, 4, 5, 6]);
            Geometry::LineString(LineString(gen_path(rng, n, mode)))
        }
        6 => Geometry::MultiLineString(MultiLineString(
            (0..rng.below(3)).map(|_| { let n = rng.range(0, 4) as usize; LineString(gen_path(rng, n, mode)) }).collect(),
        )),
        7 | 8 => Geometry::Polygon(gen_poly(rng, mode)),
        9 => Geometry::MultiPolygon(MultiPolygon((0..rng.below(3)).map(|_| gen_poly(rng, mode)).collect())),
        10 => {
            let v = gen_path(rng, 2, if mode == Mode::Wild { Mode::Wild } else { Mode::Grid });
            Geometry::Rect(Rect::new(v[0], v[1]))
        }
        _ => {
            if mode == Mode::Exact {
                let r = gen_ring_tri(rng);
                Geometry::Triangle(Triangle(r[0], r[1], r[2]))
            } else {
                let v = gen_path(rng, 3, mode);
                Geometry::Triangle(Triangle(v[0], v[1], v[2]))
            }
        }
    };
    let rings = rings_of(&g);
    let lens: Vec<f64> = rings.iter().flat_map(|r| seg_lens(r)).filter(|l| *l > 0.0).collect();
    let total: f64 = lens.iter().sum();
    let shortest = lens.iter().cloned().fold(f64::INFINITY, f64::min);
    let longest = lens.iter().cloned().fold(0.0, f64::max);
    let mut mx: f64 = if lens.is_empty() {
        *rng.pick(&[1.0, 0.5, 3.0])
    } else {
        let l = *rng.pick(&lens);
        // divisor classes only make sense for lengths that are exact in f64 (multiples of 1/4 here);
        // the divisor k is chosen so that l/k is exact too (otherwise d/max is a rounding near-tie)
        let rational = (l * 4.0).fract() == 0.0 && l < 1e9;
        let ks: Vec<i64> = (1..=9).filter(|k| rational && ((l * 64.0) as i64) % k == 0).collect();
        let k = if ks.is_empty() { 1.0 } else { *rng.pick(&ks) as f64 };
        let class = if rational { rng.below(16) } else { *rng.pick(&[7u64, 8, 10, 12, 13, 14, 15, 7, 12, 11]) };
        match class {
            0 | 1 | 2 | 3 => l / k,                             // length an exact multiple of max
            4 => l / k * (1.0 + f64::EPSILON),                  // just above a divisor
            5 => l / k * (1.0 - f64::EPSILON),                  // just below a divisor
            6 => l / rng.range(3, 7) as f64,                    // divisor rounded in f64 (often a near-tie)
            7 => shortest / (20.0 + 40.0 * rng.unit()),         // far below the shortest segment
            8 => total * 1.5,                                   // above the total length
            9 => longest,
            10 => *rng.pick(&[0.1, 0.3, 1.0, 2.5, 0.7]),
            11 => total,
            12 => shortest * (0.3 + rng.unit()),
            _ => rng.unit() * longest + longest / 64.0,
        }
    };
    // keep the output size bounded (a few hundred pieces per segment at most)
    if !(mx > longest / 300.0) {
        mx = longest / 300.0;
    }
    if !(mx > 0.0) {
        mx = 1.0;
    }
    format!("C15.densify {} max {}", proto::geom(&g), proto::num(mx))
}

fn gen_ring_tri(rng: &mut Rng) -> Vec<Coord<f64>> {
    let (a, b) = *rng.pick(&[(3.0, 4.0), (5.0, 12.0), (8.0, 15.0), (6.0, 8.0), (1.5, 2.0)]);
    let (x0, y0) = (rng.range(-5, 5) as f64, rng.range(-5, 5) as f64);
    let mut v = vec![Coord { x: x0, y: y0 }, Coord { x: x0 + a, y: y0 }, Coord { x: x0, y: y0 + b }];
    if rng.chance(1, 2) {
        v.reverse();
    }
    v
}

pub fn gen(rng: &mut Rng, index: u64) -> String {
    if index % 1500 == 777 {
        // an axis-parallel or 3-4-5 line of exact length cut into 2^20 … 2^22 (+ a few) pieces
        let pieces = (1i64 << rng.range(20, 22)) + rng.range(0, 3);
        let mx = *rng.pick(&[1.0f64, 0.5, 2.0]);
        let len = pieces as f64 * mx;
        let a = Coord { x: rng.range(-5, 5) as f64, y: rng.range(-5, 5) as f64 };
        let b = match rng.below(3) { 0 => Coord { x: a.x + len, y: a.y }, 1 => Coord { x: a.x, y: a.y - len }, _ => { let q = ((1i64 << rng.range(18, 19)) + rng.range(0, 3)) as f64; Coord { x: a.x + 3.0 * q, y: a.y + 4.0 * q } } };
        let ty = if rng.chance(2, 3) { "ln" } else { "ls" };
        return format!("C15.densbig {} max {} {}", proto::geom(&Geometry::Line(Line::new(a, b))), proto::num(mx), ty);
    }
    if rng.chance(11, 20) {
        gen_interp(rng)
    } else {
        gen_densify(rng)
    }
}

// ------------------------------------------------------------------ evaluation (real geo API)

fn opt_pt(p: Option<Point<f64>>) -> String {
    match p {
        None => "none".to_string(),
        Some(p) => {
            if p.x().is_finite() && p.y().is_finite() {
                format!("some {}", proto::coord(p.0))
            } else {
                "nan".to_string()
            }
        }
    }
}

fn opt_num(v: Option<f64>) -> String {
    match v {
        None => "none".to_string(),
        Some(v) => {
            if v.is_finite() {
                format!("some {}", proto::num(v))
            } else {
                "nan".to_string()
            }
        }
    }
}

fn expect_lit(t: &mut Toks, s: &str) -> R<()> {
    let x = t.tok()?;
    if x == s { Ok(()) } else { Err(format!("expected {} got {}", s, x)) }
}

fn eval_interp(t: &mut Toks) -> R<String> {
    let g = t.geom()?;
    expect_lit(t, "r")?;
    let r = t.num()?;
    expect_lit(t, "q")?;
    let q = t.num()?;
    expect_lit(t, "d")?;
    let d = t.num()?;
    match g {
        Geometry::Line(l) => {
            let len: f64 = Euclidean.length(&l);
            let (rl, ql) = (r * len, q * len);
            let rs = Euclidean.point_at_ratio_from_start(&l, r);
            let re = Euclidean.point_at_ratio_from_end(&l, q);
            let ds = Euclidean.point_at_distance_from_start(&l, d);
            let de = Euclidean.point_at_distance_from_end(&l, d);
            let drs = Euclidean.point_at_distance_from_start(&l, rl);
            let dre = Euclidean.point_at_distance_from_end(&l, ql);
            let li = l.line_interpolate_point(r);
            let loc = if rs.x().is_finite() && rs.y().is_finite() {
                opt_num(l.line_locate_point(&rs))
            } else {
                "na".to_string()
            };
            Ok(format!(
                "len {} rl {} ql {} rs {} re {} ds {} de {} drs {} dre {} li {} loc {}",
                proto::num(len), proto::num(rl), proto::num(ql),
                opt_pt(Some(rs)), opt_pt(Some(re)), opt_pt(Some(ds)), opt_pt(Some(de)),
                opt_pt(Some(drs)), opt_pt(Some(dre)), opt_pt(li), loc
            ))
        }
        Geometry::LineString(ls) => {
            let len: f64 = Euclidean.length(&ls);
            let (rl, ql) = (r * len, q * len);
            let rs = Euclidean.point_at_ratio_from_start(&ls, r);
            let re = Euclidean.point_at_ratio_from_end(&ls, q);
            let ds = Euclidean.point_at_distance_from_start(&ls, d);
            let de = Euclidean.point_at_distance_from_end(&ls, d);
            let drs = Euclidean.point_at_distance_from_start(&ls, rl);
            let dre = Euclidean.point_at_distance_from_end(&ls, ql);
            let li = ls.line_interpolate_point(r);
            let loc = match rs {
                Some(p) if p.x().is_finite() && p.y().is_finite() => opt_num(ls.line_locate_point(&p)),
                _ => "na".to_string(),
            };
            Ok(format!(
                "len {} rl {} ql {} rs {} re {} ds {} de {} drs {} dre {} li {} loc {}",
                proto::num(len), proto::num(rl), proto::num(ql),
                opt_pt(rs), opt_pt(re), opt_pt(ds), opt_pt(de), opt_pt(drs), opt_pt(dre), opt_pt(li), loc
            ))
        }
        _ => Err("interp needs LN or LS".into()),
    }
}

fn eval_densify(t: &mut Toks) -> R<String> {
    let g = t.geom()?;
    expect_lit(t, "max")?;
    let mx = t.num()?;
    let out: Geometry<f64> = match &g {
        Geometry::Line(x) => Geometry::LineString(Euclidean.densify(x, mx)),
        Geometry::LineString(x) => Geometry::LineString(Euclidean.densify(x, mx)),
        Geometry::MultiLineString(x) => Geometry::MultiLineString(Euclidean.densify(x, mx)),
        Geometry::Polygon(x) => Geometry::Polygon(Euclidean.densify(x, mx)),
        Geometry::MultiPolygon(x) => Geometry::MultiPolygon(Euclidean.densify(x, mx)),
        Geometry::Rect(x) => Geometry::Polygon(Euclidean.densify(x, mx)),
        Geometry::Triangle(x) => Geometry::Polygon(Euclidean.densify(x, mx)),
        _ => return Err("densify: type not densifiable".into()),
    };
    Ok(proto::geom(&out))
}

/// `C15.densbig LN a b max m ty => n <coords> maxseg <longest piece> first <pt> last <pt>`: a Line (as `Line` or as a two-vertex
/// `LineString`, token `ty`) cut into more pieces than any plausible cap (millions); only the summary crosses the protocol.
fn eval_densbig(t: &mut Toks) -> R<String> {
    let g = t.geom()?;
    expect_lit(t, "max")?;
    let mx = t.num()?;
    let as_ls = t.tok()? == "ls";
    let l = match &g { Geometry::Line(l) => *l, _ => return Err("densbig wants LN".into()) };
    let n_est = ((l.end.x - l.start.x).hypot(l.end.y - l.start.y) / mx).abs();
    if !(n_est < 9.0e6) {
        return Err("densbig: too many pieces for this harness".into());
    }
    let out: LineString<f64> = if as_ls { Euclidean.densify(&LineString(vec![l.start, l.end]), mx) } else { Euclidean.densify(&l, mx) };
    let mut longest = 0.0f64;
    for w in out.0.windows(2) {
        let d = (w[1].x - w[0].x).hypot(w[1].y - w[0].y);
        if d > longest { longest = d; }
    }
    let (f, la) = (out.0.first().copied().unwrap_or(Coord { x: f64::NAN, y: f64::NAN }), out.0.last().copied().unwrap_or(Coord { x: f64::NAN, y: f64::NAN }));
    Ok(format!("n {} maxseg {} first {} last {}", out.0.len(), proto::num(longest), proto::coord(f), proto::coord(la)))
}

pub fn eval(op: &str, t: &mut Toks) -> R<String> {
    match op {
        "C15.interp" => eval_interp(t),
        "C15.densify" => eval_densify(t),
        "C15.densbig" => eval_densbig(t),
        _ => Err(format!("unknown op {}", op)),
    }
}
