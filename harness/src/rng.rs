//! splitmix64 — every random choice of a case derives from (seed, shard, index).
#[derive(Clone)]
pub struct Rng(pub u64);

impl Rng {
    pub fn new(seed: u64, shard: u64, index: u64) -> Rng {
        let mut r = Rng(seed ^ 0x9E3779B97F4A7C15u64.wrapping_mul(shard + 1));
        r.next();
        r.0 ^= index.wrapping_mul(0xD1B54A32D192ED03);
        r.next();
        r
    }
    pub fn next(&mut self) -> u64 {
        self.0 = self.0.wrapping_add(0x9E3779B97F4A7C15);
        let mut z = self.0;
        z = (z ^ (z >> 30)).wrapping_mul(0xBF58476D1CE4E5B9);
        z = (z ^ (z >> 27)).wrapping_mul(0x94D049BB133111EB);
        z ^ (z >> 31)
    }
    /// uniform in 0..n (n > 0)
    pub fn below(&mut self, n: u64) -> u64 {
        self.next() % n
    }
    pub fn range(&mut self, lo: i64, hi: i64) -> i64 {
        lo + (self.next() % ((hi - lo + 1) as u64)) as i64
    }
    pub fn chance(&mut self, num: u64, den: u64) -> bool {
        self.below(den) < num
    }
    pub fn pick<'a, T>(&mut self, xs: &'a [T]) -> &'a T {
        &xs[self.below(xs.len() as u64) as usize]
    }
    pub fn unit(&mut self) -> f64 {
        (self.next() >> 11) as f64 / (1u64 << 53) as f64
    }
    pub fn shuffle<T>(&mut self, xs: &mut [T]) {
        for i in (1..xs.len()).rev() {
            let j = self.below(i as u64 + 1) as usize;
            xs.swap(i, j);
        }
    }
}
