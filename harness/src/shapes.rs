//! Generators of (mostly) valid shapes on a shared integer grid (DESIGN.md §4). Validity is
//! *decided* by the Lean side; these only try to make valid shapes frequent and coincidences
//! (shared vertices, vertex on edge, collinear overlap, tangent holes) likely.
use crate::rng::Rng;
use geo_types::*;
use std::collections::{BTreeMap, BTreeSet};

pub fn c(x: i64, y: i64) -> Coord<f64> {
    Coord { x: x as f64, y: y as f64 }
}

pub fn grid_pt(rng: &mut Rng, k: i64) -> Coord<f64> {
    if rng.chance(1, 5) {
        // half-grid point
        Coord { x: rng.range(0, 2 * k) as f64 / 2.0, y: rng.range(0, 2 * k) as f64 / 2.0 }
    } else {
        c(rng.range(0, k), rng.range(0, k))
    }
}

/// Random edge-connected set of unit cells in a k×k grid (k ≤ 8).
fn cell_set(rng: &mut Rng, k: i64, n: usize) -> BTreeSet<(i64, i64)> {
    let mut s = BTreeSet::new();
    let start = (rng.range(0, k - 1), rng.range(0, k - 1));
    s.insert(start);
    let mut tries = 0;
    while s.len() < n && tries < 200 {
        tries += 1;
        let v: Vec<_> = s.iter().cloned().collect();
        let (x, y) = *rng.pick(&v);
        let (dx, dy) = *rng.pick(&[(1i64, 0i64), (-1, 0), (0, 1), (0, -1)]);
        let (nx, ny) = (x + dx, y + dy);
        if nx >= 0 && ny >= 0 && nx < k && ny < k {
            s.insert((nx, ny));
        }
    }
    s
}

/// Boundary loops of a union of unit cells. Each cell contributes its 4 CCW directed edges;
/// edges shared by two cells cancel; the rest are chained into loops (outer loops CCW, hole
/// loops CW). At a vertex with two outgoing edges the one turning *right* relative to the
/// incoming edge is taken, which separates filled cells that touch only diagonally.
fn boundary_loops(cells: &BTreeSet<(i64, i64)>) -> Vec<Vec<(i64, i64)>> {
    let mut edges: BTreeSet<((i64, i64), (i64, i64))> = BTreeSet::new();
    for &(x, y) in cells {
        let es = [((x, y), (x + 1, y)), ((x + 1, y), (x + 1, y + 1)), ((x + 1, y + 1), (x, y + 1)), ((x, y + 1), (x, y))];
        for (a, b) in es {
            if !edges.remove(&(b, a)) {
                edges.insert((a, b));
            }
        }
    }
    let mut out: BTreeMap<(i64, i64), Vec<(i64, i64)>> = BTreeMap::new();
    for &(a, b) in &edges {
        out.entry(a).or_default().push(b);
    }
    let mut loops = vec![];
    while let Some(&(a0, b0)) = edges.iter().next() {
        let mut lp = vec![a0];
        let (mut a, mut b) = (a0, b0);
        loop {
            edges.remove(&(a, b));
            if let Some(v) = out.get_mut(&a) {
                v.retain(|x| *x != b);
            }
            lp.push(b);
            if b == a0 {
                break;
            }
            let cands = out.get(&b).cloned().unwrap_or_default();
            if cands.is_empty() {
                break;
            }
            // prefer the right turn, then straight, then left
            let d = (b.0 - a.0, b.1 - a.1);
            let score = |n: &(i64, i64)| {
                let e = (n.0 - b.0, n.1 - b.1);
                let cr = d.0 * e.1 - d.1 * e.0; // >0 left turn
                if cr < 0 { 0 } else if cr == 0 { 1 } else { 2 }
            };
            let mut best = cands[0];
            for n in &cands {
                if score(n) < score(&best) {
                    best = *n;
                }
            }
            a = b;
            b = best;
        }
        loops.push(lp);
    }
    loops
}

fn signed_area2(lp: &[(i64, i64)]) -> i64 {
    let mut s = 0;
    for w in lp.windows(2) {
        s += w[0].0 * w[1].1 - w[1].0 * w[0].1;
    }
    s
}

/// merge collinear runs (optional) — keeps collinear vertices with probability
fn simplify_loop(rng: &mut Rng, lp: &[(i64, i64)], keep_collinear: bool) -> Vec<(i64, i64)> {
    if keep_collinear {
        return lp.to_vec();
    }
    let n = lp.len() - 1; // closed
    let mut out = vec![];
    for i in 0..n {
        let p = lp[(i + n - 1) % n];
        let q = lp[i];
        let r = lp[(i + 1) % n];
        let cr = (q.0 - p.0) * (r.1 - q.1) - (q.1 - p.1) * (r.0 - q.0);
        if cr != 0 || rng.chance(1, 6) {
            out.push(q);
        }
    }
    if out.len() < 3 {
        return lp.to_vec();
    }
    let f = out[0];
    out.push(f);
    out
}

fn point_in_loop(p: (f64, f64), lp: &[(i64, i64)]) -> bool {
    let mut inside = false;
    for w in lp.windows(2) {
        let (x1, y1) = (w[0].0 as f64, w[0].1 as f64);
        let (x2, y2) = (w[1].0 as f64, w[1].1 as f64);
        if (y1 > p.1) != (y2 > p.1) {
            let x = x1 + (p.1 - y1) / (y2 - y1) * (x2 - x1);
            if x > p.0 {
                inside = !inside;
            }
        }
    }
    inside
}

fn ring_variant(rng: &mut Rng, lp: &[(i64, i64)]) -> Vec<Coord<f64>> {
    // random start vertex and direction (the property says neither matters)
    let n = lp.len() - 1;
    let s = rng.below(n as u64) as usize;
    let mut v: Vec<(i64, i64)> = (0..n).map(|i| lp[(s + i) % n]).collect();
    if rng.chance(1, 2) {
        v.reverse();
    }
    let f = v[0];
    v.push(f);
    v.into_iter().map(|(x, y)| c(x, y)).collect()
}

/// Polygons (with holes) from a polyomino: one polygon per outer loop.
pub fn polyomino_polygons(rng: &mut Rng, k: i64, ncells: usize, offset: (i64, i64)) -> Vec<Polygon<f64>> {
    let cells = cell_set(rng, k, ncells);
    let keep = rng.chance(1, 4);
    let loops: Vec<Vec<(i64, i64)>> = boundary_loops(&cells)
        .into_iter()
        .map(|l| simplify_loop(rng, &l, keep))
        .map(|l| l.into_iter().map(|(x, y)| (x + offset.0, y + offset.1)).collect())
        .collect();
    let outers: Vec<&Vec<(i64, i64)>> = loops.iter().filter(|l| signed_area2(l) > 0).collect();
    let holes: Vec<&Vec<(i64, i64)>> = loops.iter().filter(|l| signed_area2(l) < 0).collect();
    let mut polys = vec![];
    for o in &outers {
        let mut hs = vec![];
        for h in &holes {
            // a hole belongs to the outer loop containing an interior sample point of the hole's first cell edge
            let (a, b) = (h[0], h[1]);
            // hole loops are CW: the empty cell lies to the right of the directed edge a→b
            let mid = ((a.0 + b.0) as f64 / 2.0, (a.1 + b.1) as f64 / 2.0);
            let d = ((b.0 - a.0) as f64, (b.1 - a.1) as f64);
            let sample = (mid.0 + d.1 * 0.25, mid.1 - d.0 * 0.25);
            if point_in_loop(sample, o) {
                hs.push(LineString(ring_variant(rng, h)));
            }
        }
        polys.push(Polygon::new(LineString(ring_variant(rng, o)), hs));
    }
    polys
}

/// star-shaped polygon around a half-grid centre, vertices sorted by angle
pub fn star_polygon(rng: &mut Rng, k: i64) -> Polygon<f64> {
    let cx = rng.range(1, 2 * k - 1) as f64 / 2.0 + 0.25;
    let cy = rng.range(1, 2 * k - 1) as f64 / 2.0 + 0.125;
    let n = rng.range(3, 7) as usize;
    let mut pts: Vec<(i64, i64)> = (0..n).map(|_| (rng.range(0, k), rng.range(0, k))).collect();
    pts.sort();
    pts.dedup();
    let mut ang: Vec<(f64, (i64, i64))> = pts.iter().map(|&(x, y)| ((y as f64 - cy).atan2(x as f64 - cx), (x, y))).collect();
    ang.sort_by(|a, b| a.0.partial_cmp(&b.0).unwrap());
    let mut v: Vec<(i64, i64)> = ang.into_iter().map(|a| a.1).collect();
    if v.len() < 3 {
        v = vec![(0, 0), (k, 0), (0, k)];
    }
    let f = v[0];
    v.push(f);
    Polygon::new(LineString(ring_variant(rng, &v)), vec![])
}

/// A 5×5 square shell with pairwise disjoint holes whose bounding boxes overlap: a big triangular hole and a small
/// square hole in the free corner of the triangle's box (random mirror image, random order, sometimes a third hole).
pub fn overlap_holes_polygon(rng: &mut Rng) -> Polygon<f64> {
    let (fx, fy) = (rng.chance(1, 2), rng.chance(1, 2));
    let (ox, oy) = (rng.range(0, 2), rng.range(0, 2));
    let w = if rng.chance(1, 3) { 8 } else { 5 };
    let loc = |x: i64, y: i64| (ox + if fx { 5 - x } else { x }, oy + if fy { 5 - y } else { y });
    let shell = vec![(ox, oy), (ox + w, oy), (ox + w, oy + 5), (ox, oy + 5), (ox, oy)];
    let tri = vec![loc(1, 1), loc(4, 1), loc(1, 4), loc(1, 1)];
    let sq = vec![loc(3, 3), loc(4, 3), loc(4, 4), loc(3, 4), loc(3, 3)];
    let mut holes = vec![tri, sq];
    if w == 8 {
        holes.push(vec![(ox + 6, oy + 1), (ox + 7, oy + 1), (ox + 7, oy + 4), (ox + 6, oy + 1)]);
    }
    for _ in 0..2 {
        let i = rng.below(holes.len() as u64) as usize;
        let j = rng.below(holes.len() as u64) as usize;
        holes.swap(i, j);
    }
    let hs: Vec<LineString<f64>> = holes.iter().map(|h| LineString(ring_variant(rng, h))).collect();
    Polygon::new(LineString(ring_variant(rng, &shell)), hs)
}

/// A lake (square shell with a square hole) and an island inside the hole as a second member, in either order;
/// sometimes a third member elsewhere. Valid: the island lies strictly inside the hole.
pub fn island_multipolygon(rng: &mut Rng) -> MultiPolygon<f64> {
    let (ox, oy) = (rng.range(0, 2), rng.range(0, 2));
    let r = |x0: i64, y0: i64, x1: i64, y1: i64| vec![(ox + x0, oy + y0), (ox + x1, oy + y0), (ox + x1, oy + y1), (ox + x0, oy + y1), (ox + x0, oy + y0)];
    let lake = Polygon::new(LineString(ring_variant(rng, &r(0, 0, 6, 6))), vec![LineString(ring_variant(rng, &r(1, 1, 5, 5)))]);
    let isl = match rng.below(3) {
        0 => r(2, 2, 4, 4),
        1 => r(2, 2, 3, 4),
        _ => vec![(ox + 2, oy + 2), (ox + 4, oy + 2), (ox + 3, oy + 4), (ox + 2, oy + 2)],
    };
    let island = Polygon::new(LineString(ring_variant(rng, &isl)), vec![]);
    let mut v = vec![lake, island];
    if rng.chance(1, 3) {
        v.push(Polygon::new(LineString(ring_variant(rng, &r(7, 0, 9, 2))), vec![]));
    }
    if rng.chance(1, 2) {
        v.swap(0, 1);
    }
    MultiPolygon(v)
}

pub fn gen_polygon(rng: &mut Rng, k: i64) -> Polygon<f64> {
    // (independent of k: the operands of one case need not share an extent)
    if rng.chance(1, 25) {
        return overlap_holes_polygon(rng);
    }
    match rng.below(8) {
        0 | 1 => star_polygon(rng, k),
        2 => {
            // rectangle with an optional rectangular/triangular hole
            let (x0, y0) = (rng.range(0, k - 2), rng.range(0, k - 2));
            let (x1, y1) = (rng.range(x0 + 2, k), rng.range(y0 + 2, k));
            let ext = vec![(x0, y0), (x1, y0), (x1, y1), (x0, y1), (x0, y0)];
            let mut holes = vec![];
            if rng.chance(2, 3) {
                let hx0 = rng.range(x0, x1 - 1);
                let hy0 = rng.range(y0, y1 - 1);
                let hx1 = rng.range(hx0 + 1, x1);
                let hy1 = rng.range(hy0 + 1, y1);
                let h = if rng.chance(1, 2) {
                    vec![(hx0, hy0), (hx1, hy0), (hx1, hy1), (hx0, hy1), (hx0, hy0)]
                } else {
                    vec![(hx0, hy0), (hx1, hy0), (hx0, hy1), (hx0, hy0)]
                };
                holes.push(LineString(ring_variant(rng, &h)));
            }
            Polygon::new(LineString(ring_variant(rng, &ext)), holes)
        }
        _ => {
            let n = rng.range(1, 9) as usize;
            let mut ps = polyomino_polygons(rng, k.min(6), n, (0, 0));
            if ps.is_empty() { star_polygon(rng, k) } else { ps.swap_remove(0) }
        }
    }
}

pub fn gen_multipolygon(rng: &mut Rng, k: i64) -> MultiPolygon<f64> {
    if rng.chance(1, 25) {
        return island_multipolygon(rng);
    }
    match rng.below(4) {
        0 => MultiPolygon(vec![]),
        1 => MultiPolygon(vec![gen_polygon(rng, k)]),
        _ => {
            // two polyominoes side by side / corner-touching / separate
            let n1 = rng.range(1, 5) as usize;
            let mut v = polyomino_polygons(rng, 3, n1, (0, 0));
            let off = *rng.pick(&[(3i64, 0i64), (3, 3), (4, 0), (0, 3), (3, 2), (4, 4)]);
            let n2 = rng.range(1, 5) as usize;
            v.extend(polyomino_polygons(rng, 3, n2, off));
            MultiPolygon(v)
        }
    }
}

/// self-avoiding lattice path (steps of length 1..2 in 8 directions)
pub fn gen_path(rng: &mut Rng, k: i64, start: Option<(i64, i64)>) -> Vec<(i64, i64)> {
    let n = rng.range(2, 6) as usize;
    let mut p = vec![start.unwrap_or((rng.range(0, k), rng.range(0, k)))];
    let mut tries = 0;
    while p.len() < n && tries < 30 {
        tries += 1;
        let (x, y) = *p.last().unwrap();
        let (dx, dy) = (rng.range(-2, 2), rng.range(-2, 2));
        let q = (x + dx, y + dy);
        if (dx, dy) == (0, 0) || q.0 < 0 || q.1 < 0 || q.0 > k || q.1 > k || p.contains(&q) {
            continue;
        }
        p.push(q);
    }
    if p.len() < 2 {
        let (x, y) = p[0];
        p.push(if x < k { (x + 1, y) } else { (x - 1, y) });
    }
    if p.len() >= 3 && rng.chance(1, 6) {
        let f = p[0];
        p.push(f); // closed line string
    }
    p
}

pub fn path_coords(p: &[(i64, i64)]) -> Vec<Coord<f64>> {
    p.iter().map(|&(x, y)| c(x, y)).collect()
}

pub fn gen_multilinestring(rng: &mut Rng, k: i64) -> MultiLineString<f64> {
    let n = rng.below(4);
    let mut v: Vec<Vec<(i64, i64)>> = vec![];
    for _ in 0..n {
        // share an end point with an earlier member half of the time (mod-2 rule cases)
        let start = if !v.is_empty() && rng.chance(1, 2) {
            let m = rng.pick(&v).clone();
            Some(if rng.chance(1, 2) { m[0] } else { *m.last().unwrap() })
        } else {
            None
        };
        let mut p = gen_path(rng, k, start);
        if rng.chance(1, 2) {
            p.reverse();
        }
        v.push(p);
    }
    MultiLineString(v.iter().map(|p| LineString(path_coords(p))).collect())
}

/// A geometry of the given kind (0..=9 as in the Geometry enum order used by the protocol).
pub fn gen_kind(rng: &mut Rng, k: i64, kind: u64, depth: u32) -> Geometry<f64> {
    match kind {
        0 => Geometry::Point(Point(grid_pt(rng, k))),
        1 => {
            let a = grid_pt(rng, k);
            let mut b = grid_pt(rng, k);
            if a == b {
                b.x += 1.0;
            }
            Geometry::Line(Line::new(a, b))
        }
        2 => Geometry::LineString(LineString(path_coords(&gen_path(rng, k, None)))),
        3 => Geometry::Polygon(gen_polygon(rng, k)),
        4 => Geometry::MultiPoint(MultiPoint((0..rng.below(4)).map(|_| Point(grid_pt(rng, k))).collect())),
        5 => Geometry::MultiLineString(gen_multilinestring(rng, k)),
        6 => Geometry::MultiPolygon(gen_multipolygon(rng, k)),
        7 => {
            let (x0, y0) = (rng.range(0, k - 1), rng.range(0, k - 1));
            Geometry::Rect(Rect::new(c(x0, y0), c(rng.range(x0 + 1, k), rng.range(y0 + 1, k))))
        }
        8 => {
            let a = (rng.range(0, k), rng.range(0, k));
            let b = (rng.range(0, k), rng.range(0, k));
            let mut cc = (rng.range(0, k), rng.range(0, k));
            if (b.0 - a.0) * (cc.1 - a.1) - (b.1 - a.1) * (cc.0 - a.0) == 0 {
                // axis-aligned right triangle (vertical and horizontal edges)
                let (x0, y0) = (rng.range(0, k - 1), rng.range(0, k - 1));
                return Geometry::Triangle(Triangle(c(x0, y0), c(rng.range(x0 + 1, k), y0), c(x0, rng.range(y0 + 1, k))));
            }
            if rng.chance(1, 2) {
                cc = (cc.0, cc.1);
            }
            Geometry::Triangle(Triangle(c(a.0, a.1), c(b.0, b.1), c(cc.0, cc.1)))
        }
        _ => {
            // collection of 0..3 members of one kind-dimension, usually spatially separated
            let n = rng.below(4);
            let dim_kinds: &[u64] = *rng.pick(&[&[0u64, 4][..], &[1, 2, 5][..], &[3, 6, 7, 8][..]]);
            let mut v = vec![];
            for i in 0..n {
                let kk = *rng.pick(dim_kinds);
                let g = if depth > 0 && rng.chance(1, 8) { gen_kind(rng, 2, 9, depth - 1) } else { gen_kind(rng, 2, kk, 0) };
                // shift the members apart (each lives in its own 2×2 block) unless chance says overlap
                let (ox, oy) = if rng.chance(1, 6) { (0.0, 0.0) } else { ((i as f64) * 3.0, ((i * 2) % 3) as f64 * 3.0) };
                use geo::algorithm::map_coords::MapCoords;
                v.push(g.map_coords(|p| Coord { x: p.x + ox, y: p.y + oy }));
            }
            Geometry::GeometryCollection(GeometryCollection(v))
        }
    }
}

pub fn gen_valid(rng: &mut Rng, k: i64) -> Geometry<f64> {
    let kind = *rng.pick(&[0u64, 1, 2, 2, 3, 3, 3, 4, 5, 5, 6, 6, 7, 8, 8, 9]);
    gen_kind(rng, k, kind, 1)
}

/// Another representation of the same point set.
pub fn variant(rng: &mut Rng, g: &Geometry<f64>) -> Geometry<f64> {
    let rot = |rng: &mut Rng, r: &LineString<f64>| -> LineString<f64> {
        if r.0.len() < 4 || r.0.first() != r.0.last() {
            return r.clone();
        }
        let n = r.0.len() - 1;
        let s = rng.below(n as u64) as usize;
        let mut v: Vec<Coord<f64>> = (0..n).map(|i| r.0[(s + i) % n]).collect();
        if rng.chance(1, 2) {
            v.reverse();
        }
        let f = v[0];
        v.push(f);
        LineString(v)
    };
    let rot_poly = |rng: &mut Rng, p: &Polygon<f64>| -> Polygon<f64> {
        let e = rot(rng, p.exterior());
        let mut hs: Vec<LineString<f64>> = p.interiors().iter().map(|h| rot(rng, h)).collect();
        rng.shuffle(&mut hs);
        Polygon::new(e, hs)
    };
    match g {
        Geometry::Point(p) => {
            if rng.chance(1, 2) { Geometry::MultiPoint(MultiPoint(vec![*p])) } else { Geometry::GeometryCollection(GeometryCollection(vec![g.clone()])) }
        }
        Geometry::Line(l) => match rng.below(3) {
            0 => Geometry::LineString(LineString(vec![l.start, l.end])),
            1 => Geometry::Line(Line::new(l.end, l.start)),
            _ => Geometry::MultiLineString(MultiLineString(vec![LineString(vec![l.end, l.start])])),
        },
        Geometry::LineString(ls) => match rng.below(3) {
            0 => { let mut v = ls.0.clone(); v.reverse(); Geometry::LineString(LineString(v)) }
            1 => Geometry::MultiLineString(MultiLineString(vec![ls.clone()])),
            _ => Geometry::GeometryCollection(GeometryCollection(vec![g.clone()])),
        },
        Geometry::Polygon(p) => match rng.below(3) {
            0 => Geometry::Polygon(rot_poly(rng, p)),
            1 => Geometry::MultiPolygon(MultiPolygon(vec![rot_poly(rng, p)])),
            _ => Geometry::GeometryCollection(GeometryCollection(vec![Geometry::Polygon(rot_poly(rng, p))])),
        },
        Geometry::MultiPoint(mp) => { let mut v = mp.0.clone(); rng.shuffle(&mut v); Geometry::MultiPoint(MultiPoint(v)) }
        Geometry::MultiLineString(m) => {
            let mut v: Vec<LineString<f64>> = m.0.iter().map(|l| if rng.chance(1, 2) { let mut c = l.0.clone(); c.reverse(); LineString(c) } else { l.clone() }).collect();
            rng.shuffle(&mut v);
            Geometry::MultiLineString(MultiLineString(v))
        }
        Geometry::MultiPolygon(m) => {
            let mut v: Vec<Polygon<f64>> = m.0.iter().map(|p| rot_poly(rng, p)).collect();
            rng.shuffle(&mut v);
            Geometry::MultiPolygon(MultiPolygon(v))
        }
        Geometry::Rect(r) => {
            if rng.chance(1, 2) { Geometry::Polygon(r.to_polygon()) } else { Geometry::Polygon(rot_poly(rng, &Polygon::from(*r))) }
        }
        Geometry::Triangle(t) => match rng.below(3) {
            0 => Geometry::Polygon(t.to_polygon()),
            1 => Geometry::Triangle(Triangle(t.1, t.2, t.0)),
            _ => Geometry::Triangle(Triangle(t.2, t.1, t.0)),
        },
        Geometry::GeometryCollection(gc) => {
            let mut v: Vec<Geometry<f64>> = gc.0.iter().map(|m| if rng.chance(1, 2) { variant(rng, m) } else { m.clone() }).collect();
            rng.shuffle(&mut v);
            Geometry::GeometryCollection(GeometryCollection(v))
        }
    }
}


/// Hand-built shapes with configurations that random polyominoes practically never produce: a hole
/// whose extreme vertex touches the tip of a shell notch (interior above and below the touch point)
/// with collinear vertices on the edges and further holes beyond; a comb; a spiral; a member of a
/// multipolygon whose vertex lies in the *interior* of another member's edge.
pub fn tricky_bases() -> Vec<Vec<Vec<Vec<(i64, i64)>>>> {
    // multipolygon = list of polygons; polygon = list of rings (first = exterior); rings are closed
    vec![
        vec![vec![
            vec![(0, 0), (2, 0), (30, 0), (22, 25), (10, 1), (12, 25), (12, 30), (0, 30), (0, 0)],
            vec![(1, 2), (10, 1), (5, 8), (1, 2)],
            vec![(20, 15), (22, 14), (22, 15), (20, 15)],
        ]],
        vec![vec![
            // comb: teeth pointing up, collinear vertices along the base
            vec![(0, 0), (4, 0), (8, 0), (12, 0), (12, 10), (10, 10), (10, 3), (8, 3), (8, 10), (6, 10), (6, 3), (4, 3), (4, 10), (2, 10), (2, 3), (0, 3), (0, 0)],
        ]],
        vec![vec![
            // frame with two holes touching each other and the shell at vertices
            vec![(0, 0), (12, 0), (12, 12), (0, 12), (0, 0)],
            vec![(0, 6), (4, 3), (6, 6), (4, 9), (0, 6)],
            vec![(6, 6), (9, 2), (12, 6), (9, 10), (6, 6)],
        ]],
        vec![
            // a vertex of the second member lies in the interior of an edge of the first
            vec![vec![(0, 3), (1, 2), (1, 1), (3, 1), (3, 2), (2, 2), (2, 3), (0, 3)]],
            vec![vec![(2, 0), (3, 0), (2, 1), (2, 0)]],
        ],
        vec![
            vec![vec![(0, 0), (8, 0), (8, 4), (0, 4), (0, 0)]],
            vec![vec![(3, 4), (5, 8), (1, 8), (3, 4)]],
            vec![vec![(8, 2), (12, 0), (12, 4), (8, 2)]],
        ],
        vec![vec![
            // a chain of touches: hole 1 has its leftmost vertex inside the bottom edge of the shell, hole 2 its
            // rightmost vertex inside the upper edge of hole 1 that leaves that vertex
            vec![(0, 0), (20, 0), (20, 20), (0, 20), (0, 0)],
            vec![(4, 0), (12, 2), (8, 8), (4, 0)],
            vec![(2, 6), (6, 4), (5, 9), (2, 6)],
        ]],
        vec![vec![
            vec![(0, 0), (20, 0), (20, 20), (0, 20), (0, 0)],
            vec![(2, 6), (5, 9), (6, 4), (2, 6)],
            vec![(4, 0), (8, 8), (12, 2), (4, 0)],
            vec![(14, 12), (16, 12), (15, 16), (14, 12)],
        ]],
        // a hole whose leftmost vertex lies on a slanted edge of the shell's upper chain, after that chain has passed a vertex
        // (a valid touch on the lattice; under the decimal variants of C10 it lies a fraction of an ulp beside the edge)
        vec![vec![
            vec![(-5, -5), (15, -5), (8, 9), (0, 1), (-5, -5)],
            vec![(4, 5), (6, 3), (6, 5), (4, 5)],
        ]],
        vec![vec![
            vec![(-5, -5), (15, -5), (5, 10), (0, 0), (-5, -5)],
            vec![(2, 4), (4, 2), (4, 4), (2, 4)],
        ]],
        vec![vec![
            vec![(-4, -6), (16, -6), (10, 5), (0, 0), (-4, -6)],
            vec![(4, 2), (6, 0), (6, 2), (4, 2)],
        ]],
        vec![vec![
            // spiral
            vec![(0, 0), (10, 0), (10, 10), (2, 10), (2, 4), (6, 4), (6, 6), (4, 6), (4, 8), (8, 8), (8, 2), (0, 2), (0, 0)],
        ]],
    ]
}

/// A variant of one of the tricky bases: small integer jitter of some vertices, an optional
/// symmetry (reflection / transposition), optional extra collinear vertices on edges. Validity is
/// decided on the Lean side; invalid variants are skipped there.
pub fn tricky_variant(rng: &mut Rng) -> MultiPolygon<f64> {
    let bases = tricky_bases();
    let base = rng.pick(&bases).clone();
    let jitter = rng.chance(1, 2);
    let sym = rng.below(8);
    let tf = |(x, y): (i64, i64)| -> (i64, i64) {
        let (x, y) = if sym & 1 != 0 { (-x, y) } else { (x, y) };
        let (x, y) = if sym & 2 != 0 { (x, -y) } else { (x, y) };
        if sym & 4 != 0 { (y, x) } else { (x, y) }
    };
    let mut polys = vec![];
    for poly in base {
        let mut rings = vec![];
        for ring in poly {
            let n = ring.len() - 1;
            let mut r: Vec<(i64, i64)> = ring[..n].to_vec();
            if jitter {
                for v in r.iter_mut() {
                    if rng.chance(1, 6) {
                        v.0 += rng.range(-1, 1);
                        v.1 += rng.range(-1, 1);
                    }
                }
            }
            // extra collinear vertices: split an edge at an interior lattice point when there is one
            let mut out = vec![];
            for i in 0..n {
                let (a, b) = (r[i], r[(i + 1) % n]);
                out.push(a);
                if rng.chance(1, 5) {
                    let (dx, dy) = (b.0 - a.0, b.1 - a.1);
                    let g = gcd(dx.abs(), dy.abs());
                    if g > 1 {
                        let k = rng.range(1, g - 1);
                        out.push((a.0 + dx / g * k, a.1 + dy / g * k));
                    }
                }
            }
            let mut cs: Vec<Coord<f64>> = out.into_iter().map(tf).map(|(x, y)| c(x, y)).collect();
            // random start vertex / direction
            let m = cs.len();
            cs.rotate_left(rng.below(m as u64) as usize);
            if rng.chance(1, 2) {
                cs.reverse();
            }
            let f = cs[0];
            cs.push(f);
            rings.push(LineString(cs));
        }
        let ext = rings.remove(0);
        polys.push(Polygon::new(ext, rings));
    }
    MultiPolygon(polys)
}

fn gcd(a: i64, b: i64) -> i64 {
    if b == 0 { a } else { gcd(b, a % b) }
}

// ---------------------------------------------------------------------------------------------
// long geometries: more vertices than any small-input threshold (16 / 32 / 64 / 128 / 256 / 1024) an
// implementation might switch code paths at; all on the integer lattice, so every model stays exact

/// strictly convex lattice polygon with `2m + 2` distinct vertices: the parabola `(i, i²)`, `i = −m … m`, closed by
/// the chord on top; counter-clockwise, closed ring
pub fn parabola_ring(m: i64) -> Vec<Coord<f64>> {
    let mut v: Vec<Coord<f64>> = (-m..=m).map(|i| c(i, i * i)).collect();
    let first = v[0];
    v.push(first);
    v
}

/// simple zig-zag path with `n` vertices: `(i, 0)` / `(i, h)` alternating, starting at `(x0, y0)`; `vertical` swaps the axes
pub fn zigzag(n: usize, h: i64, x0: i64, y0: i64, vertical: bool) -> Vec<Coord<f64>> {
    (0..n as i64).map(|i| { let (x, y) = (x0 + i, y0 + if i % 2 == 0 { 0 } else { h }); if vertical { c(y, x) } else { c(x, y) } }).collect()
}

/// a vertex count just beyond a typical threshold
pub fn long_count(rng: &mut Rng) -> usize {
    let base = *rng.pick(&[17usize, 33, 65, 65, 129, 129, 257, 257, 300, 513, 1025]);
    base + rng.below(6) as usize
}

/// A segment a–b through the origin region with coordinates of mixed sign and a point *exactly* on its line within two
/// ulps of an end (beyond it, on it, or just inside): slopes 0, ∞, ±1, ±2, ±1/2 keep the point on the line exactly.
/// Returns (a, b, point).
pub fn ulp_beyond_end(rng: &mut Rng) -> (Coord<f64>, Coord<f64>, Coord<f64>) {
    let s = 2f64.powi(rng.range(-3, 30) as i32);
    let (i, j) = (rng.range(1, 9) as f64 * s, rng.range(1, 9) as f64 * s * if rng.chance(1, 4) { 0.1 } else { 1.0 });
    // direction (dx, dy) with |dx|, |dy| powers of two or zero: y = r·x is exact for every f64 x
    let (rx, ry) = *rng.pick(&[(1.0, 0.0), (0.0, 1.0), (1.0, 1.0), (1.0, -1.0), (1.0, 2.0), (2.0, 1.0), (1.0, -2.0), (-2.0, 1.0)]);
    let at = |t: f64| Coord { x: rx * t, y: ry * t };
    let (a, b) = (at(-i), at(j));
    let step = |t: f64, k: i64| -> f64 {
        let mut bits = t.to_bits() as i64;
        bits += if t >= 0.0 { k } else { -k };
        f64::from_bits(bits as u64)
    };
    let k = *rng.pick(&[-2i64, -1, 0, 1, 1, 1, 2]);
    let t = if rng.chance(1, 2) { step(j, k) } else { -step(i, k) };
    let (a, b) = if rng.chance(1, 2) { (a, b) } else { (b, a) };
    (a, b, at(t))
}

/// A plate with a U-shaped (non-convex) hole — a tongue of the plate hangs into the hole — and a partner whose vertices
/// all lie strictly inside the hole: it meets the plate exactly when one of its edges crosses the tongue (or it covers it).
pub fn tongue_pair(rng: &mut Rng) -> (Geometry<f64>, Geometry<f64>) {
    let sym = rng.below(8);
    let (ox, oy) = (rng.range(-2, 2), rng.range(-2, 2));
    let tf = |(x, y): (i64, i64)| -> (i64, i64) {
        let (x, y) = if sym & 1 != 0 { (10 - x, y) } else { (x, y) };
        let (x, y) = if sym & 2 != 0 { (x, 10 - y) } else { (x, y) };
        let (x, y) = if sym & 4 != 0 { (y, x) } else { (x, y) };
        (x + ox, y + oy)
    };
    let ring = |v: &[(i64, i64)]| -> Vec<(i64, i64)> {
        let mut r: Vec<(i64, i64)> = v.iter().map(|&q| tf(q)).collect();
        r.push(r[0]);
        r
    };
    let shell = ring(&[(0, 0), (10, 0), (10, 10), (0, 10)]);
    let hole = ring(&[(1, 1), (9, 1), (9, 9), (6, 9), (6, 3), (4, 3), (4, 9), (1, 9)]);
    let plate = Polygon::new(LineString(ring_variant(rng, &shell)), vec![LineString(ring_variant(rng, &hole))]);
    let in_hole = |rng: &mut Rng| -> (i64, i64) {
        loop {
            let (x, y) = (rng.range(2, 8), rng.range(2, 8));
            if !((4..=6).contains(&x) && y >= 3) { return (x, y); }
        }
    };
    let (a, b, c3, d) = (in_hole(rng), in_hole(rng), in_hole(rng), in_hole(rng));
    let cc = |q: (i64, i64)| { let (x, y) = tf(q); c(x, y) };
    let tri = Triangle(cc(a), cc(b), cc(c3));
    let partner = match rng.below(8) {
        0 => Geometry::Triangle(tri),
        1 => Geometry::Polygon(tri.to_polygon()),
        2 => Geometry::MultiPolygon(MultiPolygon(vec![tri.to_polygon()])),
        3 => Geometry::GeometryCollection(GeometryCollection(vec![Geometry::Triangle(tri)])),
        4 => Geometry::Rect(Rect::new(cc(a), cc(b))),
        5 => Geometry::Line(Line::new(cc(a), cc(b))),
        6 => Geometry::LineString(LineString(vec![cc(a), cc(b), cc(c3), cc(d)])),
        _ => Geometry::Polygon(Polygon::new(LineString(vec![cc((2, 8)), cc((5, 2)), cc((8, 8)), cc((2, 8))]), vec![])),
    };
    let plate_g = if rng.chance(1, 4) { Geometry::MultiPolygon(MultiPolygon(vec![plate])) } else { Geometry::Polygon(plate) };
    (plate_g, partner)
}

/// A diamond (or a concave kite) with a central hole and a partner that lies in the corners of the shell's bounding box:
/// outside the shell although inside its box; the nearest ring is the shell, not the hole.
pub fn box_corner_pair(rng: &mut Rng) -> (Geometry<f64>, Geometry<f64>) {
    let (ox, oy) = (rng.range(-3, 3), rng.range(-3, 3));
    let cc = |x: i64, y: i64| c(x + ox, y + oy);
    let shell: Vec<(i64, i64)> = if rng.chance(2, 3) {
        vec![(6, 0), (12, 6), (6, 12), (0, 6), (6, 0)]
    } else {
        vec![(6, 0), (12, 6), (7, 7), (6, 12), (0, 6), (6, 0)] // a reflex corner towards the top right
    };
    let hole: Vec<(i64, i64)> = vec![(5, 5), (7, 5), (6, 7), (5, 5)];
    let sh: Vec<(i64, i64)> = shell.iter().map(|&(x, y)| (x + ox, y + oy)).collect();
    let ho: Vec<(i64, i64)> = hole.iter().map(|&(x, y)| (x + ox, y + oy)).collect();
    let poly = Polygon::new(LineString(ring_variant(rng, &sh)), vec![LineString(ring_variant(rng, &ho))]);
    let corner = |rng: &mut Rng| -> (i64, i64) {
        loop {
            let (x, y) = (rng.range(0, 12), rng.range(0, 12));
            if (x - 6).abs() + (y - 6).abs() > 6 { return (x, y); }
        }
    };
    let (a, b, c3) = (corner(rng), corner(rng), corner(rng));
    let partner = match rng.below(6) {
        0 | 1 | 2 => Geometry::Line(Line::new(cc(a.0, a.1), cc(b.0, b.1))),
        3 => Geometry::LineString(LineString(vec![cc(a.0, a.1), cc(b.0, b.1), cc(c3.0, c3.1)])),
        4 => Geometry::Point(Point(cc(a.0, a.1))),
        _ => Geometry::Triangle(Triangle(cc(a.0, a.1), cc(b.0, b.1), cc(c3.0, c3.1))),
    };
    let pg = match rng.below(4) {
        0 => Geometry::MultiPolygon(MultiPolygon(vec![poly])),
        1 => Geometry::GeometryCollection(GeometryCollection(vec![Geometry::Polygon(poly)])),
        _ => Geometry::Polygon(poly),
    };
    (pg, partner)
}
