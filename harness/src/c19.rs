//! C19 — traversal, mapping, bounding boxes, extremes.
use crate::gen::*;
use crate::proto::{self, Toks, R};
use crate::rng::Rng;
use geo::algorithm::bounding_rect::BoundingRect;
use geo::algorithm::coords_iter::CoordsIter;
use geo::algorithm::extremes::Extremes;
use geo::algorithm::lines_iter::LinesIter;
use geo::algorithm::map_coords::{MapCoords, MapCoordsInPlace};
use geo_types::*;

pub fn gen(rng: &mut Rng, _index: u64) -> String {
    if rng.chance(1, 40) {
        // wide integers: neighbours of 2^53 … 2^62 and their negatives
        let e = rng.range(53, 62) as u32;
        let n = rng.range(2, 6);
        let mut s = format!("C19.bboxi {}", n);
        for _ in 0..n {
            let v = |rng: &mut Rng| { let b = 1i64 << e; let x = b + rng.range(-3, 3); if rng.chance(1, 3) { -x } else { x } };
            s.push_str(&format!(" {} {}", v(rng), v(rng)));
        }
        return s;
    }
    let k = grid_size(rng);
    let g = gen_any_geom(rng, k, 3);
    if rng.chance(1, 2) {
        format!("C19.trav {}", proto::geom(&g))
    } else {
        let f = match rng.below(6) {
            0 => format!("const {}", proto::coord(grid_coord(rng, k))),
            1 => "aff 0 1 0 1 0 0".to_string(),   // axis swap
            2 => "aff -1 0 0 0 2 0".to_string(),  // reflect x, scale y by 2
            3 => "aff 0 -1 0 1 0 0".to_string(),  // quarter turn
            _ => format!(
                "aff {} {} {} {} {} {}",
                rng.range(-3, 3), rng.range(-3, 3), rng.range(-9, 9),
                rng.range(-3, 3), rng.range(-3, 3), rng.range(-9, 9)
            ),
        };
        let cs: Vec<Coord<f64>> = g.coords_iter().collect();
        let fail = if rng.chance(1, 2) {
            "nofail".to_string()
        } else if cs.len() >= 2 && rng.chance(1, 3) {
            // two rejected coordinates (often one in the exterior and one in a hole / a later member): the error must be
            // the one that comes first in traversal order, for every entry point
            format!("failat2 {} {}", proto::coord(*rng.pick(&cs)), proto::coord(*rng.pick(&cs)))
        } else if !cs.is_empty() && rng.chance(5, 6) {
            format!("failat {}", proto::coord(*rng.pick(&cs)))
        } else {
            format!("failat {}", proto::coord(grid_coord(rng, k)))
        };
        format!("C19.map {} {} {}", f, fail, proto::geom(&g))
    }
}

fn lines_of(g: &Geometry<f64>) -> Option<Vec<Line<f64>>> {
    Some(match g {
        Geometry::Line(x) => x.lines_iter().collect(),
        Geometry::LineString(x) => x.lines_iter().collect(),
        Geometry::MultiLineString(x) => x.lines_iter().collect(),
        Geometry::Polygon(x) => x.lines_iter().collect(),
        Geometry::MultiPolygon(x) => x.lines_iter().collect(),
        Geometry::Rect(x) => x.lines_iter().collect(),
        Geometry::Triangle(x) => x.lines_iter().collect(),
        _ => return None,
    })
}

fn eval_trav(t: &mut Toks) -> R<String> {
    let g = t.geom()?;
    let coords: Vec<Coord<f64>> = g.coords_iter().collect();
    let ext: Vec<Coord<f64>> = g.exterior_coords_iter().collect();
    let mut s = format!(
        "count {} coords {} ext {} lines ",
        g.coords_count(),
        proto::coords(&coords),
        proto::coords(&ext)
    );
    match lines_of(&g) {
        None => s.push_str("none"),
        Some(ls) => {
            s.push_str(&format!("some {}", ls.len()));
            for l in ls {
                s.push_str(&format!(" {} {}", proto::coord(l.start), proto::coord(l.end)));
            }
        }
    }
    s.push_str(" bbox ");
    match g.bounding_rect() {
        None => s.push_str("none"),
        Some(r) => s.push_str(&format!("some {} {}", proto::coord(r.min()), proto::coord(r.max()))),
    }
    s.push_str(" extremes ");
    match g.extremes() {
        None => s.push_str("none"),
        Some(o) => {
            s.push_str("some");
            for e in [&o.x_min, &o.y_min, &o.x_max, &o.y_max] {
                s.push_str(&format!(" {} {}", e.index, proto::coord(e.coord)));
            }
        }
    }
    Ok(s)
}

#[derive(Clone, Copy)]
enum MapFn {
    Aff([f64; 6]),
    Const(Coord<f64>),
}
impl MapFn {
    fn apply(&self, p: Coord<f64>) -> Coord<f64> {
        match self {
            MapFn::Aff(m) => Coord { x: m[0] * p.x + m[1] * p.y + m[2], y: m[3] * p.x + m[4] * p.y + m[5] },
            MapFn::Const(c) => *c,
        }
    }
}

fn try_str(r: Result<Geometry<f64>, Coord<f64>>) -> String {
    match r {
        Ok(g) => format!("ok {}", proto::geom(&g)),
        Err(c) => format!("err {}", proto::coord(c)),
    }
}

fn eval_map(t: &mut Toks) -> R<String> {
    let f = match t.tok()? {
        "aff" => {
            let mut m = [0.0; 6];
            for v in m.iter_mut() {
                *v = t.i64()? as f64;
            }
            MapFn::Aff(m)
        }
        "const" => MapFn::Const(t.coord()?),
        x => return Err(format!("bad map fn {}", x)),
    };
    let fail = match t.tok()? {
        "nofail" => None,
        "failat" => Some(vec![t.coord()?]),
        "failat2" => Some(vec![t.coord()?, t.coord()?]),
        x => return Err(format!("bad fail spec {}", x)),
    };
    let g = t.geom()?;
    let ff = |p: Coord<f64>| -> Result<Coord<f64>, Coord<f64>> {
        match fail {
            Some(ref qs) if qs.contains(&p) => Err(p),
            _ => Ok(f.apply(p)),
        }
    };
    let mapped = g.map_coords(|p| f.apply(p));
    let mut inplace = g.clone();
    inplace.map_coords_in_place(|p| f.apply(p));
    let tr = g.try_map_coords(ff);
    // `Geometry::try_map_coords_in_place` cannot be instantiated at all (the GeometryCollection
    // impl recurses with `&func`, an infinite type); dispatch to the concrete types by hand.
    macro_rules! tip {
        ($x:expr, $v:path) => {{
            let mut c = $x.clone();
            Some(c.try_map_coords_in_place(ff).map(|_| $v(c)))
        }};
    }
    let tir: Option<Result<Geometry<f64>, Coord<f64>>> = match &g {
        Geometry::Point(x) => tip!(x, Geometry::Point),
        Geometry::Line(x) => tip!(x, Geometry::Line),
        Geometry::LineString(x) => tip!(x, Geometry::LineString),
        Geometry::Polygon(x) => tip!(x, Geometry::Polygon),
        Geometry::MultiPoint(x) => tip!(x, Geometry::MultiPoint),
        Geometry::MultiLineString(x) => tip!(x, Geometry::MultiLineString),
        Geometry::MultiPolygon(x) => tip!(x, Geometry::MultiPolygon),
        Geometry::Rect(x) => tip!(x, Geometry::Rect),
        Geometry::Triangle(x) => tip!(x, Geometry::Triangle),
        Geometry::GeometryCollection(_) => None,
    };
    Ok(format!(
        "map {} inplace {} try {} tryinplace {}",
        proto::geom(&mapped),
        proto::geom(&inplace),
        try_str(tr),
        match tir { Some(r) => try_str(r), None => "na".to_string() }
    ))
}

pub fn eval(op: &str, t: &mut Toks) -> R<String> {
    match op {
        "C19.trav" => eval_trav(t),
        "C19.map" => eval_map(t),
        "C19.bboxi" => {
            // i64 coordinates beyond 2^53 (distinct integers that collapse in f64): `Rect::new` on the first two,
            // `bounding_rect` of the line string, the multi point and the polygon made of all of them
            let n = t.usize()?;
            let mut cs: Vec<Coord<i64>> = vec![];
            for _ in 0..n {
                cs.push(Coord { x: t.i64()?, y: t.i64()? });
            }
            if cs.len() < 2 { return Err("bboxi needs two coordinates".into()); }
            let r = Rect::new(cs[0], cs[1]);
            let ls = LineString(cs.clone());
            let mp = MultiPoint(cs.iter().map(|c| Point(*c)).collect::<Vec<_>>());
            let pg = Polygon::new(ls.clone(), vec![]);
            let rs = |r: Option<Rect<i64>>| match r { None => "none".to_string(), Some(r) => format!("{} {} {} {}", r.min().x, r.min().y, r.max().x, r.max().y) };
            Ok(format!("rect {} ls {} mp {} pg {}", rs(Some(r)), rs(ls.bounding_rect()), rs(mp.bounding_rect()), rs(pg.bounding_rect())))
        }
        _ => Err(format!("unknown op {}", op)),
    }
}
