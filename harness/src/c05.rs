//! C05 — planar area, ring winding order, polygon orientation.
//!
//! Ops (input text → output text):
//!   C05.area <geom>             → `signed <num> unsigned <num>` and, for RC / TR inputs,
//!                                  ` poly <num> <num>` (areas of `to_polygon()`)
//!   C05.wind <n x y …>          → `<none|Clockwise|CounterClockwise> cw <bool> ccw <bool>`
//!                                  (ring taken as written: a LineString, never closed)
//!   C05.orient <default|reversed> <PG …|MPG …>  → the oriented geometry
use crate::gen::*;
use crate::proto::{self, Toks, R};
use crate::rng::Rng;
use geo::algorithm::area::Area;
use geo::algorithm::orient::{Direction, Orient};
use geo::algorithm::winding_order::{Winding, WindingOrder};
use geo_types::*;

type C = Coord<f64>;

fn c(x: f64, y: f64) -> C {
    Coord { x, y }
}

// ------------------------------------------------------------------ ring shapes (integer)

/// Star-shaped ring around a half-grid centre: distinct directions sorted by angle, one vertex
/// per direction. Non-convex, oblique edges; simple by construction (the driver re-decides).
fn star_ring(rng: &mut Rng, k: i64) -> Vec<(i64, i64)> {
    let n = rng.range(3, 9) as usize;
    // centre (cx+1/2, cy+1/2): work in doubled coordinates
    let cx = 2 * rng.range(0, k - 1) + 1;
    let cy = 2 * rng.range(0, k - 1) + 1;
    let mut pts: Vec<(i64, i64)> = vec![];
    for _ in 0..4 * n {
        let p = (rng.range(0, k), rng.range(0, k));
        let d = (2 * p.0 - cx, 2 * p.1 - cy);
        // keep one point per direction (exact integer test: parallel and same sense)
        if pts.iter().all(|q| {
            let e = (2 * q.0 - cx, 2 * q.1 - cy);
            !(d.0 * e.1 - d.1 * e.0 == 0 && d.0 * e.0 + d.1 * e.1 > 0)
        }) {
            pts.push(p);
        }
        if pts.len() == n {
            break;
        }
    }
    pts.sort_by(|a, b| {
        let aa = ((2 * a.1 - cy) as f64).atan2((2 * a.0 - cx) as f64);
        let bb = ((2 * b.1 - cy) as f64).atan2((2 * b.0 - cx) as f64);
        aa.partial_cmp(&bb).unwrap()
    });
    pts
}

/// Two-sided histogram: rectilinear, simple, many collinear vertices, vertical/horizontal edges.
fn histogram_ring(rng: &mut Rng, k: i64) -> Vec<(i64, i64)> {
    let m = rng.range(1, 5);
    let mid = k / 2;
    let mut bot = vec![];
    let mut top = vec![];
    for _ in 0..m {
        bot.push(rng.range(0, mid.max(1) - 1));
        top.push(rng.range(mid.max(1), k.max(mid + 1)));
    }
    let mut r = vec![];
    for i in 0..m as usize {
        r.push((i as i64, bot[i]));
        r.push((i as i64 + 1, bot[i]));
    }
    for i in (0..m as usize).rev() {
        r.push((i as i64 + 1, top[i]));
        r.push((i as i64, top[i]));
    }
    // drop exact consecutive repeats produced by equal neighbours (kept sometimes on purpose)
    if rng.chance(3, 4) {
        r.dedup();
    }
    r
}

fn junk_ring(rng: &mut Rng, k: i64) -> Vec<(i64, i64)> {
    let n = *rng.pick(&[0usize, 1, 2, 3, 3, 4, 4, 5, 6, 7]);
    (0..n).map(|_| (rng.range(0, k), rng.range(0, k))).collect()
}

/// exact similarities of the integer grid (keep simplicity, move the pivot around)
fn similarity(rng: &mut Rng, r: &mut [(i64, i64)], k: i64) {
    match rng.below(6) {
        0 => {}
        1 => r.iter_mut().for_each(|p| *p = (p.1, p.0)),
        2 => r.iter_mut().for_each(|p| *p = (k - p.0, p.1)),
        3 => r.iter_mut().for_each(|p| *p = (p.0, k - p.1)),
        4 => r.iter_mut().for_each(|p| *p = (k - p.1, p.0)),
        _ => r.iter_mut().for_each(|p| *p = (k - p.0, k - p.1)),
    }
}

/// One open vertex cycle → a ring as the API sees it: random start, random direction, optional
/// repeated vertices, closed (optionally doubly closed, optionally left open).
fn dress(rng: &mut Rng, mut cyc: Vec<(i64, i64)>, allow_open: bool) -> Vec<(i64, i64)> {
    if cyc.is_empty() {
        return cyc;
    }
    let n = cyc.len();
    match rng.below(4) {
        0 => {}
        1 => cyc.rotate_left(n - 1), // least vertex often ends up last
        _ => cyc.rotate_left(rng.below(n as u64) as usize),
    }
    if rng.chance(1, 2) {
        cyc.reverse();
    }
    if rng.chance(1, 5) {
        // repeat some vertices in place
        let mut out = vec![];
        for p in cyc {
            out.push(p);
            if rng.chance(1, 3) {
                out.push(p);
                if rng.chance(1, 4) {
                    out.push(p);
                }
            }
        }
        cyc = out;
    }
    if allow_open && rng.chance(1, 12) {
        return cyc; // open (winding_order: None; Polygon::new closes it)
    }
    let f = cyc[0];
    cyc.push(f);
    if rng.chance(1, 10) {
        cyc.push(f); // repeated closing vertex
    }
    cyc
}

fn int_ring(rng: &mut Rng, k: i64, allow_open: bool) -> Vec<(i64, i64)> {
    let mut cyc = match rng.below(10) {
        0 => junk_ring(rng, k),
        1..=5 => star_ring(rng, k),
        _ => histogram_ring(rng, k),
    };
    similarity(rng, &mut cyc, k);
    dress(rng, cyc, allow_open)
}

// ------------------------------------------------------------------ placement

/// How integer shapes are placed in the plane. `Exact`: integer scale (power of two) and integer
/// offset (regime G, every f64 intermediate exact when the driver's bound holds). `Rounded`:
/// arbitrary f64 scale and offset (regime R).
#[derive(Clone, Copy)]
enum Place {
    Exact { scale: i64, ox: i64, oy: i64 },
    Rounded { sx: f64, sy: f64, ox: f64, oy: f64 },
}

fn gen_place(rng: &mut Rng) -> Place {
    if rng.chance(3, 5) {
        let scale = *rng.pick(&[1i64, 1, 1, 2, 8, 1 << 10]);
        let off = |rng: &mut Rng| -> i64 {
            match rng.below(8) {
                0 | 1 | 2 => 0,
                3 => rng.range(-20, 20),
                4 => rng.range(-100000, 100000),
                5 => (1 << 27) - rng.range(0, 64),
                6 => -(1 << 27) + rng.range(0, 64),
                _ => 100000000 + rng.range(-50, 50),
            }
        };
        let ox = off(rng);
        let oy = if rng.chance(1, 2) { ox } else { off(rng) };
        Place::Exact { scale, ox, oy }
    } else {
        let sc = |rng: &mut Rng| -> f64 {
            match rng.below(4) {
                0 => 1.0,
                1 => 0.1,
                2 => 1.0 + rng.unit(),
                _ => (rng.unit() + 0.01) * 1e3,
            }
        };
        let off = |rng: &mut Rng| -> f64 {
            match rng.below(6) {
                0 => 0.0,
                1 => (rng.unit() - 0.5) * 10.0,
                2 => (rng.unit() - 0.5) * 1e4,
                3 => 1e8,
                4 => -1e8 + rng.unit(),
                _ => (rng.unit() - 0.5) * 2e8,
            }
        };
        let sx = sc(rng);
        let sy = if rng.chance(1, 2) { sx } else { sc(rng) };
        Place::Rounded { sx, sy, ox: off(rng), oy: off(rng) }
    }
}

fn place(pl: Place, p: (i64, i64)) -> C {
    match pl {
        Place::Exact { scale, ox, oy } => c((p.0 * scale + ox) as f64, (p.1 * scale + oy) as f64),
        Place::Rounded { sx, sy, ox, oy } => c(p.0 as f64 * sx + ox, p.1 as f64 * sy + oy),
    }
}

fn placed_ring(pl: Place, r: &[(i64, i64)]) -> Vec<C> {
    r.iter().map(|p| place(pl, *p)).collect()
}

/// polygon: exterior on a `4k` grid, 0–3 holes on a `k` grid shifted into the exterior's box;
/// every ring has its own winding.
fn gen_polygon(rng: &mut Rng, pl: Place) -> Polygon<f64> {
    let k = grid_size(rng);
    let mut ext = int_ring(rng, k, true);
    ext.iter_mut().for_each(|p| *p = (4 * p.0, 4 * p.1));
    let nh = *rng.pick(&[0usize, 0, 0, 1, 1, 2, 3]);
    let mut holes = vec![];
    for _ in 0..nh {
        let mut h = int_ring(rng, k, true);
        let (dx, dy) = (rng.range(0, 3 * k), rng.range(0, 3 * k));
        let big = rng.chance(1, 12);
        h.iter_mut().for_each(|p| {
            *p = if big { (5 * p.0 - dx, 5 * p.1 - dy) } else { (p.0 + dx, p.1 + dy) }
        });
        holes.push(LineString(placed_ring(pl, &h)));
    }
    Polygon::new(LineString(placed_ring(pl, &ext)), holes)
}

fn gen_area_geom(rng: &mut Rng, pl: Place, depth: u32) -> Geometry<f64> {
    let k = grid_size(rng);
    let top = if depth == 0 { 9 } else { 11 };
    match rng.below(top) {
        0..=3 => Geometry::Polygon(gen_polygon(rng, pl)),
        4 => {
            let a = (rng.range(0, k), rng.range(0, k));
            let b = (rng.range(0, k), rng.range(0, k));
            Geometry::Rect(Rect::new(place(pl, a), place(pl, b)))
        }
        5 | 6 => {
            let t: Vec<C> = (0..3).map(|_| place(pl, (rng.range(0, k), rng.range(0, k)))).collect();
            Geometry::Triangle(Triangle(t[0], t[1], t[2]))
        }
        7 => Geometry::MultiPolygon(MultiPolygon((0..rng.below(4)).map(|_| gen_polygon(rng, pl)).collect())),
        8 => match rng.below(4) {
            // zero-area types
            0 => Geometry::Point(Point(place(pl, (rng.range(0, k), rng.range(0, k))))),
            1 => Geometry::LineString(LineString(placed_ring(pl, &int_ring(rng, k, true)))),
            2 => Geometry::MultiLineString(MultiLineString(vec![LineString(placed_ring(pl, &int_ring(rng, k, true)))])),
            _ => Geometry::Line(Line::new(place(pl, (0, 0)), place(pl, (k, 1)))),
        },
        _ => Geometry::GeometryCollection(GeometryCollection(
            (0..rng.below(4)).map(|_| gen_area_geom(rng, pl, depth - 1)).collect(),
        )),
    }
}

pub fn gen(rng: &mut Rng, _index: u64) -> String {
    let pl = gen_place(rng);
    if rng.chance(1, 60) {
        // rings with hundreds of vertices (with a hole of the same kind, at an offset now and then)
        let m = (crate::shapes::long_count(rng) as i64 / 2).min(600);
        let off = if rng.chance(1, 3) { 100_000_000.0 } else { 0.0 };
        let sh = |v: Vec<Coord<f64>>, s: f64, dy: f64| -> LineString<f64> { LineString(v.into_iter().map(|c| Coord { x: c.x * s + off, y: c.y * s + dy + off }).collect()) };
        let ext = sh(crate::shapes::parabola_ring(m), 4.0, 0.0);
        let holes = if rng.chance(1, 2) && m > 8 { vec![sh(crate::shapes::parabola_ring(m / 2), 2.0, (m * m) as f64)] } else { vec![] };
        let mut p = Polygon::new(ext, holes);
        if rng.chance(1, 2) { p.exterior_mut(|e| e.0.reverse()); }
        let g = if rng.chance(1, 3) { Geometry::MultiPolygon(MultiPolygon(vec![p])) } else { Geometry::Polygon(p) };
        return format!("C05.area {}", proto::geom(&g));
    }
    match rng.below(20) {
        0..=8 => format!("C05.area {}", proto::geom(&gen_area_geom(rng, pl, 2))),
        9 => {
            // shared wild generator: all ten types, wild floats, deep nesting
            let k = grid_size(rng);
            format!("C05.area {}", proto::geom(&gen_any_geom(rng, k, 3)))
        }
        10 => {
            // `triangle_winding_order` (winding_order.rs): grid triangles, exactly collinear triples (in every
            // direction, so that the rounded cross product can come out as -0.0) and near-collinear float triples
            let k = grid_size(rng);
            let (a, b, c) = match rng.below(4) {
                0 => (grid_coord(rng, k), grid_coord(rng, k), grid_coord(rng, k)),
                1 => {
                    let a = grid_coord(rng, k);
                    let (dx, dy) = (rng.range(-3, 3) as f64, rng.range(-3, 3) as f64);
                    let (s, t) = (rng.range(-4, 4) as f64, rng.range(-4, 4) as f64);
                    (a, Coord { x: a.x + s * dx, y: a.y + s * dy }, Coord { x: a.x + t * dx, y: a.y + t * dy })
                }
                _ => {
                    let a = wild_coord(rng);
                    let b = wild_coord(rng);
                    let t = rng.unit() * 3.0 - 1.0;
                    let mut c = Coord { x: a.x + t * (b.x - a.x), y: a.y + t * (b.y - a.y) };
                    if rng.chance(1, 2) { c.y = f64::from_bits(c.y.to_bits() ^ (rng.below(4))); }
                    (a, b, c)
                }
            };
            format!("C05.triwo {} {} {}", proto::coord(a), proto::coord(b), proto::coord(c))
        }
        11..=15 => {
            let k = grid_size(rng);
            let mut r = int_ring(rng, k, true);
            if rng.chance(1, 2) {
                r.iter_mut().for_each(|p| *p = (4 * p.0, 4 * p.1));
            }
            format!("C05.wind {}", proto::coords(&placed_ring(pl, &r)))
        }
        _ => {
            let dir = if rng.chance(1, 2) { "default" } else { "reversed" };
            let g = if rng.chance(3, 4) {
                Geometry::Polygon(gen_polygon(rng, pl))
            } else {
                Geometry::MultiPolygon(MultiPolygon((0..rng.below(4)).map(|_| gen_polygon(rng, pl)).collect()))
            };
            format!("C05.orient {} {}", dir, proto::geom(&g))
        }
    }
}

// ------------------------------------------------------------------ evaluation (real geo API)

fn eval_area(t: &mut Toks) -> R<String> {
    let g = t.geom()?;
    let mut s = format!("signed {} unsigned {}", proto::num(g.signed_area()), proto::num(g.unsigned_area()));
    match &g {
        Geometry::Rect(r) => {
            let p = if (r.min().x.to_bits() ^ r.max().y.to_bits().rotate_left(5)) % 2 == 0 { r.to_polygon() } else { Polygon::from(*r) };
            s.push_str(&format!(" poly {} {}", proto::num(p.signed_area()), proto::num(p.unsigned_area())));
        }
        Geometry::Triangle(tr) => {
            // the two ways to the polygon form, in rotation (decided by the corners): `to_polygon()` and `Polygon::from`;
            // both keep the corners as stored, so the signed area is that of the triangle as written
            let pick = (tr.0.x.to_bits() ^ tr.1.y.to_bits().rotate_left(7) ^ tr.2.x.to_bits().rotate_left(13)) % 2;
            let p = if pick == 0 { tr.to_polygon() } else { Polygon::from(*tr) };
            s.push_str(&format!(" poly {} {}", proto::num(p.signed_area()), proto::num(p.unsigned_area())));
        }
        _ => {}
    }
    Ok(s)
}

fn eval_wind(t: &mut Toks) -> R<String> {
    let ls = LineString(t.coords()?);
    let w = match ls.winding_order() {
        None => "none",
        Some(WindingOrder::Clockwise) => "Clockwise",
        Some(WindingOrder::CounterClockwise) => "CounterClockwise",
    };
    Ok(format!("{} cw {} ccw {}", w, ls.is_cw(), ls.is_ccw()))
}

fn eval_orient(t: &mut Toks) -> R<String> {
    let dir = match t.tok()? {
        "default" => Direction::Default,
        "reversed" => Direction::Reversed,
        x => return Err(format!("bad direction {}", x)),
    };
    let g = t.geom()?;
    let o = match g {
        Geometry::Polygon(p) => Geometry::Polygon(p.orient(dir)),
        Geometry::MultiPolygon(mp) => Geometry::MultiPolygon(mp.orient(dir)),
        _ => return Err("orient: PG or MPG expected".into()),
    };
    Ok(proto::geom(&o))
}

pub fn eval(op: &str, t: &mut Toks) -> R<String> {
    match op {
        "C05.area" => eval_area(t),
        "C05.wind" => eval_wind(t),
        "C05.orient" => eval_orient(t),
        "C05.triwo" => {
            let tri = Triangle(t.coord()?, t.coord()?, t.coord()?);
            Ok(match geo::algorithm::winding_order::triangle_winding_order(&tri) {
                None => "none",
                Some(WindingOrder::Clockwise) => "Clockwise",
                Some(WindingOrder::CounterClockwise) => "CounterClockwise",
            }
            .to_string())
        }
        _ => Err(format!("unknown op {}", op)),
    }
}
