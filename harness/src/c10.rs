//! C10 — triangulations (ear-cut, Delaunay via spade), monotone subdivision, stitching.
//!
//!   C10.earcut <PG>                   => verts <n> <num…> idx <m> <i…> tris <t> <TR…>…
//!   C10.cdt <PG|MPG>                  => ct <ok n TR…|err> co <ok n TR…|err> un <ok n TR…|err>
//!   C10.mono <PG|MPG> Q x0 y0 step nx ny => n <k> (top <pts> bot <pts> poly <k> <ring>…)* pi <bits> mi <bits> pos (<chars>)*
//!   C10.stitch <earcut|cdt> <PG|MPG>  => tris <ok n TR…|err> res <ok <MPG…>|err>
//!   C10.monobuild <PG|MPG>            => n <k> (top <pts> bot <pts>)* | panic   (the pieces of monotone_subdivision, in order)
//!
//! `Q x0 y0 step nx ny`: the query lattice `(x0 + i*step, y0 + j*step)` (step = half a grid unit), `i < nx`, `j < ny`, row-major in
//! `j` then `i`. `pi` = `polygon.intersects(c)`, `mi` = `MonotonicPolygons.intersects(c)` (one
//! `0/1` character per lattice point), `pos` = per piece `coordinate_position` (`I`/`B`/`O`).
use crate::proto::{self, Toks, R};
use crate::rng::Rng;
use crate::shapes::*;
use geo::algorithm::map_coords::MapCoords;
use geo::coordinate_position::{CoordPos, CoordinatePosition};
use geo::triangulate_delaunay::DelaunayTriangulationConfig;
use geo::{BoundingRect, Intersects, MonotonicPolygons, StitchTriangles, TriangulateDelaunay, TriangulateEarcut};
use geo_types::*;

// ------------------------------------------------------------------ generation

fn poly_from(v: &[(i64, i64)], holes: &[&[(i64, i64)]]) -> Polygon<f64> {
    let ls = |r: &[(i64, i64)]| LineString(r.iter().map(|&(x, y)| c(x, y)).collect());
    Polygon::new(ls(v), holes.iter().map(|h| ls(h)).collect())
}

/// hand-picked families: vertical first/last edges, vertical edges inside a chain, combs
fn special_polygon(rng: &mut Rng) -> Polygon<f64> {
    match rng.below(8) {
        // the L shape of DESIGN §8 F7 and its mirror images / rotations
        0 => {
            let base = [(0i64, 2i64), (0, 4), (3, 4), (3, 0), (1, 0), (1, 2)];
            let t = rng.below(8);
            let v: Vec<(i64, i64)> = base
                .iter()
                .map(|&(x, y)| {
                    let (x, y) = if t & 1 != 0 { (4 - x, y) } else { (x, y) };
                    let (x, y) = if t & 2 != 0 { (x, 4 - y) } else { (x, y) };
                    if t & 4 != 0 { (y, x) } else { (x, y) }
                })
                .collect();
            poly_from(&v, &[])
        }
        // staircase: vertical edges in the middle of the upper and lower chains
        1 => {
            let n = rng.range(1, 3);
            let mut v = vec![(0i64, 0i64)];
            for i in 0..n {
                v.push((2 * i + 2, i));
                v.push((2 * i + 2, i + 1));
            }
            let top_y = n + 2;
            v.push((2 * n + 1, top_y));
            for i in (0..n).rev() {
                v.push((2 * i + 1, top_y));
                v.push((2 * i + 1, top_y - 1));
            }
            v.push((0, top_y - 1));
            poly_from(&v, &[])
        }
        // comb with vertical teeth
        2 => {
            let n = rng.range(2, 4);
            let h = rng.range(2, 4);
            let mut v = vec![(0i64, 0i64), (2 * n - 1, 0)];
            for i in (0..n).rev() {
                v.push((2 * i + 1, h));
                v.push((2 * i, h));
                if i > 0 {
                    v.push((2 * i, 1));
                    v.push((2 * i - 1, 1));
                }
            }
            poly_from(&v, &[])
        }
        // square with a diamond hole touching nothing / a triangular hole with a vertical edge
        3 => {
            let k = rng.range(4, 6);
            let ext = [(0, 0), (k, 0), (k, k), (0, k)];
            if rng.chance(1, 2) {
                poly_from(&ext, &[&[(1, 2), (2, 1), (3, 2), (2, 3)]])
            } else {
                poly_from(&ext, &[&[(1, 1), (1, 3), (3, 2)]])
            }
        }
        // hole touching the shell at a point
        4 => {
            let ext = [(0, 0), (4, 0), (4, 4), (0, 4)];
            match rng.below(3) {
                0 => poly_from(&ext, &[&[(0, 2), (2, 1), (2, 3)]]),
                1 => poly_from(&ext, &[&[(2, 0), (3, 2), (1, 2)]]),
                _ => poly_from(&ext, &[&[(4, 4), (2, 3), (3, 2)]]),
            }
        }
        // two holes touching each other at a point
        5 => poly_from(&[(0, 0), (6, 0), (6, 4), (0, 4)], &[&[(1, 1), (3, 2), (1, 3)], &[(3, 2), (5, 1), (5, 3)]]),
        // triangle / quadrilateral with a vertical left edge
        6 => {
            let h = rng.range(1, 4);
            let w = rng.range(1, 4);
            if rng.chance(1, 2) {
                poly_from(&[(0, 0), (w, rng.range(0, h)), (0, h)], &[])
            } else {
                poly_from(&[(0, 0), (w, 0), (w, h), (0, h + rng.range(0, 2))], &[])
            }
        }
        // many collinear vertices on every edge
        _ => {
            let k = rng.range(2, 4);
            let mut v = vec![];
            for i in 0..k { v.push((i, 0)); }
            for i in 0..k { v.push((k, i)); }
            for i in 0..k { v.push((k - i, k)); }
            for i in 0..k { v.push((0, k - i)); }
            poly_from(&v, &[])
        }
    }
}

/// square / notched outer ring with 1..3 small holes placed in separate 2x2 blocks; blocks may
/// start at the shell (hole touching the shell) and big shapes reach the neighbouring block
/// (holes touching each other); whatever is invalid is skipped by the driver
fn holey_polygon(rng: &mut Rng) -> Polygon<f64> {
    let k = 6i64;
    let ext: Vec<(i64, i64)> = match rng.below(4) {
        0 => vec![(0, 0), (3, 0), (k, 0), (k, 3), (k, k), (3, k), (0, k), (0, 3)],
        1 => vec![(0, 0), (k, 0), (k, k), (3, k), (3, k - 1), (0, k - 1)],
        _ => vec![(0, 0), (k, 0), (k, k), (0, k)],
    };
    let shapes: [&[(i64, i64)]; 7] = [
        &[(0, 0), (1, 0), (1, 1), (0, 1)],
        &[(0, 0), (1, 0), (0, 1)],
        &[(1, 0), (2, 1), (1, 2), (0, 1)],
        &[(0, 0), (2, 1), (0, 2)],
        &[(0, 0), (2, 0), (2, 2)],
        &[(0, 0), (1, 0), (1, 1), (2, 1), (2, 2), (0, 2)],
        &[(0, 1), (2, 0), (2, 2)],
    ];
    let base = if rng.chance(1, 4) { 0 } else { 1 };
    let mut blocks = vec![(base, base), (base + 2, base), (base, base + 2), (base + 2, base + 2)];
    rng.shuffle(&mut blocks);
    let n = rng.range(1, 3) as usize;
    let mut holes: Vec<Vec<(i64, i64)>> = vec![];
    for b in blocks.iter().take(n) {
        let sh = *rng.pick(&shapes);
        holes.push(sh.iter().map(|&(x, y)| (x + b.0, y + b.1)).collect());
    }
    let hs: Vec<&[(i64, i64)]> = holes.iter().map(|h| &h[..]).collect();
    poly_from(&ext, &hs)
}

fn rot_ring(rng: &mut Rng, r: &LineString<f64>) -> LineString<f64> {
    if r.0.len() < 4 {
        return r.clone();
    }
    let n = r.0.len() - 1;
    let s = rng.below(n as u64) as usize;
    let mut v: Vec<Coord<f64>> = (0..n).map(|i| r.0[(s + i) % n]).collect();
    if rng.chance(1, 2) {
        v.reverse();
    }
    let f = v[0];
    v.push(f);
    LineString(v)
}

fn gen_poly(rng: &mut Rng) -> Polygon<f64> {
    let k = *rng.pick(&[3i64, 4, 4, 5, 6]);
    let pick = rng.below(4);
    if pick < 2 {
        let p = if pick == 0 { special_polygon(rng) } else { holey_polygon(rng) };
        Polygon::new(rot_ring(rng, p.exterior()), p.interiors().iter().map(|h| rot_ring(rng, h)).collect())
    } else {
        gen_polygon(rng, k)
    }
}

fn gen_geom(rng: &mut Rng, allow_multi: bool) -> Geometry<f64> {
    let g = if rng.chance(1, 8) {
        // hand-built tricky configurations (notch-tip tangency, combs, vertex-on-foreign-edge …), varied
        let mp = tricky_variant(rng);
        if mp.0.len() == 1 { Geometry::Polygon(mp.0[0].clone()) }
        else if allow_multi { Geometry::MultiPolygon(mp) }
        else { Geometry::Polygon(mp.0[0].clone()) }
    } else if allow_multi && rng.chance(1, 4) {
        let mut mp = gen_multipolygon(rng, 4);
        if mp.0.is_empty() {
            mp = MultiPolygon(vec![gen_poly(rng)]);
        }
        Geometry::MultiPolygon(mp)
    } else {
        Geometry::Polygon(gen_poly(rng))
    };
    // a quarter of the cases far from the origin / scaled by a power of two (exact)
    if rng.chance(1, 4) {
        let s = 2f64.powi(rng.range(-1, 3) as i32);
        let m = *rng.pick(&[20i64, 1000, 1 << 20, 1 << 27]);
        let (dx, dy) = (rng.range(-m, m) as f64, rng.range(-m, m) as f64);
        g.map_coords(move |p| Coord { x: (p.x + dx) * s, y: (p.y + dy) * s })
    } else {
        g
    }
}

/// 1..3 polygons of 1..2 rings of 3..7 arbitrary points of a small grid (nothing is valid on purpose)
fn wild_geom(rng: &mut Rng) -> Geometry<f64> {
    let k = rng.range(2, 5);
    let mut ring = |rng: &mut Rng| {
        let n = rng.range(3, 7);
        LineString((0..n).map(|_| c(rng.range(0, k), rng.range(0, k))).collect::<Vec<_>>())
    };
    let np = rng.range(1, 3);
    let polys: Vec<Polygon<f64>> = (0..np)
        .map(|_| {
            let ext = ring(rng);
            let ints = if rng.chance(1, 3) { vec![ring(rng)] } else { vec![] };
            Polygon::new(ext, ints)
        })
        .collect();
    if polys.len() == 1 { Geometry::Polygon(polys[0].clone()) } else { Geometry::MultiPolygon(MultiPolygon(polys)) }
}

/// lattice covering the bounding box plus one step on every side, spacing 1/2 of the grid unit
fn lattice(g: &Geometry<f64>) -> String {
    let b = match g.bounding_rect() {
        Some(b) => b,
        None => return "Q 0 0 1 1".into(),
    };
    // the grid unit: polygons are integer grids scaled by a power of two; keep the lattice at
    // most 41×41 by widening the step for scaled inputs (the step stays an exact f64)
    let (w, h) = (b.max().x - b.min().x, b.max().y - b.min().y);
    let mut step = 0.5;
    while w / step > 36.0 || h / step > 36.0 {
        step *= 2.0;
    }
    let x0 = b.min().x - step;
    let y0 = b.min().y - step;
    let nx = (w / step) as i64 + 3;
    let ny = (h / step) as i64 + 3;
    format!("Q {} {} {} {} {}", proto::num(x0), proto::num(y0), proto::num(step), nx, ny)
}

/// decimal variant (builder-vs-model cases only; the other operations' oracles assume lattice coordinates): all coordinates
/// times 0.1 / 0.3 / 0.7 / ⅓ — a vertex that lay exactly on a slanted foreign edge now lies a fraction of an ulp beside it
fn decimal_variant(rng: &mut Rng, g: Geometry<f64>) -> Geometry<f64> {
    if !rng.chance(1, 3) {
        return g;
    }
    let f = *rng.pick(&[0.1f64, 0.3, 0.7, 1.0 / 3.0]);
    g.map_coords(move |p| Coord { x: p.x * f, y: p.y * f })
}

/// a hole (or notch) vertex that lies, on the lattice, exactly on a slanted shell edge after the chain has passed a vertex;
/// scaled by a decimal factor it lies a fraction of an ulp beside the edge (the driver decides validity exactly)
fn near_touch_decimal(rng: &mut Rng) -> Geometry<f64> {
    let bases: [(&[(i64, i64)], &[(i64, i64)]); 4] = [
        (&[(-5, -5), (15, -5), (8, 9), (0, 1)], &[(4, 5), (6, 3), (6, 5)]),
        (&[(-5, -5), (15, -5), (5, 10), (0, 0)], &[(2, 4), (4, 2), (4, 4)]),
        (&[(-4, -6), (16, -6), (10, 5), (0, 0)], &[(4, 2), (6, 0), (6, 2)]),
        (&[(-5, -5), (15, -5), (9, 10), (0, 1)], &[(3, 4), (6, 3), (6, 5)]),
    ];
    let (sh, ho) = *rng.pick(&bases);
    let sym = rng.below(8);
    let f = *rng.pick(&[0.1f64, 0.1, 0.3, 0.7, 1.0 / 3.0, 0.01]);
    let (ox, oy) = (rng.range(-2, 2), rng.range(-2, 2));
    let tf = |&(x, y): &(i64, i64)| -> Coord<f64> {
        let (x, y) = (x + ox, y + oy);
        let (x, y) = if sym & 1 != 0 { (-x, y) } else { (x, y) };
        let (x, y) = if sym & 2 != 0 { (x, -y) } else { (x, y) };
        let (x, y) = if sym & 4 != 0 { (y, x) } else { (x, y) };
        Coord { x: x as f64 * f, y: y as f64 * f }
    };
    let ring = |v: &[(i64, i64)], rng: &mut Rng| -> LineString<f64> {
        let mut cs: Vec<Coord<f64>> = v.iter().map(tf).collect();
        let k = rng.below(cs.len() as u64) as usize;
        cs.rotate_left(k);
        if rng.chance(1, 2) { cs.reverse(); }
        let first = cs[0];
        cs.push(first);
        LineString(cs)
    };
    Geometry::Polygon(Polygon::new(ring(sh, rng), vec![ring(ho, rng)]))
}

pub fn gen(rng: &mut Rng, _index: u64) -> String {
    // the extra stream of ./check C10 (lib/props/C10.py: monobuild_stream): builder-vs-model cases only
    if std::env::var("VERIF_C10_STREAM").map(|v| v == "monobuild").unwrap_or(false) {
        let g = if rng.chance(1, 4) { wild_geom(rng) } else { gen_geom(rng, true) };
        let g = if rng.chance(1, 6) { near_touch_decimal(rng) } else { decimal_variant(rng, g) };
        return format!("C10.monobuild {}", proto::geom(&g));
    }
    match rng.below(10) {
        0 | 1 | 2 => {
            let g = gen_geom(rng, false);
            format!("C10.earcut {}", proto::geom(&g))
        }
        3 | 4 => {
            let g = gen_geom(rng, true);
            format!("C10.cdt {}", proto::geom(&g))
        }
        5 | 6 | 7 => {
            let g = gen_geom(rng, true);
            // one case in four of this stream compares the builder itself with its Lean model
            if rng.chance(1, 4) {
                // a quarter of these on arbitrary vertex sequences (crossings, overlaps, T-junctions, spikes):
                // outside the property's domain, but the model mirrors the code there too, panics included
                let g = if rng.chance(1, 4) { wild_geom(rng) } else { g };
                let g = if rng.chance(1, 6) { near_touch_decimal(rng) } else { decimal_variant(rng, g) };
                format!("C10.monobuild {}", proto::geom(&g))
            } else {
                format!("C10.mono {} {}", proto::geom(&g), lattice(&g))
            }
        }
        _ => {
            let which = if rng.chance(1, 2) { "earcut" } else { "cdt" };
            if rng.chance(1, 8) {
                // a member sitting in the notch of a concave member: all its vertices on the other member's boundary
                // (corner, corner, mid-edge) without being inside it; every ring start and direction
                let s = rng.range(1, 3);
                let u: Vec<(i64, i64)> = vec![(0, 0), (6 * s, 0), (6 * s, 4 * s), (4 * s, 4 * s), (4 * s, 2 * s), (2 * s, 2 * s), (2 * s, 4 * s), (0, 4 * s)];
                let tri: Vec<(i64, i64)> = vec![(2 * s, 4 * s), (3 * s, 2 * s), (4 * s, 4 * s)];
                let ring = |v: &Vec<(i64, i64)>, rng: &mut Rng| {
                    let mut v = v.clone();
                    let k = rng.below(v.len() as u64) as usize;
                    v.rotate_left(k);
                    if rng.chance(1, 2) { v.reverse(); }
                    let f = v[0];
                    v.push(f);
                    LineString(v.into_iter().map(|(x, y)| c(x, y)).collect())
                };
                let (sw, mut ms) = (rng.chance(1, 2), vec![Polygon::new(ring(&u, rng), vec![]), Polygon::new(ring(&tri, rng), vec![])]);
                if rng.chance(1, 2) { ms.reverse(); }
                let g = Geometry::MultiPolygon(MultiPolygon(ms));
                let g = if sw { use geo::algorithm::map_coords::MapCoords; g.map_coords(|p| Coord { x: p.y, y: p.x }) } else { g };
                return format!("C10.stitch cdt {}", proto::geom(&g));     // (ear-cut stitching takes single polygons only)
            }
            let g = gen_geom(rng, which == "cdt");
            format!("C10.stitch {} {}", which, proto::geom(&g))
        }
    }
}

// ------------------------------------------------------------------ evaluation

fn tri_str(t: &Triangle<f64>) -> String {
    format!("TR {} {} {}", proto::coord(t.0), proto::coord(t.1), proto::coord(t.2))
}

fn tris_str(ts: &[Triangle<f64>]) -> String {
    let mut s = format!("{}", ts.len());
    for t in ts {
        s.push(' ');
        s.push_str(&tri_str(t));
    }
    s
}

fn res_tris<E>(r: Result<Vec<Triangle<f64>>, E>) -> String {
    match r {
        Ok(ts) => format!("ok {}", tris_str(&ts)),
        Err(_) => "err".into(),
    }
}

fn eval_earcut(t: &mut Toks) -> R<String> {
    let p = match t.geom()? {
        Geometry::Polygon(p) => p,
        _ => return Err("earcut needs PG".into()),
    };
    let raw = p.earcut_triangles_raw();
    let tris = p.earcut_triangles();
    let mut s = format!("verts {}", raw.vertices.len());
    for v in &raw.vertices {
        s.push(' ');
        s.push_str(&proto::num(*v));
    }
    s.push_str(&format!(" idx {}", raw.triangle_indices.len()));
    for i in &raw.triangle_indices {
        s.push_str(&format!(" {}", i));
    }
    s.push_str(&format!(" tris {}", tris_str(&tris)));
    Ok(s)
}

fn cdt_of(g: &Geometry<f64>) -> R<(String, String, String)> {
    // at a scaled-down case (`SC <k>`, k < 0) the snap radius is scaled with the coordinates, as a caller working at that
    // scale would configure it; otherwise the default (1e-4)
    let scale = proto::SCALE.with(|c| c.get());
    let cfg = move || if scale < 1.0 { DelaunayTriangulationConfig { snap_radius: 1e-4 * scale } } else { DelaunayTriangulationConfig::default() };
    Ok(match g {
        Geometry::Polygon(p) => (
            res_tris(p.constrained_triangulation(cfg())),
            res_tris(p.constrained_outer_triangulation(cfg())),
            res_tris(p.unconstrained_triangulation()),
        ),
        Geometry::MultiPolygon(p) => (
            res_tris(p.constrained_triangulation(cfg())),
            res_tris(p.constrained_outer_triangulation(cfg())),
            res_tris(p.unconstrained_triangulation()),
        ),
        _ => return Err("cdt needs PG or MPG".into()),
    })
}

fn eval_cdt(t: &mut Toks) -> R<String> {
    let g = t.geom()?;
    let (ct, co, un) = cdt_of(&g)?;
    Ok(format!("ct {} co {} un {}", ct, co, un))
}

fn eval_mono(t: &mut Toks) -> R<String> {
    let g = t.geom()?;
    if t.tok()? != "Q" {
        return Err("expected Q".into());
    }
    let x0 = t.num()?;
    let y0 = t.num()?;
    let step = t.num()?;
    let nx = t.usize()?;
    let ny = t.usize()?;
    let mono = match &g {
        Geometry::Polygon(p) => MonotonicPolygons::from(p.clone()),
        Geometry::MultiPolygon(p) => MonotonicPolygons::from(p.clone()),
        _ => return Err("mono needs PG or MPG".into()),
    };
    let subs = mono.subdivisions();
    let mut s = format!("n {}", subs.len());
    for m in subs {
        s.push_str(&format!(" top {} bot {}", proto::coords(&m.top().0), proto::coords(&m.bot().0)));
        let p = m.clone().into_polygon();
        s.push_str(&format!(" poly {}", proto::poly(&p)));
    }
    let mut pi = String::new();
    let mut mi = String::new();
    let mut pos: Vec<String> = vec![String::new(); subs.len()];
    for j in 0..ny {
        for i in 0..nx {
            let q = Coord { x: x0 + step * i as f64, y: y0 + step * j as f64 };
            pi.push(if g.intersects(&q) { '1' } else { '0' });
            mi.push(if mono.intersects(&q) { '1' } else { '0' });
            for (k, m) in subs.iter().enumerate() {
                pos[k].push(match m.coordinate_position(&q) {
                    CoordPos::Inside => 'I',
                    CoordPos::OnBoundary => 'B',
                    CoordPos::Outside => 'O',
                });
            }
        }
    }
    s.push_str(&format!(" pi {} mi {} pos", pi, mi));
    for p in pos {
        s.push(' ');
        s.push_str(&p);
    }
    Ok(s)
}

fn eval_monobuild(t: &mut Toks) -> R<String> {
    let g = t.geom()?;
    let subs = match g {
        Geometry::Polygon(p) => geo::algorithm::monotone::monotone_subdivision([p]),
        Geometry::MultiPolygon(p) => geo::algorithm::monotone::monotone_subdivision(p.0),
        _ => return Err("monobuild needs PG or MPG".into()),
    };
    let mut s = format!("n {}", subs.len());
    for m in &subs {
        s.push_str(&format!(" top {} bot {}", proto::coords(&m.top().0), proto::coords(&m.bot().0)));
    }
    Ok(s)
}

fn eval_stitch(t: &mut Toks) -> R<String> {
    let which = t.tok()?;
    let g = t.geom()?;
    let tris: Option<Vec<Triangle<f64>>> = match (which, &g) {
        ("earcut", Geometry::Polygon(p)) => Some(p.earcut_triangles()),
        ("cdt", Geometry::Polygon(p)) => p.constrained_triangulation(DelaunayTriangulationConfig::default()).ok(),
        ("cdt", Geometry::MultiPolygon(p)) => p.constrained_triangulation(DelaunayTriangulationConfig::default()).ok(),
        _ => return Err("stitch needs earcut PG | cdt PG|MPG".into()),
    };
    let tris = match tris {
        Some(t) => t,
        None => return Ok("tris err res err".into()),
    };
    let res = match tris.stitch_triangulation() {
        Ok(mp) => format!("ok {}", proto::geom(&Geometry::MultiPolygon(mp))),
        Err(_) => "err".into(),
    };
    Ok(format!("tris ok {} res {}", tris_str(&tris), res))
}

pub fn eval(op: &str, t: &mut Toks) -> R<String> {
    match op {
        "C10.earcut" => eval_earcut(t),
        "C10.cdt" => eval_cdt(t),
        "C10.mono" => eval_mono(t),
        "C10.stitch" => eval_stitch(t),
        "C10.monobuild" => eval_monobuild(t),
        _ => Err(format!("unknown op {}", op)),
    }
}
