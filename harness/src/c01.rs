//! C01 — relate() against the executable DE-9IM specification.
use crate::proto::{self, Toks, R};
use crate::rng::Rng;
use crate::shapes::*;
use geo::algorithm::relate::Relate;

fn dim_str(d: geo::dimensions::Dimensions) -> &'static str {
    use geo::dimensions::Dimensions::*;
    match d {
        Empty => "Empty",
        ZeroDimensional => "ZeroDimensional",
        OneDimensional => "OneDimensional",
        TwoDimensional => "TwoDimensional",
    }
}

/// Edges that leave a common node in nearly the same direction, with coordinates so large (2^26 … 2^30) that the
/// rounded cross product of the two directions is 0 or has the wrong sign while the exact one is ±1: the ordering
/// of edge ends around a node, bundling and side labels must come from the exact orientation predicate.
fn narrow_fan(rng: &mut Rng) -> (geo_types::Geometry<f64>, geo_types::Geometry<f64>) {
    use geo_types::*;
    let n = rng.range(1 << 26, 1 << 30);
    // d1 x d2 = d2 x d3 = 1 (counter-clockwise fan d1, d2, d3)
    let dirs = [(n + 1, n), (n + 2, n + 1), (n + 3, n + 2)];
    let (sw, fx, fy) = (rng.chance(1, 2), rng.chance(1, 2), rng.chance(1, 2));
    let (ox, oy) = if rng.chance(1, 2) { (0, 0) } else { (rng.range(-50, 50), rng.range(-50, 50)) };
    let c = |(x, y): (i64, i64)| {
        let (mut x, mut y) = if sw { (y, x) } else { (x, y) };
        if fx { x = -x; }
        if fy { y = -y; }
        Coord { x: (x + ox) as f64, y: (y + oy) as f64 }
    };
    let o = c((0, 0));
    let (d1, d2, d3) = (c(dirs[0]), c(dirs[1]), c(dirs[2]));
    let mid = c((2 * n + 3, 2 * n + 1)); // direction d1 + d2, between d1 and d2
    let ls = |v: Vec<Coord<f64>>| Geometry::LineString(LineString(v));
    let sliver = Geometry::Polygon(Polygon::new(LineString(vec![o, d1, d2, o]), vec![]));
    match rng.below(7) {
        0 => (ls(vec![o, d1]), ls(vec![o, d2])),
        1 => (ls(vec![d1, o, d3]), ls(vec![o, d2])),
        2 => (ls(vec![d1, o]), Geometry::MultiLineString(MultiLineString(vec![LineString(vec![o, d2]), LineString(vec![d3, o])]))),
        3 => (sliver, ls(vec![o, d3])),
        4 => (sliver, ls(vec![o, mid])),
        5 => (sliver, Geometry::Polygon(Polygon::new(LineString(vec![o, d2, d3, o]), vec![]))),
        _ => (Geometry::Line(Line::new(o, d1)), Geometry::Line(Line::new(d2, o))),
    }
}

/// A coordinate of the tiny grid of the `C01.impl` cases (coincidences are the rule).
fn tiny(rng: &mut Rng, k: i64) -> geo_types::Coord<f64> {
    if rng.chance(1, 10) {
        geo_types::Coord { x: rng.range(0, 2 * k) as f64 / 2.0, y: rng.range(0, 2 * k) as f64 / 2.0 }
    } else {
        c(rng.range(0, k), rng.range(0, k))
    }
}

/// Linework outside the validity domain: self-crossing, self-overlapping, back-tracking, repeated
/// coordinates, closed, collapsed to a point, empty.
fn wild_linestring(rng: &mut Rng, k: i64) -> geo_types::LineString<f64> {
    use geo_types::LineString;
    match rng.below(12) {
        0 => LineString(vec![]),
        1 => {
            let p = tiny(rng, k);
            LineString((0..rng.range(1, 3)).map(|_| p).collect())
        }
        _ => {
            let n = rng.range(2, 6);
            let mut v = vec![];
            for _ in 0..n {
                let p = tiny(rng, k);
                v.push(p);
                if rng.chance(1, 6) {
                    v.push(p);
                }
            }
            if rng.chance(1, 3) {
                let f = v[0];
                v.push(f);
            }
            LineString(v)
        }
    }
}

/// Rings outside the validity domain: random closed coordinate lists (self-crossing, spikes),
/// fewer than four coordinates, collinear, either orientation; or a valid ring.
fn wild_ring(rng: &mut Rng, k: i64) -> geo_types::LineString<f64> {
    use geo_types::LineString;
    match rng.below(8) {
        0 => LineString(vec![]),
        1 => {
            let p = tiny(rng, k);
            let q = tiny(rng, k);
            LineString(if rng.chance(1, 2) { vec![p, p, p] } else { vec![p, q, p] })
        }
        2 => {
            let x = rng.range(0, k);
            LineString(vec![c(x, 0), c(x, 1), c(x, 2), c(x, 0)])
        }
        3 | 4 => {
            let n = rng.range(3, 6);
            let mut v: Vec<_> = (0..n).map(|_| tiny(rng, k)).collect();
            let f = v[0];
            v.push(f);
            LineString(v)
        }
        _ => {
            let mut v = if rng.chance(1, 2) { gen_polygon(rng, k).exterior().0.clone() } else { star_polygon(rng, k).exterior().0.clone() };
            if rng.chance(1, 2) {
                v.reverse();
            }
            LineString(v)
        }
    }
}

fn wild_polygon(rng: &mut Rng, k: i64) -> geo_types::Polygon<f64> {
    let ext = wild_ring(rng, k);
    let holes: Vec<_> = (0..*rng.pick(&[0u64, 0, 1, 2])).map(|_| wild_ring(rng, k)).collect();
    geo_types::Polygon::new(ext, holes)
}

/// An operand for `C01.impl`: any geometry the types can hold, on a tiny grid.
fn wild_geom(rng: &mut Rng, k: i64, depth: u32) -> geo_types::Geometry<f64> {
    use geo_types::*;
    match rng.below(16) {
        0 | 1 => gen_valid(rng, k),
        2 | 3 => Geometry::LineString(wild_linestring(rng, k)),
        4 | 5 => Geometry::MultiLineString(MultiLineString((0..rng.range(0, 4)).map(|_| wild_linestring(rng, k)).collect())),
        6 | 7 => Geometry::Polygon(wild_polygon(rng, k)),
        8 => Geometry::MultiPolygon(MultiPolygon((0..rng.range(0, 3)).map(|_| wild_polygon(rng, k)).collect())),
        9 => Geometry::MultiPolygon(MultiPolygon((0..rng.range(1, 3)).map(|_| gen_polygon(rng, k)).collect())),
        10 => Geometry::MultiPoint(MultiPoint((0..rng.range(0, 4)).map(|_| Point(tiny(rng, k))).collect())),
        11 => match rng.below(3) {
            0 => Geometry::Line(Line::new(tiny(rng, k), tiny(rng, k))),
            1 => Geometry::Rect(Rect::new(tiny(rng, k), tiny(rng, k))),
            _ => Geometry::Triangle(Triangle(tiny(rng, k), tiny(rng, k), tiny(rng, k))),
        },
        _ => {
            // collections: members of every dimension overlapping on one grid
            let n = rng.range(0, 4);
            let v = (0..n)
                .map(|_| {
                    if depth > 0 && rng.chance(1, 4) {
                        wild_geom(rng, k, depth - 1)
                    } else {
                        match rng.below(8) {
                            0 => Geometry::Point(Point(tiny(rng, k))),
                            1 | 2 => Geometry::LineString(wild_linestring(rng, k)),
                            3 => Geometry::Polygon(wild_polygon(rng, k)),
                            4 => Geometry::Polygon(gen_polygon(rng, k)),
                            5 => Geometry::GeometryCollection(GeometryCollection(vec![])),
                            6 => { let kind = *rng.pick(&[1u64, 7, 8]); gen_kind(rng, k, kind, 0) }
                            _ => gen_valid(rng, k),
                        }
                    }
                })
                .collect();
            Geometry::GeometryCollection(GeometryCollection(v))
        }
    }
}

/// `C01.impl`: the model of the *implementation* against the implementation. Half of the cases use
/// the generators of `C01.rel` (operands in the validity domain), the other half any geometry.
fn gen_impl(rng: &mut Rng) -> String {
    let (a, b) = match rng.below(8) {
        0..=3 => {
            let k = *rng.pick(&[3i64, 4, 4, 6]);
            (gen_valid(rng, k), gen_valid(rng, k))
        }
        4..=6 => {
            let k = *rng.pick(&[2i64, 3, 3, 4]);
            let a = wild_geom(rng, k, 2);
            let b = if rng.chance(1, 3) { gen_valid(rng, k) } else { wild_geom(rng, k, 2) };
            if rng.chance(1, 2) { (a, b) } else { (b, a) }
        }
        _ => (crate::gen::gen_any_geom(rng, 3, 2), crate::gen::gen_any_geom(rng, 3, 2)),
    };
    let (a, b) = if rng.chance(1, 5) {
        use geo::algorithm::map_coords::MapCoords;
        let s = 2f64.powi(rng.range(-2, 3) as i32);
        let m = *rng.pick(&[20i64, 1000, 1 << 20, 1 << 27]);
        let (dx, dy) = (rng.range(-m, m) as f64, rng.range(-m, m) as f64);
        let f = move |p: geo_types::Coord<f64>| geo_types::Coord { x: (p.x + dx) * s, y: (p.y + dy) * s };
        (a.map_coords(f), b.map_coords(f))
    } else {
        (a, b)
    };
    format!("C01.impl {} {}", proto::geom(&a), proto::geom(&b))
}

pub fn gen(rng: &mut Rng, index: u64) -> String {
    // every fourth case of the stream relates the model of the implementation to the implementation
    if index % 4 == 3 {
        return gen_impl(rng);
    }
    let k = *rng.pick(&[3i64, 4, 4, 6]);
    if rng.chance(1, 80) {
        // one operand with hundreds of segments against a tiny one (very different segment counts)
        use geo_types::*;
        let m = (long_count(rng) as i64 / 2).min(160);
        let ring = parabola_ring(m);
        let big = if rng.chance(2, 3) { Geometry::Polygon(Polygon::new(LineString(ring), vec![])) } else { Geometry::LineString(LineString(ring)) };
        let x = rng.range(-m + 1, m - 1);
        let top = m * m;
        let small = match rng.below(5) {
            0 => Geometry::Line(Line::new(c(x, -1), c(x, top + 1))),                   // vertical probe through the polygon
            1 => Geometry::Line(Line::new(c(-m - 1, x * x), c(m + 1, x * x))),           // horizontal probe through two vertices
            2 => Geometry::Rect(Rect::new(c(x, x * x), c(x + 1, top + 2))),
            3 => Geometry::Point(Point(c(x, x * x))),
            _ => Geometry::LineString(LineString(vec![c(x, x * x + 1), c(x, top - 1), c(x + 1, top - 1)])),
        };
        let b2 = variant(rng, &small);
        return if rng.chance(1, 2) {
            format!("C01.rel {} {} {}", proto::geom(&small), proto::geom(&b2), proto::geom(&big))
        } else {
            format!("C01.rel {} {} {}", proto::geom(&big), proto::geom(&big), proto::geom(&small))
        };
    }
    if rng.chance(1, 14) {
        let (a, b) = narrow_fan(rng);
        let a2 = variant(rng, &a);
        return if rng.chance(1, 2) {
            format!("C01.rel {} {} {}", proto::geom(&a), proto::geom(&a2), proto::geom(&b))
        } else {
            let b2 = variant(rng, &b);
            format!("C01.rel {} {} {}", proto::geom(&b), proto::geom(&b2), proto::geom(&a))
        };
    }
    if rng.chance(1, 10) {
        // HasDimensions (feeds the disjoint-envelope shortcut): any geometry, valid or degenerate
        let g = if rng.chance(1, 2) { gen_valid(rng, k) } else { crate::gen::gen_any_geom(rng, k, 2) };
        return format!("C01.dims {}", proto::geom(&g));
    }
    let a = gen_valid(rng, k);
    let b = gen_valid(rng, k);
    let a2 = variant(rng, &a);
    // a third of the cases live far from the origin (exact integer translation, optional 2^k
    // scaling): crossing points that are not representable get rounded differently there
    let (a, a2, b) = if rng.chance(1, 3) {
        use geo::algorithm::map_coords::MapCoords;
        let s = 2f64.powi(rng.range(-2, 3) as i32);
        let m = *rng.pick(&[20i64, 1000, 1 << 20, 1 << 27]);
        let (dx, dy) = (rng.range(-m, m) as f64, rng.range(-m, m) as f64);
        let f = move |p: geo_types::Coord<f64>| geo_types::Coord { x: (p.x + dx) * s, y: (p.y + dy) * s };
        (a.map_coords(f), a2.map_coords(f), b.map_coords(f))
    } else {
        (a, a2, b)
    };
    format!("C01.rel {} {} {}", proto::geom(&a), proto::geom(&a2), proto::geom(&b))
}

fn im(a: &geo_types::Geometry<f64>, b: &geo_types::Geometry<f64>) -> String {
    match std::panic::catch_unwind(std::panic::AssertUnwindSafe(|| a.relate(b))) {
        Ok(m) => {
            // IntersectionMatrix Debug prints `IntersectionMatrix(212101212)`
            let s = format!("{:?}", m);
            s.trim_start_matches("IntersectionMatrix(").trim_end_matches(')').to_string()
        }
        Err(_) => "panic".into(),
    }
}

/// The coordinate lists `GeometryGraph::add_geometry` turns into edges (consecutive repeated
/// coordinates removed; `Rect` / `Triangle` through `to_polygon`).
fn edge_coords(g: &geo_types::Geometry<f64>, out: &mut Vec<Vec<geo_types::Coord<f64>>>) {
    use geo_types::Geometry::*;
    fn push(cs: &[geo_types::Coord<f64>], out: &mut Vec<Vec<geo_types::Coord<f64>>>) {
        let mut v: Vec<geo_types::Coord<f64>> = vec![];
        for c in cs {
            if v.last() != Some(c) {
                v.push(*c);
            }
        }
        if v.len() >= 2 {
            out.push(v);
        }
    }
    fn poly(p: &geo_types::Polygon<f64>, out: &mut Vec<Vec<geo_types::Coord<f64>>>) {
        push(&p.exterior().0, out);
        for h in p.interiors() {
            push(&h.0, out);
        }
    }
    match g {
        Point(_) | MultiPoint(_) => {}
        Line(l) => out.push(vec![l.start, l.end]),
        LineString(ls) => push(&ls.0, out),
        Polygon(p) => poly(p, out),
        MultiLineString(m) => m.0.iter().for_each(|l| push(&l.0, out)),
        MultiPolygon(m) => m.0.iter().for_each(|p| poly(p, out)),
        Rect(r) => poly(&r.to_polygon(), out),
        Triangle(t) => poly(&t.to_polygon(), out),
        GeometryCollection(gc) => gc.0.iter().for_each(|m| edge_coords(m, out)),
    }
}

/// The crossing points `line_intersection` reports for the proper crossings `relate` can meet:
/// ordered pairs of segments within each operand (self-noding) and pairs (segment of A, segment
/// of B). Rendered `X <n> {p.start p.end q.start q.end point}`; the model of the implementation
/// is run with these points in place of the exact rational crossing points.
fn crossing_table(a: &geo_types::Geometry<f64>, b: &geo_types::Geometry<f64>) -> String {
    use geo::algorithm::line_intersection::{line_intersection, LineIntersection};
    use geo_types::Line;
    let segs = |g: &geo_types::Geometry<f64>| -> Vec<Line<f64>> {
        let mut es = vec![];
        edge_coords(g, &mut es);
        es.iter().flat_map(|e| e.windows(2).map(|w| Line::new(w[0], w[1])).collect::<Vec<_>>()).collect()
    };
    let (sa, sb) = (segs(a), segs(b));
    let mut rows: Vec<String> = vec![];
    let mut seen = std::collections::BTreeSet::new();
    let mut visit = |p: &Line<f64>, q: &Line<f64>| {
        if let Some(LineIntersection::SinglePoint { intersection, is_proper: true }) = line_intersection(*p, *q) {
            let row = format!("{} {} {} {} {}", proto::coord(p.start), proto::coord(p.end), proto::coord(q.start), proto::coord(q.end), proto::coord(intersection));
            if seen.insert(row.clone()) {
                rows.push(row);
            }
        }
    };
    for s in [&sa, &sb] {
        for (i, p) in s.iter().enumerate() {
            for (j, q) in s.iter().enumerate() {
                if i != j {
                    visit(p, q);
                }
            }
        }
    }
    for p in &sa {
        for q in &sb {
            visit(p, q);
        }
    }
    let mut out = format!("X {}", rows.len());
    for r in rows {
        out.push(' ');
        out.push_str(&r);
    }
    out
}

pub fn eval(op: &str, t: &mut Toks) -> R<String> {
    match op {
        "C01.dims" => {
            use geo::dimensions::HasDimensions;
            let g = t.geom()?;
            Ok(format!("{} {} {}", dim_str(g.dimensions()), dim_str(g.boundary_dimensions()), g.is_empty()))
        }
        "C01.impl" => {
            let a = t.geom()?;
            let b = t.geom()?;
            Ok(format!("{} {}", im(&a, &b), crossing_table(&a, &b)))
        }
        "C01.rel" => {
            let a = t.geom()?;
            let a2 = t.geom()?;
            let b = t.geom()?;
            Ok(format!("{} {} {}", im(&a, &b), im(&b, &a), im(&a2, &b)))
        }
        _ => Err(format!("unknown op {}", op)),
    }
}
