//! C01 — relate() against the executable DE-9IM specification.
use crate::proto::{self, Toks, R};
use crate::rng::Rng;
use crate::shapes::*;
use geo::algorithm::relate::Relate;

pub fn gen(rng: &mut Rng, _index: u64) -> String {
    let k = *rng.pick(&[3i64, 4, 4, 6]);
    let a = gen_valid(rng, k);
    let b = gen_valid(rng, k);
    let a2 = variant(rng, &a);
    format!("C01.rel {} {} {}", proto::geom(&a), proto::geom(&a2), proto::geom(&b))
}

fn im(a: &geo_types::Geometry<f64>, b: &geo_types::Geometry<f64>) -> String {
    match std::panic::catch_unwind(std::panic::AssertUnwindSafe(|| a.relate(b))) {
        Ok(m) => {
            // IntersectionMatrix Debug prints `IntersectionMatrix(212101212)`
            let s = format!("{:?}", m);
            s.trim_start_matches("IntersectionMatrix(").trim_end_matches(')').to_string()
        }
        Err(_) => "panic".into(),
    }
}

pub fn eval(op: &str, t: &mut Toks) -> R<String> {
    match op {
        "C01.rel" => {
            let a = t.geom()?;
            let a2 = t.geom()?;
            let b = t.geom()?;
            Ok(format!("{} {} {}", im(&a, &b), im(&b, &a), im(&a2, &b)))
        }
        _ => Err(format!("unknown op {}", op)),
    }
}
