//! C01 — relate() against the executable DE-9IM specification.
use crate::proto::{self, Toks, R};
use crate::rng::Rng;
use crate::shapes::*;
use geo::algorithm::relate::Relate;

fn dim_str(d: geo::dimensions::Dimensions) -> &'static str {
    use geo::dimensions::Dimensions::*;
    match d {
        Empty => "Empty",
        ZeroDimensional => "ZeroDimensional",
        OneDimensional => "OneDimensional",
        TwoDimensional => "TwoDimensional",
    }
}

/// Edges that leave a common node in nearly the same direction, with coordinates so large (2^26 … 2^30) that the
/// rounded cross product of the two directions is 0 or has the wrong sign while the exact one is ±1: the ordering
/// of edge ends around a node, bundling and side labels must come from the exact orientation predicate.
fn narrow_fan(rng: &mut Rng) -> (geo_types::Geometry<f64>, geo_types::Geometry<f64>) {
    use geo_types::*;
    let n = rng.range(1 << 26, 1 << 30);
    // d1 x d2 = d2 x d3 = 1 (counter-clockwise fan d1, d2, d3)
    let dirs = [(n + 1, n), (n + 2, n + 1), (n + 3, n + 2)];
    let (sw, fx, fy) = (rng.chance(1, 2), rng.chance(1, 2), rng.chance(1, 2));
    let (ox, oy) = if rng.chance(1, 2) { (0, 0) } else { (rng.range(-50, 50), rng.range(-50, 50)) };
    let c = |(x, y): (i64, i64)| {
        let (mut x, mut y) = if sw { (y, x) } else { (x, y) };
        if fx { x = -x; }
        if fy { y = -y; }
        Coord { x: (x + ox) as f64, y: (y + oy) as f64 }
    };
    let o = c((0, 0));
    let (d1, d2, d3) = (c(dirs[0]), c(dirs[1]), c(dirs[2]));
    let mid = c((2 * n + 3, 2 * n + 1)); // direction d1 + d2, between d1 and d2
    let ls = |v: Vec<Coord<f64>>| Geometry::LineString(LineString(v));
    let sliver = Geometry::Polygon(Polygon::new(LineString(vec![o, d1, d2, o]), vec![]));
    match rng.below(7) {
        0 => (ls(vec![o, d1]), ls(vec![o, d2])),
        1 => (ls(vec![d1, o, d3]), ls(vec![o, d2])),
        2 => (ls(vec![d1, o]), Geometry::MultiLineString(MultiLineString(vec![LineString(vec![o, d2]), LineString(vec![d3, o])]))),
        3 => (sliver, ls(vec![o, d3])),
        4 => (sliver, ls(vec![o, mid])),
        5 => (sliver, Geometry::Polygon(Polygon::new(LineString(vec![o, d2, d3, o]), vec![]))),
        _ => (Geometry::Line(Line::new(o, d1)), Geometry::Line(Line::new(d2, o))),
    }
}

pub fn gen(rng: &mut Rng, _index: u64) -> String {
    let k = *rng.pick(&[3i64, 4, 4, 6]);
    if rng.chance(1, 14) {
        let (a, b) = narrow_fan(rng);
        let a2 = variant(rng, &a);
        return if rng.chance(1, 2) {
            format!("C01.rel {} {} {}", proto::geom(&a), proto::geom(&a2), proto::geom(&b))
        } else {
            let b2 = variant(rng, &b);
            format!("C01.rel {} {} {}", proto::geom(&b), proto::geom(&b2), proto::geom(&a))
        };
    }
    if rng.chance(1, 10) {
        // HasDimensions (feeds the disjoint-envelope shortcut): any geometry, valid or degenerate
        let g = if rng.chance(1, 2) { gen_valid(rng, k) } else { crate::gen::gen_any_geom(rng, k, 2) };
        return format!("C01.dims {}", proto::geom(&g));
    }
    let a = gen_valid(rng, k);
    let b = gen_valid(rng, k);
    let a2 = variant(rng, &a);
    // a third of the cases live far from the origin (exact integer translation, optional 2^k
    // scaling): crossing points that are not representable get rounded differently there
    let (a, a2, b) = if rng.chance(1, 3) {
        use geo::algorithm::map_coords::MapCoords;
        let s = 2f64.powi(rng.range(-2, 3) as i32);
        let m = *rng.pick(&[20i64, 1000, 1 << 20, 1 << 27]);
        let (dx, dy) = (rng.range(-m, m) as f64, rng.range(-m, m) as f64);
        let f = move |p: geo_types::Coord<f64>| geo_types::Coord { x: (p.x + dx) * s, y: (p.y + dy) * s };
        (a.map_coords(f), a2.map_coords(f), b.map_coords(f))
    } else {
        (a, a2, b)
    };
    format!("C01.rel {} {} {}", proto::geom(&a), proto::geom(&a2), proto::geom(&b))
}

fn im(a: &geo_types::Geometry<f64>, b: &geo_types::Geometry<f64>) -> String {
    match std::panic::catch_unwind(std::panic::AssertUnwindSafe(|| a.relate(b))) {
        Ok(m) => {
            // IntersectionMatrix Debug prints `IntersectionMatrix(212101212)`
            let s = format!("{:?}", m);
            s.trim_start_matches("IntersectionMatrix(").trim_end_matches(')').to_string()
        }
        Err(_) => "panic".into(),
    }
}

pub fn eval(op: &str, t: &mut Toks) -> R<String> {
    match op {
        "C01.dims" => {
            use geo::dimensions::HasDimensions;
            let g = t.geom()?;
            Ok(format!("{} {} {}", dim_str(g.dimensions()), dim_str(g.boundary_dimensions()), g.is_empty()))
        }
        "C01.rel" => {
            let a = t.geom()?;
            let a2 = t.geom()?;
            let b = t.geom()?;
            Ok(format!("{} {} {}", im(&a, &b), im(&b, &a), im(&a2, &b)))
        }
        _ => Err(format!("unknown op {}", op)),
    }
}
