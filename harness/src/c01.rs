//! C01 — relate() against the executable DE-9IM specification.
use crate::proto::{self, Toks, R};
use crate::rng::Rng;
use crate::shapes::*;
use geo::algorithm::relate::Relate;

fn dim_str(d: geo::dimensions::Dimensions) -> &'static str {
    use geo::dimensions::Dimensions::*;
    match d {
        Empty => "Empty",
        ZeroDimensional => "ZeroDimensional",
        OneDimensional => "OneDimensional",
        TwoDimensional => "TwoDimensional",
    }
}

pub fn gen(rng: &mut Rng, _index: u64) -> String {
    let k = *rng.pick(&[3i64, 4, 4, 6]);
    if rng.chance(1, 10) {
        // HasDimensions (feeds the disjoint-envelope shortcut): any geometry, valid or degenerate
        let g = if rng.chance(1, 2) { gen_valid(rng, k) } else { crate::gen::gen_any_geom(rng, k, 2) };
        return format!("C01.dims {}", proto::geom(&g));
    }
    let a = gen_valid(rng, k);
    let b = gen_valid(rng, k);
    let a2 = variant(rng, &a);
    // a third of the cases live far from the origin (exact integer translation, optional 2^k
    // scaling): crossing points that are not representable get rounded differently there
    let (a, a2, b) = if rng.chance(1, 3) {
        use geo::algorithm::map_coords::MapCoords;
        let s = 2f64.powi(rng.range(-2, 3) as i32);
        let m = *rng.pick(&[20i64, 1000, 1 << 20, 1 << 27]);
        let (dx, dy) = (rng.range(-m, m) as f64, rng.range(-m, m) as f64);
        let f = move |p: geo_types::Coord<f64>| geo_types::Coord { x: (p.x + dx) * s, y: (p.y + dy) * s };
        (a.map_coords(f), a2.map_coords(f), b.map_coords(f))
    } else {
        (a, a2, b)
    };
    format!("C01.rel {} {} {}", proto::geom(&a), proto::geom(&a2), proto::geom(&b))
}

fn im(a: &geo_types::Geometry<f64>, b: &geo_types::Geometry<f64>) -> String {
    match std::panic::catch_unwind(std::panic::AssertUnwindSafe(|| a.relate(b))) {
        Ok(m) => {
            // IntersectionMatrix Debug prints `IntersectionMatrix(212101212)`
            let s = format!("{:?}", m);
            s.trim_start_matches("IntersectionMatrix(").trim_end_matches(')').to_string()
        }
        Err(_) => "panic".into(),
    }
}

pub fn eval(op: &str, t: &mut Toks) -> R<String> {
    match op {
        "C01.dims" => {
            use geo::dimensions::HasDimensions;
            let g = t.geom()?;
            Ok(format!("{} {} {}", dim_str(g.dimensions()), dim_str(g.boundary_dimensions()), g.is_empty()))
        }
        "C01.rel" => {
            let a = t.geom()?;
            let a2 = t.geom()?;
            let b = t.geom()?;
            Ok(format!("{} {} {}", im(&a, &b), im(&b, &a), im(&a2, &b)))
        }
        _ => Err(format!("unknown op {}", op)),
    }
}
