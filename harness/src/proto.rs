//! Line protocol: printing and parsing numbers and geometries (see DESIGN.md §2.2).
use geo_types::*;

thread_local! {
    /// `SC <k>` line prefix: every input coordinate is multiplied by 2^k (exactly: the generator only adds the prefix
    /// when no coordinate of the case can leave the normal range), here and in the Lean driver's `P.pt`
    pub static SCALE: std::cell::Cell<f64> = std::cell::Cell::new(1.0);
    /// `NZ <k>` line prefix: (k, running count of zero coordinate components parsed so far)
    pub static NEGZERO: std::cell::Cell<Option<(u64, u64)>> = std::cell::Cell::new(None);
}
/// Under an `NZ <k>` prefix a zero coordinate component is handed to the implementation as `-0.0` or `+0.0`
/// (decided by a hash of k and its running index). The exact model decodes both spellings to the rational 0,
/// so every property must be insensitive to the choice.
fn nz(v: f64) -> f64 {
    if v != 0.0 {
        return v;
    }
    NEGZERO.with(|c| match c.get() {
        None => v,
        Some((k, n)) => {
            c.set(Some((k, n + 1)));
            let mut h = k ^ n.wrapping_mul(0x9E3779B97F4A7C15);
            h ^= h >> 31; h = h.wrapping_mul(0xBF58476D1CE4E5B9); h ^= h >> 29;
            if h & 1 == 1 { -0.0 } else { 0.0 }
        }
    })
}

pub fn num(v: f64) -> String {
    if v.is_finite() && v == v.trunc() && v.abs() < 9007199254740992.0 && !(v == 0.0 && v.is_sign_negative()) {
        format!("{}", v as i64)
    } else {
        format!("h{:016x}", v.to_bits())
    }
}
pub fn coord(c: Coord<f64>) -> String {
    format!("{} {}", num(c.x), num(c.y))
}
pub fn coords(cs: &[Coord<f64>]) -> String {
    let mut s = format!("{}", cs.len());
    for c in cs {
        s.push(' ');
        s.push_str(&coord(*c));
    }
    s
}
pub fn poly(p: &Polygon<f64>) -> String {
    let mut s = format!("{} {}", p.interiors().len() + 1, coords(&p.exterior().0));
    for r in p.interiors() {
        s.push(' ');
        s.push_str(&coords(&r.0));
    }
    s
}
pub fn geom(g: &Geometry<f64>) -> String {
    match g {
        Geometry::Point(p) => format!("PT {}", coord(p.0)),
        Geometry::Line(l) => format!("LN {} {}", coord(l.start), coord(l.end)),
        Geometry::LineString(ls) => format!("LS {}", coords(&ls.0)),
        Geometry::Polygon(p) => format!("PG {}", poly(p)),
        Geometry::MultiPoint(mp) => {
            let cs: Vec<Coord<f64>> = mp.0.iter().map(|p| p.0).collect();
            format!("MPT {}", coords(&cs))
        }
        Geometry::MultiLineString(m) => {
            let mut s = format!("MLS {}", m.0.len());
            for l in &m.0 {
                s.push(' ');
                s.push_str(&coords(&l.0));
            }
            s
        }
        Geometry::MultiPolygon(m) => {
            let mut s = format!("MPG {}", m.0.len());
            for p in &m.0 {
                s.push(' ');
                s.push_str(&poly(p));
            }
            s
        }
        Geometry::Rect(r) => format!("RC {} {}", coord(r.min()), coord(r.max())),
        Geometry::Triangle(t) => format!("TR {} {} {}", coord(t.0), coord(t.1), coord(t.2)),
        Geometry::GeometryCollection(gc) => {
            let mut s = format!("GC {}", gc.0.len());
            for g in &gc.0 {
                s.push(' ');
                s.push_str(&geom(g));
            }
            s
        }
    }
}

/// Token cursor.
pub struct Toks<'a> {
    pub t: Vec<&'a str>,
    pub i: usize,
}
pub type R<T> = Result<T, String>;

impl<'a> Toks<'a> {
    pub fn new(s: &'a str) -> Toks<'a> {
        Toks { t: s.split_ascii_whitespace().collect(), i: 0 }
    }
    pub fn tok(&mut self) -> R<&'a str> {
        if self.i < self.t.len() {
            self.i += 1;
            Ok(self.t[self.i - 1])
        } else {
            Err("eof".into())
        }
    }
    pub fn peek(&self) -> Option<&'a str> {
        self.t.get(self.i).copied()
    }
    pub fn done(&self) -> bool {
        self.i >= self.t.len()
    }
    pub fn usize(&mut self) -> R<usize> {
        self.tok()?.parse::<usize>().map_err(|e| e.to_string())
    }
    pub fn i64(&mut self) -> R<i64> {
        self.tok()?.parse::<i64>().map_err(|e| e.to_string())
    }
    pub fn num(&mut self) -> R<f64> {
        let t = self.tok()?;
        if let Some(h) = t.strip_prefix('h') {
            u64::from_str_radix(h, 16).map(f64::from_bits).map_err(|e| e.to_string())
        } else if t == "nan" {
            Ok(f64::NAN)
        } else if t == "inf" {
            Ok(f64::INFINITY)
        } else if t == "-inf" {
            Ok(f64::NEG_INFINITY)
        } else {
            t.parse::<i64>().map(|v| v as f64).map_err(|e| e.to_string())
        }
    }
    pub fn coord(&mut self) -> R<Coord<f64>> {
        let s = SCALE.with(|c| c.get());
        let x = nz(self.num()?) * s;
        let y = nz(self.num()?) * s;
        Ok(Coord { x, y })
    }
    pub fn coords(&mut self) -> R<Vec<Coord<f64>>> {
        let n = self.usize()?;
        (0..n).map(|_| self.coord()).collect()
    }
    /// polygon rings exactly as written (no closing): (exterior, interiors)
    pub fn raw_poly(&mut self) -> R<(Vec<Coord<f64>>, Vec<Vec<Coord<f64>>>)> {
        let k = self.usize()?;
        if k == 0 {
            return Ok((vec![], vec![]));
        }
        let ext = self.coords()?;
        let mut ints = vec![];
        for _ in 1..k {
            ints.push(self.coords()?);
        }
        Ok((ext, ints))
    }
    pub fn poly(&mut self) -> R<Polygon<f64>> {
        let (e, i) = self.raw_poly()?;
        Ok(Polygon::new(LineString(e), i.into_iter().map(LineString).collect()))
    }
    pub fn geom(&mut self) -> R<Geometry<f64>> {
        let t = self.tok()?;
        Ok(match t {
            "PT" => Geometry::Point(Point(self.coord()?)),
            "LN" => Geometry::Line(Line::new(self.coord()?, self.coord()?)),
            "LS" => Geometry::LineString(LineString(self.coords()?)),
            "PG" => Geometry::Polygon(self.poly()?),
            "MPT" => Geometry::MultiPoint(MultiPoint(self.coords()?.into_iter().map(Point).collect())),
            "MLS" => {
                let n = self.usize()?;
                let mut v = vec![];
                for _ in 0..n {
                    v.push(LineString(self.coords()?));
                }
                Geometry::MultiLineString(MultiLineString(v))
            }
            "MPG" => {
                let n = self.usize()?;
                let mut v = vec![];
                for _ in 0..n {
                    v.push(self.poly()?);
                }
                Geometry::MultiPolygon(MultiPolygon(v))
            }
            "RC" => Geometry::Rect(Rect::new(self.coord()?, self.coord()?)),
            "TR" => Geometry::Triangle(Triangle(self.coord()?, self.coord()?, self.coord()?)),
            "GC" => {
                let n = self.usize()?;
                let mut v = vec![];
                for _ in 0..n {
                    v.push(self.geom()?);
                }
                Geometry::GeometryCollection(GeometryCollection(v))
            }
            _ => return Err(format!("bad geometry tag {}", t)),
        })
    }
}
