//! C02 — Intersects / Contains / Within / coordinate_position against the DE-9IM specification.
use crate::proto::{self, Toks, R};
use crate::rng::Rng;
use crate::shapes::*;
use geo::algorithm::coordinate_position::CoordinatePosition;
use geo::{Contains, Intersects, Within};
use geo_types::*;
use std::panic::{catch_unwind, AssertUnwindSafe};

/// a query point biased towards the vertices / edge midpoints of `g`
fn query_point(rng: &mut Rng, k: i64, g: &Geometry<f64>) -> Coord<f64> {
    use geo::algorithm::coords_iter::CoordsIter;
    let cs: Vec<Coord<f64>> = g.coords_iter().collect();
    if !cs.is_empty() && rng.chance(1, 2) {
        let a = *rng.pick(&cs);
        if rng.chance(1, 2) {
            return a;
        }
        let b = *rng.pick(&cs);
        return Coord { x: (a.x + b.x) / 2.0, y: (a.y + b.y) / 2.0 };
    }
    Coord { x: rng.range(0, 2 * k) as f64 / 2.0, y: rng.range(0, 2 * k) as f64 / 2.0 }
}

pub fn gen(rng: &mut Rng, _index: u64) -> String {
    let k = *rng.pick(&[3i64, 4, 4, 6]);
    if rng.chance(1, 3) {
        let g = gen_valid(rng, k);
        let p = query_point(rng, k, &g);
        format!("C02.pos {} {}", proto::geom(&g), proto::coord(p))
    } else {
        let mut a = gen_valid(rng, k);
        // junctions: several line strings leaving one point (2, 3 or 4 members share an end point)
        if rng.chance(1, 10) {
            let hub = (rng.range(1, k - 1), rng.range(1, k - 1));
            let n = rng.range(2, 4);
            let dirs = [(1i64, 0i64), (0, 1), (-1, 0), (0, -1), (1, 1), (-1, 1), (1, -1), (-1, -1)];
            let mut used: Vec<(i64, i64)> = vec![];
            let mut ls = vec![];
            for _ in 0..n {
                let d = *rng.pick(&dirs);
                if used.contains(&d) { continue; }
                used.push(d);
                let len = rng.range(1, 2);
                let mut pts = vec![hub, (hub.0 + d.0 * len, hub.1 + d.1 * len)];
                if rng.chance(1, 2) { pts.reverse(); }
                ls.push(LineString(path_coords(&pts)));
            }
            a = Geometry::MultiLineString(MultiLineString(ls));
            if rng.chance(2, 3) {
                let b = Geometry::Point(Point(c(hub.0, hub.1)));
                let op = if rng.chance(1, 2) { "C02.pred" } else { "C02.cpred" };
                return if rng.chance(1, 2) { format!("{} {} {}", op, proto::geom(&a), proto::geom(&b)) }
                       else { format!("{} {} {}", op, proto::geom(&b), proto::geom(&a)) };
            }
        }
        // a line string / ring with more vertices than any chunk size, probed on one particular segment
        if rng.chance(1, 40) {
            let n = long_count(rng).min(400);
            let zz = zigzag(n, 2, 0, 0, rng.chance(1, 2));
            let seg = rng.below(n as u64 - 1) as usize;
            let (p, q) = (zz[seg], zz[seg + 1]);
            let mid = Coord { x: (p.x + q.x) / 2.0, y: (p.y + q.y) / 2.0 };
            let lsg = if rng.chance(1, 4) { Geometry::MultiLineString(MultiLineString(vec![LineString(zz.clone())])) } else { Geometry::LineString(LineString(zz.clone())) };
            let probe = match rng.below(4) {
                0 => Geometry::Point(Point(mid)),
                // a short segment crossing only this segment of the zig-zag (perpendicular-ish, through its midpoint)
                1 => Geometry::Line(Line::new(Coord { x: mid.x - 0.25, y: mid.y }, Coord { x: mid.x + 0.25, y: mid.y })),
                2 => Geometry::Line(Line::new(Coord { x: mid.x, y: mid.y - 0.25 }, Coord { x: mid.x, y: mid.y + 0.25 })),
                _ => Geometry::Point(Point(p)),
            };
            let op = *rng.pick(&["C02.pred", "C02.cpred", "C02.pos"]);
            if op == "C02.pos" {
                let pt = match &probe { Geometry::Point(p) => p.0, _ => mid };
                return format!("C02.pos {} {}", proto::geom(&lsg), proto::coord(pt));
            }
            return if rng.chance(1, 2) { format!("{} {} {}", op, proto::geom(&lsg), proto::geom(&probe)) }
                   else { format!("{} {} {}", op, proto::geom(&probe), proto::geom(&lsg)) };
        }
        // a closed line string with redundant collinear vertices on its sides and a Line lying along one side, from
        // the middle of one edge across one or more vertices into the middle of a later edge (for every ring start
        // vertex): the two-pass truncation loop of `LineString: Contains<Line>` must wrap around the ring start
        if rng.chance(1, 12) {
            let (w, h) = (rng.range(2, 5), rng.range(1, 3));
            // rectangle (−1,0) … (w+1,h) with every lattice point of its sides as a vertex
            let mut ring: Vec<(i64, i64)> = vec![];
            for x in -1..=w { ring.push((x, 0)); }
            for y in 0..=h - 1 { ring.push((w + 1, y)); }
            for x in (0..=w + 1).rev() { ring.push((x, h)); }
            for y in (1..=h).rev() { ring.push((-1, y)); }
            let s = rng.below(ring.len() as u64) as usize;
            ring.rotate_left(s);
            if rng.chance(1, 2) { ring.reverse(); }
            let first = ring[0];
            ring.push(first);
            let (sw, half) = (rng.chance(1, 2), 0.5);
            let m = |x: f64, y: f64| if sw { Coord { x: y, y: x } } else { Coord { x, y } };
            let lsg = Geometry::LineString(LineString(ring.iter().map(|&(x, y)| m(x as f64, y as f64)).collect()));
            // along the bottom side y = 0
            let x0 = rng.range(-1, w - 1);
            let x1 = rng.range(x0 + 1, w);
            let (a0, a1) = (x0 as f64 + if rng.chance(2, 3) { half } else { 0.0 }, x1 as f64 + if rng.chance(2, 3) { half } else { 0.0 });
            let ln = if rng.chance(1, 2) { Line::new(m(a0, 0.0), m(a1, 0.0)) } else { Line::new(m(a1, 0.0), m(a0, 0.0)) };
            let lg = if rng.chance(2, 3) { Geometry::Line(ln) } else { Geometry::LineString(LineString(vec![ln.start, ln.end])) };
            let op = if rng.chance(1, 2) { "C02.pred" } else { "C02.cpred" };
            return if rng.chance(2, 3) { format!("{} {} {}", op, proto::geom(&lsg), proto::geom(&lg)) }
                   else { format!("{} {} {}", op, proto::geom(&lg), proto::geom(&lsg)) };
        }
        if rng.chance(1, 25) {
            let (pa, pb) = tongue_pair(rng);
            let op = if rng.chance(1, 2) { "C02.pred" } else { "C02.cpred" };
            return if rng.chance(1, 2) { format!("{} {} {}", op, proto::geom(&pa), proto::geom(&pb)) }
                   else { format!("{} {} {}", op, proto::geom(&pb), proto::geom(&pa)) };
        }
        // containment needs nested operands to be frequent: often derive B from A's own vertices
        let b = if rng.chance(1, 4) {
            use geo::algorithm::coords_iter::CoordsIter;
            let cs: Vec<Coord<f64>> = a.coords_iter().collect();
            if cs.len() >= 2 {
                match rng.below(3) {
                    0 => Geometry::Point(Point(query_point(rng, k, &a))),
                    1 => Geometry::MultiPoint(MultiPoint((0..rng.range(1, 3)).map(|_| Point(query_point(rng, k, &a))).collect())),
                    _ => {
                        let i = rng.below(cs.len() as u64 - 1) as usize;
                        Geometry::Line(Line::new(cs[i], cs[i + 1]))
                    }
                }
            } else {
                gen_valid(rng, k)
            }
        } else {
            gen_valid(rng, k)
        };
        // half of the pair cases go through the concrete-type impls instead of the enum dispatch
        let op = if rng.chance(1, 2) { "C02.pred" } else { "C02.cpred" };
        format!("{} {} {}", op, proto::geom(&a), proto::geom(&b))
    }
}

fn b(f: impl FnOnce() -> bool) -> String {
    match catch_unwind(AssertUnwindSafe(f)) {
        Ok(v) => v.to_string(),
        Err(_) => "panic".into(),
    }
}

/// Calls the *concrete-type* impls (not the Geometry-enum dispatch) for one ordered pair.
macro_rules! concrete_pairs {
    ($a:expr, $b:expr, [$($va:ident),*], $vbs:tt) => {
        match $a {
            $( Geometry::$va(x) => concrete_pairs!(@rhs x, $b, $vbs), )*
        }
    };
    (@rhs $x:expr, $b:expr, [$($vb:ident),*]) => {
        match $b {
            $( Geometry::$vb(y) => format!(
                "{} {} {} {}",
                b(|| $x.intersects(y)),
                b(|| y.intersects($x)),
                b(|| $x.contains(y)),
                b(|| $x.is_within(y))
            ), )*
        }
    };
}

fn concrete(a: &Geometry<f64>, g: &Geometry<f64>) -> String {
    concrete_pairs!(
        a, g,
        [Point, Line, LineString, Polygon, MultiPoint, MultiLineString, MultiPolygon, Rect, Triangle, GeometryCollection],
        [Point, Line, LineString, Polygon, MultiPoint, MultiLineString, MultiPolygon, Rect, Triangle, GeometryCollection]
    )
}

pub fn eval(op: &str, t: &mut Toks) -> R<String> {
    match op {
        "C02.cpred" => {
            let a = t.geom()?;
            let g = t.geom()?;
            Ok(concrete(&a, &g))
        }
        "C02.pred" => {
            let a = t.geom()?;
            let g = t.geom()?;
            Ok(format!(
                "{} {} {} {}",
                b(|| a.intersects(&g)),
                b(|| g.intersects(&a)),
                b(|| a.contains(&g)),
                b(|| a.is_within(&g))
            ))
        }
        "C02.pos" => {
            let g = t.geom()?;
            let p = t.coord()?;
            match catch_unwind(AssertUnwindSafe(|| g.coordinate_position(&p))) {
                Ok(pos) => Ok(crate::c03::pos_str(pos).to_string()),
                Err(_) => Ok("panic".into()),
            }
        }
        _ => Err(format!("unknown op {}", op)),
    }
}
