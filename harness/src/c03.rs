//! C03 — exactness of the orientation / point-location predicates on adversarial f64 input
//! and on integer coordinates.
use crate::gen::*;
use crate::proto::{self, Toks, R};
use crate::rng::Rng;
use geo::algorithm::coordinate_position::coord_pos_relative_to_ring;
use geo::algorithm::kernels::Kernel;
use geo::{Contains, GeoNum, Intersects};
#[allow(unused_imports)]
use geo::algorithm::coordinate_position::CoordinatePosition;
use geo_types::*;

fn next_after(v: f64, up: bool) -> f64 {
    if v == 0.0 {
        return if up { f64::from_bits(1) } else { -f64::from_bits(1) };
    }
    let b = v.to_bits();
    f64::from_bits(if (v > 0.0) == up { b + 1 } else { b - 1 })
}
fn nudge(rng: &mut Rng, v: f64) -> f64 {
    let mut r = v;
    for _ in 0..rng.range(0, 3) {
        r = next_after(r, rng.chance(1, 2));
    }
    r
}

/// generic fractional coordinates (full 53-bit mantissas, mixed signs): the third point is a
/// rounded point of the segment, i.e. within about an ulp of the line, then nudged by 0..2 ulps.
/// Here the coordinate *differences* are not exactly representable, which is where an
/// insufficient floating-point filter in front of the exact predicate goes wrong.
fn near_collinear_generic(rng: &mut Rng) -> (Coord<f64>, Coord<f64>, Coord<f64>) {
    let s = *rng.pick(&[1.0, 1.0, 1.0, 8.0, 1e3, 1e-3, 1e6]);
    let f = |rng: &mut Rng| (rng.unit() * 2.0 - 1.0) * s;
    let p = Coord { x: f(rng), y: f(rng) };
    let q = Coord { x: f(rng), y: f(rng) };
    let t = match rng.below(4) {
        0 => rng.unit(),
        1 => rng.unit() * 3.0 - 1.0,
        2 => 0.5,
        _ => *rng.pick(&[0.25, 0.75, 1.5, -0.5]),
    };
    let mut r = Coord { x: p.x + (q.x - p.x) * t, y: p.y + (q.y - p.y) * t };
    if rng.chance(2, 3) {
        r = Coord { x: nudge(rng, r.x), y: nudge(rng, r.y) };
    }
    match rng.below(3) {
        0 => (p, q, r),
        1 => (r, p, q),
        _ => (q, r, p),
    }
}

/// three points that are exactly collinear in f64 (dyadic construction), then nudged
fn near_collinear(rng: &mut Rng) -> (Coord<f64>, Coord<f64>, Coord<f64>) {
    if rng.chance(2, 5) {
        return near_collinear_generic(rng);
    }
    let s = 2f64.powi(rng.range(-20, 48) as i32);
    let ox = rng.range(-1000, 1000) as f64 * s;
    let oy = rng.range(-1000, 1000) as f64 * s;
    let dx = rng.range(-64, 64) as f64 * s;
    let dy = rng.range(-64, 64) as f64 * s;
    let t1 = rng.range(-8, 8) as f64 / 4.0;
    let t2 = rng.range(-8, 8) as f64 / 4.0;
    let p = Coord { x: ox, y: oy };
    let q = Coord { x: ox + dx * t1, y: oy + dy * t1 };
    let r = Coord { x: ox + dx * t2, y: oy + dy * t2 };
    let mut v = [p, q, r];
    let i = rng.below(3) as usize;
    v[i] = Coord { x: nudge(rng, v[i].x), y: nudge(rng, v[i].y) };
    // classic failure pattern of the naive formula: tiny offsets near a large base point
    if rng.chance(1, 3) {
        let base = rng.range(1, 40) as f64 + 0.5;
        let e = 2f64.powi(-rng.range(45, 53) as i32);
        let k = |rng: &mut Rng| rng.range(0, 255) as f64 * e;
        v = [
            Coord { x: base + k(rng), y: base + k(rng) },
            Coord { x: 12.0, y: 12.0 },
            Coord { x: 24.0, y: 24.0 },
        ];
    }
    (v[0], v[1], v[2])
}

fn gen_ring_a(rng: &mut Rng) -> (Vec<Coord<f64>>, Coord<f64>) {
    // a convex-ish or star ring on a grid scaled to large magnitudes, query point near an edge
    let k = grid_size(rng);
    let n = rng.range(3, 7) as usize;
    let mut r = grid_coords(rng, k, n);
    let f = r[0];
    r.push(f);
    let s = 2f64.powi(rng.range(0, 45) as i32);
    let off = rng.range(-5, 5) as f64 * s;
    for c in r.iter_mut() {
        c.x = c.x * s + off;
        c.y = c.y * s - off;
    }
    let i = rng.below(n as u64) as usize;
    let (a, b) = (r[i], r[i + 1]);
    let t = *rng.pick(&[0.0, 0.25, 0.5, 0.75, 1.0]);
    let m = Coord { x: a.x + (b.x - a.x) * t, y: a.y + (b.y - a.y) * t };
    let p = match rng.below(4) {
        0 => m,
        1 | 2 => Coord { x: nudge(rng, m.x), y: nudge(rng, m.y) },
        _ => Coord { x: (rng.range(0, 2 * k) as f64 / 2.0) * s + off, y: (rng.range(0, 2 * k) as f64 / 2.0) * s - off },
    };
    (r, p)
}

/// A rectangle shell with several pairwise disjoint holes whose bounding boxes overlap (a big triangular hole and a small
/// square hole in the free corner of its box, per cell, in random order), at a random power-of-two scale and offset; the
/// query point is a vertex / edge point / interior point of some ring, nudged by 0..2 ulps.
fn gen_poly(rng: &mut Rng) -> (Polygon<f64>, Coord<f64>) {
    let (nx, ny) = (rng.range(1, 3), rng.range(1, 2));
    let s = 2f64.powi(rng.range(0, 40) as i32);
    let off = rng.range(-5, 5) as f64 * s;
    let c = |x: i64, y: i64| Coord { x: x as f64 * s + off, y: y as f64 * s - off };
    let shell = vec![c(0, 0), c(6 * nx, 0), c(6 * nx, 6 * ny), c(0, 6 * ny), c(0, 0)];
    let mut holes: Vec<Vec<Coord<f64>>> = vec![];
    for i in 0..nx {
        for j in 0..ny {
            let (fx, fy) = (rng.chance(1, 2), rng.chance(1, 2));
            let loc = |x: i64, y: i64| c(6 * i + if fx { 6 - x } else { x }, 6 * j + if fy { 6 - y } else { y });
            let tri = vec![loc(1, 1), loc(5, 1), loc(1, 5), loc(1, 1)];
            let sq = vec![loc(4, 4), loc(5, 4), loc(5, 5), loc(4, 5), loc(4, 4)];
            match rng.below(4) {
                0 => holes.push(tri),
                1 => { holes.push(sq); holes.push(tri); }
                _ => { holes.push(tri); holes.push(sq); }
            }
        }
    }
    if rng.chance(1, 3) {
        let i = rng.below(holes.len() as u64) as usize;
        let j = rng.below(holes.len() as u64) as usize;
        holes.swap(i, j);
    }
    let rings: Vec<&Vec<Coord<f64>>> = std::iter::once(&shell).chain(holes.iter()).collect();
    let r = rings[rng.below(rings.len() as u64) as usize];
    let i = rng.below(r.len() as u64 - 1) as usize;
    let (a, b) = (r[i], r[i + 1]);
    let t = *rng.pick(&[0.0, 0.25, 0.5, 0.75, 1.0]);
    let m = Coord { x: a.x + (b.x - a.x) * t, y: a.y + (b.y - a.y) * t };
    let p = match rng.below(5) {
        0 => m,
        1 | 2 => Coord { x: nudge(rng, m.x), y: nudge(rng, m.y) },
        3 => {
            // strictly inside that ring (its centroid) — inside a hole means outside the polygon
            let n = (r.len() - 1) as f64;
            Coord { x: r[..r.len() - 1].iter().map(|c| c.x).sum::<f64>() / n, y: r[..r.len() - 1].iter().map(|c| c.y).sum::<f64>() / n }
        }
        _ => c(rng.range(0, 6 * nx), rng.range(0, 6 * ny)),
    };
    let poly = Polygon::new(LineString(shell.clone()), holes.iter().map(|h| LineString(h.clone())).collect());
    (poly, p)
}

pub fn gen(rng: &mut Rng, _index: u64) -> String {
    if rng.chance(1, 25) {
        // triangles as geometries; two in three are flat (collinear corners, sometimes repeated): the point set is the hull segment
        let tri_p = if rng.chance(2, 3) {
            let (ox, oy) = (rng.range(-4, 4), rng.range(-4, 4));
            let (dx, dy) = *rng.pick(&[(1i64, 0i64), (0, 1), (1, 1), (1, -1), (2, 1), (-1, 3), (0, 0)]);
            let at = |t: i64| Coord { x: (ox + dx * t) as f64, y: (oy + dy * t) as f64 };
            let (a, b, c) = (at(rng.range(-3, 3)), at(rng.range(-3, 3)), at(rng.range(-3, 3)));
            let mut p = at(rng.range(-5, 5));
            if rng.chance(1, 4) { p.y += *rng.pick(&[-1.0, 1.0]); }
            (Triangle(a, b, c), p)
        } else {
            let (a, p, b) = near_collinear(rng);
            let c = wild_coord(rng);
            let t = match rng.below(3) { 0 => Triangle(a, b, c), 1 => Triangle(b, c, a), _ => Triangle(c, a, b) };
            (t, p)
        };
        return format!("C03.poly {} {}", proto::geom(&Geometry::Triangle(tri_p.0)), proto::coord(tri_p.1));
    }
    if rng.chance(1, 12) {
        let (poly, p) = gen_poly(rng);
        return format!("C03.poly {} {}", proto::geom(&Geometry::Polygon(poly)), proto::coord(p));
    }
    if rng.chance(1, 8) {
        // the same predicates at single precision (f32 operands are widened exactly by the robust kernel)
        let (a, p, b) = near_collinear_f32(rng);
        return match rng.below(4) {
            0 => format!("C03.orient32 {} {} {}", proto::coord(a), proto::coord(b), proto::coord(p)),
            1 => format!("C03.seg32 {} {} {}", proto::coord(a), proto::coord(b), proto::coord(p)),
            2 => {
                // a triangle ring through a, b and a third f32 point; the query is the near-edge point
                let c = Coord { x: (a.x as f32 + 7.25f32) as f64, y: (b.y as f32 - 3.5f32) as f64 };
                format!("C03.ring32 {} {}", proto::coords(&[a, b, c, a]), proto::coord(p))
            }
            _ => {
                let c = Coord { x: (a.x as f32 + 7.25f32) as f64, y: (b.y as f32 - 3.5f32) as f64 };
                format!("C03.tri32 {} {} {} {}", proto::coord(a), proto::coord(b), proto::coord(c), proto::coord(p))
            }
        };
    }
    if rng.chance(1, 10) {
        // the same predicates on the integer coordinate types, every intermediate product within the type
        let (ty, bound) = if rng.chance(1, 2) { ("i64", 1i64 << 30) } else { ("i32", 1i64 << 14) };
        let (a, p, b) = near_collinear_int(rng, bound);
        let c = Coord { x: a.x + rng.range(-7, 7) as f64, y: b.y - rng.range(-5, 5) as f64 };
        return match rng.below(3) {
            0 => format!("C03.seg{} {} {} {}", ty, proto::coord(a), proto::coord(b), proto::coord(p)),
            1 => {
                let ring = if rng.chance(1, 2) { vec![a, b, c, a] } else { vec![c, b, a, c] };
                format!("C03.ring{} {} {}", ty, proto::coords(&ring), proto::coord(p))
            }
            _ => format!("C03.tri{} {} {} {} {}", ty, proto::coord(a), proto::coord(b), proto::coord(c), proto::coord(p)),
        };
    }
    match rng.below(10) {
        0..=2 => {
            let (p, q, r) = near_collinear(rng);
            format!("C03.orient {} {} {}", proto::coord(p), proto::coord(q), proto::coord(r))
        }
        3 => {
            // integers: mostly within the safe bound, sometimes far beyond it
            let b: i64 = if rng.chance(4, 5) { 1 << 30 } else { i64::MAX / 2 };
            let mut v = [0i64; 6];
            for x in v.iter_mut() {
                *x = if rng.chance(1, 3) { rng.range(-8, 8) } else { rng.range(-b, b) };
            }
            if rng.chance(1, 3) {
                // exactly collinear integer triple
                let t = rng.range(-4, 4);
                v[4] = v[0] + (v[2] - v[0]).wrapping_mul(t);
                v[5] = v[1] + (v[3] - v[1]).wrapping_mul(t);
            }
            format!("C03.orienti {} {} {} {} {} {}", v[0], v[1], v[2], v[3], v[4], v[5])
        }
        4 | 5 => {
            if rng.chance(1, 10) {
                // exactly collinear points on / beyond a segment whose coordinates are so small (or so different in
                // magnitude) that products of differences underflow: 2^-600 … 2^-540
                let s = 2f64.powi(-(rng.range(540, 600) as i32));
                let (dx, dy) = (rng.range(-3, 3) as f64, rng.range(-3, 3) as f64);
                let at = |t: i64| Coord { x: dx * t as f64 * s, y: dy * t as f64 * s };
                let (a, b, p) = (at(rng.range(-2, 2)), at(rng.range(-2, 2)), at(rng.range(-4, 4)));
                return format!("C03.seg {} {} {}", proto::coord(a), proto::coord(b), proto::coord(p));
            }
            if rng.chance(1, 8) {
                let (a, b, p) = crate::shapes::ulp_beyond_end(rng);
                return format!("C03.seg {} {} {}", proto::coord(a), proto::coord(b), proto::coord(p));
            }
            let (a, p, b) = near_collinear(rng);
            format!("C03.seg {} {} {}", proto::coord(a), proto::coord(b), proto::coord(p))
        }
        6 | 7 => {
            let (r, p) = gen_ring_a(rng);
            format!("C03.ring {} {}", proto::coords(&r), proto::coord(p))
        }
        _ => {
            let (a, p, b) = near_collinear(rng);
            let c = wild_coord(rng);
            format!("C03.tri {} {} {} {}", proto::coord(a), proto::coord(b), proto::coord(c), proto::coord(p))
        }
    }
}

fn ori_str(o: geo::algorithm::kernels::Orientation) -> &'static str {
    use geo::algorithm::kernels::Orientation::*;
    match o {
        CounterClockwise => "CounterClockwise",
        Clockwise => "Clockwise",
        Collinear => "Collinear",
    }
}

pub fn pos_str(p: geo::coordinate_position::CoordPos) -> &'static str {
    use geo::coordinate_position::CoordPos::*;
    match p {
        OnBoundary => "OnBoundary",
        Inside => "Inside",
        Outside => "Outside",
    }
}

/// single-precision inputs (every value is an f32, printed widened): near-collinear triples whose coordinate
/// differences are not representable in f32 — whole numbers around ±1e7, decimals — the third point a rounded
/// (in f32) point of the segment, nudged by 0..2 f32 ulps
fn near_collinear_f32(rng: &mut Rng) -> (Coord<f64>, Coord<f64>, Coord<f64>) {
    let v = |rng: &mut Rng| -> f32 {
        match rng.below(3) {
            0 => (rng.range(-16_000_000, 16_000_000) as f32) + if rng.chance(1, 2) { 0.5 } else { 0.0 },
            1 => rng.range(-3000, 3000) as f32 / 100.0,
            _ => ((rng.unit() - 0.5) * 2000.0) as f32,
        }
    };
    let a = (v(rng), v(rng));
    let b = (v(rng), v(rng));
    let u = rng.unit() as f32;
    let t = *rng.pick(&[0.25f32, 0.5, 0.75, 2.0, -1.0, u]);
    let mut p = (a.0 + t * (b.0 - a.0), a.1 + t * (b.1 - a.1));
    let nudge32 = |rng: &mut Rng, x: f32| -> f32 {
        let mut r = x;
        for _ in 0..rng.range(0, 2) {
            let bits = r.to_bits();
            r = if r == 0.0 { f32::from_bits(1) } else if rng.chance(1, 2) { f32::from_bits(bits + 1) } else { f32::from_bits(bits - 1) };
        }
        r
    };
    p = (nudge32(rng, p.0), nudge32(rng, p.1));
    let w = |c: (f32, f32)| Coord { x: c.0 as f64, y: c.1 as f64 };
    (w(a), w(p), w(b))
}

/// the f64 coordinate as an f32, if it is one (the 32-bit ops are only meaningful then)
fn c32(c: Coord<f64>) -> Option<Coord<f32>> {
    let (x, y) = (c.x as f32, c.y as f32);
    if x as f64 == c.x && y as f64 == c.y && x.is_finite() && y.is_finite() { Some(Coord { x, y }) } else { None }
}

/// the coordinate as an integer coordinate of type `I`, when it is a whole number below `bound` in magnitude
fn cint<I: GeoNum + TryFrom<i64>>(c: Coord<f64>, bound: f64) -> Option<Coord<I>> {
    let ok = |v: f64| v.fract() == 0.0 && v.abs() < bound;
    if !(ok(c.x) && ok(c.y)) { return None; }
    Some(Coord { x: I::try_from(c.x as i64).ok()?, y: I::try_from(c.y as i64).ok()? })
}

/// point-on-segment, point-in-ring and point-in-triangle on an integer coordinate type (products fit: the generator
/// keeps coordinates below 2^30 for i64 and 2^14 for i32)
fn eval_int<I>(kind: &str, bound: f64, t: &mut Toks) -> R<String>
where
    I: GeoNum + TryFrom<i64>,
{
    match kind {
        "seg" => {
            let (a, b, p) = (t.coord()?, t.coord()?, t.coord()?);
            match (cint::<I>(a, bound), cint::<I>(b, bound), cint::<I>(p, bound)) {
                (Some(a), Some(b), Some(p)) => { let l = Line::new(a, b); Ok(format!("{} {}", l.intersects(&p), l.contains(&p))) }
                _ => Ok("notint".into()),
            }
        }
        "ring" => {
            let ring = t.coords()?;
            let p = t.coord()?;
            let r: Option<Vec<Coord<I>>> = ring.iter().map(|c| cint::<I>(*c, bound)).collect();
            match (r, cint::<I>(p, bound)) {
                (Some(r), Some(p)) => Ok(pos_str(coord_pos_relative_to_ring(p, &LineString(r))).to_string()),
                _ => Ok("notint".into()),
            }
        }
        _ => {
            let (a, b, c, p) = (t.coord()?, t.coord()?, t.coord()?, t.coord()?);
            match (cint::<I>(a, bound), cint::<I>(b, bound), cint::<I>(c, bound), cint::<I>(p, bound)) {
                (Some(a), Some(b), Some(c), Some(p)) => { let tri = Triangle(a, b, c); Ok(format!("{} {}", tri.intersects(&p), tri.contains(&p))) }
                _ => Ok("notint".into()),
            }
        }
    }
}

/// an integer segment a–b and a lattice point on its line (inside, at an end, beyond), nudged by 0 or 1
fn near_collinear_int(rng: &mut Rng, bound: i64) -> (Coord<f64>, Coord<f64>, Coord<f64>) {
    let small = rng.chance(1, 3);
    let v = |rng: &mut Rng| if small { rng.range(-9, 9) } else { rng.range(-bound / 8, bound / 8) };
    let (ax, ay) = (v(rng), v(rng));
    // direction (dx, dy) primitive-ish, length multiplier m: b = a + m·d, p = a + j·d
    let (dx, dy) = if small { (rng.range(-3, 3), rng.range(-3, 3)) } else { (rng.range(-bound / 64, bound / 64), rng.range(-bound / 64, bound / 64)) };
    let m = rng.range(1, 6);
    let j = rng.range(-2, 8);
    let (bx, by) = (ax + m * dx, ay + m * dy);
    let (mut px, mut py) = (ax + j * dx, ay + j * dy);
    match rng.below(4) {
        0 => px += *rng.pick(&[-1i64, 1]),
        1 => py += *rng.pick(&[-1i64, 1]),
        _ => {}
    }
    let c = |x: i64, y: i64| Coord { x: x as f64, y: y as f64 };
    (c(ax, ay), c(px, py), c(bx, by))
}

pub fn eval(op: &str, t: &mut Toks) -> R<String> {
    match op {
        "C03.poly" => {
            use geo::coordinate_position::CoordinatePosition;
            let g = t.geom()?;
            let p = t.coord()?;
            if let Geometry::Triangle(tri) = &g {
                // a Triangle (flat ones included): coordinate_position on the concrete type or through the enum
                let pos = if p.x.to_bits() & 1 == 0 { tri.coordinate_position(&p) } else { g.coordinate_position(&p) };
                return Ok(format!("{} {} {} {}", pos_str(pos), tri.contains(&p), tri.intersects(&p), Point(p).intersects(tri)));
            }
            let poly = match &g { Geometry::Polygon(pg) => pg.clone(), _ => return Err("C03.poly wants PG or TR".into()) };
            // the entry point rotates: the concrete type, the Geometry enum, a one-member MultiPolygon
            let pos = match (p.x.to_bits() ^ p.y.to_bits().rotate_left(21)) % 3 {
                0 => poly.coordinate_position(&p),
                1 => g.coordinate_position(&p),
                _ => MultiPolygon(vec![poly.clone()]).coordinate_position(&p),
            };
            Ok(format!("{} {} {} {}", pos_str(pos), poly.contains(&p), poly.intersects(&p), Point(p).intersects(&poly)))
        }
        "C03.segi64" => eval_int::<i64>("seg", 1073741824.0, t),
        "C03.ringi64" => eval_int::<i64>("ring", 1073741824.0, t),
        "C03.trii64" => eval_int::<i64>("tri", 1073741824.0, t),
        "C03.segi32" => eval_int::<i32>("seg", 16384.0, t),
        "C03.ringi32" => eval_int::<i32>("ring", 16384.0, t),
        "C03.trii32" => eval_int::<i32>("tri", 16384.0, t),
        "C03.orient32" => {
            let (p, q, r) = (t.coord()?, t.coord()?, t.coord()?);
            match (c32(p), c32(q), c32(r)) {
                (Some(p), Some(q), Some(r)) => Ok(ori_str(<f32 as GeoNum>::Ker::orient2d(p, q, r)).to_string()),
                _ => Ok("notf32".into()),
            }
        }
        "C03.seg32" => {
            let (a, b, p) = (t.coord()?, t.coord()?, t.coord()?);
            match (c32(a), c32(b), c32(p)) {
                (Some(a), Some(b), Some(p)) => { let l = Line::new(a, b); Ok(format!("{} {}", l.intersects(&p), l.contains(&p))) }
                _ => Ok("notf32".into()),
            }
        }
        "C03.ring32" => {
            let ring = t.coords()?;
            let p = t.coord()?;
            let r32: Option<Vec<Coord<f32>>> = ring.iter().map(|c| c32(*c)).collect();
            match (r32, c32(p)) {
                (Some(r), Some(p)) => Ok(pos_str(coord_pos_relative_to_ring(p, &LineString(r))).to_string()),
                _ => Ok("notf32".into()),
            }
        }
        "C03.tri32" => {
            let (a, b, c, p) = (t.coord()?, t.coord()?, t.coord()?, t.coord()?);
            match (c32(a), c32(b), c32(c), c32(p)) {
                (Some(a), Some(b), Some(c), Some(p)) => { let tri = Triangle(a, b, c); Ok(format!("{} {}", tri.intersects(&p), tri.contains(&p))) }
                _ => Ok("notf32".into()),
            }
        }
        "C03.orient" => {
            let (p, q, r) = (t.coord()?, t.coord()?, t.coord()?);
            Ok(ori_str(<f64 as GeoNum>::Ker::orient2d(p, q, r)).to_string())
        }
        "C03.orienti" => {
            let mut v = [0i64; 6];
            for x in v.iter_mut() {
                *x = t.i64()?;
            }
            let c = |i: usize| Coord { x: v[i], y: v[i + 1] };
            // wrapping arithmetic is what a release build does; a debug build would panic on overflow
            let r = std::panic::catch_unwind(|| <i64 as GeoNum>::Ker::orient2d(c(0), c(2), c(4)));
            match r {
                Ok(o) => Ok(ori_str(o).to_string()),
                Err(_) => Ok("panic".into()),
            }
        }
        "C03.seg" => {
            let l = Line::new(t.coord()?, t.coord()?);
            let p = t.coord()?;
            Ok(format!("{} {}", l.intersects(&p), l.contains(&p)))
        }
        "C03.ring" => {
            let ring = LineString(t.coords()?);
            let p = t.coord()?;
            Ok(pos_str(coord_pos_relative_to_ring(p, &ring)).to_string())
        }
        "C03.tri" => {
            let tri = Triangle(t.coord()?, t.coord()?, t.coord()?);
            let p = t.coord()?;
            Ok(format!("{} {}", tri.intersects(&p), tri.contains(&p)))
        }
        _ => Err(format!("unknown op {}", op)),
    }
}
