//! geoharness — runs the real georust/geo code on generated or replayed protocol lines.
//!
//!   geoharness gen <PROP> <seed> <shard> <nshards> <count>
//!   geoharness replay <file>            (re-evaluates the input part of every line)
//!
//! Every case is first rendered as text and then evaluated *from that text*, so a replay
//! file reproduces exactly what the generator ran.
mod proto;
mod rng;
mod gen;
mod shapes;
include!("props_gen.rs");

use proto::Toks;
use rng::Rng;
use std::io::{BufRead, Write};
use std::panic::{catch_unwind, AssertUnwindSafe};

fn eval(input: &str) -> String {
    let r = catch_unwind(AssertUnwindSafe(|| {
        let mut t = Toks::new(input);
        let op = match t.tok() {
            Ok(o) => o,
            Err(e) => return format!("harness-error {}", e),
        };
        let res = eval_dispatch(op, &mut t);
        match res {
            Ok(s) => s,
            Err(e) => format!("harness-error {}", e.replace(' ', "_")),
        }
    }));
    match r {
        Ok(s) => s,
        Err(_) => "panic".to_string(),
    }
}

fn gen_case(prop: &str, rng: &mut Rng, index: u64) -> String {
    gen_dispatch(prop, rng, index)
}

fn main() {
    std::panic::set_hook(Box::new(|_| {}));
    let args: Vec<String> = std::env::args().collect();
    let stdout = std::io::stdout();
    let mut out = std::io::BufWriter::new(stdout.lock());
    match args.get(1).map(|s| s.as_str()) {
        Some("gen") => {
            let prop = &args[2];
            let seed: u64 = args[3].parse().unwrap();
            let shard: u64 = args[4].parse().unwrap();
            let nshards: u64 = args[5].parse().unwrap();
            let count: u64 = args[6].parse().unwrap();
            let pn: u64 = prop[1..].parse().unwrap_or(0);
            let mut i = shard;
            while i < count {
                let mut rng = Rng::new(seed, pn, i);
                let input = gen_case(prop, &mut rng, i);
                let o = eval(&input);
                writeln!(out, "{} => {}", input, o).unwrap();
                i += nshards;
            }
        }
        Some("replay") => {
            let f = std::fs::File::open(&args[2]).expect("replay file");
            for line in std::io::BufReader::new(f).lines() {
                let line = line.unwrap();
                let l = line.trim();
                if l.is_empty() || l.starts_with('#') {
                    continue;
                }
                let input = match l.find("=>") {
                    Some(p) => l[..p].trim(),
                    None => l,
                };
                let o = eval(input);
                writeln!(out, "{} => {}", input, o).unwrap();
            }
        }
        _ => {
            eprintln!("usage: geoharness gen <PROP> <seed> <shard> <nshards> <count> | replay <file>");
            std::process::exit(2);
        }
    }
    out.flush().unwrap();
}
