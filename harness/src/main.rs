//! geoharness — runs the real georust/geo code on generated or replayed protocol lines.
//!
//!   geoharness gen <PROP> <seed> <shard> <nshards> <count>
//!   geoharness replay <file>            (re-evaluates the input part of every line)
//!
//! Every case is first rendered as text and then evaluated *from that text*, so a replay
//! file reproduces exactly what the generator ran.
mod proto;
mod rng;
mod gen;
mod shapes;
include!("props_gen.rs");

use proto::Toks;
use rng::Rng;
use std::io::{BufRead, Write};
use std::panic::{catch_unwind, AssertUnwindSafe};

fn eval(input: &str) -> String {
    let r = catch_unwind(AssertUnwindSafe(|| {
        let mut t = Toks::new(input);
        let mut op = match t.tok() {
            Ok(o) => o,
            Err(e) => return format!("harness-error {}", e),
        };
        proto::NEGZERO.with(|c| c.set(None));
        proto::SCALE.with(|c| c.set(1.0));
        while op == "NZ" || op == "DUP" || op == "SC" || op == "LONG" {
            if op == "SC" {
                let k = match t.tok().ok().and_then(|s| s.parse::<i32>().ok()) {
                    Some(k) if k.abs() <= 200 => k,
                    _ => return "harness-error bad-SC".to_string(),
                };
                proto::SCALE.with(|c| c.set(2f64.powi(k)));
            }
            if op == "NZ" {
                // negative-zero variant of the case that follows (see proto::nz)
                let k = match t.tok().ok().and_then(|s| s.parse::<u64>().ok()) {
                    Some(k) => k,
                    None => return "harness-error bad-NZ".to_string(),
                };
                proto::NEGZERO.with(|c| c.set(Some((k, 0))));
            }
            // `DUP` only marks a case in which `dup_variant` repeated a vertex (for the evidence counters)
            op = match t.tok() {
                Ok(o) => o,
                Err(e) => return format!("harness-error {}", e),
            };
        }
        let res = eval_dispatch(op, &mut t);
        match res {
            Ok(s) => s,
            Err(e) => format!("harness-error {}", e.replace(' ', "_")),
        }
    }));
    match r {
        Ok(s) => s,
        Err(_) => "panic".to_string(),
    }
}

/// Positions `(count_token, n)` of the coordinate lists of the tagged geometries in a tokenised line.
fn coord_lists(t: &[&str]) -> Option<Vec<(usize, usize)>> {
    fn list(t: &[&str], i: usize, out: &mut Vec<(usize, usize)>) -> Option<usize> {
        let n: usize = t.get(i)?.parse().ok()?;
        if i + 1 + 2 * n > t.len() { return None; }
        out.push((i, n));
        Some(i + 1 + 2 * n)
    }
    fn poly(t: &[&str], i: usize, out: &mut Vec<(usize, usize)>) -> Option<usize> {
        let k: usize = t.get(i)?.parse().ok()?;
        let mut i = i + 1;
        for _ in 0..k { i = list(t, i, out)?; }
        Some(i)
    }
    fn geom(t: &[&str], i: usize, out: &mut Vec<(usize, usize)>) -> Option<usize> {
        match *t.get(i)? {
            "PT" => Some(i + 3),
            "LN" | "RC" => Some(i + 5),
            "TR" => Some(i + 7),
            "MPT" => { let n: usize = t.get(i + 1)?.parse().ok()?; Some(i + 2 + 2 * n) }
            "LS" => list(t, i + 1, out),
            "PG" => poly(t, i + 1, out),
            "MLS" => { let k: usize = t.get(i + 1)?.parse().ok()?; let mut j = i + 2; for _ in 0..k { j = list(t, j, out)?; } Some(j) }
            "MPG" => { let k: usize = t.get(i + 1)?.parse().ok()?; let mut j = i + 2; for _ in 0..k { j = poly(t, j, out)?; } Some(j) }
            "GC" => { let k: usize = t.get(i + 1)?.parse().ok()?; let mut j = i + 2; for _ in 0..k { j = geom(t, j, out)?; } Some(j) }
            _ => None,
        }
    }
    let mut out = Vec::new();
    let mut i = 0;
    while i < t.len() {
        if matches!(t[i], "PT" | "LN" | "RC" | "TR" | "MPT" | "LS" | "PG" | "MLS" | "MPG" | "GC") {
            i = geom(t, i, &mut out)?;
            if i > t.len() { return None; }
        } else {
            i += 1;
        }
    }
    Some(out)
}

/// The same case with one vertex of one line string / ring written two or three times in a row (a zero-length
/// segment; for the last vertex of a ring: a repeated closing coordinate). The point sets are unchanged.
fn dup_variant(input: &str, rng: &mut Rng) -> Option<String> {
    let t: Vec<&str> = input.split(' ').collect();
    let lists: Vec<(usize, usize)> = coord_lists(&t)?.into_iter().filter(|&(_, n)| n >= 2).collect();
    if lists.is_empty() { return None; }
    let (pos, n) = *rng.pick(&lists);
    let v = match rng.below(4) { 0 => n - 1, 1 => 0, _ => rng.below(n as u64) as usize };
    let reps = if rng.chance(1, 4) { 2 } else { 1 };
    let mut out: Vec<String> = Vec::with_capacity(t.len() + 5);
    out.push("DUP".to_string());
    for (i, tok) in t.iter().enumerate() {
        if i == pos {
            out.push(format!("{}", n + reps));
        } else {
            out.push(tok.to_string());
        }
        if i == pos + 2 + 2 * v {
            for _ in 0..reps { out.push(t[i - 1].to_string()); out.push(t[i].to_string()); }
        }
    }
    Some(out.join(" "))
}

/// every numeric token of the case is 0 or has a magnitude in [2^-300, 2^300]: scaling by 2^±60 cannot overflow, underflow
/// or produce subnormals, also not in the products the algorithms form
fn scale_safe(input: &str) -> bool {
    input.split(' ').all(|t| {
        let v = if let Some(h) = t.strip_prefix('h') {
            match u64::from_str_radix(h, 16) { Ok(b) if t.len() == 17 => f64::from_bits(b), _ => return true }
        } else {
            match t.parse::<i64>() { Ok(i) => i as f64, Err(_) => return t != "nan" && t != "inf" && t != "-inf" }
        };
        v == 0.0 || (v.is_finite() && v.abs() >= 2f64.powi(-300) && v.abs() <= 2f64.powi(300))
    })
}

/// The same case with one line string / ring *subdivided*: 2^t − 1 equally spaced collinear vertices inserted into every
/// edge (exact: only lists whose coordinates are integers below 2^40 are taken, the new ones are multiples of 2^-t), so
/// that the vertex count passes the thresholds at which an implementation might change code paths (16 … 256). The
/// point set is unchanged.
fn long_variant(input: &str, rng: &mut Rng) -> Option<String> {
    let t: Vec<&str> = input.split(' ').collect();
    let is_int = |s: &str| s.parse::<i64>().map(|v| v.abs() < (1i64 << 40)).unwrap_or(false);
    let lists: Vec<(usize, usize)> = coord_lists(&t)?.into_iter()
        .filter(|&(pos, n)| n >= 2 && n <= 60 && (0..2 * n).all(|j| is_int(t[pos + 1 + j]))).collect();
    if lists.is_empty() { return None; }
    let (pos, n) = *rng.pick(&lists);
    let tt = rng.range(2, 6) as u32;
    let per = (1usize << tt) - 1;
    let cap: usize = std::env::var("VERIF_LONG_MAX").ok().and_then(|v| v.parse().ok()).unwrap_or(420);
    if (n - 1) * (per + 1) + 1 > cap { return None; }
    let cs: Vec<(f64, f64)> = (0..n).map(|j| (t[pos + 1 + 2 * j].parse::<i64>().unwrap() as f64, t[pos + 2 + 2 * j].parse::<i64>().unwrap() as f64)).collect();
    let mut pts: Vec<(f64, f64)> = vec![];
    for w in cs.windows(2) {
        pts.push(w[0]);
        if w[0] != w[1] {
            for j in 1..=per {
                let f = j as f64 / (per + 1) as f64;
                pts.push((w[0].0 + (w[1].0 - w[0].0) * f, w[0].1 + (w[1].1 - w[0].1) * f));
            }
        }
    }
    pts.push(cs[n - 1]);
    let mut out: Vec<String> = vec!["LONG".to_string()];
    out.extend(t[..pos].iter().map(|s| s.to_string()));
    out.push(format!("{}", pts.len()));
    for (x, y) in &pts { out.push(proto::num(*x)); out.push(proto::num(*y)); }
    out.extend(t[pos + 1 + 2 * n..].iter().map(|s| s.to_string()));
    Some(out.join(" "))
}

fn gen_case(prop: &str, rng: &mut Rng, index: u64) -> String {
    gen_dispatch(prop, rng, index)
}

fn main() {
    std::panic::set_hook(Box::new(|_| {}));
    let args: Vec<String> = std::env::args().collect();
    let stdout = std::io::stdout();
    let mut out = std::io::BufWriter::new(stdout.lock());
    match args.get(1).map(|s| s.as_str()) {
        Some("gen") => {
            let prop = &args[2];
            let seed: u64 = args[3].parse().unwrap();
            let shard: u64 = args[4].parse().unwrap();
            let nshards: u64 = args[5].parse().unwrap();
            let count: u64 = args[6].parse().unwrap();
            let pn: u64 = prop[1..].parse().unwrap_or(0);
            // exponents of the scale variants (a property whose oracle enumerates lattice points excludes the positive ones)
            let scale_exps: Vec<i32> = match std::env::var("VERIF_SCALE_EXPS") {
                Ok(v) if !v.is_empty() => v.split(',').filter_map(|x| x.parse().ok()).collect(),
                _ => vec![-60, -40, -30, -27, -10, -8, 27, 40],
            };
            let scale_props: Vec<String> = std::env::var("VERIF_SCALE_PROPS").unwrap_or_default().split(',').map(|s| s.to_string()).collect();
            let long_props: Vec<String> = std::env::var("VERIF_LONG_PROPS").unwrap_or_default().split(',').map(|s| s.to_string()).collect();
            let dup_props: Vec<String> = std::env::var("VERIF_DUP_PROPS").unwrap_or_default().split(',').map(|s| s.to_string()).collect();
            let mut i = shard;
            while i < count {
                let mut rng = Rng::new(seed, pn, i);
                let mut input = gen_case(prop, &mut rng, i);
                // one case in twelve is run with a repeated vertex (props listed in VERIF_DUP_PROPS, see ./check)
                if rng.chance(1, 12) && dup_props.iter().any(|p| p == prop) {
                    if let Some(d) = dup_variant(&input, &mut rng) { input = d; }
                }
                // one case in forty is run with one line string / ring subdivided into many collinear vertices
                if rng.chance(1, 40) && long_props.iter().any(|p| p == prop) {
                    if let Some(d) = long_variant(&input, &mut rng) { input = d; }
                }
                // one case in ten is run at a tiny or huge dyadic scale (props listed in VERIF_SCALE_PROPS): all input
                // coordinates times 2^k on both sides; only if every number of the case stays far from the range limits
                if rng.chance(1, 10) && scale_props.iter().any(|p| p == prop) && scale_safe(&input) {
                    let k = *rng.pick(&scale_exps);
                    input = format!("SC {} {}", k, input);
                }
                // one case in eight with a zero coordinate is run in a negative-zero spelling
                if rng.chance(1, 8) && input.split(' ').any(|t| t == "0") {
                    input = format!("NZ {} {}", rng.next() % 1000, input);
                }
                // the input is on disk before the case is evaluated: a hang or abort is attributed to it by ./check
                write!(out, "{} => ", input).unwrap();
                out.flush().unwrap();
                let o = eval(&input);
                writeln!(out, "{}", o).unwrap();
                i += nshards;
            }
        }
        Some("replay") => {
            let f = std::fs::File::open(&args[2]).expect("replay file");
            for line in std::io::BufReader::new(f).lines() {
                let line = line.unwrap();
                let l = line.trim();
                if l.is_empty() || l.starts_with('#') {
                    continue;
                }
                let input = match l.find("=>") {
                    Some(p) => l[..p].trim(),
                    None => l,
                };
                write!(out, "{} => ", input).unwrap();
                out.flush().unwrap();
                let o = eval(input);
                writeln!(out, "{}", o).unwrap();
            }
        }
        _ => {
            eprintln!("usage: geoharness gen <PROP> <seed> <shard> <nshards> <count> | replay <file>");
            std::process::exit(2);
        }
    }
    out.flush().unwrap();
}
