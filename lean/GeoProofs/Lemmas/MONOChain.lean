/-
  MONO (C10, builder of the monotone pieces): the chain operations keep a chain lexicographically increasing under
  explicit conditions on its last coordinate (the "tip"). These are the conditions that an ownership invariant of the
  builder (no chain index held by two of: a pending segment's `chain_idx`, a registered `help`) would discharge.
-/
import GeoModel.MonoBuild
import GeoProofs.Lemmas.C10Mono

namespace Geo.Proofs.MONO
open Geo Geo.Mono Geo.MonoBuild Geo.Proofs.C10

/-- appending a coordinate after the tip -/
theorem lexSorted_append : ∀ (c : List Pt) (p : Pt), lexSorted c = true →
    (∀ t, c.getLast? = some t → lexLt t p = true) → lexSorted (c ++ [p]) = true
  | [], p, _, _ => by simp [lexSorted]
  | [a], p, _, h => by
    have := h a (by simp)
    simp [lexSorted, this]
  | a :: b :: rest, p, hs, h => by
    obtain ⟨hab, hs'⟩ := lexSorted_cons hs
    have ih := lexSorted_append (b :: rest) p hs' (by
      intro t ht; apply h t
      simpa [List.getLast?_cons_cons] using ht)
    show lexSorted (a :: b :: (rest ++ [p])) = true
    simp only [lexSorted, Bool.and_eq_true]
    exact ⟨hab, by simpa using ih⟩

/-- a prefix of an increasing chain is increasing -/
theorem lexSorted_dropLast : ∀ (c : List Pt), lexSorted c = true → lexSorted c.dropLast = true
  | [], _ => by simp [lexSorted]
  | [a], _ => by simp [lexSorted]
  | [a, b], _ => by simp [lexSorted]
  | a :: b :: c :: rest, hs => by
    obtain ⟨hab, hs'⟩ := lexSorted_cons hs
    have ih := lexSorted_dropLast (b :: c :: rest) hs'
    show lexSorted (a :: (b :: c :: rest).dropLast) = true
    simp only [List.dropLast_cons₂] at ih ⊢
    simp only [lexSorted, Bool.and_eq_true]
    exact ⟨hab, ih⟩

/-- `Chain::fix_top(rt)`: the new tip must lie after the coordinate before the tip -/
theorem fixTop_sorted {c c' : List Pt} {rt : Pt} (h : fixTop c rt = some c') (hs : lexSorted c = true)
    (hb : ∀ t, c.dropLast.getLast? = some t → lexLt t rt = true) : lexSorted c' = true := by
  unfold fixTop at h
  split at h
  · cases h
  · cases h
    exact lexSorted_append _ _ (lexSorted_dropLast c hs) hb

/-- `Chain::swap_at_top(pt)`: the coordinate before the tip must lie before `pt`; all three resulting chains are
increasing and the two new ones end at `pt` -/
theorem swapAtTop_sorted {c s n0 n1 : List Pt} {pt : Pt} (h : swapAtTop c pt = some (s, n0, n1))
    (hs : lexSorted c = true) (hb : ∀ t, c.dropLast.getLast? = some t → lexLt t pt = true) :
    lexSorted s = true ∧ lexSorted n0 = true ∧ lexSorted n1 = true ∧
      n0.getLast? = some pt ∧ n1.getLast? = some pt := by
  unfold swapAtTop at h
  split at h
  · cases h
  · rename_i top htop
    simp only at h
    split at h
    · cases h
    · rename_i prev hprev
      have hpp : lexLt prev pt = true := hb prev hprev
      have hne : c ≠ [] := by intro e; rw [e] at htop; cases htop
      have hc : c = c.dropLast ++ [top] := by
        have := List.dropLast_concat_getLast hne
        rw [List.getLast?_eq_some_getLast hne] at htop
        simp only [Option.some.injEq] at htop
        rw [htop] at this; exact this.symm
      have hpt : lexLt prev top = true := by
        have hd : c.dropLast ≠ [] := by intro e; rw [e] at hprev; cases hprev
        have hd2 : c.dropLast = c.dropLast.dropLast ++ [prev] := by
          have := List.dropLast_concat_getLast hd
          rw [List.getLast?_eq_some_getLast hd] at hprev
          simp only [Option.some.injEq] at hprev
          rw [hprev] at this; exact this.symm
        rw [hc, hd2] at hs
        -- the last two coordinates of an increasing chain
        have key : ∀ (l : List Pt) (x y : Pt), lexSorted (l ++ [x] ++ [y]) = true → lexLt x y = true := by
          intro l
          induction l with
          | nil => intro x y h; simpa [lexSorted] using h
          | cons a t ih =>
            intro x y h
            cases t with
            | nil =>
              have := (lexSorted_cons (a := a) (b := x) (rest := [y]) (by simpa using h)).2
              simpa [lexSorted] using this
            | cons b t' =>
              have := (lexSorted_cons (a := a) (b := b) (rest := t' ++ [x] ++ [y]) (by simpa using h)).2
              exact ih x y (by simpa using this)
        exact key _ _ _ hs
      have s1 : lexSorted [prev, top] = true := by simp [lexSorted, hpt]
      have s2 : lexSorted [prev, pt] = true := by simp [lexSorted, hpp]
      have s3 : lexSorted (c.dropLast ++ [pt]) = true := lexSorted_append _ _ (lexSorted_dropLast c hs) hb
      split at h
      · cases h; exact ⟨s1, s3, s2, by simp, by simp⟩
      · cases h; exact ⟨s1, s2, s3, by simp, by simp⟩

/-- `Chain::finish_with`: two increasing chains of at least two coordinates make a well-formed piece -/
theorem finishWith_wellFormed {a b : List Pt} {m : MonoPoly} (h : finishWith a b = some m)
    (ha : lexSorted a = true) (hb : lexSorted b = true) (la : 2 ≤ a.length) (lb : 2 ≤ b.length) :
    wellFormed m = true := by
  unfold finishWith at h
  split at h
  · rename_i x y z w h1 h2 h3 h4
    split at h
    · rename_i hc
      cases h
      simp only [Bool.and_eq_true, beq_iff_eq] at hc
      unfold wellFormed
      simp only [Bool.and_eq_true, decide_eq_true_eq]
      exact ⟨⟨⟨⟨⟨hb, ha⟩, lb⟩, la⟩, by rw [h1, h2, hc.1]⟩, by rw [h3, h4, hc.2]⟩
    · cases h
  · cases h

end Geo.Proofs.MONO
