/-
  Translator tie for the point–segment distance of geo-types/src/private_utils.rs (`line_segment_distance`,
  `point_line_euclidean_distance`, `line_euclidean_length`, `Line::{delta,dx,dy}`), in sqrt-free form: the regenerated
  definitions take `f64::hypot` as a parameter `hyp`; whenever the square of `hyp` is `x² + y²` at the (at most three)
  argument pairs the code evaluates, the square of the regenerated result is the model's squared distance `psd2`.
-/
import GeoModel.Distance
import GeoModel.Gen.DistGen
import Mathlib.Tactic.Ring

namespace Geo.Proofs.TRANDist
open Geo

theorem rabs_mul_self (s : Rat) : rabs s * rabs s = s * s := by
  unfold rabs
  by_cases h : s < 0 <;> simp [h]

theorem lineEuclideanLength_sq (hyp : Rat → Rat → Rat) (p a : Pt)
    (h : hyp (a.x - p.x) (a.y - p.y) * hyp (a.x - p.x) (a.y - p.y) = (a.x - p.x) * (a.x - p.x) + (a.y - p.y) * (a.y - p.y)) :
    Gen.lineEuclideanLength hyp (p, a) * Gen.lineEuclideanLength hyp (p, a) = dist2 p a := by
  show hyp (a.x - p.x) (a.y - p.y) * hyp (a.x - p.x) (a.y - p.y) = _
  rw [h]; unfold dist2; ring

/-- the three places where the code takes a `hypot` -/
structure HypOk (hyp : Rat → Rat → Rat) (p a b : Pt) : Prop where
  toStart : hyp (a.x - p.x) (a.y - p.y) * hyp (a.x - p.x) (a.y - p.y) = (a.x - p.x) * (a.x - p.x) + (a.y - p.y) * (a.y - p.y)
  toEnd : hyp (b.x - p.x) (b.y - p.y) * hyp (b.x - p.x) (b.y - p.y) = (b.x - p.x) * (b.x - p.x) + (b.y - p.y) * (b.y - p.y)
  along : hyp (b.x - a.x) (b.y - a.y) * hyp (b.x - a.x) (b.y - a.y) = (b.x - a.x) * (b.x - a.x) + (b.y - a.y) * (b.y - a.y)

theorem lineSegmentDistance_sq (hyp : Rat → Rat → Rat) (p a b : Pt) (H : HypOk hyp p a b) :
    Gen.lineSegmentDistance hyp p a b * Gen.lineSegmentDistance hyp p a b = psd2 p a b := by
  unfold Gen.lineSegmentDistance psd2
  by_cases h0 : a = b
  · simp only [h0, beq_self_eq_true, if_true]
    exact lineEuclideanLength_sq hyp p b H.toEnd
  · have hb : (a == b) = false := by simpa using h0
    simp only [hb, Bool.false_eq_true, if_false]
    by_cases h1 : ((p.x - a.x) * (b.x - a.x) + (p.y - a.y) * (b.y - a.y)) / ((b.x - a.x) * (b.x - a.x) + (b.y - a.y) * (b.y - a.y)) ≤ 0
    · simp only [h1, decide_true, if_true]
      exact lineEuclideanLength_sq hyp p a H.toStart
    · simp only [h1, decide_false, Bool.false_eq_true, if_false]
      by_cases h2 : ((p.x - a.x) * (b.x - a.x) + (p.y - a.y) * (b.y - a.y)) / ((b.x - a.x) * (b.x - a.x) + (b.y - a.y) * (b.y - a.y)) ≥ 1
      · simp only [h2, decide_true, if_true]
        exact lineEuclideanLength_sq hyp p b H.toEnd
      · simp only [h2, decide_false, Bool.false_eq_true, if_false]
        have e : ∀ (s h d : Rat), h * h = d → (rabs s * h) * (rabs s * h) = s * s * d := by
          intro s h d hd
          have : (rabs s * h) * (rabs s * h) = (rabs s * rabs s) * (h * h) := by ring
          rw [this, rabs_mul_self, hd]
        exact e _ _ _ H.along

theorem pointLineEuclideanDistance_sq (hyp : Rat → Rat → Rat) (p a b : Pt) (H : HypOk hyp p a b) :
    Gen.pointLineEuclideanDistance hyp p (a, b) * Gen.pointLineEuclideanDistance hyp p (a, b) = psd2 p a b :=
  lineSegmentDistance_sq hyp p a b H

end Geo.Proofs.TRANDist
