/-
  C10 helper lemmas: MonoPoly point location on lexicographically increasing chains.
-/
import GeoModel.MonoPoly
import Mathlib.Tactic.Linarith
import Mathlib.Tactic.Ring

namespace Geo.Proofs.C10
open Geo Geo.Mono

/-! ### the lexicographic order on coordinates -/

theorem lexLt_iff (a b : Pt) : lexLt a b = true ↔ a.x < b.x ∨ (a.x = b.x ∧ a.y < b.y) := by
  simp [lexLt]

theorem lexLt_false_iff (a b : Pt) : lexLt a b = false ↔ b.x < a.x ∨ (a.x = b.x ∧ b.y ≤ a.y) := by
  rw [← Bool.not_eq_true, lexLt_iff]
  constructor
  · intro h
    rcases lt_trichotomy a.x b.x with h1 | h1 | h1
    · exact absurd (Or.inl h1) h
    · right; refine ⟨h1, ?_⟩
      by_contra h2
      exact h (Or.inr ⟨h1, lt_of_not_ge h2⟩)
    · left; exact h1
  · rintro (h | ⟨h1, h2⟩) (g | ⟨g1, g2⟩) <;> linarith

theorem pt_ext {a b : Pt} (hx : a.x = b.x) (hy : a.y = b.y) : a = b := by
  cases a; cases b; simp_all

theorem lexLt_irrefl (a : Pt) : lexLt a a = false := by
  rw [lexLt_false_iff]; right; exact ⟨rfl, le_refl _⟩

theorem lexLt_trans {a b c : Pt} (h1 : lexLt a b = true) (h2 : lexLt b c = true) : lexLt a c = true := by
  rw [lexLt_iff] at *
  rcases h1 with h1 | ⟨e1, h1⟩ <;> rcases h2 with h2 | ⟨e2, h2⟩
  · left; linarith
  · left; linarith
  · left; linarith
  · right; exact ⟨e1.trans e2, lt_trans h1 h2⟩

theorem lexLt_asymm {a b : Pt} (h : lexLt a b = true) : lexLt b a = false := by
  rw [lexLt_iff] at h; rw [lexLt_false_iff]
  rcases h with h | ⟨e, h⟩
  · left; exact h
  · right; exact ⟨e.symm, le_of_lt h⟩

theorem lex_antisymm {a b : Pt} (h1 : lexLt a b = false) (h2 : lexLt b a = false) : a = b := by
  rw [lexLt_false_iff] at h1 h2
  rcases h1 with h1 | ⟨e1, h1⟩ <;> rcases h2 with h2 | ⟨e2, h2⟩
  · linarith
  · linarith
  · linarith
  · exact pt_ext e1 (le_antisymm h2 h1)

/-- `a ≤ b < c → a < c` -/
theorem lexLe_lt_trans {a b c : Pt} (h1 : lexLt b a = false) (h2 : lexLt b c = true) : lexLt a c = true := by
  rw [lexLt_false_iff] at h1; rw [lexLt_iff] at *
  rcases h1 with h1 | ⟨e1, h1⟩ <;> rcases h2 with h2 | ⟨e2, h2⟩
  · left; linarith
  · left; linarith
  · left; linarith
  · right; exact ⟨e1.symm.trans e2, lt_of_le_of_lt h1 h2⟩

/-- `a < b ≤ c → a < c` -/
theorem lexLt_le_trans {a b c : Pt} (h1 : lexLt a b = true) (h2 : lexLt c b = false) : lexLt a c = true := by
  rw [lexLt_false_iff] at h2; rw [lexLt_iff] at *
  rcases h1 with h1 | ⟨e1, h1⟩ <;> rcases h2 with h2 | ⟨e2, h2⟩
  · left; linarith
  · left; linarith
  · left; linarith
  · right; exact ⟨e1.trans e2.symm, lt_of_lt_of_le h1 h2⟩

/-! ### orientation with the query in the middle -/

theorem cross_mid (a b p : Pt) : cross a p b = -(cross a b p) := by
  simp only [cross]; ring

/-- `orient2d(start, coord, end)` is the mirror image of `orient(start, end, coord)` -/
theorem orient_mid (a b p : Pt) :
    orient a p b = (match orient a b p with | .ccw => .cw | .cw => .ccw | .col => .col) := by
  simp only [orient]
  rw [cross_mid a b p]
  by_cases h1 : cross a b p > 0
  · have : ¬ (-(cross a b p) > 0) := by linarith
    have h3 : -(cross a b p) < 0 := by linarith
    simp [h1, this, h3]
  · by_cases h2 : cross a b p < 0
    · have : -(cross a b p) > 0 := by linarith
      simp [h1, h2, this]
    · have h3 : ¬ (-(cross a b p) > 0) := by linarith
      have h4 : ¬ (-(cross a b p) < 0) := by linarith
      simp [h1, h2, h3, h4]

theorem orient_end (a p : Pt) : orient a p p = .col := by
  have : cross a p p = 0 := by simp only [cross]; ring
  simp only [orient, this]; simp

theorem orient_start (b p : Pt) : orient p b p = .col := by
  have : cross p b p = 0 := by simp only [cross]; ring
  simp only [orient, this]; simp

/-! ### sorted chains -/

theorem lexSorted_cons {a b : Pt} {rest : List Pt} (h : lexSorted (a :: b :: rest) = true) :
    lexLt a b = true ∧ lexSorted (b :: rest) = true := by
  simpa [lexSorted] using h

/-- every coordinate of a sorted chain is `≥` its head -/
theorem sorted_head_le : ∀ (c : List Pt) (a : Pt), lexSorted (a :: c) = true → ∀ x ∈ (a :: c), lexLt x a = false
  | [], a, _, x, hx => by
    have : x = a := by simpa using hx
    subst this; exact lexLt_irrefl x
  | b :: rest, a, h, x, hx => by
    obtain ⟨hab, hs⟩ := lexSorted_cons h
    rcases List.mem_cons.1 hx with rfl | hx
    · exact lexLt_irrefl _
    · have hb := sorted_head_le rest b hs x hx
      -- a < b ≤ x
      exact lexLt_asymm (lexLt_le_trans hab hb)

theorem mem_segs : ∀ {c : List Pt} {s : Pt × Pt}, s ∈ segs c → s.1 ∈ c ∧ s.2 ∈ c
  | [], _, h => by simp [segs] at h
  | [_], _, h => by simp [segs] at h
  | a :: b :: rest, s, h => by
    simp only [segs, List.mem_cons] at h
    rcases h with rfl | h
    · simp
    · have := mem_segs (c := b :: rest) h
      exact ⟨List.mem_cons_of_mem _ this.1, List.mem_cons_of_mem _ this.2⟩

/-! ### segment selection -/

/-- the first segment of the chain whose end point is `≥ p` -/
def selRec : List Pt → Pt → Option (Pt × Pt)
  | a :: b :: rest, p => if lexLt b p then selRec (b :: rest) p else some (a, b)
  | _, _ => none

/-- selection as done by `bounding_segment_lex` for one chain -/
def sel (c : List Pt) (p : Pt) : Option (Pt × Pt) :=
  match c with
  | [] => none
  | a :: _ => if lexLt p a then none else selRec c p

theorem sideAny_cons (a b : Pt) (rest : List Pt) (p : Pt) (s : Ori) :
    sideAny (a :: b :: rest) p s =
      ((lexLe a p && lexLe p b && orient a b p == s) || sideAny (b :: rest) p s) := by
  simp [sideAny, segs]

/-- what the selected segment says decides `sideAny` -/
theorem selRec_spec : ∀ (t : List Pt) (a p : Pt), lexSorted (a :: t) = true → lexLt p a = false →
    (∀ u v, selRec (a :: t) p = some (u, v) →
      (u, v) ∈ segs (a :: t) ∧ lexLt p u = false ∧ lexLt v p = false ∧
        ∀ s, sideAny (a :: t) p s = (orient u v p == s)) ∧
    (selRec (a :: t) p = none → ∀ s, sideAny (a :: t) p s = false)
  | [], a, p, _, _ => by simp [selRec, sideAny, segs]
  | b :: rest, a, p, hs, hpa => by
    obtain ⟨hab, hs'⟩ := lexSorted_cons hs
    by_cases hbp : lexLt b p = true
    · -- the head segment ends before `p`
      have hpb : lexLt p b = false := lexLt_asymm hbp
      obtain ⟨ih1, ih2⟩ := selRec_spec rest b p hs' hpb
      have hside : ∀ s, sideAny (a :: b :: rest) p s = sideAny (b :: rest) p s := by
        intro s; rw [sideAny_cons]; simp [lexLe, hbp]
      have hsel : selRec (a :: b :: rest) p = selRec (b :: rest) p := by simp [selRec, hbp]
      refine ⟨fun u v h => ?_, fun h s => ?_⟩
      · rw [hsel] at h
        obtain ⟨m, h1, h2, h3⟩ := ih1 u v h
        refine ⟨?_, h1, h2, fun s => by rw [hside, h3]⟩
        simp only [segs, List.mem_cons]; right; exact m
      · rw [hsel] at h; rw [hside]; exact ih2 h s
    · have hbp' : lexLt b p = false := by simpa using hbp
      have hsel : selRec (a :: b :: rest) p = some (a, b) := by simp [selRec, hbp']
      refine ⟨fun u v h => ?_, fun h => by rw [hsel] at h; cases h⟩
      rw [hsel] at h
      obtain ⟨rfl, rfl⟩ : a = u ∧ b = v := by simpa using h
      refine ⟨by simp [segs], hpa, hbp', fun s => ?_⟩
      rw [sideAny_cons]
      have h0 : (lexLe a p && lexLe p b) = true := by simp [lexLe, hpa, hbp']
      rw [h0, Bool.true_and]
      -- a later spanning segment starts at `p = b`, where everything is collinear
      by_cases hl : sideAny (b :: rest) p s = true
      · have : ∃ x ∈ segs (b :: rest), (lexLe x.1 p && lexLe p x.2 && orient x.1 x.2 p == s) = true := by
          simpa [sideAny] using hl
        obtain ⟨⟨u', v'⟩, hm, hx⟩ := this
        simp only [Bool.and_eq_true, lexLe, Bool.not_eq_true', beq_iff_eq] at hx
        obtain ⟨⟨hu, _⟩, ho⟩ := hx
        have hu' : lexLt u' b = false := sorted_head_le rest b hs' u' (mem_segs hm).1
        -- b ≤ u' ≤ p ≤ b
        have hbu : b = u' := by
          apply lex_antisymm _ hu'
          -- b < u' would give b < u' ≤ p, contradicting p ≤ b
          by_contra hc
          have hc' : lexLt b u' = true := by simpa using hc
          have := lexLt_le_trans hc' hu
          rw [hbp'] at this; cases this
        have hpb : p = b := by
          apply lex_antisymm _ hbp'
          rw [hbu]; exact hu
        subst hbu
        subst hpb
        rw [orient_start] at ho
        rw [orient_end, hl]
        simp [ho]
      · have hl' : sideAny (b :: rest) p s = false := by simpa using hl
        rw [hl', Bool.or_false]

/-- the selection fails exactly when `p` lies after the last coordinate -/
theorem selRec_none_iff : ∀ (t : List Pt) (a b p : Pt), lexSorted (a :: b :: t) = true →
    (selRec (a :: b :: t) p = none ↔ lexLt ((a :: b :: t).getLast (by simp)) p = true)
  | [], a, b, p, _ => by
    by_cases h : lexLt b p = true <;> simp [selRec, h]
  | c :: rest, a, b, p, hs => by
    obtain ⟨_, hs'⟩ := lexSorted_cons hs
    have ih := selRec_none_iff rest b c p hs'
    by_cases h : lexLt b p = true
    · have : selRec (a :: b :: c :: rest) p = selRec (b :: c :: rest) p := by simp [selRec, h]
      rw [this, ih]; simp
    · have h' : lexLt b p = false := by simpa using h
      have : selRec (a :: b :: c :: rest) p = some (a, b) := by simp [selRec, h']
      rw [this]
      simp only [reduceCtorEq, false_iff]
      intro hl
      -- b ≤ last < p
      have hb : lexLt ((b :: c :: rest).getLast (by simp)) b = false :=
        sorted_head_le (c :: rest) b hs' _ (List.getLast_mem _)
      have hl' : lexLt ((b :: c :: rest).getLast (by simp)) p = true := by simpa using hl
      have := lexLe_lt_trans hb hl'
      rw [h'] at this; cases this

/-! ### `partition_point` indices are the selected segments -/

theorem sel_index : ∀ (t : List Pt) (a p : Pt), lexLt a p = true →
    let j := partitionPoint (fun c => lexLt c p) t
    (j = t.length → selRec (a :: t) p = none) ∧
    (j < t.length → selRec (a :: t) p = some (nth (a :: t) j, nth t j)) ∧ j ≤ t.length
  | [], a, p, _ => by simp [partitionPoint, selRec]
  | b :: rest, a, p, _ => by
    by_cases hb : lexLt b p = true
    · obtain ⟨i1, i2, i3⟩ := sel_index rest b p hb
      simp only [partitionPoint, hb, if_true, List.length_cons, Nat.add_right_cancel_iff,
        Nat.add_lt_add_iff_right, Nat.add_le_add_iff_right]
      refine ⟨fun h => ?_, fun h => ?_, i3⟩
      · simp only [selRec, hb, if_true]; exact i1 h
      · simp only [selRec, hb, if_true]
        rw [i2 h]
        simp [nth]
    · have hb' : lexLt b p = false := by simpa using hb
      simp [partitionPoint, hb', selRec, nth]

/-! ### `sel` for one chain -/

theorem sel_spec (c : List Pt) (p : Pt) (hs : lexSorted c = true) :
    (∀ u v, sel c p = some (u, v) → ∀ s, sideAny c p s = (orient u v p == s)) ∧
    (sel c p = none → ∀ s, sideAny c p s = false) := by
  cases c with
  | nil => simp [sel, sideAny, segs]
  | cons a t =>
    by_cases hpa : lexLt p a = true
    · -- `p` before the start: no segment spans it
      have hsel : sel (a :: t) p = none := by simp [sel, hpa]
      refine ⟨fun u v h => (by rw [hsel] at h; cases h), fun _ s => ?_⟩
      simp only [sideAny, List.any_eq_false, Bool.and_eq_true, not_and, Prod.forall]
      intro u v hm hle _
      have hu : lexLt u a = false := sorted_head_le t a hs u (mem_segs hm).1
      -- p < a ≤ u ≤ p
      have := lexLt_le_trans hpa hu
      simp only [lexLe, Bool.not_eq_true'] at hle
      rw [hle.1] at this; cases this
    · have hpa' : lexLt p a = false := by simpa using hpa
      have hsel : sel (a :: t) p = selRec (a :: t) p := by simp [sel, hpa']
      obtain ⟨h1, h2⟩ := selRec_spec t a p hs hpa'
      rw [hsel]
      exact ⟨fun u v h => (h1 u v h).2.2.2, h2⟩

theorem sel_none_iff (a b : Pt) (t : List Pt) (p : Pt) (hs : lexSorted (a :: b :: t) = true) :
    sel (a :: b :: t) p = none ↔
      (lexLt p a = true ∨ lexLt ((a :: b :: t).getLast (by simp)) p = true) := by
  by_cases hpa : lexLt p a = true
  · simp [sel, hpa]
  · have hpa' : lexLt p a = false := by simpa using hpa
    have : sel (a :: b :: t) p = selRec (a :: b :: t) p := by simp [sel, hpa']
    rw [this, selRec_none_iff t a b p hs]
    simp [hpa']

/-! ### `bounding_segment_lex` is `sel` on both chains -/

theorem bsl_eq_sel (a b : Pt) (t1 : List Pt) (b' : Pt) (t2 : List Pt) (p : Pt)
    (hs1 : lexSorted (a :: b :: t1) = true) (hs2 : lexSorted (a :: b' :: t2) = true) :
    boundingSegmentLex ⟨a :: b :: t1, a :: b' :: t2⟩ p =
      (match sel (a :: b :: t1) p, sel (a :: b' :: t2) p with
       | some s, some t => some (s, t)
       | _, _ => none) := by
  obtain ⟨hab, _⟩ := lexSorted_cons hs1
  obtain ⟨hab', _⟩ := lexSorted_cons hs2
  by_cases hap : lexLt a p = true
  · have hpa : lexLt p a = false := lexLt_asymm hap
    obtain ⟨i1, i2, i3⟩ := sel_index (b :: t1) a p hap
    obtain ⟨j1, j2, j3⟩ := sel_index (b' :: t2) a p hap
    have hselT : sel (a :: b :: t1) p = selRec (a :: b :: t1) p := by simp [sel, hpa]
    have hselB : sel (a :: b' :: t2) p = selRec (a :: b' :: t2) p := by simp [sel, hpa]
    rw [hselT, hselB]
    have hpp1 : partitionPoint (fun c => lexLt c p) (a :: b :: t1) =
        partitionPoint (fun c => lexLt c p) (b :: t1) + 1 := by
      rw [partitionPoint]; simp only [hap, if_true]
    have hpp2 : partitionPoint (fun c => lexLt c p) (a :: b' :: t2) =
        partitionPoint (fun c => lexLt c p) (b' :: t2) + 1 := by
      rw [partitionPoint]; simp only [hap, if_true]
    unfold boundingSegmentLex
    simp only [hpp1, hpp2]
    generalize hj1 : partitionPoint (fun c => lexLt c p) (b :: t1) = k1 at i1 i2 i3
    generalize hj2 : partitionPoint (fun c => lexLt c p) (b' :: t2) = k2 at j1 j2 j3
    have e0 : (k1 + 1 == 0) = false := by simp
    have e0' : (k2 + 1 == 0) = false := by simp
    simp only [e0, e0', Bool.false_and, Bool.false_eq_true, if_false, Bool.or_self,
      List.length_cons, Nat.add_sub_cancel]
    by_cases c1 : k1 = (b :: t1).length
    · rw [i1 c1]
      simp [c1]
    · have c1' : k1 < (b :: t1).length := Nat.lt_of_le_of_ne i3 c1
      rw [i2 c1']
      by_cases c2 : k2 = (b' :: t2).length
      · rw [j1 c2]
        simp [c2]
      · have c2' : k2 < (b' :: t2).length := Nat.lt_of_le_of_ne j3 c2
        rw [j2 c2']
        have n1 : (k1 + 1 == t1.length + 1 + 1) = false := by
          simp only [List.length_cons] at c1; simp; omega
        have n2 : (k2 + 1 == t2.length + 1 + 1) = false := by
          simp only [List.length_cons] at c2; simp; omega
        simp [n1, n2, nth]
  · have hap' : lexLt a p = false := by simpa using hap
    simp only [boundingSegmentLex, partitionPoint, hap', Bool.false_eq_true, if_false, nth,
      List.getD_cons_zero, beq_self_eq_true, Bool.true_and, List.length_cons]
    by_cases hne : a = p
    · subst hne
      have hba : lexLt b a = false := lexLt_asymm hab
      have hba' : lexLt b' a = false := lexLt_asymm hab'
      simp [sel, selRec, lexLt_irrefl, hba, hba']
    · have hpa : lexLt p a = true := by
        by_contra hc
        exact hne (lex_antisymm hap' (by simpa using hc))
      simp [sel, hpa, hne]

/-! ### the classification -/

/-- the code path after the bounding-box test -/
def monoCore (m : MonoPoly) (p : Pt) : Pos :=
  match boundingSegmentLex m p with
  | none => .outside
  | some ((ts, te), (bs, be)) => (classify ts te bs be p ⟨false, 0⟩).result

theorem monoPos_eq_core (m : MonoPoly) (p : Pt) :
    monoPos m p = if inBounds m p then monoCore m p else .outside := by
  unfold monoPos calcMono inBounds monoCore
  cases getBoundingRect (m.top ++ m.bot) with
  | none => simp [PosAcc.result]
  | some r =>
    obtain ⟨mn, mx⟩ := r
    by_cases hb : rectCoord mn mx p = true
    · simp only [hb, Bool.not_true, Bool.false_eq_true, if_false, if_true]
      cases boundingSegmentLex m p with
      | none => simp [PosAcc.result]
      | some s => obtain ⟨⟨ts, te⟩, ⟨bs, be⟩⟩ := s; rfl
    · simp [hb, PosAcc.result]

theorem classify_eq (tu tv bu bv p : Pt) :
    (classify tu tv bu bv p ⟨false, 0⟩).result =
      (match orient tu tv p with
       | .ccw => Pos.outside
       | .col => Pos.onBoundary
       | .cw => (match orient bu bv p with
          | .cw => Pos.outside
          | .col => Pos.onBoundary
          | .ccw => Pos.inside)) := by
  unfold classify
  rw [orient_mid tu tv p, orient_mid bu bv p]
  cases orient tu tv p <;> cases orient bu bv p <;> simp [PosAcc.result]

theorem core_eq_spec (a b : Pt) (t1 : List Pt) (b' : Pt) (t2 : List Pt) (p : Pt)
    (hs1 : lexSorted (a :: b :: t1) = true) (hs2 : lexSorted (a :: b' :: t2) = true)
    (hl : (a :: b :: t1).getLast (by simp) = (a :: b' :: t2).getLast (by simp))
    (ho : orderedAt ⟨a :: b :: t1, a :: b' :: t2⟩ p = true) :
    monoCore ⟨a :: b :: t1, a :: b' :: t2⟩ p = specPos ⟨a :: b :: t1, a :: b' :: t2⟩ p := by
  unfold monoCore
  rw [bsl_eq_sel a b t1 b' t2 p hs1 hs2]
  obtain ⟨tS, tN⟩ := sel_spec (a :: b :: t1) p hs1
  obtain ⟨bS, bN⟩ := sel_spec (a :: b' :: t2) p hs2
  have hnone : sel (a :: b :: t1) p = none ↔ sel (a :: b' :: t2) p = none := by
    rw [sel_none_iff a b t1 p hs1, sel_none_iff a b' t2 p hs2, hl]
  cases hT : sel (a :: b :: t1) p with
  | none =>
    have hB := hnone.1 hT
    rw [hB]
    simp [specPos, onChain, below, above, tN hT, bN hB]
  | some st =>
    cases hB : sel (a :: b' :: t2) p with
    | none => rw [hnone.2 hB] at hT; cases hT
    | some sb =>
      obtain ⟨tu, tv⟩ := st
      obtain ⟨bu, bv⟩ := sb
      have hTs := tS tu tv hT
      have hBs := bS bu bv hB
      simp only [classify_eq]
      simp only [orderedAt, above, below, hTs, hBs] at ho
      simp only [specPos, onChain, below, above, hTs, hBs]
      cases h1 : orient tu tv p <;> cases h2 : orient bu bv p <;> simp_all

/-! ### outside the bounding box of the chains nothing is claimed by the specification either -/

theorem sideAny_eq_false {c : List Pt} {p : Pt} {s : Ori}
    (h : ∀ u v, (u, v) ∈ segs c → lexLt p u = false → lexLt v p = false → orient u v p ≠ s) :
    sideAny c p s = false := by
  simp only [sideAny, List.any_eq_false, Prod.forall]
  intro u v hm hx
  simp only [lexLe, Bool.and_eq_true, Bool.not_eq_true', beq_iff_eq] at hx
  exact h u v hm hx.1.1 hx.1.2 hx.2

def InBox (mn mx q : Pt) : Prop := mn.x ≤ q.x ∧ q.x ≤ mx.x ∧ mn.y ≤ q.y ∧ q.y ≤ mx.y

theorem side_x_out {c : List Pt} {mn mx p : Pt} (hbox : ∀ q ∈ c, InBox mn mx q)
    (hx : p.x < mn.x ∨ mx.x < p.x) (s : Ori) : sideAny c p s = false := by
  apply sideAny_eq_false
  intro u v hm hu hv
  have bu := hbox u (mem_segs hm).1
  have bv := hbox v (mem_segs hm).2
  rw [lexLt_false_iff] at hu hv
  unfold InBox at bu bv
  rcases hx with hx | hx
  · rcases hu with hu | ⟨hu, _⟩ <;> linarith [bu.1]
  · rcases hv with hv | ⟨hv, _⟩ <;> linarith [bv.2.1]

theorem orient_ccw_of_pos {a b p : Pt} (h : cross a b p > 0) : orient a b p = .ccw := by
  simp [orient, h]

theorem orient_cw_of_neg {a b p : Pt} (h : cross a b p < 0) : orient a b p = .cw := by
  have : ¬ cross a b p > 0 := by linarith
  simp [orient, h, this]

/-- a point lexicographically within a segment and strictly higher than both end points is
strictly to its left -/
theorem cross_pos_of_higher {u v p : Pt} (hu : lexLt p u = false) (hv : lexLt v p = false)
    (h1 : u.y < p.y) (h2 : v.y < p.y) : cross u v p > 0 := by
  rw [lexLt_false_iff] at hu hv
  have hux : u.x ≤ p.x := by rcases hu with h | ⟨h, _⟩ <;> linarith
  have hvx : p.x < v.x := by
    rcases hv with h | ⟨h, h'⟩
    · exact h
    · linarith
  simp only [cross]
  nlinarith [mul_pos (sub_pos.2 hvx) (sub_pos.2 h2), mul_nonneg (sub_nonneg.2 hux) (le_of_lt (sub_pos.2 h2)),
    mul_pos (sub_pos.2 hvx) (sub_pos.2 h1)]

theorem cross_neg_of_lower {u v p : Pt} (hu : lexLt p u = false) (hv : lexLt v p = false)
    (h1 : p.y < u.y) (h2 : p.y < v.y) : cross u v p < 0 := by
  rw [lexLt_false_iff] at hu hv
  have hvx : p.x ≤ v.x := by rcases hv with h | ⟨h, _⟩ <;> linarith
  have hux : u.x < p.x := by
    rcases hu with h | ⟨h, h'⟩
    · exact h
    · linarith
  simp only [cross]
  nlinarith [mul_pos (sub_pos.2 hux) (sub_pos.2 h1), mul_nonneg (sub_nonneg.2 hvx) (le_of_lt (sub_pos.2 h1)),
    mul_pos (sub_pos.2 hux) (sub_pos.2 h2)]

theorem side_y_high {c : List Pt} {mn mx p : Pt} (hbox : ∀ q ∈ c, InBox mn mx q) (hy : mx.y < p.y) :
    sideAny c p .col = false ∧ sideAny c p .cw = false := by
  have key : ∀ u v, (u, v) ∈ segs c → lexLt p u = false → lexLt v p = false → orient u v p = .ccw := by
    intro u v hm hu hv
    have bu := hbox u (mem_segs hm).1
    have bv := hbox v (mem_segs hm).2
    unfold InBox at bu bv
    exact orient_ccw_of_pos (cross_pos_of_higher hu hv (by linarith [bu.2.2.2]) (by linarith [bv.2.2.2]))
  constructor <;> apply sideAny_eq_false <;> intro u v hm hu hv <;> rw [key u v hm hu hv] <;> simp

theorem side_y_low {c : List Pt} {mn mx p : Pt} (hbox : ∀ q ∈ c, InBox mn mx q) (hy : p.y < mn.y) :
    sideAny c p .col = false ∧ sideAny c p .ccw = false := by
  have key : ∀ u v, (u, v) ∈ segs c → lexLt p u = false → lexLt v p = false → orient u v p = .cw := by
    intro u v hm hu hv
    have bu := hbox u (mem_segs hm).1
    have bv := hbox v (mem_segs hm).2
    unfold InBox at bu bv
    exact orient_cw_of_neg (cross_neg_of_lower hu hv (by linarith [bu.2.2.1]) (by linarith [bv.2.2.1]))
  constructor <;> apply sideAny_eq_false <;> intro u v hm hu hv <;> rw [key u v hm hu hv] <;> simp

end Geo.Proofs.C10
