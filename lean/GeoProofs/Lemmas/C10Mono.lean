/-
  C10 helper lemmas: MonoPoly point location on lexicographically increasing chains.
-/
import GeoModel.MonoPoly

namespace Geo.Proofs.C10
open Geo Geo.Mono

end Geo.Proofs.C10
