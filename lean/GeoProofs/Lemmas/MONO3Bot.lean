/-
  MONO3 (C10, builder of the monotone pieces): the segment that `prev_active_from_geom(pt)` returns lies strictly
  below `pt` (`LineOrPoint::partial_cmp(line, point) = Less`, i.e. `pt` is strictly to the left of the directed line), so
  it is none of the segments that `next_point` reported as ending or as starting at `pt` — for all inputs.
-/
import GeoProofs.Lemmas.MONO2Defs

namespace Geo.Proofs.MONO3
open Geo Geo.Mono Geo.MonoBuild Geo.Proofs.C10 Geo.Proofs.MONO Geo.Proofs.MONO2

/-- the `base` that the loop of `binary_search_by` ends on is the initial one or a probe that did not answer `Greater` -/
theorem bsLoop_base (f : Nat → Option Ordering) : ∀ (fuel size base r : Nat),
    bsLoop f fuel size base = some r → r = base ∨ ∃ c, f r = some c ∧ c ≠ .gt
  | 0, size, base, r, h => by
    simp only [bsLoop, Option.some.injEq] at h
    exact Or.inl h.symm
  | fuel + 1, size, base, r, h => by
    unfold bsLoop at h
    split at h
    · simp only at h
      split at h
      · cases h
      · rename_i c hc
        rcases bsLoop_base f fuel _ _ r h with e | e
        · by_cases hg : c = .gt
          · left; rw [e]; simp [hg]
          · right
            have : r = base + size / 2 := by rw [e]; simp [hg]
            exact ⟨c, by rw [this]; exact hc, hg⟩
        · exact Or.inr e
    · simp only [Option.some.injEq] at h
      exact Or.inl h.symm

/-- `partition_point`: a non-zero result is one past an element that satisfies the predicate -/
theorem partitionPointBy_pred (n : Nat) (pred : Nat → Bool) (h : partitionPointBy n pred ≠ 0) :
    pred (partitionPointBy n pred - 1) = true := by
  unfold partitionPointBy binarySearchBy at *
  by_cases hn : (n == 0) = true
  · simp [hn] at h
  · simp only [hn] at h ⊢
    cases hb : bsLoop (fun i => some (if pred i = true then Ordering.lt else Ordering.gt)) n n 0 with
    | none => simp [hb] at h
    | some base =>
      simp only [hb] at h ⊢
      by_cases hp : pred base = true
      · simp [hp]
      · exfalso
        simp only [hp] at h
        rcases bsLoop_base _ _ _ _ _ hb with e | ⟨c, hc, hg⟩
        · simp [e] at h
        · simp [hp] at hc
          exact hg hc.symm

/-- the segment below `pt`: an active segment whose line compares `Less` with the point -/
theorem prevActive_lt {st : St} {pt : Pt} {b : Nat} (h : st.prevActive pt = some b) :
    ∃ l, st.lineOf b = some l ∧ l.lt (.point pt) = true := by
  unfold St.prevActive at h
  simp only at h
  generalize hpd : (fun (i : Nat) =>
        match st.active[i]? with
        | some a => (match st.lineOf a with | some l => l.lt (.point pt) | none => false)
        | none => false) = pred at h
  split at h
  · cases h
  · rename_i hne
    have hne' : partitionPointBy st.active.length pred ≠ 0 := by simpa using hne
    have := partitionPointBy_pred _ _ hne'
    rw [← hpd] at this
    simp only at this
    rw [hpd, h] at this
    simp only at this
    split at this
    · rename_i l hl
      exact ⟨l, hl, this⟩
    · cases this

/-- a proper line does not compare `Less` with one of its own end points -/
theorem not_lt_endpoint {l : LoP} (hl : LineOk l) {pt : Pt} (he : l.left = pt ∨ l.right = pt) :
    l.lt (.point pt) = false := by
  obtain ⟨a, b, rfl, hab⟩ := hl
  simp only [LoP.left, LoP.right] at he
  have hcol : orient a b pt = .col := by
    rcases he with e | e
    · subst e
      have : cross a b a = 0 := by simp only [cross]; ring
      simp [orient, this]
    · subst e
      have : cross a b b = 0 := by simp only [cross]; ring
      simp [orient, this]
  simp only [LoP.lt, LoP.cmp?, linePointCmp]
  split
  · simp
  · simp [hcol, ordOf, Ordering.then]

/-- [T] in the state returned by `next_point` for the point `pt`, the segment below `pt` is neither reported as ending nor as
starting -/
theorem prevActive_not_hand {fuel : Nat} {st st1 : St} {pt : Pt} (hi : SInv st)
    (h0 : st.incoming = [] ∧ st.outgoing = []) (h : nextPoint fuel st = some (st1, some pt))
    {b : Nat} (hb : st1.prevActive pt = some b) : b ∉ st1.incoming ∧ b ∉ st1.outgoing := by
  obtain ⟨i1, _, _, _⟩ := nextPoint_sinv hi h
  have io := nextPoint_io hi h0 h
  obtain ⟨l, hl, hlt⟩ := prevActive_lt hb
  obtain ⟨s, hs, hsl⟩ := lineOf_seg hl
  have hok : LineOk l := by rw [← hsl]; exact i1.lines s (mem_of_getElem? hs)
  refine ⟨?_, ?_⟩
  · intro hm
    obtain ⟨l', hl', e⟩ := io.inc b hm
    rw [hl] at hl'; cases hl'
    rw [not_lt_endpoint hok (Or.inr e)] at hlt; cases hlt
  · intro hm
    obtain ⟨l', hl', e⟩ := io.out b hm
    rw [hl] at hl'; cases hl'
    rw [not_lt_endpoint hok (Or.inl e)] at hlt; cases hlt

end Geo.Proofs.MONO3
