/-
  GeoProofs.Lemmas.C07XDisp — all 36 single-part pairs and the dispatch, with areal operands:

  * `partOk`: operands in the domain — line strings with a segment, OGC-valid polygons (Rect / Triangle
    go through `to_polygon` and need nothing);
  * `basePts`: the point set of a single-part operand (areal: the closed polygon `PolyPts`);
  * `tolOkX`: finding K4 excluded (Point × LineString as before; Point × Polygon on the hole rings);
  * `baseD_IsMinDist`: every one of the 36 pairs returns the minimum of `|x − y|²` over all pairs of
    points of the two operands;
  * `distG_IsMinDist_gen`: lifted through the Multi* / collection dispatch;
  * `baseD_symm_ok`, `foldMin_eq_of_values`: symmetry of every pair, and of `min` folds with the same
    set of values.
-/
import GeoProofs.Lemmas.C07XPoly
import GeoProofs.Lemmas.C07PParts

namespace Geo.Proofs.C07
open Geo Geo.Proofs.Kernel

/-- operands in the domain of the property: a LineString has a segment, a Polygon is OGC-valid
(`polyValid`, GeoModel/Valid.lean) -/
def partOk : Base → Prop
  | .ls cs => segs cs ≠ []
  | .pg q => polyValid q = true
  | _ => True

/-- the point set of a single-part operand; areal operands are closed polygons (`PolyPts` = the
specification does not locate the point outside), Rect / Triangle in their `to_polygon` form -/
def basePts : Base → Pt → Prop
  | .pt p => fun x => x = p
  | .ln a b => fun x => SegMem x a b
  | .ls cs => LsPts cs
  | .pg q => PolyPts q
  | .rc mn mx => PolyPts (dRectPoly mn mx)
  | .tr a b c => PolyPts (dTriPoly a b c)

/-- finding K4 excluded on this pair: the tolerance test of `line_string_contains_point` has no false
positive (Point × LineString; Point × Polygon: on the hole rings); vacuous for all other pairs -/
def tolOkX : Base → Base → Prop
  | .pt p, .ls cs => lsContainsPointTol cs p = true → OnLs p cs
  | .ls cs, .pt p => lsContainsPointTol cs p = true → OnLs p cs
  | .pt p, .pg q => HolesTolOk p q
  | .pg q, .pt p => HolesTolOk p q
  | _, _ => True

theorem tolOkX_symm {x y : Base} (h : tolOkX x y) : tolOkX y x := by
  cases x <;> cases y <;> exact h

theorem basePts_lin {x : Base} (h : linOk x) : basePts x = linPts x := by
  cases x <;> first | rfl | exact h.elim

private theorem sw {A B : Pt → Prop} {v : DV} (h : ∃ m, v = .fin m ∧ IsMinDist A B m) :
    ∃ m, v = .fin m ∧ IsMinDist B A m := by
  obtain ⟨m, hm, hmin⟩ := h
  exact ⟨m, hm, hmin.swap⟩

private theorem noHolesTol (p : Pt) {q : Poly} (h : q.ints = []) : HolesTolOk p q := by
  intro r hr; rw [h] at hr; cases hr

private theorem linCase {x y : Base} (hx : linOk x) (hy : linOk y) (ht : tolOk x y) :
    ∃ m, baseD x y = .fin m ∧ IsMinDist (basePts x) (basePts y) m := by
  rw [basePts_lin hx, basePts_lin hy]
  exact baseD_lin_IsMinDist hx hy ht

/-- **every pair of single-part operands** (all 36; Polygons OGC-valid, LineStrings with a segment; K4
excluded): the value is finite and is the minimum of `|x − y|²` over all points `x` of the first and `y`
of the second operand -/
theorem baseD_IsMinDist : ∀ {x y : Base}, partOk x → partOk y → tolOkX x y →
    ∃ m, baseD x y = .fin m ∧ IsMinDist (basePts x) (basePts y) m
  | .pt _, .pt _, _, _, _ => linCase trivial trivial trivial
  | .pt _, .ln _ _, _, _, _ => linCase trivial trivial trivial
  | .pt _, .ls _, _, hy, ht => linCase trivial hy ht
  | .pt _, .pg _, _, hy, ht => ptPoly2_IsMinDist (PolyOk_of_valid hy) ht
  | .pt p, .rc _ _, _, _, _ => ptPoly2_IsMinDist (dRectPoly_PolyOk _ _) (noHolesTol p rfl)
  | .pt p, .tr _ _ _, _, _, _ => ptPoly2_IsMinDist (dTriPoly_PolyOk _ _ _) (noHolesTol p rfl)
  | .ln _ _, .pt _, _, _, _ => linCase trivial trivial trivial
  | .ln _ _, .ln _ _, _, _, _ => linCase trivial trivial trivial
  | .ln _ _, .ls _, _, hy, _ => linCase trivial hy trivial
  | .ln _ _, .pg _, _, hy, _ => linePoly2_poly_IsMinDist (PolyOk_of_valid hy)
  | .ln _ _, .rc _ _, _, _, _ => linePoly2_poly_IsMinDist (dRectPoly_PolyOk _ _)
  | .ln _ _, .tr _ _ _, _, _, _ => linePoly2_poly_IsMinDist (dTriPoly_PolyOk _ _ _)
  | .ls _, .pt _, hx, _, ht => linCase hx trivial ht
  | .ls _, .ln _ _, hx, _, _ => linCase hx trivial trivial
  | .ls _, .ls _, hx, hy, _ => linCase hx hy trivial
  | .ls _, .pg _, hx, hy, _ => lsPoly2_poly_IsMinDist (PolyOk_of_valid hy) hx
  | .ls _, .rc _ _, hx, _, _ => lsPoly2_poly_IsMinDist (dRectPoly_PolyOk _ _) hx
  | .ls _, .tr _ _ _, hx, _, _ => lsPoly2_poly_IsMinDist (dTriPoly_PolyOk _ _ _) hx
  | .pg _, .pt _, hx, _, ht => sw (ptPoly2_IsMinDist (PolyOk_of_valid hx) ht)
  | .pg _, .ln _ _, hx, _, _ => sw (linePoly2_poly_IsMinDist (PolyOk_of_valid hx))
  | .pg _, .ls _, hx, hy, _ => sw (lsPoly2_poly_IsMinDist (PolyOk_of_valid hx) hy)
  | .pg _, .pg _, hx, hy, _ => polyPoly2_poly_IsMinDist (PolyOk_of_valid hx) (PolyOk_of_valid hy)
  | .pg _, .rc _ _, hx, _, _ => sw (polyPoly2_poly_IsMinDist (dRectPoly_PolyOk _ _) (PolyOk_of_valid hx))
  | .pg _, .tr _ _ _, hx, _, _ => sw (polyPoly2_poly_IsMinDist (dTriPoly_PolyOk _ _ _) (PolyOk_of_valid hx))
  | .rc _ _, .pt p, _, _, _ => sw (ptPoly2_IsMinDist (dRectPoly_PolyOk _ _) (noHolesTol p rfl))
  | .rc _ _, .ln _ _, _, _, _ => sw (linePoly2_poly_IsMinDist (dRectPoly_PolyOk _ _))
  | .rc _ _, .ls _, _, hy, _ => sw (lsPoly2_poly_IsMinDist (dRectPoly_PolyOk _ _) hy)
  | .rc _ _, .pg _, _, hy, _ => polyPoly2_poly_IsMinDist (dRectPoly_PolyOk _ _) (PolyOk_of_valid hy)
  | .rc _ _, .rc _ _, _, _, _ => sw (polyPoly2_poly_IsMinDist (dRectPoly_PolyOk _ _) (dRectPoly_PolyOk _ _))
  | .rc _ _, .tr _ _ _, _, _, _ => polyPoly2_poly_IsMinDist (dRectPoly_PolyOk _ _) (dTriPoly_PolyOk _ _ _)
  | .tr _ _ _, .pt p, _, _, _ => sw (ptPoly2_IsMinDist (dTriPoly_PolyOk _ _ _) (noHolesTol p rfl))
  | .tr _ _ _, .ln _ _, _, _, _ => sw (linePoly2_poly_IsMinDist (dTriPoly_PolyOk _ _ _))
  | .tr _ _ _, .ls _, _, hy, _ => sw (lsPoly2_poly_IsMinDist (dTriPoly_PolyOk _ _ _) hy)
  | .tr _ _ _, .pg _, _, hy, _ => polyPoly2_poly_IsMinDist (dTriPoly_PolyOk _ _ _) (PolyOk_of_valid hy)
  | .tr _ _ _, .rc _ _, _, _, _ => sw (polyPoly2_poly_IsMinDist (dRectPoly_PolyOk _ _) (dTriPoly_PolyOk _ _ _))
  | .tr _ _ _, .tr _ _ _, _, _, _ => sw (polyPoly2_poly_IsMinDist (dTriPoly_PolyOk _ _ _) (dTriPoly_PolyOk _ _ _))

/-- **zero exactly when the two operands share a point** -/
theorem baseD_zero_iff_common {x y : Base} (hx : partOk x) (hy : partOk y) (ht : tolOkX x y) :
    baseD x y = .fin 0 ↔ ∃ z, basePts x z ∧ basePts y z := by
  obtain ⟨m, hm, hmin⟩ := baseD_IsMinDist hx hy ht
  constructor
  · intro h0
    rw [h0] at hm
    obtain rfl := DV.fin.inj hm
    exact IsMinDist_zero_common hmin
  · rintro ⟨z, hz1, hz2⟩
    have := hmin.unique (IsMinDist_zero_of_common (p := z) hz1 hz2)
    rw [hm, this]

/-! ### through the dispatch -/

/-- the point set of a geometry: the union of the point sets of its parts -/
def GeomPtsX (g : Geom) (x : Pt) : Prop := ∃ p ∈ parts g, basePts p x

/-- **`distance(a, b)` is the true minimum distance** of two geometries all of whose parts are in the
domain (`partOk`), K4 excluded on the Point × LineString / Point × Polygon pairs: finite as soon as both
have a part, a lower bound for all pairs of points of `a` and `b`, and attained -/
theorem distG_IsMinDist_gen {a b : Geom} (ha : ∀ p ∈ parts a, partOk p) (hb : ∀ q ∈ parts b, partOk q)
    (ht : ∀ p ∈ parts a, ∀ q ∈ parts b, tolOkX p q) (na : parts a ≠ []) (nb : parts b ≠ []) :
    ∃ m, distG a b = .fin m ∧ IsMinDist (GeomPtsX a) (GeomPtsX b) m := by
  obtain ⟨c1, c2⟩ := calls_cover _ a b (le_refl _)
  have hcall : ∀ xy ∈ calls a b, ∃ q, baseD xy.1 xy.2 = .fin q ∧ IsMinDist (basePts xy.1) (basePts xy.2) q := by
    intro xy hxy
    rcases c1 xy hxy with ⟨h1, h2⟩ | ⟨h1, h2⟩
    · exact baseD_IsMinDist (ha _ h1) (hb _ h2) (ht _ h1 _ h2)
    · exact baseD_IsMinDist (hb _ h1) (ha _ h2) (tolOkX_symm (ht _ h2 _ h1))
  have hfin : ∃ m, distG a b = .fin m := by
    unfold distG
    apply foldMin_finite
    · obtain ⟨p, hp⟩ := List.exists_mem_of_ne_nil _ na
      obtain ⟨q, hq⟩ := List.exists_mem_of_ne_nil _ nb
      rcases c2 p hp q hq with h | h <;> exact List.ne_nil_of_mem h
    · intro xy hxy
      obtain ⟨q, hq, _⟩ := hcall xy hxy
      exact ⟨q, hq⟩
  obtain ⟨m, hm⟩ := hfin
  refine ⟨m, hm, ?_⟩
  have hG : ∀ xy ∈ calls a b, (baseD xy.1 xy.2).Ge0 := by
    intro xy hxy
    obtain ⟨q, hq, hmin⟩ := hcall xy hxy
    rw [hq]; exact hmin.nonneg
  obtain ⟨⟨e, he, hfe⟩, hlb⟩ := foldMin_fin hG hm
  constructor
  · rintro x' y' ⟨p, hp, hx'⟩ ⟨q, hq, hy'⟩
    have lb : ∀ xy ∈ calls a b, ∀ x y, basePts xy.1 x → basePts xy.2 y → m ≤ dist2 x y := by
      intro xy hxy x y hx hy
      obtain ⟨k, hk, hmin⟩ := hcall xy hxy
      have h1 := hlb xy hxy
      rw [hk] at h1
      exact le_trans h1 (hmin.1 x y hx hy)
    rcases c2 p hp q hq with h | h
    · exact lb (p, q) h x' y' hx' hy'
    · rw [dist2_symm]; exact lb (q, p) h y' x' hy' hx'
  · obtain ⟨k, hk, hmin⟩ := hcall e he
    rw [hfe] at hk
    obtain rfl := DV.fin.inj hk
    obtain ⟨x, y, hx, hy, e'⟩ := hmin.2
    rcases c1 e he with ⟨h1, h2⟩ | ⟨h1, h2⟩
    · exact ⟨x, y, ⟨_, h1, hx⟩, ⟨_, h2, hy⟩, e'⟩
    · exact ⟨y, x, ⟨_, h2, hy⟩, ⟨_, h1, hx⟩, by rw [dist2_symm]; exact e'⟩

/-! ### symmetry -/

/-- **`distance(x, y) = distance(y, x)`** for every pair of single-part operands in the domain -/
theorem baseD_symm_ok : ∀ {x y : Base}, partOk x → partOk y → baseD x y = baseD y x
  | .pt p, .pt q, _, _ => by show ptPt2 p q = ptPt2 q p; unfold ptPt2; rw [dist2_symm]
  | .pt _, .ln _ _, _, _ => rfl
  | .pt _, .ls _, _, _ => rfl
  | .pt _, .pg _, _, _ => rfl
  | .pt _, .rc _ _, _, _ => rfl
  | .pt _, .tr _ _ _, _, _ => rfl
  | .ln _ _, .pt _, _, _ => rfl
  | .ln a b, .ln c d, _, _ => lineLine2_symm a b c d
  | .ln _ _, .ls _, _, _ => rfl
  | .ln _ _, .pg _, _, _ => rfl
  | .ln _ _, .rc _ _, _, _ => rfl
  | .ln _ _, .tr _ _ _, _, _ => rfl
  | .ls _, .pt _, _, _ => rfl
  | .ls _, .ln _ _, _, _ => rfl
  | .ls cs, .ls ds, _, _ => by show lsLs2 cs ds = lsLs2 ds cs; unfold lsLs2; rw [lsLsIntersects_symm, nnDist2_symm]
  | .ls _, .pg _, _, _ => rfl
  | .ls _, .rc _ _, _, _ => rfl
  | .ls _, .tr _ _ _, _, _ => rfl
  | .pg _, .pt _, _, _ => rfl
  | .pg _, .ln _ _, _, _ => rfl
  | .pg _, .ls _, _, _ => rfl
  | .pg _, .pg _, hx, hy => polyPoly2_symm_valid (PolyOk_of_valid hx) (PolyOk_of_valid hy)
  | .pg _, .rc _ _, _, _ => rfl
  | .pg _, .tr _ _ _, _, _ => rfl
  | .rc _ _, .pt _, _, _ => rfl
  | .rc _ _, .ln _ _, _, _ => rfl
  | .rc _ _, .ls _, _, _ => rfl
  | .rc _ _, .pg _, _, _ => rfl
  | .rc _ _, .rc _ _, _, _ => polyPoly2_symm_noholes rfl rfl
  | .rc _ _, .tr _ _ _, _, _ => rfl
  | .tr _ _ _, .pt _, _, _ => rfl
  | .tr _ _ _, .ln _ _, _, _ => rfl
  | .tr _ _ _, .ls _, _, _ => rfl
  | .tr _ _ _, .pg _, _, _ => rfl
  | .tr _ _ _, .rc _ _, _, _ => rfl
  | .tr _ _ _, .tr _ _ _, _, _ => polyPoly2_symm_noholes rfl rfl

/-- a finite value of one fold is bounded from below by a finite value of a fold that has all its values -/
theorem foldMin_le_of_values {α β} {f : α → DV} {g : β → DV} {l : List α} {l' : List β}
    (hf : ∀ x ∈ l, (f x).Ge0) (hg : ∀ y ∈ l', (g y).Ge0) (h1 : ∀ x ∈ l, ∃ y ∈ l', g y = f x)
    (m : Rat) (hm : foldMin f l = .fin m) : ∃ m', foldMin g l' = .fin m' ∧ m' ≤ m := by
  obtain ⟨⟨x, hx, hfx⟩, _⟩ := foldMin_fin hf hm
  obtain ⟨y, hy, hgy⟩ := h1 x hx
  have hGe := foldMin_Ge0 hg
  cases hB : foldMin g l' with
  | panic => rw [hB] at hGe; exact hGe.elim
  | inf =>
    have := foldMin_Lb_inv hg (m := m + 1) (by rw [hB]; trivial) y hy
    rw [hgy, hfx] at this
    have : m + 1 ≤ m := this
    linarith
  | fin m' =>
    refine ⟨m', rfl, ?_⟩
    have := foldMin_Lb_inv hg (m := m') (by rw [hB]; exact le_refl m') y hy
    rw [hgy, hfx] at this
    exact this

/-- two `min` folds over non-panicking values with the same set of values are equal -/
theorem foldMin_eq_of_values {α β} {f : α → DV} {g : β → DV} {l : List α} {l' : List β}
    (hf : ∀ x ∈ l, (f x).Ge0) (hg : ∀ y ∈ l', (g y).Ge0)
    (h1 : ∀ x ∈ l, ∃ y ∈ l', g y = f x) (h2 : ∀ y ∈ l', ∃ x ∈ l, f x = g y) :
    foldMin f l = foldMin g l' := by
  have hA := foldMin_Ge0 hf
  have hB := foldMin_Ge0 hg
  cases eA : foldMin f l with
  | panic => rw [eA] at hA; exact hA.elim
  | fin m =>
    obtain ⟨m', hm', hle⟩ := foldMin_le_of_values hf hg h1 m eA
    obtain ⟨m'', hm'', hle'⟩ := foldMin_le_of_values hg hf h2 m' hm'
    rw [eA] at hm''
    obtain rfl := DV.fin.inj hm''
    rw [hm', le_antisymm hle hle']
  | inf =>
    cases eB : foldMin g l' with
    | panic => rw [eB] at hB; exact hB.elim
    | inf => rfl
    | fin m' =>
      obtain ⟨m'', hm'', _⟩ := foldMin_le_of_values hg hf h2 m' eB
      rw [eA] at hm''; cases hm''

end Geo.Proofs.C07
