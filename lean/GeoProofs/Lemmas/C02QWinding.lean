/-
  C02Q, part 2: the specification's winding number is constant along a segment that meets no
  edge of the (closed) ring.

  Per edge `(s, e)` and an upward segment `m → p` (`m.y < p.y`) that the edge does not meet, the
  difference of the two increments is a *potential difference*
      inc(p; s, e) − inc(m; s, e) = φ(s) − φ(e),
  with `φ v = 1` iff `v` lies in the half-open strip `m.y < v.y ≤ p.y` strictly to the right of the
  line `m p`. Along a closed ring the differences telescope to `0`. For a horizontal segment the
  increments agree edge by edge.
-/
import GeoProofs.Lemmas.LocateLemmas

namespace Geo.Proofs.C02Q
open Geo Geo.Proofs.Kernel Geo.Proofs.Loc

/-! ### arithmetic core -/

/-- the increment of `windingE` in terms of heights and the determinant -/
def incR (ys ye y A : Rat) : Int :=
  if ys ≤ y then (if y < ye then (if 0 < A then 1 else 0) else 0)
  else (if ye ≤ y then (if A < 0 then -1 else 0) else 0)

/-- the potential: in the strip `ym < y ≤ yp`, strictly right of the line (`c < 0`) -/
def inR (ym yp y c : Rat) : Int := if ym < y ∧ y ≤ yp ∧ c < 0 then 1 else 0

theorem incR_swap (ys ye y A : Rat) : incR ye ys y (-A) = - incR ys ye y A := by
  unfold incR
  by_cases h1 : ys ≤ y <;> by_cases h2 : ye ≤ y <;> by_cases h3 : y < ye <;> by_cases h4 : y < ys <;>
    by_cases h5 : 0 < A <;> by_cases h6 : A < 0 <;>
    simp only [h1, h2, h3, h4, h5, h6, if_true, if_false, Left.neg_neg_iff,
      Left.neg_pos_iff, neg_zero, neg_neg] <;>
    first | rfl | (exfalso; linarith)

theorem pos_of_mul {h A X : Rat} (hh : 0 < h) (e : h * A = X) (hX : 0 < X) : 0 < A := by
  by_contra hc
  have : h * A ≤ 0 := mul_nonpos_of_nonneg_of_nonpos hh.le (not_lt.mp hc)
  linarith

theorem neg_of_mul {h A X : Rat} (hh : 0 < h) (e : h * A = X) (hX : X < 0) : A < 0 := by
  by_contra hc
  have : 0 ≤ h * A := mul_nonneg hh.le (not_lt.mp hc)
  linarith

theorem nonpos_of_mul {h A X : Rat} (hh : 0 < h) (e : h * A = X) (hX : X ≤ 0) : A ≤ 0 := by
  by_contra hc
  have : 0 < h * A := mul_pos hh (not_le.mp hc)
  linarith

theorem nonneg_of_mul {h A X : Rat} (hh : 0 < h) (e : h * A = X) (hX : 0 ≤ X) : 0 ≤ A := by
  by_contra hc
  have : h * A < 0 := mul_neg_of_pos_of_neg hh (not_le.mp hc)
  linarith

/-- weakly opposite signs, not both zero -/
def Opp (x y : Rat) : Prop := x * y ≤ 0 ∧ x ≠ y

theorem opp1 {x y : Rat} (h1 : x ≤ 0) (h2 : 0 < y) : Opp x y :=
  ⟨mul_nonpos_of_nonpos_of_nonneg h1 h2.le, by intro e; linarith⟩
theorem opp2 {x y : Rat} (h1 : 0 < x) (h2 : y ≤ 0) : Opp x y :=
  ⟨mul_nonpos_of_nonneg_of_nonpos h1.le h2, by intro e; linarith⟩
theorem opp3 {x y : Rat} (h1 : x < 0) (h2 : 0 ≤ y) : Opp x y :=
  ⟨mul_nonpos_of_nonpos_of_nonneg h1.le h2, by intro e; linarith⟩
theorem opp4 {x y : Rat} (h1 : 0 ≤ x) (h2 : y < 0) : Opp x y :=
  ⟨mul_nonpos_of_nonneg_of_nonpos h1 h2.le, by intro e; linarith⟩

/-- the two segments do not cross (in terms of the four determinants) -/
def NoCross (A B cs ce : Rat) : Prop := ¬ (Opp A B ∧ Opp cs ce)

/-- horizontal edge in the strip: both end points on the same side -/
theorem core_flat {y0 ym yp cs ce A B : Rat} (hm : ym < y0) (hp : y0 ≤ yp)
    (I1 : (yp - ym) * A = cs * (ym - y0) - ce * (ym - y0))
    (I2 : (yp - ym) * B = cs * (yp - y0) - ce * (yp - y0))
    (N : NoCross A B cs ce) : cs < 0 ↔ ce < 0 := by
  have hh : 0 < yp - ym := by linarith
  constructor
  · intro h
    by_contra hc
    have hc : 0 ≤ ce := not_lt.mp hc
    have hA : 0 < A := pos_of_mul hh I1 (by nlinarith [mul_pos (by linarith : 0 < ce - cs) (by linarith : 0 < y0 - ym)])
    have hB : B ≤ 0 := nonpos_of_mul hh I2 (by nlinarith [mul_nonneg (by linarith : 0 ≤ ce - cs) (by linarith : 0 ≤ yp - y0)])
    exact N ⟨opp2 hA hB, opp3 h hc⟩
  · intro h
    by_contra hc
    have hc : 0 ≤ cs := not_lt.mp hc
    have hA : A < 0 := neg_of_mul hh I1 (by nlinarith [mul_pos (by linarith : 0 < cs - ce) (by linarith : 0 < y0 - ym)])
    have hB : 0 ≤ B := nonneg_of_mul hh I2 (by nlinarith [mul_nonneg (by linarith : 0 ≤ cs - ce) (by linarith : 0 ≤ yp - y0)])
    exact N ⟨opp3 hA hB, opp4 hc h⟩

/-- upward edge (`ys < ye`) -/
theorem core_up {ys ye ym yp cs ce A B : Rat} (hmp : ym < yp) (hse : ys < ye)
    (I1 : (yp - ym) * A = cs * (ym - ye) - ce * (ym - ys))
    (I2 : (yp - ym) * B = cs * (yp - ye) - ce * (yp - ys))
    (N : NoCross A B cs ce) :
    incR ys ye yp B - incR ys ye ym A = inR ym yp ys cs - inR ym yp ye ce := by
  have hh : 0 < yp - ym := by linarith
  have hinc : ∀ y X, incR ys ye y X = if ys ≤ y ∧ y < ye ∧ 0 < X then 1 else 0 := by
    intro y X
    unfold incR
    by_cases h1 : ys ≤ y
    · by_cases h2 : y < ye <;> by_cases h3 : 0 < X <;> simp [h1, h2, h3]
    · have h2 : ¬ ye ≤ y := by intro h; apply h1; linarith
      simp [h1, h2]
  rw [hinc, hinc]
  unfold inR
  by_cases a1 : ys ≤ ym
  · by_cases a2 : ye ≤ ym
    · -- both below
      have n1 : ¬ (ys ≤ yp ∧ yp < ye ∧ 0 < B) := fun h => by linarith [h.2.1]
      have n2 : ¬ (ys ≤ ym ∧ ym < ye ∧ 0 < A) := fun h => by linarith [h.2.1]
      have n3 : ¬ (ym < ys ∧ ys ≤ yp ∧ cs < 0) := fun h => by linarith [h.1]
      have n4 : ¬ (ym < ye ∧ ye ≤ yp ∧ ce < 0) := fun h => by linarith [h.1]
      rw [if_neg n1, if_neg n2, if_neg n3, if_neg n4]
    · have a2 : ym < ye := not_le.mp a2
      have n3 : ¬ (ym < ys ∧ ys ≤ yp ∧ cs < 0) := fun h => by linarith [h.1]
      rw [if_neg n3]
      by_cases a3 : ye ≤ yp
      · -- s below, e in the strip
        have n1 : ¬ (ys ≤ yp ∧ yp < ye ∧ 0 < B) := fun h => by linarith [h.2.1]
        rw [if_neg n1]
        have key : 0 < A ↔ ce < 0 := by
          constructor
          · intro hA
            by_contra hc
            have hc : 0 ≤ ce := not_lt.mp hc
            have hcs : cs < 0 := by
              by_contra h'
              have h' : 0 ≤ cs := not_lt.mp h'
              have : A ≤ 0 := nonpos_of_mul hh I1 (by
                nlinarith [mul_nonneg h' (by linarith : 0 ≤ ye - ym), mul_nonneg hc (by linarith : 0 ≤ ym - ys)])
              linarith
            have hB : B ≤ 0 := nonpos_of_mul hh I2 (by
              nlinarith [mul_nonneg (by linarith : 0 ≤ -cs) (by linarith : 0 ≤ yp - ye),
                mul_nonneg hc (by linarith : 0 ≤ yp - ys)])
            exact N ⟨opp2 hA hB, opp3 hcs hc⟩
          · intro hce
            by_contra hA
            have hA : A ≤ 0 := not_lt.mp hA
            have hcs : 0 ≤ cs := by
              by_contra h'
              have h' : cs < 0 := not_le.mp h'
              have : 0 < A := pos_of_mul hh I1 (by
                nlinarith [mul_pos (by linarith : 0 < -cs) (by linarith : 0 < ye - ym),
                  mul_nonneg (by linarith : 0 ≤ -ce) (by linarith : 0 ≤ ym - ys)])
              linarith
            have hB : 0 < B := pos_of_mul hh I2 (by
              nlinarith [mul_nonneg hcs (by linarith : 0 ≤ yp - ye),
                mul_pos (by linarith : 0 < -ce) (by linarith : 0 < yp - ys)])
            exact N ⟨opp1 hA hB, opp4 hcs hce⟩
        by_cases hA : 0 < A
        · have hce := key.mp hA
          rw [if_pos ⟨a1, a2, hA⟩, if_pos ⟨a2, a3, hce⟩]
        · have hce : ¬ ce < 0 := fun h => hA (key.mpr h)
          have n2 : ¬ (ys ≤ ym ∧ ym < ye ∧ 0 < A) := fun h => hA h.2.2
          have n4 : ¬ (ym < ye ∧ ye ≤ yp ∧ ce < 0) := fun h => hce h.2.2
          rw [if_neg n2, if_neg n4]
      · -- s below, e above: active at both heights
        have a3 : yp < ye := not_le.mp a3
        have n4 : ¬ (ym < ye ∧ ye ≤ yp ∧ ce < 0) := fun h => by linarith [h.2.1]
        rw [if_neg n4]
        have key : 0 < A ↔ 0 < B := by
          constructor
          · intro hA
            by_contra hB
            have hB : B ≤ 0 := not_lt.mp hB
            rcases lt_or_ge cs 0 with hcs | hcs
            · rcases lt_or_ge ce 0 with hce | hce
              · have : 0 < B := pos_of_mul hh I2 (by
                  nlinarith [mul_pos (by linarith : 0 < -cs) (by linarith : 0 < ye - yp),
                    mul_pos (by linarith : 0 < -ce) (by linarith : 0 < yp - ys)])
                linarith
              · exact N ⟨opp2 hA hB, opp3 hcs hce⟩
            · rcases lt_or_ge ce 0 with hce | hce
              · exact N ⟨opp2 hA hB, opp4 hcs hce⟩
              · have : A ≤ 0 := nonpos_of_mul hh I1 (by
                  nlinarith [mul_nonneg hcs (by linarith : 0 ≤ ye - ym), mul_nonneg hce (by linarith : 0 ≤ ym - ys)])
                linarith
          · intro hB
            by_contra hA
            have hA : A ≤ 0 := not_lt.mp hA
            rcases lt_or_ge cs 0 with hcs | hcs
            · rcases lt_or_ge ce 0 with hce | hce
              · have : 0 < A := pos_of_mul hh I1 (by
                  nlinarith [mul_pos (by linarith : 0 < -cs) (by linarith : 0 < ye - ym),
                    mul_nonneg (by linarith : 0 ≤ -ce) (by linarith : 0 ≤ ym - ys)])
                linarith
              · exact N ⟨opp1 hA hB, opp3 hcs hce⟩
            · rcases lt_or_ge ce 0 with hce | hce
              · exact N ⟨opp1 hA hB, opp4 hcs hce⟩
              · have : B ≤ 0 := nonpos_of_mul hh I2 (by
                  nlinarith [mul_nonneg hcs (by linarith : 0 ≤ ye - yp), mul_nonneg hce (by linarith : 0 ≤ yp - ys)])
                linarith
        by_cases hA : 0 < A
        · rw [if_pos ⟨by linarith, a3, key.mp hA⟩, if_pos ⟨a1, a2, hA⟩]; rfl
        · have n1 : ¬ (ys ≤ yp ∧ yp < ye ∧ 0 < B) := fun h => hA (key.mpr h.2.2)
          have n2 : ¬ (ys ≤ ym ∧ ym < ye ∧ 0 < A) := fun h => hA h.2.2
          rw [if_neg n1, if_neg n2]
  · have a1 : ym < ys := not_le.mp a1
    have a2 : ym < ye := by linarith
    have n2 : ¬ (ys ≤ ym ∧ ym < ye ∧ 0 < A) := fun h => by linarith [h.1]
    rw [if_neg n2]
    by_cases b1 : ys ≤ yp
    · by_cases b2 : ye ≤ yp
      · -- both in the strip
        have n1 : ¬ (ys ≤ yp ∧ yp < ye ∧ 0 < B) := fun h => by linarith [h.2.1]
        rw [if_neg n1]
        have key : cs < 0 ↔ ce < 0 := by
          constructor
          · intro hcs
            by_contra hce
            have hce : 0 ≤ ce := not_lt.mp hce
            have hA : 0 < A := pos_of_mul hh I1 (by
              nlinarith [mul_pos (by linarith : 0 < -cs) (by linarith : 0 < ye - ym),
                mul_nonneg hce (by linarith : 0 ≤ ys - ym)])
            have hB : B ≤ 0 := nonpos_of_mul hh I2 (by
              nlinarith [mul_nonneg (by linarith : 0 ≤ -cs) (by linarith : 0 ≤ yp - ye),
                mul_nonneg hce (by linarith : 0 ≤ yp - ys)])
            exact N ⟨opp2 hA hB, opp3 hcs hce⟩
          · intro hce
            by_contra hcs
            have hcs : 0 ≤ cs := not_lt.mp hcs
            have hA : A < 0 := neg_of_mul hh I1 (by
              nlinarith [mul_nonneg hcs (by linarith : 0 ≤ ye - ym),
                mul_pos (by linarith : 0 < -ce) (by linarith : 0 < ys - ym)])
            have hB : 0 ≤ B := nonneg_of_mul hh I2 (by
              nlinarith [mul_nonneg hcs (by linarith : 0 ≤ yp - ye),
                mul_nonneg (by linarith : 0 ≤ -ce) (by linarith : 0 ≤ yp - ys)])
            exact N ⟨opp3 hA hB, opp4 hcs hce⟩
        by_cases hcs : cs < 0
        · rw [if_pos ⟨a1, b1, hcs⟩, if_pos ⟨a2, b2, key.mp hcs⟩]; rfl
        · have n3 : ¬ (ym < ys ∧ ys ≤ yp ∧ cs < 0) := fun h => hcs h.2.2
          have n4 : ¬ (ym < ye ∧ ye ≤ yp ∧ ce < 0) := fun h => hcs (key.mpr h.2.2)
          rw [if_neg n3, if_neg n4]
      · -- s in the strip, e above
        have b2 : yp < ye := not_le.mp b2
        have n4 : ¬ (ym < ye ∧ ye ≤ yp ∧ ce < 0) := fun h => by linarith [h.2.1]
        rw [if_neg n4]
        have key : 0 < B ↔ cs < 0 := by
          constructor
          · intro hB
            by_contra hcs
            have hcs : 0 ≤ cs := not_lt.mp hcs
            have hce : ce < 0 := by
              by_contra h'
              have h' : 0 ≤ ce := not_lt.mp h'
              have : B ≤ 0 := nonpos_of_mul hh I2 (by
                nlinarith [mul_nonneg hcs (by linarith : 0 ≤ ye - yp), mul_nonneg h' (by linarith : 0 ≤ yp - ys)])
              linarith
            have hA : A < 0 := neg_of_mul hh I1 (by
              nlinarith [mul_nonneg hcs (by linarith : 0 ≤ ye - ym),
                mul_pos (by linarith : 0 < -ce) (by linarith : 0 < ys - ym)])
            exact N ⟨opp1 hA.le hB, opp4 hcs hce⟩
          · intro hcs
            by_contra hB
            have hB : B ≤ 0 := not_lt.mp hB
            have hce : 0 < ce := by
              by_contra h'
              have h' : ce ≤ 0 := not_lt.mp h'
              have : 0 < B := pos_of_mul hh I2 (by
                nlinarith [mul_pos (by linarith : 0 < -cs) (by linarith : 0 < ye - yp),
                  mul_nonneg (by linarith : 0 ≤ -ce) (by linarith : 0 ≤ yp - ys)])
              linarith
            have hA : 0 < A := pos_of_mul hh I1 (by
              nlinarith [mul_pos (by linarith : 0 < -cs) (by linarith : 0 < ye - ym),
                mul_pos hce (by linarith : 0 < ys - ym)])
            exact N ⟨opp2 hA hB, opp3 hcs hce.le⟩
        by_cases hB : 0 < B
        · rw [if_pos ⟨b1, b2, hB⟩, if_pos ⟨a1, b1, key.mp hB⟩]
        · have n1 : ¬ (ys ≤ yp ∧ yp < ye ∧ 0 < B) := fun h => hB h.2.2
          have n3 : ¬ (ym < ys ∧ ys ≤ yp ∧ cs < 0) := fun h => hB (key.mpr h.2.2)
          rw [if_neg n1, if_neg n3]
    · -- both above
      have b1 : yp < ys := not_le.mp b1
      have n1 : ¬ (ys ≤ yp ∧ yp < ye ∧ 0 < B) := fun h => by linarith [h.1]
      have n3 : ¬ (ym < ys ∧ ys ≤ yp ∧ cs < 0) := fun h => by linarith [h.2.1]
      have n4 : ¬ (ym < ye ∧ ye ≤ yp ∧ ce < 0) := fun h => by linarith [h.2.1]
      rw [if_neg n1, if_neg n3, if_neg n4]

/-- the per-edge statement for every edge direction -/
theorem core_edge {ys ye ym yp cs ce A B : Rat} (hmp : ym < yp)
    (I1 : (yp - ym) * A = cs * (ym - ye) - ce * (ym - ys))
    (I2 : (yp - ym) * B = cs * (yp - ye) - ce * (yp - ys))
    (N : NoCross A B cs ce) :
    incR ys ye yp B - incR ys ye ym A = inR ym yp ys cs - inR ym yp ye ce := by
  rcases lt_trichotomy ys ye with h | h | h
  · exact core_up hmp h I1 I2 N
  · subst h
    have z : ∀ y X, incR ys ys y X = 0 := by
      intro y X
      unfold incR
      by_cases h1 : ys ≤ y
      · have : ¬ y < ys := not_lt.mpr h1
        simp [h1, this]
      · simp [h1]
    rw [z, z]
    unfold inR
    by_cases hs : ym < ys ∧ ys ≤ yp
    · have key := core_flat hs.1 hs.2 I1 I2 N
      by_cases hcs : cs < 0
      · rw [if_pos ⟨hs.1, hs.2, hcs⟩, if_pos ⟨hs.1, hs.2, key.mp hcs⟩]; rfl
      · rw [if_neg (fun h => hcs h.2.2), if_neg (fun h => hcs (key.mpr h.2.2))]
    · rw [if_neg (fun h => hs ⟨h.1, h.2.1⟩), if_neg (fun h => hs ⟨h.1, h.2.1⟩)]
  · have N' : NoCross (-A) (-B) ce cs := by
      intro hn
      apply N
      obtain ⟨⟨h1, h2⟩, ⟨h3, h4⟩⟩ := hn
      refine ⟨⟨by nlinarith, fun e => h2 (by rw [e])⟩, ⟨by nlinarith, fun e => h4 e.symm⟩⟩
    have := core_up (ys := ye) (ye := ys) (cs := ce) (ce := cs) (A := -A) (B := -B) hmp h
      (by linarith) (by linarith) N'
    rw [incR_swap, incR_swap] at this
    omega

/-! ### per edge, in terms of points -/

theorem ptInc_eq_incR (x s e : Pt) : ptInc x s e = incR s.y e.y x.y (cross s e x) := rfl

/-- upward segment `m → p` not meeting the edge `(s, e)` -/
theorem ptInc_diff {s e m p : Pt} (hmp : m.y < p.y)
    (hdis : ¬ ∃ x, SegMem x s e ∧ SegMem x m p) :
    ptInc p s e - ptInc m s e =
      inR m.y p.y s.y (cross m p s) - inR m.y p.y e.y (cross m p e) := by
  rw [ptInc_eq_incR, ptInc_eq_incR]
  apply core_edge hmp
  · unfold cross; ring
  · unfold cross; ring
  · intro hn
    exact hdis (crossing_point hn.1 hn.2)

/-- horizontal segment not meeting the edge: the increments agree -/
theorem ptInc_horiz {s e m p : Pt} (hy : m.y = p.y)
    (hdis : ¬ ∃ x, SegMem x s e ∧ SegMem x m p) : ptInc p s e = ptInc m s e := by
  have hcs : cross m p s = (p.x - m.x) * (s.y - p.y) := by unfold cross; rw [hy]; ring
  have hce : cross m p e = (p.x - m.x) * (e.y - p.y) := by unfold cross; rw [hy]; ring
  have hAB : cross s e m - cross s e p = (e.y - s.y) * (p.x - m.x) := by unfold cross; rw [hy]; ring
  -- an edge active at this height whose determinants at `m`, `p` are weakly opposite meets the segment
  have key : ∀ (hact : (s.y - p.y) * (e.y - p.y) ≤ 0) (hne : s.y ≠ e.y),
      Opp (cross s e m) (cross s e p) → False := by
    intro hact hne hopp
    apply hdis
    apply crossing_point hopp
    have hd : p.x - m.x ≠ 0 := by
      intro h0
      apply hopp.2
      have : cross s e m - cross s e p = 0 := by rw [hAB, h0]; ring
      linarith
    refine ⟨?_, ?_⟩
    · rw [hcs, hce]
      have : (p.x - m.x) * (s.y - p.y) * ((p.x - m.x) * (e.y - p.y)) =
          ((p.x - m.x) * (p.x - m.x)) * ((s.y - p.y) * (e.y - p.y)) := by ring
      rw [this]
      exact mul_nonpos_of_nonneg_of_nonpos (mul_self_nonneg _) hact
    · rw [hcs, hce]
      intro e'
      have : (p.x - m.x) * (s.y - e.y) = 0 := by linarith
      rcases mul_eq_zero.mp this with h | h
      · exact hd h
      · exact hne (by linarith)
  unfold ptInc
  rw [hy]
  by_cases h1 : s.y ≤ p.y
  · rw [if_pos h1, if_pos h1]
    by_cases h2 : p.y < e.y
    · rw [if_pos h2, if_pos h2]
      have hact : (s.y - p.y) * (e.y - p.y) ≤ 0 :=
        mul_nonpos_of_nonpos_of_nonneg (by linarith) (by linarith)
      have hne : s.y ≠ e.y := by intro h; linarith
      by_cases hB : 0 < cross s e p
      · by_cases hA : 0 < cross s e m
        · rw [if_pos hB, if_pos hA]
        · exact (key hact hne (opp1 (not_lt.mp hA) hB)).elim
      · by_cases hA : 0 < cross s e m
        · exact (key hact hne (opp2 hA (not_lt.mp hB))).elim
        · rw [if_neg hB, if_neg hA]
    · rw [if_neg h2, if_neg h2]
  · rw [if_neg h1, if_neg h1]
    by_cases h2 : e.y ≤ p.y
    · rw [if_pos h2, if_pos h2]
      have hact : (s.y - p.y) * (e.y - p.y) ≤ 0 :=
        mul_nonpos_of_nonneg_of_nonpos (by linarith) (by linarith)
      have hne : s.y ≠ e.y := by intro h; apply h1; linarith
      by_cases hB : cross s e p < 0
      · by_cases hA : cross s e m < 0
        · rw [if_pos hB, if_pos hA]
        · exact (key hact hne (opp4 (not_lt.mp hA) hB)).elim
      · by_cases hA : cross s e m < 0
        · exact (key hact hne (opp3 hA (not_lt.mp hB))).elim
        · rw [if_neg hB, if_neg hA]
    · rw [if_neg h2, if_neg h2]

/-! ### along a closed ring -/

/-- the potential differences telescope along a path -/
theorem sum_potential (φ : Pt → Int) (a : Pt) (l : List Pt) :
    ((segs (a :: l)).map (fun se => φ se.1 - φ se.2)).sum = φ a - φ ((a :: l).getLast (by simp)) := by
  induction l generalizing a with
  | nil => simp [segs]
  | cons b t ih =>
    have hs : segs (a :: b :: t) = (a, b) :: segs (b :: t) := rfl
    rw [hs, List.map_cons, List.sum_cons, ih b, List.getLast_cons_cons]
    simp only
    omega

theorem sum_potential_closed (φ : Pt → Int) (ring : List Pt) (hc : ring.head? = ring.getLast?) :
    ((segs ring).map (fun se => φ se.1 - φ se.2)).sum = 0 := by
  match ring with
  | [] => simp [segs]
  | a :: l =>
    rw [sum_potential]
    have h1 : (a :: l).head? = some a := rfl
    have h2 := List.getLast?_eq_getLast_of_ne_nil (l := a :: l) (by simp)
    rw [h1, h2] at hc
    have := Option.some.inj hc
    rw [← this]; omega

theorem sum_map_sub {α : Type} (l : List α) (f g : α → Int) :
    (l.map (fun x => f x - g x)).sum = (l.map f).sum - (l.map g).sum := by
  induction l with
  | nil => simp
  | cons a t ih => simp only [List.map_cons, List.sum_cons, ih]; omega

/-- **The specification's winding number is constant along a segment that meets no edge of the
closed ring.** -/
theorem windingE_const (ring : List Pt) (hc : ring.head? = ring.getLast?) (m p : Pt)
    (hdis : ∀ s ∈ segs ring, ¬ ∃ x, SegMem x s.1 s.2 ∧ SegMem x m p) :
    windingE (EPt.ofPt m) ring = windingE (EPt.ofPt p) ring := by
  have up : ∀ m p : Pt, m.y < p.y → (∀ s ∈ segs ring, ¬ ∃ x, SegMem x s.1 s.2 ∧ SegMem x m p) →
      windingE (EPt.ofPt m) ring = windingE (EPt.ofPt p) ring := by
    intro m p hmp hdis
    rw [windingE_ofPt, windingE_ofPt]
    have h0 := sum_potential_closed (fun v => inR m.y p.y v.y (cross m p v)) ring hc
    have h1 : ((segs ring).map (fun se => ptInc p se.1 se.2 - ptInc m se.1 se.2)).sum = 0 := by
      rw [← h0]
      congr 1
      apply List.map_congr_left
      intro se hse
      exact ptInc_diff hmp (hdis se hse)
    rw [sum_map_sub] at h1
    omega
  rcases lt_trichotomy m.y p.y with h | h | h
  · exact up m p h hdis
  · rw [windingE_ofPt, windingE_ofPt]
    congr 1
    apply List.map_congr_left
    intro se hse
    exact (ptInc_horiz h (hdis se hse)).symm
  · refine (up p m h ?_).symm
    intro s hs ⟨x, h1, h2⟩
    exact hdis s hs ⟨x, h1, SegMem_symm h2⟩

example : windingE (EPt.ofPt ⟨1, 1⟩) [⟨0, 0⟩, ⟨4, 0⟩, ⟨0, 4⟩, ⟨0, 0⟩] =
    windingE (EPt.ofPt ⟨1, 2⟩) [⟨0, 0⟩, ⟨4, 0⟩, ⟨0, 4⟩, ⟨0, 0⟩] := by decide +kernel

end Geo.Proofs.C02Q
