/-
  GeoProofs.Lemmas.C07XPoly — Polygon × Polygon for two OGC-valid polygons.

  * `polyPolyIntersects_iff`: `Polygon: Intersects<Polygon>` (bounding-box rejection, exterior ring and
    hole rings of `b` against `a`, exterior ring of `a` against `b`) holds exactly when the closed
    polygons share a point. The hard direction: if neither exterior ring has a point in the other polygon,
    the exterior rings are disjoint closed curves, each outside the other or one inside a hole of the other
    polygon — and then (`nested_rings`, `exterior_rings`) the closed regions are disjoint.
  * `polyPoly2_poly_IsMinDist`: the value is the minimum of `|x − y|²` over all pairs of points of the
    two closed polygons, in each of the three branches (holes of `a`, holes of `b`, the exterior rings).
  * `polyPoly2_symm_valid`: `distance(a, b) = distance(b, a)`; the two containment tests cannot both hold.
-/
import GeoProofs.Lemmas.C07XKern
import GeoProofs.Lemmas.C07XNest

namespace Geo.Proofs.C07
open Geo Geo.Proofs.Kernel Geo.Proofs.Loc

/-! ### a ring without a point in a polygon -/

/-- a ring none of whose points is in the polygon meets no ring of the polygon -/
theorem noMeet_of_disjoint_ring {r : List Pt} {q : Poly} (hok : RingsOK q)
    (h : ∀ z, LsPts r z → ¬ PolyPts q z) : ∀ s ∈ q.ext :: q.ints, NoMeet r s := by
  intro s hs t ht u hu ⟨p, hp1, hp2⟩
  exact h p ⟨t, ht, hp1⟩ (PolyPts_of_ring hok ⟨s, hs, u, hu, hp2⟩)

/-- `b`'s exterior ring has no point in `a` and one of its points is strictly inside the hole `h` of
`a`: the hole ring is outside `b`'s exterior ring, every point of `b` is strictly inside the hole, and
the polygons have no common point -/
theorem inside_hole_config {a b : Poly} (hva : PolyOk a) (hvb : PolyOk b)
    {h : List Pt} (hh : h ∈ a.ints) (H1 : ∀ z, LsPts b.ext z → ¬ PolyPts a z)
    {b0 : Pt} (hb0 : LsPts b.ext b0) (hw : windingE (EPt.ofPt b0) h ≠ 0) :
    (∀ p, LsPts h p → windingE (EPt.ofPt p) b.ext = 0) ∧
    (∀ y, PolyPts b y → windingE (EPt.ofPt y) h ≠ 0) ∧
    (∀ y, PolyPts b y → ¬ PolyPts a y) := by
  have hoka := hva.ok
  have hokb := hvb.ok
  have hno : NoMeet b.ext h := noMeet_of_disjoint_ring hoka H1 h (List.mem_cons_of_mem _ hh)
  obtain ⟨n1, n2⟩ := nested_rings (hokb b.ext List.mem_cons_self).1 (hoka h (List.mem_cons_of_mem _ hh)).1
    hno hb0 hw
  have c2 : ∀ y, PolyPts b y → windingE (EPt.ofPt y) h ≠ 0 := fun y hy => n2 y (hvb.shell _ hy)
  refine ⟨n1, c2, ?_⟩
  intro y hyb hya
  rcases hva.hole _ hh _ hya with hon | h0
  · have hwy := n1 y hon
    rcases hvb.shell _ hyb with hl | hne
    · exact H1 y hl hya
    · exact hne hwy
  · exact c2 y hyb h0

/-! ### `Polygon: Intersects<Polygon>` -/

/-- the first coordinate of a closed ring is one of its points -/
theorem ring_head {r : List Pt} (h : RingOK r) : LsPts r (r.headD ⟨0, 0⟩) := LsPts_head (RingOK_segs h)

/-- two valid polygons neither of whose exterior rings has a point in the other polygon have no common
point at all -/
theorem disjoint_of_ext_disjoint {a b : Poly} (hva : PolyOk a) (hvb : PolyOk b)
    (H1 : ∀ z, LsPts b.ext z → ¬ PolyPts a z) (H3 : ∀ z, LsPts a.ext z → ¬ PolyPts b z) :
    ∀ x, PolyPts a x → ¬ PolyPts b x := by
  have hoka := hva.ok
  have hokb := hvb.ok
  have hokae := hoka a.ext List.mem_cons_self
  have hokbe := hokb b.ext List.mem_cons_self
  have ha0 := ring_head hokae
  have hb0 := ring_head hokbe
  have hnoab : NoMeet a.ext b.ext := noMeet_of_disjoint_ring hokb H3 b.ext List.mem_cons_self
  intro x hxa hxb
  obtain ⟨_, hwa⟩ := not_PolyPts hokb (H3 _ ha0)
  rcases hwa with hwa | ⟨g, hg, hwg⟩
  · obtain ⟨_, hwb⟩ := not_PolyPts hoka (H1 _ hb0)
    rcases hwb with hwb | ⟨h, hh, hwh⟩
    · -- the exterior rings are outside each other
      have he : ∀ p, LsPts a.ext p → windingE (EPt.ofPt p) b.ext = 0 := fun p hp => by
        rw [ls_winding_const hokbe.1 hnoab p _ hp ha0]; exact hwa
      have hh : ∀ p, LsPts b.ext p → windingE (EPt.ofPt p) a.ext = 0 := fun p hp => by
        rw [ls_winding_const hokae.1 hnoab.symm p _ hp hb0]; exact hwb
      apply exterior_rings hokae.1 hokbe.1 hnoab he hh x
      constructor
      · rcases hva.shell _ hxa with hl | hne
        · exact absurd hxb (H3 x hl)
        · exact hne
      · rcases hvb.shell _ hxb with hl | hne
        · exact absurd hxa (H1 x hl)
        · exact hne
    · exact (inside_hole_config hva hvb hh H1 hb0 hwh).2.2 x hxb hxa
  · exact (inside_hole_config hvb hva hg H3 ha0 hwg).2.2 x hxa hxb

/-- **`Polygon: Intersects<Polygon>` of two valid polygons: the closed polygons share a point** -/
theorem polyPolyIntersects_iff {a b : Poly} (hva : PolyOk a) (hvb : PolyOk b) :
    polyPolyIntersects a b = true ↔ ∃ x, PolyPts a x ∧ PolyPts b x := by
  have hoka := hva.ok
  have hokb := hvb.ok
  unfold polyPolyIntersects
  constructor
  · intro h
    split at h
    · cases h
    · simp only [Bool.or_eq_true, List.any_eq_true] at h
      rcases h with (h | ⟨r, hr, h⟩) | h
      · obtain ⟨x, hx1, hx2⟩ := (lsPolyIntersects_iff hva b.ext).mp h
        exact ⟨x, hx2, PolyPts_of_ring hokb ⟨b.ext, List.mem_cons_self, hx1⟩⟩
      · obtain ⟨x, hx1, hx2⟩ := (lsPolyIntersects_iff hva r).mp h
        exact ⟨x, hx2, PolyPts_of_ring hokb ⟨r, List.mem_cons_of_mem _ hr, hx1⟩⟩
      · obtain ⟨x, hx1, hx2⟩ := (lsPolyIntersects_iff hvb a.ext).mp h
        exact ⟨x, PolyPts_of_ring hoka ⟨a.ext, List.mem_cons_self, hx1⟩, hx2⟩
  · rintro ⟨x, hxa, hxb⟩
    have hd : bboxDisjoint (getBoundingRect a.ext) (getBoundingRect b.ext) = false :=
      not_bboxDisjoint_of_common (x := x) (PolyPts_in_bbox hva hxa) (PolyPts_in_bbox hvb hxb)
    rw [hd]
    simp only [Bool.false_eq_true, if_false]
    by_contra hc
    simp only [Bool.or_eq_true, not_or, Bool.not_eq_true] at hc
    obtain ⟨⟨h1, _⟩, h3⟩ := hc
    have H1 : ∀ z, LsPts b.ext z → ¬ PolyPts a z := fun z hz hp => by
      have := (lsPolyIntersects_iff hva b.ext).mpr ⟨z, hz, hp⟩
      rw [h1] at this; cases this
    have H3 : ∀ z, LsPts a.ext z → ¬ PolyPts b z := fun z hz hp => by
      have := (lsPolyIntersects_iff hvb a.ext).mpr ⟨z, hz, hp⟩
      rw [h3] at this; cases this
    exact disjoint_of_ext_disjoint hva hvb H1 H3 x hxa hxb

theorem polyPolyIntersects_symm_valid {a b : Poly} (hva : PolyOk a) (hvb : PolyOk b) :
    polyPolyIntersects a b = polyPolyIntersects b a := by
  rw [Bool.eq_iff_iff, polyPolyIntersects_iff hva hvb, polyPolyIntersects_iff hvb hva]
  constructor <;> rintro ⟨x, h1, h2⟩ <;> exact ⟨x, h2, h1⟩

/-! ### the containment tests -/

/-- the containment test of `Polygon × Polygon`: `a` has holes and the first coordinate of `b`'s
exterior ring is strictly inside `a`'s exterior ring -/
def ContTest (a b : Poly) : Bool := !a.ints.isEmpty && ringContainsCoord a.ext (b.ext.headD ⟨0, 0⟩)

theorem polyPoly2_eq {a b : Poly} (hi : polyPolyIntersects a b = false) (ha : segs a.ext ≠ [])
    (hb : segs b.ext ≠ []) :
    polyPoly2 a b = if ContTest a b = true then foldMin (fun r => nnDist2 b.ext r) a.ints
      else if ContTest b a = true then foldMin (fun r => nnDist2 a.ext r) b.ints
      else nnDist2 a.ext b.ext := by
  unfold polyPoly2 ContTest
  rw [hi, segs_ne_nil_not_empty ha, segs_ne_nil_not_empty hb]
  simp only [Bool.and_false, Bool.false_eq_true, if_false]

/-- what the containment test means for disjoint valid polygons: `b` lies in a hole of `a` -/
theorem contTest_hole {a b : Poly} (hva : PolyOk a) (hvb : PolyOk b)
    (hd : ∀ x, PolyPts a x → ¬ PolyPts b x) (hc : ContTest a b = true) :
    ∃ h ∈ a.ints, windingE (EPt.ofPt (b.ext.headD ⟨0, 0⟩)) h ≠ 0 := by
  have hoka := hva.ok
  have hokb := hvb.ok
  have hb0 := ring_head (hokb b.ext List.mem_cons_self)
  have hnotin : ¬ PolyPts a (b.ext.headD ⟨0, 0⟩) :=
    fun hp => hd _ hp (PolyPts_of_ring hokb ⟨b.ext, List.mem_cons_self, hb0⟩)
  obtain ⟨hoff, hw⟩ := not_PolyPts hoka hnotin
  unfold ContTest at hc
  simp only [Bool.and_eq_true] at hc
  have hoffe : ¬ LsPts a.ext (b.ext.headD ⟨0, 0⟩) := fun h => hoff ⟨a.ext, List.mem_cons_self, h⟩
  have hwe := (ringContainsCoord_iff (hoka a.ext List.mem_cons_self) hoffe).mp hc.2
  exact hw.resolve_left hwe

/-- without the containment test, for disjoint valid polygons: `b`'s exterior ring is outside `a`'s -/
theorem not_contTest_outside {a b : Poly} (hva : PolyOk a) (hvb : PolyOk b)
    (hd : ∀ x, PolyPts a x → ¬ PolyPts b x) (hc : ContTest a b = false) :
    ∀ p, LsPts b.ext p → windingE (EPt.ofPt p) a.ext = 0 := by
  have hoka := hva.ok
  have hokb := hvb.ok
  have hokae := hoka a.ext List.mem_cons_self
  have hb0 := ring_head (hokb b.ext List.mem_cons_self)
  have H1 : ∀ z, LsPts b.ext z → ¬ PolyPts a z :=
    fun z hz hp => hd z hp (PolyPts_of_ring hokb ⟨b.ext, List.mem_cons_self, hz⟩)
  have hno : NoMeet b.ext a.ext := noMeet_of_disjoint_ring hoka H1 a.ext List.mem_cons_self
  obtain ⟨hoff, hw⟩ := not_PolyPts hoka (H1 _ hb0)
  have hoffe : ¬ LsPts a.ext (b.ext.headD ⟨0, 0⟩) := fun h => hoff ⟨a.ext, List.mem_cons_self, h⟩
  have hw0 : windingE (EPt.ofPt (b.ext.headD ⟨0, 0⟩)) a.ext = 0 := by
    unfold ContTest at hc
    by_cases hne : a.ints = []
    · rcases hw with hw | ⟨h, hh, _⟩
      · exact hw
      · rw [hne] at hh; cases hh
    · have hrc : ringContainsCoord a.ext (b.ext.headD ⟨0, 0⟩) = false := by
        cases hq : a.ints with
        | nil => exact absurd hq hne
        | cons _ _ => rw [hq] at hc; simpa using hc
      by_contra hwn
      rw [(ringContainsCoord_iff hokae hoffe).mpr hwn] at hrc
      cases hrc
  intro p hp
  rw [ls_winding_const hokae.1 hno p _ hp hb0]; exact hw0

/-! ### the three branches -/

/-- containment branch: `b` lies in a hole of `a`; the hole rings of `a` and the exterior ring of `b`
carry the minimum -/
theorem holes_branch_IsMinDist {a b : Poly} (hva : PolyOk a) (hvb : PolyOk b)
    (hd : ∀ x, PolyPts a x → ¬ PolyPts b x) (hc : ContTest a b = true) {m : Rat}
    (hm : foldMin (fun r => nnDist2 b.ext r) a.ints = .fin m) : IsMinDist (PolyPts b) (PolyPts a) m := by
  have hoka := hva.ok
  have hokb := hvb.ok
  have hokbe := hokb b.ext List.mem_cons_self
  have hb0 := ring_head hokbe
  have H1 : ∀ z, LsPts b.ext z → ¬ PolyPts a z :=
    fun z hz hp => hd z hp (PolyPts_of_ring hokb ⟨b.ext, List.mem_cons_self, hz⟩)
  obtain ⟨h, hh, hw⟩ := contTest_hole hva hvb hd hc
  obtain ⟨c1, c2, _⟩ := inside_hole_config hva hvb hh H1 hb0 hw
  have hokh := hoka h (List.mem_cons_of_mem _ hh)
  have hmin : IsMinDist (LsPts b.ext) (RingsPts a.ints) m :=
    ringFold_IsMinDist (RingsOK_ext hokb) (RingsOK_ints hoka)
      (fun r hr => noMeet_of_disjoint_ring hoka H1 r (List.mem_cons_of_mem _ hr)) hm
  refine IsMinDist_of_cut2 hmin (fun y hy => PolyPts_of_ring hokb ⟨b.ext, List.mem_cons_self, hy⟩)
    (fun y ⟨r, hr, hy⟩ => PolyPts_of_ring hoka ⟨r, List.mem_cons_of_mem _ hr, hy⟩) ?_
  intro y x hy hx
  -- from `y` (inside the hole) towards `x` (not inside it): cross the hole ring at `w`
  obtain ⟨w, hw1, hw2⟩ := ring_cross' hokh.1 (x := y) (y := x) (by
    rcases hva.hole _ hh _ hx with hl | h0
    · exact Or.inl hl
    · right; rw [h0]; exact c2 y hy)
  -- from `w` (outside `b`'s exterior ring) back to `y`: cross that ring at `z`
  obtain ⟨z, hz1, hz2⟩ := ring_cross' hokbe.1 (x := w) (y := y) (by
    rcases hvb.shell _ hy with hl | hne
    · exact Or.inl hl
    · right; rw [c1 w hw2]; exact fun e => hne e.symm)
  refine ⟨z, w, hz2, ⟨h, hh, hw2⟩, ?_⟩
  have := dist2_le_of_nested (SegMem_symm hw1) hz1
  rw [dist2_symm z w, dist2_symm y x]
  exact this

/-- exterior branch: neither containment test holds; the two exterior rings carry the minimum -/
theorem ext_branch_IsMinDist {a b : Poly} (hva : PolyOk a) (hvb : PolyOk b)
    (hd : ∀ x, PolyPts a x → ¬ PolyPts b x) (hca : ContTest a b = false) (hcb : ContTest b a = false)
    {m : Rat} (hm : nnDist2 a.ext b.ext = .fin m) : IsMinDist (PolyPts a) (PolyPts b) m := by
  have hoka := hva.ok
  have hokb := hvb.ok
  have hokae := hoka a.ext List.mem_cons_self
  have hokbe := hokb b.ext List.mem_cons_self
  have hd' : ∀ x, PolyPts b x → ¬ PolyPts a x := fun x hb ha => hd x ha hb
  have hbout := not_contTest_outside hva hvb hd hca
  have haout := not_contTest_outside hvb hva hd' hcb
  have H3 : ∀ z, LsPts a.ext z → ¬ PolyPts b z :=
    fun z hz hp => hd z (PolyPts_of_ring hoka ⟨a.ext, List.mem_cons_self, hz⟩) hp
  have hno : NoMeet a.ext b.ext := noMeet_of_disjoint_ring hokb H3 b.ext List.mem_cons_self
  have hmin : IsMinDist (LsPts a.ext) (LsPts b.ext) m :=
    nnDist2_IsMinDist (RingsOK_ext hoka) (RingsOK_ext hokb) hno hm
  refine IsMinDist_of_cut2 hmin (fun x hx => PolyPts_of_ring hoka ⟨a.ext, List.mem_cons_self, hx⟩)
    (fun y hy => PolyPts_of_ring hokb ⟨b.ext, List.mem_cons_self, hy⟩) ?_
  intro x y hx hy
  -- `x` is outside `b`'s exterior ring
  have hxw : windingE (EPt.ofPt x) b.ext = 0 := by
    by_contra hne
    rcases hva.shell _ hx with hl | hne'
    · exact hne (haout x hl)
    · exact exterior_rings hokae.1 hokbe.1 hno haout hbout x ⟨hne', hne⟩
  obtain ⟨z, hz1, hz2⟩ := ring_cross' hokbe.1 (x := x) (y := y) (by
    rcases hvb.shell _ hy with hl | hne
    · exact Or.inl hl
    · right; rw [hxw]; exact fun e => hne e.symm)
  obtain ⟨w, hw1, hw2⟩ := ring_cross' hokae.1 (x := z) (y := x) (by
    rcases hva.shell _ hx with hl | hne
    · exact Or.inl hl
    · right; rw [hbout z hz2]; exact fun e => hne e.symm)
  refine ⟨w, z, hw2, hz2, ?_⟩
  have := dist2_le_of_nested (SegMem_symm hz1) hw1
  rw [dist2_symm w z, dist2_symm x y]
  exact this

/-! ### the theorems -/

theorem polyPoly2_finite {a b : Poly} (hoka : RingsOK a) (hokb : RingsOK b) : ∃ m, polyPoly2 a b = .fin m := by
  by_cases hi : polyPolyIntersects a b = true
  · exact ⟨0, polyPoly2_zero_of_intersects hi⟩
  · have hi' : polyPolyIntersects a b = false := by simpa using hi
    rw [polyPoly2_eq hi' (RingsOK_ext hoka) (RingsOK_ext hokb)]
    split
    · rename_i hc
      have hne : a.ints ≠ [] := by
        intro e; unfold ContTest at hc; rw [e] at hc; simp at hc
      exact foldMin_finite hne (fun r hr => nnDist2_finite (RingsOK_ext hokb) (RingsOK_ints hoka r hr))
    · split
      · rename_i _ hc
        have hne : b.ints ≠ [] := by
          intro e; unfold ContTest at hc; rw [e] at hc; simp at hc
        exact foldMin_finite hne (fun r hr => nnDist2_finite (RingsOK_ext hoka) (RingsOK_ints hokb r hr))
      · exact nnDist2_finite (RingsOK_ext hoka) (RingsOK_ext hokb)

/-- **Polygon × Polygon is the true minimum distance between the two closed polygons** (both valid) -/
theorem polyPoly2_poly_IsMinDist {a b : Poly} (hva : PolyOk a) (hvb : PolyOk b) :
    ∃ m, polyPoly2 a b = .fin m ∧ IsMinDist (PolyPts a) (PolyPts b) m := by
  have hoka := hva.ok
  have hokb := hvb.ok
  obtain ⟨m, hm⟩ := polyPoly2_finite hoka hokb
  refine ⟨m, hm, ?_⟩
  by_cases hi : polyPolyIntersects a b = true
  · rw [polyPoly2_zero_of_intersects hi] at hm
    obtain rfl := DV.fin.inj hm
    obtain ⟨x, hx1, hx2⟩ := (polyPolyIntersects_iff hva hvb).mp hi
    exact IsMinDist_zero_of_common (p := x) hx1 hx2
  have hi' : polyPolyIntersects a b = false := by simpa using hi
  have hd : ∀ x, PolyPts a x → ¬ PolyPts b x :=
    fun x h1 h2 => hi ((polyPolyIntersects_iff hva hvb).mpr ⟨x, h1, h2⟩)
  have hd' : ∀ x, PolyPts b x → ¬ PolyPts a x := fun x hb ha => hd x ha hb
  rw [polyPoly2_eq hi' (RingsOK_ext hoka) (RingsOK_ext hokb)] at hm
  by_cases hca : ContTest a b = true
  · rw [if_pos hca] at hm
    exact (holes_branch_IsMinDist hva hvb hd hca hm).swap
  · rw [if_neg hca] at hm
    by_cases hcb : ContTest b a = true
    · rw [if_pos hcb] at hm
      exact holes_branch_IsMinDist hvb hva hd' hcb hm
    · rw [if_neg hcb] at hm
      exact ext_branch_IsMinDist hva hvb hd (by simpa using hca) (by simpa using hcb) hm

theorem polyPoly2_zero_iff_common {a b : Poly} (hva : PolyOk a) (hvb : PolyOk b) :
    polyPoly2 a b = .fin 0 ↔ ∃ x, PolyPts a x ∧ PolyPts b x := by
  obtain ⟨m, hm, hmin⟩ := polyPoly2_poly_IsMinDist hva hvb
  constructor
  · intro h0
    rw [h0] at hm
    obtain rfl := DV.fin.inj hm
    exact IsMinDist_zero_common hmin
  · rintro ⟨x, hx1, hx2⟩
    have := hmin.unique (IsMinDist_zero_of_common (p := x) hx1 hx2)
    rw [hm, this]

/-- **Polygon × Polygon is symmetric** for valid polygons (with or without holes) -/
theorem polyPoly2_symm_valid {a b : Poly} (hva : PolyOk a) (hvb : PolyOk b) :
    polyPoly2 a b = polyPoly2 b a := by
  obtain ⟨m, hm, hmin⟩ := polyPoly2_poly_IsMinDist hva hvb
  obtain ⟨m', hm', hmin'⟩ := polyPoly2_poly_IsMinDist hvb hva
  rw [hm, hm', hmin.unique hmin'.swap]

end Geo.Proofs.C07
