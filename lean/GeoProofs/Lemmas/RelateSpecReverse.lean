/-
  Lemmas about the executable DE-9IM specification (GeoModel/RelateSpec.lean), part 7:
  reversing the direction of a segment changes neither the intersection vertices nor the set of
  atoms of the segment; hence the whole matrix is invariant under reversing rings and curves.
-/
import GeoModel.RelateSpec
import GeoProofs.Lemmas.SegmentSpec
import GeoProofs.Lemmas.LISpec
import GeoProofs.Props.C11
import GeoProofs.Lemmas.RelateSpecLemmas
import GeoProofs.Lemmas.RelateSpecLocate
import GeoProofs.Lemmas.RelateSpecSwap
import GeoProofs.Lemmas.RelateSpecDisjoint
import GeoProofs.Lemmas.RelateSpecRewrite
import Mathlib.Data.List.Perm.Basic
import Mathlib.Tactic.Linarith
import Mathlib.Tactic.Ring

namespace Geo.Proofs.Spec
open Geo Geo.Proofs.Kernel

/-! ### `lineIntersection` with the first segment reversed -/

/-- the vertex contributed by an intersection answer -/
def vtx : Option LI → List Pt
  | some (.single p _) => [p]
  | _ => []

theorem segVertex_eq_vtx (s t : Pt × Pt) : segVertex s t = vtx (lineIntersection s.1 s.2 t.1 t.2) := by
  unfold segVertex vtx
  cases lineIntersection s.1 s.2 t.1 t.2 with
  | none => rfl
  | some r => cases r <;> rfl

theorem colTable_swap (a b c d : Bool) (p1 p2 q1 q2 : Pt) :
    vtx (colTable a b d c p2 p1 q1 q2) = vtx (colTable a b c d p1 p2 q1 q2) := by
  unfold colTable
  cases a <;> cases b <;> cases c <;> cases d <;> simp [vtx]

theorem sameStrict_neg {u v : Rat} : SameStrict (-u) (-v) ↔ SameStrict u v := by
  unfold SameStrict
  constructor
  · rintro (⟨h1, h2⟩ | ⟨h1, h2⟩)
    · exact Or.inr ⟨by linarith, by linarith⟩
    · exact Or.inl ⟨by linarith, by linarith⟩
  · rintro (⟨h1, h2⟩ | ⟨h1, h2⟩)
    · exact Or.inr ⟨by linarith, by linarith⟩
    · exact Or.inl ⟨by linarith, by linarith⟩

theorem sameStrict_comm {u v : Rat} : SameStrict u v ↔ SameStrict v u := by
  unfold SameStrict
  constructor <;> rintro (⟨h1, h2⟩ | ⟨h1, h2⟩)
  · exact Or.inl ⟨h2, h1⟩
  · exact Or.inr ⟨h2, h1⟩
  · exact Or.inl ⟨h2, h1⟩
  · exact Or.inr ⟨h2, h1⟩

theorem boxMeet_swap (p1 p2 q1 q2 : Pt) : boxMeet p2 p1 q1 q2 = boxMeet p1 p2 q1 q2 := by
  rw [Bool.eq_iff_iff, boxMeet_iff, boxMeet_iff]
  constructor <;> rintro ⟨x, h1, h2⟩
  · exact ⟨x, by rw [pointInRect_symm]; exact h1, h2⟩
  · exact ⟨x, by rw [pointInRect_symm]; exact h1, h2⟩

/-- Reversing the first segment does not change the single-point answer. -/
theorem li_swap_vtx (p1 p2 q1 q2 : Pt) :
    vtx (lineIntersection p2 p1 q1 q2) = vtx (lineIntersection p1 p2 q1 q2) := by
  have r1 := cross_rev p1 p2 q1
  have r2 := cross_rev p1 p2 q2
  refine li_cases p1 p2 q1 q2 (fun r => vtx (lineIntersection p2 p1 q1 q2) = vtx r) ?_ ?_ ?_ ?_ ?_ ?_
  · intro hb
    rw [li_none_of_box (by rw [boxMeet_swap]; exact hb)]
  · intro _ hs
    rw [li_none_of_sameStrict_p (by rw [r1, r2, sameStrict_neg]; exact hs)]
  · intro _ hs
    rw [li_none_of_sameStrict_q (sameStrict_comm.mp hs)]
  · intro hb hq1 hq2 hp1 hp2
    rw [li_eq_col (by rw [boxMeet_swap]; exact hb) (by rw [r1, hq1, neg_zero]) (by rw [r2, hq2, neg_zero]) hp2 hp1,
      collinearIntersection_def, collinearIntersection_def, pointInRect_symm q1 p2 p1, pointInRect_symm q2 p2 p1]
    exact colTable_swap _ _ _ _ _ _ _ _
  · intro hb h1 h2 h3 h4
    have h1' : ¬ SameStrict (cross p2 p1 q1) (cross p2 p1 q2) := by rw [r1, r2, sameStrict_neg]; exact h1
    have h2' : ¬ SameStrict (cross q1 q2 p2) (cross q1 q2 p1) := fun h => h2 (sameStrict_comm.mp h)
    have h3' : ¬ (cross p2 p1 q1 = 0 ∧ cross p2 p1 q2 = 0 ∧ cross q1 q2 p2 = 0 ∧ cross q1 q2 p1 = 0) := by
      rw [r1, r2, neg_eq_zero, neg_eq_zero]
      exact fun h => h3 ⟨h.1, h.2.1, h.2.2.2, h.2.2.1⟩
    have h4' : cross p2 p1 q1 = 0 ∨ cross p2 p1 q2 = 0 ∨ cross q1 q2 p2 = 0 ∨ cross q1 q2 p1 = 0 := by
      rw [r1, r2, neg_eq_zero, neg_eq_zero]
      rcases h4 with h | h | h | h
      · exact Or.inl h
      · exact Or.inr (Or.inl h)
      · exact Or.inr (Or.inr (Or.inr h))
      · exact Or.inr (Or.inr (Or.inl h))
    rw [li_eq_improper (by rw [boxMeet_swap]; exact hb) h1' h2' h3' h4']
    obtain ⟨m1, m2⟩ := cascadePt_mem h1 h2 h3 h4
    obtain ⟨m3, m4⟩ := cascadePt_mem h1' h2' h3' h4'
    have e : cascadePt p2 p1 q1 q2 = cascadePt p1 p2 q1 q2 :=
      unique_common (nonparallel h1 h2 h3).1 (SegMem_symm m3).cross_eq_zero m4.cross_eq_zero
        m1.cross_eq_zero m2.cross_eq_zero
    simp only [vtx, e]
  · intro hb h1 h2 a b c d
    have h1' : ¬ SameStrict (cross p2 p1 q1) (cross p2 p1 q2) := by rw [r1, r2, sameStrict_neg]; exact h1
    have h2' : ¬ SameStrict (cross q1 q2 p2) (cross q1 q2 p1) := fun h => h2 (sameStrict_comm.mp h)
    have a' : cross p2 p1 q1 ≠ 0 := by rw [r1, neg_ne_zero]; exact a
    have b' : cross p2 p1 q2 ≠ 0 := by rw [r2, neg_ne_zero]; exact b
    rw [li_eq_proper (by rw [boxMeet_swap]; exact hb) h1' h2' a' b' d c]
    obtain ⟨m1, m2⟩ := properPoint_mem h1 h2 a
    obtain ⟨m3, m4⟩ := properPoint_mem h1' h2' a'
    have e : properPoint p2 p1 q1 q2 = properPoint p1 p2 q1 q2 :=
      unique_common (nonparallel h1 h2 (fun h => a h.1)).1 (SegMem_symm m3).cross_eq_zero m4.cross_eq_zero
        m1.cross_eq_zero m2.cross_eq_zero
    simp only [vtx, e]

/-- the intersection vertex of two segments does not depend on their directions -/
theorem segVertex_swap_left (s t : Pt × Pt) : segVertex s.swap t = segVertex s t := by
  rw [segVertex_eq_vtx, segVertex_eq_vtx]
  exact li_swap_vtx s.1 s.2 t.1 t.2

theorem segVertex_swap_right (s t : Pt × Pt) : segVertex s t.swap = segVertex s t := by
  rw [segVertex_symm, segVertex_swap_left, segVertex_symm]

/-- a segment has no intersection vertex with itself (the answer is a collinear overlap) -/
theorem segVertex_self (s : Pt × Pt) : segVertex s s = [] := by
  obtain ⟨p1, p2⟩ := s
  rw [segVertex_eq_vtx]
  have z1 : cross p1 p2 p1 = 0 := by unfold cross; ring
  have z2 : cross p1 p2 p2 = 0 := by unfold cross; ring
  refine li_cases p1 p2 p1 p2 (fun r => vtx r = []) ?_ ?_ ?_ ?_ ?_ ?_
  · intro _; rfl
  · intro _ _; rfl
  · intro _ _; rfl
  · intro _ _ _ _ _
    rw [collinearIntersection_def, (SegMem_left p1 p2).inRect, (SegMem_right p1 p2).inRect]
    simp [colTable, vtx]
  · intro _ _ _ h3 _; exact absurd ⟨z1, z2, z1, z2⟩ h3
  · intro _ _ _ a _ _ _; exact absurd z1 a

/-- set-level description of the intersection vertices -/
theorem mem_pairVertices_iff (ss : List (Pt × Pt)) (x : Pt) :
    x ∈ pairVertices ss ↔ ∃ s ∈ ss, ∃ t ∈ ss, x ∈ segVertex s t := by
  refine ⟨mem_pairVertices, ?_⟩
  induction ss with
  | nil => rintro ⟨s, hs, _⟩; simp at hs
  | cons a rest ih =>
    rintro ⟨s, hs, t, ht, hx⟩
    simp only [pairVertices, List.mem_append, List.mem_flatMap]
    rw [List.mem_cons] at hs ht
    rcases hs with rfl | hs <;> rcases ht with rfl | ht
    · rw [segVertex_self] at hx; simp at hx
    · exact Or.inl ⟨t, ht, hx⟩
    · exact Or.inl ⟨s, hs, by rw [segVertex_symm]; exact hx⟩
    · exact Or.inr (ih ⟨s, hs, t, ht, hx⟩)

/-! ### sorting the vertices of a segment from the other end -/

theorem insertByDist_perm (a x : Pt) (l : List Pt) : (insertByDist a x l).Perm (x :: l) := by
  induction l with
  | nil => exact List.Perm.refl _
  | cons q qs ih =>
    simp only [insertByDist]
    split
    · exact List.Perm.refl _
    · exact (ih.cons q).trans (List.Perm.swap x q qs)

theorem sortByDist_perm_self (a : Pt) (l : List Pt) : (sortByDist a l).Perm l := by
  induction l with
  | nil => exact List.Perm.refl _
  | cons x t ih =>
    simp only [sortByDist, List.foldr_cons] at ih ⊢
    exact (insertByDist_perm a x _).trans (ih.cons x)

theorem insertByDist_sorted (a x : Pt) (l : List Pt)
    (h : l.Pairwise (fun u v => dist2 a u ≤ dist2 a v)) :
    (insertByDist a x l).Pairwise (fun u v => dist2 a u ≤ dist2 a v) := by
  induction l with
  | nil => simp [insertByDist]
  | cons q qs ih =>
    rw [List.pairwise_cons] at h
    simp only [insertByDist]
    split
    · rename_i hle
      rw [List.pairwise_cons]
      refine ⟨?_, List.pairwise_cons.mpr h⟩
      intro y hy
      rw [List.mem_cons] at hy
      rcases hy with rfl | hy
      · exact hle
      · exact le_trans hle (h.1 y hy)
    · rename_i hle
      rw [List.pairwise_cons]
      refine ⟨?_, ih h.2⟩
      intro y hy
      rw [mem_insertByDist] at hy
      rcases hy with rfl | hy
      · exact le_of_lt (not_le.mp hle)
      · exact h.1 y hy

theorem sortByDist_sorted (a : Pt) (l : List Pt) :
    (sortByDist a l).Pairwise (fun u v => dist2 a u ≤ dist2 a v) := by
  induction l with
  | nil => simp [sortByDist]
  | cons x t ih =>
    simp only [sortByDist, List.foldr_cons] at ih ⊢
    exact insertByDist_sorted a x _ ih

/-- sorting an already sorted list changes nothing -/
theorem sortByDist_of_sorted (a : Pt) (l : List Pt)
    (h : l.Pairwise (fun u v => dist2 a u ≤ dist2 a v)) : sortByDist a l = l := by
  induction l with
  | nil => rfl
  | cons x t ih =>
    rw [List.pairwise_cons] at h
    have e : sortByDist a (x :: t) = insertByDist a x (sortByDist a t) := rfl
    rw [e, ih h.2]
    cases t with
    | nil => rfl
    | cons q qs =>
      simp only [insertByDist]
      rw [if_pos (h.1 q (by simp))]

/-- squared distances of a segment point from the two ends, by its parameter -/
theorem dist2_param {a b u : Pt} {t : Rat} (ux : u.x = a.x + t * (b.x - a.x)) (uy : u.y = a.y + t * (b.y - a.y)) :
    dist2 a u = t * t * dist2 a b ∧ dist2 b u = (1 - t) * (1 - t) * dist2 a b := by
  unfold dist2
  rw [ux, uy]
  constructor <;> ring

theorem dist2_pos {a b : Pt} (hab : a ≠ b) : 0 < dist2 a b := by
  unfold dist2
  by_contra hc
  have h1 := mul_self_nonneg (a.x - b.x)
  have h2 := mul_self_nonneg (a.y - b.y)
  have e1 : (a.x - b.x) * (a.x - b.x) = 0 := by linarith
  have e2 : (a.y - b.y) * (a.y - b.y) = 0 := by linarith
  have e1' := mul_self_eq_zero.mp e1
  have e2' := mul_self_eq_zero.mp e2
  exact hab (Pt.ext' (by linarith) (by linarith))

/-- along a segment, farther from one end is nearer to the other -/
theorem dist2_antitone_on_seg {a b u v : Pt} (hab : a ≠ b) (hu : SegMem u a b) (hv : SegMem v a b)
    (h : dist2 a u ≤ dist2 a v) : dist2 b v ≤ dist2 b u := by
  obtain ⟨t, t0, t1, ux, uy⟩ := hu
  obtain ⟨t', t0', t1', vx, vy⟩ := hv
  have hL := dist2_pos hab
  obtain ⟨e1, e2⟩ := dist2_param ux uy
  obtain ⟨e3, e4⟩ := dist2_param vx vy
  rw [e1, e3] at h
  rw [e2, e4]
  have htt : t ≤ t' := by
    by_contra hc
    have hlt : t' < t := not_le.mp hc
    have : t' * t' < t * t := mul_self_lt_mul_self t0' hlt
    have := mul_lt_mul_of_pos_right this hL
    linarith
  have : (1 - t') * (1 - t') ≤ (1 - t) * (1 - t) := mul_self_le_mul_self (by linarith) (by linarith)
  exact mul_le_mul_of_nonneg_right this hL.le

theorem filter_lineCoord_symm (a b : Pt) (verts : List Pt) :
    verts.filter (fun v => lineCoord b a v) = verts.filter (fun v => lineCoord a b v) := by
  congr 1
  funext v
  exact lineCoord_symm b a v

/-- the vertices on a segment sorted from the other end: the reversed list -/
theorem sortByDist_reverse {a b : Pt} (hab : a ≠ b) {verts : List Pt} (hn : verts.Nodup) :
    sortByDist b (verts.filter (fun v => lineCoord b a v)) =
      (sortByDist a (verts.filter (fun v => lineCoord a b v))).reverse := by
  rw [filter_lineCoord_symm]
  set L := verts.filter (fun v => lineCoord a b v) with hL
  have gb : Good b L := by
    have := good_filter_on_seg (Ne.symm hab) hn (a := b) (b := a)
    rw [filter_lineCoord_symm] at this
    exact this
  have hperm : L.Perm (sortByDist a L).reverse :=
    ((sortByDist_perm_self a L).symm).trans (List.reverse_perm _).symm
  rw [sortByDist_perm b hperm gb]
  apply sortByDist_of_sorted
  rw [List.pairwise_reverse]
  refine (sortByDist_sorted a L).imp_of_mem ?_
  intro u v hu hv huv
  have hu' : u ∈ L := (sortByDist_perm_self a L).mem_iff.mp hu
  have hv' : v ∈ L := (sortByDist_perm_self a L).mem_iff.mp hv
  rw [hL, List.mem_filter] at hu' hv'
  exact dist2_antitone_on_seg hab ((lineCoord_iff _ _ _).mp hu'.2) ((lineCoord_iff _ _ _).mp hv'.2) huv

/-! ### the atoms of a reversed segment -/

theorem midpoint_comm (u v : Pt) : midpoint v u = midpoint u v := by
  unfold midpoint
  congr 1 <;> ring

/-- The atoms of a segment, as a set, do not depend on its direction (the sub-segments are
traversed in the opposite order and the two face samples exchange their roles). -/
theorem mem_segAtoms_swap (pa pb : Parts) {verts : List Pt} (hn : verts.Nodup) (s : Pt × Pt) (x : Atom) :
    x ∈ segAtoms pa pb verts s.swap ↔ x ∈ segAtoms pa pb verts s := by
  obtain ⟨a, b⟩ := s
  simp only [Prod.swap, segAtoms]
  by_cases hab : a = b
  · subst hab; simp
  · have hba : ¬ b = a := fun e => hab e.symm
    have h1 : (a == b) = false := by simpa using hab
    have h2 : (b == a) = false := by simpa using hba
    simp only [h1, h2, Bool.false_eq_true, if_false]
    rw [sortByDist_reverse hab hn, segs_reverse]
    simp only [List.mem_flatMap, List.mem_reverse, List.mem_map]
    constructor
    · rintro ⟨p, ⟨⟨u, v⟩, huv, rfl⟩, hx⟩
      refine ⟨(u, v), huv, ?_⟩
      simp only [Prod.swap] at hx
      by_cases g : u = v
      · subst g; simp at hx
      · have g1 : (u == v) = false := by simpa using g
        have g2 : (v == u) = false := by simpa using (fun e : v = u => g e.symm)
        simp only [g1, g2, Bool.false_eq_true, if_false, midpoint_comm u v, neg_sub, List.mem_cons,
          List.not_mem_nil, or_false] at hx ⊢
        rcases hx with h | h | h
        · exact Or.inl h
        · exact Or.inr (Or.inr h)
        · exact Or.inr (Or.inl h)
    · rintro ⟨⟨u, v⟩, huv, hx⟩
      refine ⟨(v, u), ⟨(u, v), huv, rfl⟩, ?_⟩
      by_cases g : u = v
      · subst g; simp at hx
      · have g1 : (u == v) = false := by simpa using g
        have g2 : (v == u) = false := by simpa using (fun e : v = u => g e.symm)
        simp only [g1, g2, Bool.false_eq_true, if_false, midpoint_comm u v, neg_sub, List.mem_cons,
          List.not_mem_nil, or_false] at hx ⊢
        rcases hx with h | h | h
        · exact Or.inl h
        · exact Or.inr (Or.inr h)
        · exact Or.inr (Or.inl h)

/-! ### operands written with other segment directions -/

/-- every segment of `ss` occurs in `ss'`, possibly reversed -/
def USub (ss ss' : List (Pt × Pt)) : Prop := ∀ s ∈ ss, s ∈ ss' ∨ s.swap ∈ ss'

theorem USub.append_right {ss ss' : List (Pt × Pt)} (h : USub ss ss') (t : List (Pt × Pt)) :
    USub (ss ++ t) (ss' ++ t) := by
  intro s hs
  rw [List.mem_append] at hs
  rcases hs with hs | hs
  · rcases h s hs with g | g
    · exact Or.inl (List.mem_append_left _ g)
    · exact Or.inr (List.mem_append_left _ g)
  · exact Or.inl (List.mem_append_right _ hs)

theorem mem_endsOf_usub {ss ss' : List (Pt × Pt)} (h : USub ss ss') {x : Pt} (hx : x ∈ endsOf ss) :
    x ∈ endsOf ss' := by
  simp only [endsOf, List.mem_flatMap] at hx ⊢
  obtain ⟨s, hs, hx⟩ := hx
  rcases h s hs with g | g
  · exact ⟨s, g, hx⟩
  · refine ⟨s.swap, g, ?_⟩
    simp only [Prod.swap, List.mem_cons, List.not_mem_nil, or_false] at hx ⊢
    exact hx.symm

theorem mem_pairVertices_usub {ss ss' : List (Pt × Pt)} (h : USub ss ss') {x : Pt}
    (hx : x ∈ pairVertices ss) : x ∈ pairVertices ss' := by
  rw [mem_pairVertices_iff] at hx ⊢
  obtain ⟨s, hs, t, ht, hx⟩ := hx
  rcases h s hs with g | g <;> rcases h t ht with g' | g'
  · exact ⟨s, g, t, g', hx⟩
  · exact ⟨s, g, t.swap, g', by rw [segVertex_swap_right]; exact hx⟩
  · exact ⟨s.swap, g, t, g', by rw [segVertex_swap_left]; exact hx⟩
  · exact ⟨s.swap, g, t.swap, g', by rw [segVertex_swap_left, segVertex_swap_right]; exact hx⟩

/-- Two ways of writing the same operand, segment directions free: the same *undirected* segments
(as sets), the same single coordinates and isolated points, the same point location. -/
structure PartsSame (pa pa' : Parts) : Prop where
  segs : USub pa.allSegs pa'.allSegs
  segs' : USub pa'.allSegs pa.allSegs
  singles : ∀ x, x ∈ singlesOf pa ↔ x ∈ singlesOf pa'
  pts : ∀ x, x ∈ pa.pts ↔ x ∈ pa'.pts
  loc : ∀ p, locateParts pa p = locateParts pa' p
  face : ∀ e, locateFace pa e = locateFace pa' e

theorem PartsSame.symm {pa pa' : Parts} (h : PartsSame pa pa') : PartsSame pa' pa :=
  ⟨h.segs', h.segs, fun x => (h.singles x).symm, fun x => (h.pts x).symm, fun p => (h.loc p).symm,
   fun e => (h.face e).symm⟩

theorem mem_vertsOf_same {pa pa' : Parts} (h : PartsSame pa pa') (pb : Parts) {x : Pt}
    (hx : x ∈ vertsOf pa pb) : x ∈ vertsOf pa' pb := by
  unfold vertsOf at hx ⊢
  rw [mem_dedupPts] at hx ⊢
  rw [List.mem_append, List.mem_append, List.mem_append, List.mem_append] at hx ⊢
  rcases hx with (((hx | hx) | hx) | hx) | hx
  · exact Or.inl (Or.inl (Or.inl (Or.inl (mem_endsOf_usub (h.segs.append_right _) hx))))
  · refine Or.inl (Or.inl (Or.inl (Or.inr ?_)))
    have hs := h.singles x
    simp only [singlesOf, List.flatMap_append, List.mem_append] at hs hx ⊢
    rcases hx with (g | g) | g | g
    · rcases hs.mp (Or.inl g) with g' | g'
      · exact Or.inl (Or.inl g')
      · exact Or.inr (Or.inl g')
    · exact Or.inl (Or.inr g)
    · rcases hs.mp (Or.inr g) with g' | g'
      · exact Or.inl (Or.inl g')
      · exact Or.inr (Or.inl g')
    · exact Or.inr (Or.inr g)
  · exact Or.inl (Or.inl (Or.inr ((h.pts x).mp hx)))
  · exact Or.inl (Or.inr hx)
  · exact Or.inr (mem_pairVertices_usub (h.segs.append_right _) hx)

theorem mem_atomsOf_same {pa pa' : Parts} (h : PartsSame pa pa') (pb : Parts) {x : Atom}
    (hx : x ∈ atomsOf pa pb) : x ∈ atomsOf pa' pb := by
  have hv : (vertsOf pa pb).Perm (vertsOf pa' pb) :=
    (List.perm_ext_iff_of_nodup (nodup_dedupPts _) (nodup_dedupPts _)).mpr
      (fun _ => ⟨mem_vertsOf_same h pb, mem_vertsOf_same h.symm pb⟩)
  have hs : ∀ s, segAtoms pa pb (vertsOf pa pb) s = segAtoms pa' pb (vertsOf pa' pb) s := by
    intro s
    rw [segAtoms_congr pa pb hv (nodup_dedupPts _), segAtoms_congr_loc h.loc h.face]
  unfold atomsOf at hx ⊢
  rw [List.mem_append] at hx ⊢
  rcases hx with hx | hx
  · left
    rw [List.mem_map] at hx ⊢
    obtain ⟨v, hv', e⟩ := hx
    exact ⟨v, hv.mem_iff.mp hv', by rw [← h.loc]; exact e⟩
  · right
    rw [List.mem_flatMap] at hx ⊢
    obtain ⟨s, hs', g⟩ := hx
    rw [hs] at g
    rcases (h.segs.append_right pb.allSegs) s hs' with k | k
    · exact ⟨s, k, g⟩
    · exact ⟨s.swap, k, (mem_segAtoms_swap pa' pb (nodup_dedupPts _) s x).mpr g⟩

/-- **The matrix does not depend on how the first operand is written, segment directions
included** (`PartsSame`). -/
theorem relateParts_same_left {pa pa' : Parts} (h : PartsSame pa pa') (pb : Parts) :
    relateParts pa pb = relateParts pa' pb := by
  rw [relateParts_eq, relateParts_eq]
  congr 1
  exact fold_mem_congr (fun _ => ⟨mem_atomsOf_same h pb, mem_atomsOf_same h.symm pb⟩)

theorem relateParts_same_right (pa : Parts) {pb pb' : Parts} (h : PartsSame pb pb') :
    relateParts pa pb = relateParts pa pb' := by
  rw [relateParts_transpose pb pa, relateParts_transpose pb' pa, relateParts_same_left h]

/-! ### the re-writings, now with reversal -/

theorem USub.refl (ss : List (Pt × Pt)) : USub ss ss := fun _ hs => Or.inl hs

theorem USub.of_perm {ss ss' : List (Pt × Pt)} (h : ss.Perm ss') : USub ss ss' :=
  fun _ hs => Or.inl (h.mem_iff.mp hs)

theorem USub.trans {s1 s2 s3 : List (Pt × Pt)} (h : USub s1 s2) (h' : USub s2 s3) : USub s1 s3 := by
  intro s hs
  rcases h s hs with g | g
  · exact h' s g
  · rcases h' s.swap g with k | k
    · exact Or.inr k
    · exact Or.inl (by simpa using k)

theorem USub.append {s1 s1' s2 s2' : List (Pt × Pt)} (h1 : USub s1 s1') (h2 : USub s2 s2') :
    USub (s1 ++ s2) (s1' ++ s2') := by
  intro s hs
  rw [List.mem_append] at hs
  rcases hs with hs | hs
  · rcases h1 s hs with g | g
    · exact Or.inl (List.mem_append_left _ g)
    · exact Or.inr (List.mem_append_left _ g)
  · rcases h2 s hs with g | g
    · exact Or.inl (List.mem_append_right _ g)
    · exact Or.inr (List.mem_append_right _ g)

theorem USub.reverse (l : List Pt) : USub (Geo.segs l) (Geo.segs l.reverse) := by
  intro s hs; right; rw [mem_segs_reverse]; simpa using hs

theorem USub.reverse' (l : List Pt) : USub (Geo.segs l.reverse) (Geo.segs l) := by
  intro s hs; right; rw [mem_segs_reverse] at hs; exact hs

theorem PartsSame.of_equiv {pa pa' : Parts} (h : PartsEquiv pa pa') : PartsSame pa pa' :=
  ⟨USub.of_perm h.segs, USub.of_perm h.segs.symm, h.singles, h.pts, h.loc, h.face⟩

theorem PartsSame.refl (pa : Parts) : PartsSame pa pa := PartsSame.of_equiv (PartsEquiv.refl pa)

theorem PartsSame.trans {p1 p2 p3 : Parts} (h : PartsSame p1 p2) (h' : PartsSame p2 p3) : PartsSame p1 p3 :=
  ⟨h.segs.trans h'.segs, h'.segs'.trans h.segs', fun x => (h.singles x).trans (h'.singles x),
   fun x => (h.pts x).trans (h'.pts x), fun p => (h.loc p).trans (h'.loc p), fun e => (h.face e).trans (h'.face e)⟩

theorem singleOf_of_length {l : List Pt} (h : 2 ≤ l.length) : singleOf l = [] := by
  match l, h with
  | _ :: _ :: _, _ => rfl

theorem singleOf_reverse (l : List Pt) : singleOf l.reverse = singleOf l := by
  match l with
  | [] => rfl
  | [_] => rfl
  | x :: y :: t =>
    rw [singleOf_of_length (by simp), singleOf_of_length (by simp)]

/-- a polygon re-written, ring directions free -/
structure PolySame (q q' : Poly) : Prop where
  equiv : PolyEquiv q q'
  segs : USub (q.rings.flatMap Geo.segs) (q'.rings.flatMap Geo.segs)
  segs' : USub (q'.rings.flatMap Geo.segs) (q.rings.flatMap Geo.segs)
  singles : ∀ x, x ∈ q.rings.flatMap singleOf ↔ x ∈ q'.rings.flatMap singleOf

theorem PolySame.of_rewrite {q q' : Poly} (h : PolyRewrite q q') : PolySame q q' :=
  ⟨h.equiv, USub.of_perm h.segs, USub.of_perm h.segs.symm, h.singles⟩

theorem PolySame.refl (q : Poly) : PolySame q q := PolySame.of_rewrite (PolyRewrite.refl q)

theorem PolySame.trans {q q' q'' : Poly} (h : PolySame q q') (h' : PolySame q' q'') : PolySame q q'' :=
  ⟨h.equiv.trans h'.equiv, h.segs.trans h'.segs, h'.segs'.trans h.segs', fun x => (h.singles x).trans (h'.singles x)⟩

/-- exterior ring reversed -/
theorem PolySame.ext_reverse (ext : List Pt) (ints : List (List Pt)) : PolySame ⟨ext, ints⟩ ⟨ext.reverse, ints⟩ := by
  refine ⟨PolyEquiv.of_ext (RingEquiv.reverse ext) ints, ?_, ?_, ?_⟩
  · simp only [Poly.rings, List.flatMap_cons]
    exact (USub.reverse ext).append (USub.refl _)
  · simp only [Poly.rings, List.flatMap_cons]
    exact (USub.reverse' ext).append (USub.refl _)
  · intro x
    simp only [Poly.rings, List.flatMap_cons, singleOf_reverse]

/-- a hole reversed -/
theorem PolySame.hole_reverse (ext : List Pt) (h1 h2 : List (List Pt)) (r : List Pt) :
    PolySame ⟨ext, h1 ++ r :: h2⟩ ⟨ext, h1 ++ r.reverse :: h2⟩ := by
  refine ⟨PolyEquiv.of_hole (RingEquiv.reverse r) ext h1 h2, ?_, ?_, ?_⟩
  · simp only [Poly.rings, List.flatMap_cons, List.flatMap_append]
    exact (USub.refl _).append ((USub.refl _).append ((USub.reverse r).append (USub.refl _)))
  · simp only [Poly.rings, List.flatMap_cons, List.flatMap_append]
    exact (USub.refl _).append ((USub.refl _).append ((USub.reverse' r).append (USub.refl _)))
  · intro x
    simp only [Poly.rings, List.flatMap_cons, List.flatMap_append, singleOf_reverse]

/-- a curve re-written, direction free -/
structure CurveSame (c c' : List Pt) : Prop where
  equiv : CurveEquiv c c'
  segs : USub (Geo.segs c) (Geo.segs c')
  segs' : USub (Geo.segs c') (Geo.segs c)
  singles : singleOf c = singleOf c'

theorem CurveSame.of_rewrite {c c' : List Pt} (h : CurveRewrite c c') : CurveSame c c' :=
  ⟨h.equiv, USub.of_perm h.segs, USub.of_perm h.segs.symm, h.singles⟩

theorem CurveSame.refl (c : List Pt) : CurveSame c c := CurveSame.of_rewrite (CurveRewrite.refl c)

theorem CurveSame.trans {c c' c'' : List Pt} (h : CurveSame c c') (h' : CurveSame c' c'') : CurveSame c c'' :=
  ⟨h.equiv.trans h'.equiv, h.segs.trans h'.segs, h'.segs'.trans h.segs', h.singles.trans h'.singles⟩

/-- a curve reversed -/
theorem CurveSame.reverse (c : List Pt) : CurveSame c c.reverse :=
  ⟨CurveEquiv.reverse c, USub.reverse c, USub.reverse' c, (singleOf_reverse c).symm⟩

theorem usub_flatMap_forall₂ {α : Type} {R : α → α → Prop} {l l' : List α} (h : List.Forall₂ R l l')
    {f : α → List (Pt × Pt)} (hf : ∀ a b, R a b → USub (f a) (f b)) : USub (l.flatMap f) (l'.flatMap f) := by
  induction h with
  | nil => exact USub.refl _
  | cons hab _ ih => simp only [List.flatMap_cons]; exact (hf _ _ hab).append ih

theorem forall₂_flip {α : Type} {R : α → α → Prop} {l l' : List α} (h : List.Forall₂ R l l') :
    List.Forall₂ (fun a b => R b a) l' l := by
  induction h with
  | nil => exact List.Forall₂.nil
  | cons hab _ ih => exact List.Forall₂.cons hab ih

/-- members re-written one by one, directions free -/
theorem PartsSame.members (pts : List Pt) {cs cs' : List (List Pt)} {as as' : List Poly}
    (hc : List.Forall₂ CurveSame cs cs') (ha : List.Forall₂ PolySame as as') :
    PartsSame ⟨pts, cs, as⟩ ⟨pts, cs', as'⟩ := by
  refine ⟨?_, ?_, ?_, fun _ => Iff.rfl, ?_, ?_⟩
  · simp only [Parts.allSegs, Parts.curveSegs, Parts.areaSegs, List.flatMap_assoc]
    exact (usub_flatMap_forall₂ hc (fun a b hab => hab.segs)).append
      (usub_flatMap_forall₂ ha (fun a b hab => hab.segs))
  · simp only [Parts.allSegs, Parts.curveSegs, Parts.areaSegs, List.flatMap_assoc]
    exact (usub_flatMap_forall₂ (forall₂_flip hc) (fun a b hab => hab.segs')).append
      (usub_flatMap_forall₂ (forall₂_flip ha) (fun a b hab => hab.segs'))
  · intro x
    simp only [singlesOf, List.flatMap_append, List.flatMap_assoc, List.mem_append]
    have e1 : cs.flatMap singleOf = cs'.flatMap singleOf := by
      clear ha
      induction hc with
      | nil => rfl
      | cons hab _ ih => simp only [List.flatMap_cons, hab.singles, ih]
    have e2 : x ∈ as.flatMap (fun q => q.rings.flatMap singleOf) ↔ x ∈ as'.flatMap (fun q => q.rings.flatMap singleOf) := by
      clear hc e1
      induction ha with
      | nil => exact Iff.rfl
      | cons hab _ ih => simp only [List.flatMap_cons, List.mem_append, hab.singles x, ih]
    rw [e1, e2]
  · intro p
    exact locateParts_congr p (fun _ => Iff.rfl) (forall₂_imp (fun _ _ h => h.equiv) hc)
      (forall₂_imp (fun _ _ h => h.equiv) ha)
  · intro e
    exact locateFace_congr e (forall₂_imp (fun _ _ h => h.equiv) ha)

/-- one member polygon re-written, anywhere in the list -/
theorem forall₂_polySame_at {q q' : Poly} (h : PolySame q q') (pre post : List Poly) :
    List.Forall₂ PolySame (pre ++ q :: post) (pre ++ q' :: post) := by
  induction pre with
  | nil => exact List.Forall₂.cons h (forall₂_refl_of PolySame.refl post)
  | cons a t ih => exact List.Forall₂.cons (PolySame.refl a) ih

theorem forall₂_curveSame_at {c c' : List Pt} (h : CurveSame c c') (pre post : List (List Pt)) :
    List.Forall₂ CurveSame (pre ++ c :: post) (pre ++ c' :: post) := by
  induction pre with
  | nil => exact List.Forall₂.cons h (forall₂_refl_of CurveSame.refl post)
  | cons a t ih => exact List.Forall₂.cons (CurveSame.refl a) ih

end Geo.Proofs.Spec
