/-
  C02X, part 6: when one operand has no areal part (Point, MultiPoint, Line, LineString,
  MultiLineString, collections of these), the mask "not `FF*FF****`" on the DE-9IM specification holds
  exactly when the two operands have a common point:

      is_intersects (relateParts pa pb)  ⇔  ∃ p, locateParts pa p ≠ Outside ∧ locateParts pb p ≠ Outside.

  (⇒) an atom located non-`Outside` in both operands is a vertex or the midpoint of an elementary
  sub-segment — a face sample is `Outside` of the operand without areas. (⇐) a point of the operand
  without areas is one of its points (a vertex of the arrangement) or lies on one of its segments, so
  it is represented by an atom with the same locations (`atom_of_located`).
-/
import GeoProofs.Lemmas.C02XConst
import GeoModel.Gen.Masks

set_option linter.unusedSimpArgs false
set_option linter.unusedVariables false

namespace Geo.Proofs.C02X
open Geo Geo.Proofs.Kernel Geo.Proofs.Spec Geo.Proofs.C02Q Geo.Proofs.WIND

/-- a cell outside the exterior row that is not `F` comes from an atom -/
theorem atom_of_cell {pa pb : Parts} {X Y : Pos} (hX : X ≠ .outside)
    (h : (relateParts pa pb).get X Y ≠ .empty) : ∃ a ∈ atomsOf pa pb, a.posA = X ∧ a.posB = Y := by
  rw [relateParts_eq, get_set, if_neg (fun e => hX e.1.symm)] at h
  have h1 : Dim.zero.rank ≤ ((fold (atomsOf pa pb)).get X Y).rank := by
    generalize (fold (atomsOf pa pb)).get X Y = d at h
    cases d <;> simp [Dim.rank] at h ⊢
  rcases (fold_get _ X Y .zero).mp h1 with h0 | ⟨a, ha, hax, hay, _⟩
  · cases h0
  · exact ⟨a, ha, hax, hay⟩

theorem closedRings_of_noAreas {ps : Parts} (h : ps.areas = []) : ClosedRings ps := by
  intro q hq; rw [h] at hq; cases hq

/-- located non-`Outside` in parts without areas: on a curve segment or one of the points -/
theorem located_noAreas {ps : Parts} (ha : ps.areas = []) (p : Pt) :
    locateParts ps p ≠ .outside ↔ onAnySeg p ps.curveSegs = true ∨ p ∈ ps.pts := by
  rw [locateParts_eq, ← onAnySeg_curveSegs]
  simp only [ha, inAnyPoly, onAnyRing, List.any_nil, Bool.or_self, Bool.false_eq_true, if_false]
  by_cases hc : onAnySeg p ps.curveSegs = true
  · simp only [hc, if_true, true_or, iff_true]
    split <;> simp
  · have hc' : onAnySeg p ps.curveSegs = false := by simpa using hc
    simp only [hc', Bool.false_eq_true, if_false, false_or]
    by_cases hp : p ∈ ps.pts
    · have : ps.pts.any (· == p) = true := List.any_eq_true.mpr ⟨p, hp, by simp⟩
      simp [this, hp]
    · have : ps.pts.any (· == p) = false := by
        rw [List.any_eq_false]; intro x hx hxp; rw [beq_iff_eq] at hxp; exact hp (hxp ▸ hx)
      simp [this, hp]

/-- a point located non-`Outside` in parts without areas is a vertex of the arrangement or lies on a
segment of it -/
theorem on_arrangement_left {pa pb : Parts} (ha : pa.areas = []) {p : Pt}
    (hp : locateParts pa p ≠ .outside) :
    p ∈ vertsOf pa pb ∨ ∃ s ∈ pa.allSegs ++ pb.allSegs, SegMem p s.1 s.2 := by
  rcases (located_noAreas ha p).mp hp with h | h
  · right
    rw [Geo.Proofs.Spec.onAnySeg_iff] at h
    obtain ⟨s, hs, hl⟩ := h
    exact ⟨s, List.mem_append_left _ (by unfold Parts.allSegs; exact List.mem_append_left _ hs),
      (lineCoord_iff _ _ _).mp hl⟩
  · exact Or.inl (pts_mem_vertsOf h)

theorem on_arrangement_right {pa pb : Parts} (hb : pb.areas = []) {p : Pt}
    (hp : locateParts pb p ≠ .outside) :
    p ∈ vertsOf pa pb ∨ ∃ s ∈ pa.allSegs ++ pb.allSegs, SegMem p s.1 s.2 := by
  rcases on_arrangement_left (pb := pa) hb hp with h | ⟨s, hs, h⟩
  · exact Or.inl ((mem_vertsOf_comm pb pa p).mp h)
  · exact Or.inr ⟨s, by rw [List.mem_append] at hs ⊢; exact hs.symm, h⟩

theorem isIntersects_iff_cell (m : IM) :
    Gen.isIntersects m = true ↔
      ∃ X Y : Pos, X ≠ .outside ∧ Y ≠ .outside ∧ m.get X Y ≠ .empty := by
  have hm : Gen.isIntersects m = true ↔ ¬ (m.ii = .empty ∧ m.ib = .empty ∧ m.bi = .empty ∧ m.bb = .empty) := by
    simp only [Gen.isIntersects, Gen.isDisjoint, Bool.not_eq_true', Bool.and_eq_false_iff,
      beq_eq_false_iff_ne, ne_eq, beq_iff_eq]
    by_cases h1 : m.ii = .empty <;> by_cases h2 : m.ib = .empty <;> by_cases h3 : m.bi = .empty <;>
      by_cases h4 : m.bb = .empty <;> simp [h1, h2, h3, h4]
  rw [hm]
  constructor
  · intro h
    by_cases h1 : m.ii = .empty
    · by_cases h2 : m.ib = .empty
      · by_cases h3 : m.bi = .empty
        · by_cases h4 : m.bb = .empty
          · exact absurd ⟨h1, h2, h3, h4⟩ h
          · exact ⟨.onBoundary, .onBoundary, by decide, by decide, h4⟩
        · exact ⟨.onBoundary, .inside, by decide, by decide, h3⟩
      · exact ⟨.inside, .onBoundary, by decide, by decide, h2⟩
    · exact ⟨.inside, .inside, by decide, by decide, h1⟩
  · rintro ⟨X, Y, hX, hY, hc⟩ ⟨h1, h2, h3, h4⟩
    cases X <;> cases Y <;> simp_all [IM.get]

/-- **one operand without areas: `is_intersects` on the specification ⇔ a common point** -/
theorem isIntersects_iff_common_point {pa pb : Parts} (h : pa.areas = [] ∨ pb.areas = [])
    (ca : ClosedRings pa) (cb : ClosedRings pb) :
    Gen.isIntersects (relateParts pa pb) = true ↔
      ∃ p, locateParts pa p ≠ .outside ∧ locateParts pb p ≠ .outside := by
  rw [isIntersects_iff_cell]
  constructor
  · rintro ⟨X, Y, hX, hY, hc⟩
    obtain ⟨x, hx, hxA, hxB⟩ := atom_of_cell hX hc
    rcases mem_atomsOf_cases hx with ⟨v, _, rfl⟩ | ⟨s, _, _, m, _, _, rfl | rfl | rfl⟩
    · exact ⟨v, fun e => hX (hxA ▸ e), fun e => hY (hxB ▸ e)⟩
    · exact ⟨m, fun e => hX (hxA ▸ e), fun e => hY (hxB ▸ e)⟩
    · exfalso
      rcases h with h | h
      · exact hX (hxA ▸ locateFace_noAreas h _)
      · exact hY (hxB ▸ locateFace_noAreas h _)
    · exfalso
      rcases h with h | h
      · exact hX (hxA ▸ locateFace_noAreas h _)
      · exact hY (hxB ▸ locateFace_noAreas h _)
  · rintro ⟨p, hA, hB⟩
    have hon : p ∈ vertsOf pa pb ∨ ∃ s ∈ pa.allSegs ++ pb.allSegs, SegMem p s.1 s.2 := by
      rcases h with h | h
      · exact on_arrangement_left h hA
      · exact on_arrangement_right h hB
    exact ⟨_, _, hA, hB, cell_of_located ca cb hon⟩

/-- geometry form: `a` without areal part (Point, MultiPoint, Line, LineString, MultiLineString, or a
collection of these), `b` any geometry with closed rings (e.g. in the validity domain) -/
theorem isIntersects_relate_iff_left {a b : Geom} (ha : (parts a).areas = []) (cb : ClosedRings (parts b)) :
    Gen.isIntersects (relateSpec a b) = true ↔ ∃ p, locate a p ≠ .outside ∧ locate b p ≠ .outside :=
  isIntersects_iff_common_point (Or.inl ha) (closedRings_of_noAreas ha) cb

theorem isIntersects_relate_iff_right {a b : Geom} (ca : ClosedRings (parts a)) (hb : (parts b).areas = []) :
    Gen.isIntersects (relateSpec a b) = true ↔ ∃ p, locate a p ≠ .outside ∧ locate b p ≠ .outside :=
  isIntersects_iff_common_point (Or.inr hb) ca (closedRings_of_noAreas hb)

end Geo.Proofs.C02X
