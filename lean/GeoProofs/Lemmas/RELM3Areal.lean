/-
  RELM3 — GeometryCollections of areal members (Polygon, MultiPolygon, Rect, Triangle, nested) of the validity domain:
  the nodes of the self-noded graph are `OnBoundary` nodes on the rings of the members (the invariant `AInv` of
  RELM2Areal passes through `add_geometry` member by member), and a ring point of one member is located `OnBoundary` by
  the specification of the whole collection: it is on the boundary of its own member (induction), and not strictly
  inside another member — the members are pairwise disjoint (`collectionOk`: cells II, IB, BI, BB of the
  specification are `F`), while a point on a segment of the arrangement of two operands with closed rings makes the
  cell of its two locations non-`F` (C02X `cell_of_located`).
-/
import GeoProofs.Lemmas.RELM3Coll
import GeoProofs.Lemmas.C02XConst

namespace Geo.Proofs.RELM3
open Geo Geo.GG Geo.RI Geo.Proofs.Spec Geo.Proofs.RELM Geo.Proofs.RELM2 Geo.Proofs.Kernel

mutual
/-- Polygon, MultiPolygon, Rect, Triangle, collections of these -/
def arOk : Geom → Bool
  | .polygon _ => true
  | .multiPolygon _ => true
  | .rect _ _ => true
  | .triangle _ _ _ => true
  | .collection gs => arOkList gs
  | _ => false
def arOkList : List Geom → Bool
  | [] => true
  | g :: gs => arOk g && arOkList gs
end

/-! ### the built graph -/

theorem ainv_setRule {idx : Nat} {rings : List (List Pt)} {G : Graph} (h : AInv idx rings G) (b : Bool) :
    AInv idx rings { G with useRule := b } := ⟨h.nodes, h.edges⟩

mutual
theorem ainv_addGeometry (idx : Nat) (rings : List (List Pt)) : ∀ (g : Geom) (G : Graph), arOk g = true →
    AInv idx rings G → (∀ r ∈ ringsOf g, r ∈ rings) → AInv idx rings (addGeometry idx g G)
  | .polygon q, G, _, h, hr => by
      simp only [addGeometry]
      split
      · exact h
      · exact ainv_addPolygon h q (fun r hr' => hr r (by simpa [ringsOf, parts] using hr'))
  | .multiPolygon ps, G, _, h, hr => by
      simp only [addGeometry]
      split
      · exact h
      · apply ainv_addPolygons ps (ainv_setRule h false)
        intro q hq r hr'
        apply hr
        simp only [ringsOf, parts, List.mem_flatMap]
        exact ⟨q, hq, hr'⟩
  | .rect mn mx, G, _, h, hr => by
      simp only [addGeometry]
      exact ainv_addPolygon h _ (fun r hr' => hr r (by
        simp only [ringsOf, parts, List.flatMap_cons, List.flatMap_nil, List.append_nil]
        exact hr'))
  | .triangle a b c, G, _, h, hr => by
      simp only [addGeometry]
      exact ainv_addPolygon h _ (fun r hr' => hr r (by
        simp only [ringsOf, parts, List.flatMap_cons, List.flatMap_nil, List.append_nil]
        exact hr'))
  | .collection gs, G, ha, h, hr => by
      have hl : arOkList gs = true := by simpa [arOk] using ha
      simp only [addGeometry]
      split
      · exact h
      · exact ainv_addGeometries idx rings gs G hl h (fun r hr' => hr r (by simpa [ringsOf, parts] using hr'))
  | .point _, _, ha, _, _ => by simp [arOk] at ha
  | .line _ _, _, ha, _, _ => by simp [arOk] at ha
  | .lineString _, _, ha, _, _ => by simp [arOk] at ha
  | .multiPoint _, _, ha, _, _ => by simp [arOk] at ha
  | .multiLineString _, _, ha, _, _ => by simp [arOk] at ha
theorem ainv_addGeometries (idx : Nat) (rings : List (List Pt)) : ∀ (gs : List Geom) (G : Graph), arOkList gs = true →
    AInv idx rings G → (∀ r ∈ (partsList gs).areas.flatMap Poly.rings, r ∈ rings) →
    AInv idx rings (addGeometries idx gs G)
  | [], _, _, h, _ => h
  | g :: gs, G, ha, h, hr => by
      simp only [arOkList, Bool.and_eq_true] at ha
      simp only [addGeometries]
      apply ainv_addGeometries idx rings gs _ ha.2
      · apply ainv_addGeometry idx rings g G ha.1 h
        intro r hr'
        apply hr
        simp only [partsList, Parts.append, List.flatMap_append, List.mem_append]
        exact Or.inl hr'
      · intro r hr'
        apply hr
        simp only [partsList, Parts.append, List.flatMap_append, List.mem_append]
        exact Or.inr hr'
end

theorem ainv_buildGraph_coll (idx : Nat) (g : Geom) (ha : arOk g = true) : AInv idx (ringsOf g) (buildGraph idx g) :=
  ainv_addGeometry idx _ g _ ha (ainv_empty _ _) (fun _ h => h)

/-- the nodes of the self-noded graph are boundary nodes on the rings (as `fresh_nodes_areal`) -/
theorem fresh_nodes_arealColl (idx : Nat) (g : Geom) (ha : arOk g = true) :
    NodesB idx (OnRings (ringsOf g)) (freshGraph Arith.exact idx g).nodes := by
  rw [fresh_nodes]
  have hb := ainv_buildGraph_coll idx g ha
  apply nodesB_addSelfIntersectionItems (G := selfNodeBase Arith.exact idx g) _ hb.nodes
  intro it hit
  obtain ⟨e, he, rfl⟩ := List.mem_map.1 hit
  have hbe := hb.edges _ (fresh_edge_built _ idx g he)
  refine ⟨hbe.1, ?_⟩
  intro c hc
  obtain ⟨rec, hrec, rfl⟩ := List.mem_map.1 hc
  obtain ⟨r, hr, hcoords⟩ := hbe.2
  have hv := (freshGraph_wf idx g e he).2 rec hrec
  have hcoords' : e.coords = dedup r := hcoords
  rw [hcoords'] at hv
  exact ⟨r, hr, onRing_of_validRec hv⟩

theorem eisAreNodes_arealColl (ar : Arith) (g : Geom) (ha : arOk g = true) : EisAreNodes ar g :=
  fresh_eis_sub_nodes ar 1 g (fun e he => by
    have := ((ainv_buildGraph_coll 1 g ha).edges _ (fresh_edge_built ar 1 g he)).1
    have h' : e.label.onPos 1 = some .onBoundary := this
    rw [h']; rfl)

/-! ### pairwise disjoint members -/

/-- the four cells `collectionOk` asks to be `F` -/
def CellsF (m : IM) : Prop := m.ii = .empty ∧ m.ib = .empty ∧ m.bi = .empty ∧ m.bb = .empty

theorem apart_of_collectionOk {gs : List Geom} (h : collectionOk gs = true) {i j : Nat} (hij : i < j) {g1 g2 : Geom}
    (h1 : gs[i]? = some g1) (h2 : gs[j]? = some g2) : CellsF (relateSpec g1 g2) := by
  unfold collectionOk at h
  simp only [Bool.and_eq_true] at h
  have := Geo.Proofs.C12.allPairs_spec h.2 hij (s := (⟨0, 0⟩, ⟨0, 0⟩)) (t := (⟨0, 0⟩, ⟨0, 0⟩))
    (by rw [List.getElem?_map, h1]; rfl) (by rw [List.getElem?_map, h2]; rfl)
  rw [h1, h2] at this
  simp only [Bool.and_eq_true, beq_iff_eq] at this
  exact ⟨this.1.1.1, this.1.1.2, this.1.2, this.2⟩

/-- a point strictly inside one member and on a ring of another: impossible in a collection of the domain -/
theorem no_inside_on_ring {gs : List Geom} (hok : collectionOk gs = true) (hdl : inDomainList gs = true)
    {i j : Nat} (hij : i ≠ j) {g1 g2 : Geom} (h1 : gs[i]? = some g1) (h2 : gs[j]? = some g2) {c : Pt}
    (hin : locate g1 c = .inside) (hb : locate g2 c = .onBoundary) (hon : OnRings (ringsOf g2) c) : False := by
  have hd : ∀ {k : Nat} {g : Geom}, gs[k]? = some g → inDomain g = true := by
    intro k g hk
    have hmem : g ∈ gs := List.mem_of_getElem? hk
    have : ∀ (l : List Geom), inDomainList l = true → g ∈ l → inDomain g = true := by
      intro l
      induction l with
      | nil => intro _ h; cases h
      | cons x xs ih =>
        intro hl hm
        simp only [inDomainList, Bool.and_eq_true] at hl
        rcases List.mem_cons.1 hm with rfl | hm
        · exact hl.1
        · exact ih hl.2 hm
    exact this gs hdl hmem
  have c1 := (Geo.Proofs.C02X.dom_facts g1 (hd h1)).closed
  have c2 := (Geo.Proofs.C02X.dom_facts g2 (hd h2)).closed
  -- `c` is on the arrangement of the two members
  have harr : c ∈ vertsOf (parts g1) (parts g2) ∨
      ∃ s ∈ (parts g1).allSegs ++ (parts g2).allSegs, SegMem c s.1 s.2 := by
    obtain ⟨r, hr, ho⟩ := hon
    obtain ⟨q, hq, hrq⟩ := List.mem_flatMap.1 hr
    rcases ho with ho | ho
    · right
      rw [Geo.Proofs.Spec.onAnySeg_iff] at ho
      obtain ⟨s, hs, hl⟩ := ho
      refine ⟨s, List.mem_append_right _ (List.mem_append_right _ ?_), (lineCoord_iff _ _ _).1 hl⟩
      unfold Parts.areaSegs
      exact List.mem_flatMap.2 ⟨r, List.mem_flatMap.2 ⟨q, hq, hrq⟩, hs⟩
    · left
      apply Geo.Proofs.C02X.single_mem_vertsOf
      apply List.mem_append_right
      rw [List.mem_flatMap]
      exact ⟨q, List.mem_append_right _ hq, ho ▸ hrq⟩
  have hcell := Geo.Proofs.C02X.cell_of_located c1 c2 harr
  have hl1 : locateParts (parts g1) c = .inside := hin
  have hl2 : locateParts (parts g2) c = .onBoundary := hb
  rw [hl1, hl2] at hcell
  rcases Nat.lt_or_gt_of_ne hij with hlt | hgt
  · exact hcell (apart_of_collectionOk hok hlt h1 h2).2.1
  · have ht : relateParts (parts g1) (parts g2) = (relateParts (parts g2) (parts g1)).transpose :=
      Geo.Proofs.Spec.relateParts_transpose _ _
    rw [ht] at hcell
    have hg : ∀ m : IM, m.transpose.get .inside .onBoundary = m.bi := fun _ => rfl
    rw [hg] at hcell
    exact hcell (apart_of_collectionOk hok hgt h2 h1).2.2.1

/-! ### ring points of an areal operand of the domain are on its boundary -/

theorem mem_areas_partsList {q : Poly} (gs : List Geom) (h : q ∈ (partsList gs).areas) :
    ∃ (j : Nat) (g : Geom), gs[j]? = some g ∧ q ∈ (parts g).areas := by
  induction gs with
  | nil => simp [partsList] at h
  | cons g gs ih =>
    simp only [partsList, Parts.append, List.mem_append] at h
    rcases h with h | h
    · exact ⟨0, g, rfl, h⟩
    · obtain ⟨j, g', hj, hq⟩ := ih h
      exact ⟨j + 1, g', by simpa using hj, hq⟩

theorem areas_sub_partsList {gs : List Geom} {j : Nat} {g : Geom} (hj : gs[j]? = some g) :
    ∀ q ∈ (parts g).areas, q ∈ (partsList gs).areas := by
  induction gs generalizing j with
  | nil => simp at hj
  | cons x xs ih =>
    intro q hq
    simp only [partsList, Parts.append, List.mem_append]
    cases j with
    | zero =>
      simp only [List.getElem?_cons_zero, Option.some.injEq] at hj
      subst hj
      exact Or.inl hq
    | succ k =>
      simp only [List.getElem?_cons_succ] at hj
      exact Or.inr (ih hj q hq)

/-- the first clause of `locateParts`, per member -/
theorem locate_inside_of_area {g : Geom} {q : Poly} {c : Pt} (hq : q ∈ (parts g).areas)
    (hc : (!(onAnySeg c (q.rings.flatMap segs)) && insidePolyE (EPt.ofPt c) q) = true) : locate g c = .inside := by
  unfold locate locateParts
  have : (parts g).areas.any (fun poly => !(onAnySeg c (poly.rings.flatMap segs)) && insidePolyE (EPt.ofPt c) poly) = true :=
    List.any_eq_true.2 ⟨q, hq, hc⟩
  rw [this]
  rfl

mutual
theorem locate_onRings_coll : ∀ (g : Geom), inDomain g = true → arOk g = true → ∀ c, OnRings (ringsOf g) c →
    locate g c = .onBoundary
  | .polygon q, hd, _, c, h => locate_onRings_areal _ (by simpa [inDomain, validGeom, arealOk] using hd) c h
  | .multiPolygon ps, hd, _, c, h => locate_onRings_areal _ (by simpa [inDomain, validGeom, arealOk] using hd) c h
  | .rect mn mx, _, _, c, h => locate_onRings_areal _ rfl c h
  | .triangle a b d, _, _, c, h => locate_onRings_areal _ rfl c h
  | .collection gs, hd, ha, c, h => by
      have hl : arOkList gs = true := by simpa [arOk] using ha
      simp only [inDomain, Bool.and_eq_true] at hd
      have hmem := locate_onRings_list gs hd.2 hl
      obtain ⟨r, hr, ho⟩ := h
      have hr' : r ∈ (partsList gs).areas.flatMap Poly.rings := by simpa [ringsOf, parts] using hr
      obtain ⟨q, hq, hrq⟩ := List.mem_flatMap.1 hr'
      obtain ⟨j, gj, hj, hqj⟩ := mem_areas_partsList gs hq
      have honj : OnRings (ringsOf gj) c := ⟨r, List.mem_flatMap.2 ⟨q, hqj, hrq⟩, ho⟩
      have hbj := hmem gj (List.mem_of_getElem? hj) c honj
      show locateParts (partsList gs) c = .onBoundary
      unfold locateParts
      have hfirst : (partsList gs).areas.any
          (fun poly => !(onAnySeg c (poly.rings.flatMap segs)) && insidePolyE (EPt.ofPt c) poly) = false := by
        rw [Bool.eq_false_iff]
        intro hany
        obtain ⟨q', hq', hcond⟩ := List.any_eq_true.1 hany
        obtain ⟨i, gi, hi, hqi⟩ := mem_areas_partsList gs hq'
        have hini := locate_inside_of_area hqi hcond
        by_cases hij : i = j
        · subst hij
          rw [hi] at hj
          cases hj
          rw [hini] at hbj
          cases hbj
        · exact no_inside_on_ring hd.1 hd.2 hij hi hj hini hbj honj
      rw [hfirst]
      simp only [Bool.false_eq_true, if_false]
      have hsecond : (onAnySeg c (partsList gs).areaSegs ||
          (partsList gs).areas.any (fun poly => poly.rings.any (fun r => r == [c]))) = true := by
        rcases ho with ho | ho
        · rw [Bool.or_eq_true]
          left
          unfold Parts.areaSegs
          exact onAnySeg_flatMap hr' ho
        · rw [Bool.or_eq_true]
          right
          exact List.any_eq_true.2 ⟨q, hq, List.any_eq_true.2 ⟨r, hrq, by rw [ho]; simp⟩⟩
      rw [hsecond]
      rfl
  | .point _, _, ha, _, _ => by simp [arOk] at ha
  | .line _ _, _, ha, _, _ => by simp [arOk] at ha
  | .lineString _, _, ha, _, _ => by simp [arOk] at ha
  | .multiPoint _, _, ha, _, _ => by simp [arOk] at ha
  | .multiLineString _, _, ha, _, _ => by simp [arOk] at ha
theorem locate_onRings_list : ∀ (gs : List Geom), inDomainList gs = true → arOkList gs = true →
    ∀ g ∈ gs, ∀ c, OnRings (ringsOf g) c → locate g c = .onBoundary
  | [], _, _ => fun g hg => by cases hg
  | x :: xs, hd, ha => by
      simp only [inDomainList, Bool.and_eq_true] at hd
      simp only [arOkList, Bool.and_eq_true] at ha
      intro g hg
      rcases List.mem_cons.1 hg with h | hg
      · rw [h]; exact locate_onRings_coll x hd.1 ha.1
      · exact locate_onRings_list xs hd.2 ha.2 g hg
end

/-- **`NodesLocate` for every areal operand of the domain, collections included** (exact arithmetic) -/
theorem nodesLocate_arealColl (g : Geom) (hd : inDomain g = true) (ha : arOk g = true) :
    NodesLocate Arith.exact g ∧ EisAreNodes Arith.exact g := by
  refine ⟨?_, eisAreNodes_arealColl _ g ha⟩
  intro n hn
  obtain ⟨h1, h2⟩ := fresh_nodes_arealColl 1 g ha n hn
  rw [h1, locate_onRings_coll g hd ha n.coord h2]

mutual
theorem noK9_areal (p : Pt) : ∀ (g : Geom), arOk g = true → Geo.Proofs.C02X.noK9 p g = true
  | .polygon _, _ => rfl
  | .multiPolygon _, _ => rfl
  | .rect _ _, _ => rfl
  | .triangle _ _ _, _ => rfl
  | .collection gs, h => by
      have hl : arOkList gs = true := by simpa [arOk] using h
      simp only [Geo.Proofs.C02X.noK9]
      exact noK9_arealList p gs hl
  | .point _, h => by simp [arOk] at h
  | .line _ _, h => by simp [arOk] at h
  | .lineString _, h => by simp [arOk] at h
  | .multiPoint _, h => by simp [arOk] at h
  | .multiLineString _, h => by simp [arOk] at h
theorem noK9_arealList (p : Pt) : ∀ (gs : List Geom), arOkList gs = true → Geo.Proofs.C02X.noK9List p gs = true
  | [], _ => rfl
  | g :: gs, h => by
      simp only [arOkList, Bool.and_eq_true] at h
      simp only [Geo.Proofs.C02X.noK9List, Bool.and_eq_true]
      exact ⟨noK9_areal p g h.1, noK9_arealList p gs h.2⟩
end

/-- every type, and the collections all of whose members (recursively) are of one kind: point-like, linear or areal -/
def pointRowsOk5 (b : Geom) : Bool := pointRowsOk b || arOk b

/-- **rows Interior / Boundary of `relate(Point p, B)` are the specification's, at every `p`** -/
theorem point_rows_eq_spec_dom5 (p : Pt) (b : Geom) (hd : inDomain b = true) (ht : pointRowsOk5 b = true) {m : IM}
    (h : relateGraph Arith.exact (.point p) b = some m) (X Y : Pos) (hX : X ≠ .outside) :
    m.get X Y = (relateSpec (.point p) b).get X Y := by
  simp only [pointRowsOk5, Bool.or_eq_true] at ht
  rcases ht with ht | ht
  · exact point_rows_eq_spec_dom4 p b hd ht h X Y hX
  · exact point_rows_eq_spec_of_nodesLocate_off _ p b h (nodesLocate_arealColl b hd ht).1 (nodesLocate_arealColl b hd ht).2
      (fun _ => Geo.Proofs.C02X.coordPos_dom b p hd (noK9_areal p b ht)) X Y hX

end Geo.Proofs.RELM3
