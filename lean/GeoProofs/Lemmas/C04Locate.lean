/-
  Helper lemmas for C04: the winding number of the DE-9IM specification (`Geo.windingE`, symbolic
  infinitesimals) at an unperturbed point is the plain crossing count `windRing` used in the C04
  theorems, so the oracle's `insideSpec` (= `Geo.locate … = Inside`) is `mpInside` off the rings.
-/
import GeoModel.BoolSpec
import GeoProofs.Lemmas.C04Wind

namespace Geo.Proofs.C04L
open Geo Geo.BoolGlue Geo.BoolSpec

theorem eLe_ofPt (a b : Rat) : eLe a 0 b 0 = decide (a ≤ b) := by
  unfold eLe
  rw [Bool.eq_iff_iff]
  simp only [Bool.or_eq_true, Bool.and_eq_true, decide_eq_true_eq, beq_iff_eq]
  constructor
  · rintro (h | ⟨h, _⟩)
    · exact le_of_lt h
    · exact le_of_eq h
  · intro h
    rcases lt_or_eq_of_le h with h | h
    · exact Or.inl h
    · exact Or.inr ⟨h, le_refl _⟩

theorem eLt_ofPt (a b : Rat) : eLt a 0 b 0 = decide (a < b) := by
  unfold eLt
  rw [Bool.eq_iff_iff]
  simp only [Bool.or_eq_true, Bool.and_eq_true, decide_eq_true_eq, beq_iff_eq]
  constructor
  · rintro (h | ⟨_, h⟩)
    · exact h
    · exact absurd h (lt_irrefl _)
  · intro h; exact Or.inl h

theorem eCrossSign_ofPt (s e q : Pt) :
    eCrossSign s e (EPt.ofPt q) = if cross s e q > 0 then 1 else if cross s e q < 0 then -1 else 0 := by
  unfold eCrossSign EPt.ofPt cross
  simp only [mul_zero, sub_self, lt_irrefl, if_false, gt_iff_lt]

theorem windingE_step (q s e : Pt) (w : Int) :
    (if eLe s.y 0 (EPt.ofPt q).y0 (EPt.ofPt q).y1 then
      if eLt (EPt.ofPt q).y0 (EPt.ofPt q).y1 e.y 0 then (if eCrossSign s e (EPt.ofPt q) > 0 then w + 1 else w) else w
    else
      if eLe e.y 0 (EPt.ofPt q).y0 (EPt.ofPt q).y1 then (if eCrossSign s e (EPt.ofPt q) < 0 then w - 1 else w) else w)
    = w + edgeW q s e := by
  rw [eCrossSign_ofPt]
  simp only [EPt.ofPt, eLe_ofPt, eLt_ofPt, decide_eq_true_eq]
  unfold edgeW
  by_cases h1 : s.y ≤ q.y <;> by_cases h2 : q.y < e.y <;> by_cases h3 : e.y ≤ q.y <;>
    by_cases h4 : cross s e q > 0 <;> by_cases h5 : cross s e q < 0 <;> simp [h1, h2, h3, h4, h5] <;>
    first | omega | (exfalso; linarith)

/-- the specification's winding number at an unperturbed point is the crossing count -/
theorem windingE_eq (q : Pt) (r : List Pt) : windingE (EPt.ofPt q) r = windRing q r := by
  unfold windingE windRing
  have key : ∀ (l : List (Pt × Pt)) (w : Int),
      l.foldl (fun w (x : Pt × Pt) =>
        if eLe x.1.y 0 (EPt.ofPt q).y0 (EPt.ofPt q).y1 then
          if eLt (EPt.ofPt q).y0 (EPt.ofPt q).y1 x.2.y 0 then (if eCrossSign x.1 x.2 (EPt.ofPt q) > 0 then w + 1 else w) else w
        else
          if eLe x.2.y 0 (EPt.ofPt q).y0 (EPt.ofPt q).y1 then (if eCrossSign x.1 x.2 (EPt.ofPt q) < 0 then w - 1 else w) else w) w
      = w + wind q l := by
    intro l
    induction l with
    | nil => intro w; simp [wind]
    | cons x t ih =>
      intro w
      obtain ⟨s, e⟩ := x
      rw [List.foldl_cons, windingE_step, ih]
      simp only [wind]; omega
  have := key (segs r) 0
  simpa using this

theorem insidePolyE_eq (q : Pt) (poly : Poly) : insidePolyE (EPt.ofPt q) poly = polyInside q poly := by
  unfold insidePolyE polyInside
  simp only [windingE_eq]

end Geo.Proofs.C04L
