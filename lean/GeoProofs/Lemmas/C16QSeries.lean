/-
  C16Q — the rational engine (GeoModel/GeodesyNum.lean), part 1: pure rational arithmetic.

    * `rd` rounds down to the 2^-100 grid: `rd q ≤ q < rd q + u`;
    * the rounded series `series` stays within `2u` per step of the exact Taylor terms
      `Tk s y k = (-1)^k y^(2k+s)/(2k+s)!` once `y²/((2k+1+s)(2k+2+s)) ≤ 1/2`;
    * hence (33 terms, |y| ≤ 63/20) the sine / cosine series are within `64u = 2^-94` of the exact
      Taylor polynomials of degree 65 / 64.
-/
import GeoModel.GeodesyNum
import Mathlib.Tactic.Linarith
import Mathlib.Tactic.Ring
import Mathlib.Tactic.NormNum
import Mathlib.Tactic.FieldSimp
import Mathlib.Tactic.Positivity
import Mathlib.Algebra.BigOperators.Intervals
import Mathlib.Algebra.Order.Floor.Ring

namespace Geo.Proofs.C16Q
open Geo Geo.Geodesy Geo.GeodesyNum

/-- the grid step 2^-100 -/
def u : ℚ := 1 / 2 ^ 100

theorem u_pos : 0 < u := by unfold u; positivity

theorem grid_cast : ((grid : ℕ) : ℚ) = 2 ^ 100 := by norm_num [grid]

theorem floor_bounds (q : ℚ) : ((q.floor : ℤ) : ℚ) ≤ q ∧ q < ((q.floor : ℤ) : ℚ) + 1 := by
  refine ⟨Rat.floor_le q, ?_⟩
  have h := Rat.lt_floor_add_one q
  push_cast at h
  exact h

/-- `rd` rounds down … -/
theorem rd_le (q : ℚ) : rd q ≤ q := by
  unfold rd
  rw [grid_cast]
  obtain ⟨h1, _⟩ := floor_bounds (q * 2 ^ 100)
  rw [div_le_iff₀ (by positivity)]
  exact h1

/-- … by less than one grid step. -/
theorem lt_rd_add (q : ℚ) : q < rd q + u := by
  unfold rd u
  rw [grid_cast]
  obtain ⟨_, h2⟩ := floor_bounds (q * 2 ^ 100)
  have : q * 2 ^ 100 < (((q * 2 ^ 100).floor : ℤ) / (2 ^ 100 : ℚ) + 1 / 2 ^ 100) * 2 ^ 100 := by
    rw [add_mul, div_mul_cancel₀ _ (by positivity), div_mul_cancel₀ _ (by positivity)]
    exact h2
  exact lt_of_mul_lt_mul_right this (by positivity)

theorem abs_rd_sub (q : ℚ) : |rd q - q| ≤ u := by
  have h1 := rd_le q
  have h2 := lt_rd_add q
  rw [abs_le]; constructor <;> linarith

/-- `rd` is the identity on grid points. -/
theorem rd_grid (n : ℤ) : rd ((n : ℚ) / 2 ^ 100) = (n : ℚ) / 2 ^ 100 := by
  unfold rd
  rw [grid_cast, div_mul_cancel₀ _ (by positivity)]
  have : ((n : ℚ)).floor = n := Rat.floor_intCast n
  rw [this]

/-! ### the exact Taylor terms -/

/-- `(-1)^k y^(2k+s) / (2k+s)!` — `s = 1`: sine, `s = 0`: cosine -/
def Tk (s : ℕ) (y : ℚ) (k : ℕ) : ℚ := (-1) ^ k * y ^ (2 * k + s) / ((2 * k + s).factorial : ℚ)

theorem Tk_succ (s : ℕ) (y : ℚ) (k : ℕ) :
    Tk s y (k + 1) = -(Tk s y k) * (y * y) / (((2 * k + 1 + s) * (2 * k + 2 + s) : ℕ) : ℚ) := by
  unfold Tk
  have e : 2 * (k + 1) + s = (2 * k + s) + 1 + 1 := by ring
  rw [e, Nat.factorial_succ, Nat.factorial_succ]
  have h0 : ((2 * k + s).factorial : ℚ) ≠ 0 := by positivity
  push_cast
  field_simp
  ring

theorem series_succ (y2 : ℚ) (s fuel k : ℕ) (term acc : ℚ) :
    series y2 s (fuel + 1) k term acc =
      series y2 s fuel (k + 1)
        (rd (-term * y2 / (((2 * k + 1 + s) * (2 * k + 2 + s) : ℕ) : ℚ)))
        (acc + rd (-term * y2 / (((2 * k + 1 + s) * (2 * k + 2 + s) : ℕ) : ℚ))) := rfl

/-- one step of the recurrence: the error is multiplied by `y²/d_k` and one rounding is added -/
theorem step_err (s : ℕ) (y : ℚ) (k : ℕ) (term e ρ : ℚ)
    (hρ : y * y / (((2 * k + 1 + s) * (2 * k + 2 + s) : ℕ) : ℚ) ≤ ρ)
    (he : |term - Tk s y k| ≤ e) :
    |rd (-term * (y * y) / (((2 * k + 1 + s) * (2 * k + 2 + s) : ℕ) : ℚ)) - Tk s y (k + 1)| ≤ u + e * ρ := by
  set d : ℚ := (((2 * k + 1 + s) * (2 * k + 2 + s) : ℕ) : ℚ) with hd
  have hdpos : 0 < d := by rw [hd]; positivity
  have hr : 0 ≤ y * y / d := div_nonneg (mul_self_nonneg y) hdpos.le
  have he0 : 0 ≤ e := le_trans (abs_nonneg _) he
  have h1 := abs_rd_sub (-term * (y * y) / d)
  rw [Tk_succ, ← hd]
  have e2 : -term * (y * y) / d - -(Tk s y k) * (y * y) / d = -(term - Tk s y k) * (y * y / d) := by
    field_simp
    ring
  have h2 : |-term * (y * y) / d - -(Tk s y k) * (y * y) / d| ≤ e * ρ := by
    rw [e2, abs_mul, abs_neg, abs_of_nonneg hr]
    exact mul_le_mul he hρ hr he0
  calc |rd (-term * (y * y) / d) - -(Tk s y k) * (y * y) / d|
      = |(rd (-term * (y * y) / d) - -term * (y * y) / d) +
          (-term * (y * y) / d - -(Tk s y k) * (y * y) / d)| := by congr 1; ring
    _ ≤ _ := le_trans (abs_add_le _ _) (add_le_add h1 h2)

/-- the tail of the rounded series against the exact terms, from an index `k0` on where the ratio
`y²/d_k` is at most 1/2: two grid steps per term. -/
theorem series_err (s : ℕ) (y : ℚ) (k0 : ℕ)
    (hρ : ∀ j, k0 ≤ j → y * y / (((2 * j + 1 + s) * (2 * j + 2 + s) : ℕ) : ℚ) ≤ 1 / 2) :
    ∀ (fuel k : ℕ) (term acc : ℚ), k0 ≤ k → |term - Tk s y k| ≤ 2 * u →
      |series (y * y) s fuel k term acc - (acc + ∑ j ∈ Finset.range fuel, Tk s y (k + 1 + j))|
        ≤ 2 * u * fuel := by
  intro fuel
  induction fuel with
  | zero => intro k term acc _ _; simp [series]
  | succ n ih =>
    intro k term acc hk he
    rw [series_succ]
    set t' := rd (-term * (y * y) / (((2 * k + 1 + s) * (2 * k + 2 + s) : ℕ) : ℚ)) with ht'
    have hs := step_err s y k term (2 * u) (1 / 2) (hρ k hk) he
    rw [← ht'] at hs
    have hs' : |t' - Tk s y (k + 1)| ≤ 2 * u := by linarith
    have h := ih (k + 1) t' (acc + t') (by omega) hs'
    rw [Finset.sum_range_succ']
    have e : ∑ j ∈ Finset.range n, Tk s y (k + 1 + (j + 1)) = ∑ j ∈ Finset.range n, Tk s y (k + 1 + 1 + j) := by
      apply Finset.sum_congr rfl; intro j _; congr 1; ring
    rw [e]
    simp only [add_zero]
    push_cast
    rw [abs_le] at h hs' ⊢
    constructor <;> linarith [h.1, h.2, hs'.1, hs'.2]

/-! ### sine: 33 terms -/

theorem ratio_sin (y : ℚ) (hy : |y| ≤ 63 / 20) (j : ℕ) (hj : 1 ≤ j) :
    y * y / (((2 * j + 1 + 1) * (2 * j + 2 + 1) : ℕ) : ℚ) ≤ 1 / 2 := by
  have h1 : y * y ≤ 10 := by
    have := abs_le.mp hy
    nlinarith [this.1, this.2]
  have hj' : (1 : ℚ) ≤ j := by exact_mod_cast hj
  rw [div_le_iff₀ (by positivity)]
  push_cast
  nlinarith

theorem ratio_cos (y : ℚ) (hy : |y| ≤ 63 / 20) (j : ℕ) (hj : 2 ≤ j) :
    y * y / (((2 * j + 1 + 0) * (2 * j + 2 + 0) : ℕ) : ℚ) ≤ 1 / 2 := by
  have h1 : y * y ≤ 10 := by
    have := abs_le.mp hy
    nlinarith [this.1, this.2]
  have hj' : (2 : ℚ) ≤ j := by exact_mod_cast hj
  rw [div_le_iff₀ (by positivity)]
  push_cast
  nlinarith

/-- [T] the rounded sine series (what `sinQ` evaluates on the reduced argument) is within
`64·2^-100` of the exact Taylor polynomial of degree 65. -/
theorem sinSeries_taylor (y : ℚ) (hy : |y| ≤ 63 / 20) :
    |series (y * y) 1 32 0 y y - ∑ k ∈ Finset.range 33, Tk 1 y k| ≤ 64 * u := by
  have hT0 : Tk 1 y 0 = y := by simp [Tk]
  have h0 : |y - Tk 1 y 0| ≤ 0 := by rw [hT0]; simp
  -- first step by hand (ratio y²/6 may exceed 1/2, but the incoming error is 0)
  have s1 := step_err 1 y 0 y 0 (y * y / (((2 * 0 + 1 + 1) * (2 * 0 + 2 + 1) : ℕ) : ℚ)) le_rfl h0
  rw [show (32 : ℕ) = 31 + 1 from rfl, series_succ]
  set t1 := rd (-y * (y * y) / (((2 * 0 + 1 + 1) * (2 * 0 + 2 + 1) : ℕ) : ℚ)) with ht1
  have s1' : |t1 - Tk 1 y 1| ≤ u := by simpa using s1
  have hu := u_pos
  have h := series_err 1 y 1 (ratio_sin y hy) 31 1 t1 (y + t1) le_rfl (by linarith)
  have esum : ∑ k ∈ Finset.range 33, Tk 1 y k
      = y + Tk 1 y 1 + ∑ j ∈ Finset.range 31, Tk 1 y (1 + 1 + j) := by
    rw [show (33 : ℕ) = 31 + 1 + 1 from rfl, Finset.sum_range_succ', Finset.sum_range_succ', hT0]
    have e : ∑ j ∈ Finset.range 31, Tk 1 y (j + 1 + 1) = ∑ j ∈ Finset.range 31, Tk 1 y (1 + 1 + j) := by
      apply Finset.sum_congr rfl; intro j _; congr 1; ring
    rw [e]; ring
  rw [esum]
  push_cast at h
  rw [abs_le] at h s1' ⊢
  constructor <;> linarith [h.1, h.2, s1'.1, s1'.2]

/-- [T] the rounded cosine series is within `64·2^-100` of the exact Taylor polynomial of degree 64. -/
theorem cosSeries_taylor (y : ℚ) (hy : |y| ≤ 63 / 20) :
    |series (y * y) 0 32 0 1 1 - ∑ k ∈ Finset.range 33, Tk 0 y k| ≤ 64 * u := by
  have hT0 : Tk 0 y 0 = 1 := by simp [Tk]
  have h0 : |(1 : ℚ) - Tk 0 y 0| ≤ 0 := by rw [hT0]; simp
  have hy2 : y * y ≤ 10 := by
    have := abs_le.mp hy
    nlinarith [this.1, this.2]
  have hu := u_pos
  have s1 := step_err 0 y 0 1 0 (y * y / (((2 * 0 + 1 + 0) * (2 * 0 + 2 + 0) : ℕ) : ℚ)) le_rfl h0
  rw [show (32 : ℕ) = 30 + 1 + 1 from rfl, series_succ]
  set t1 := rd (-1 * (y * y) / (((2 * 0 + 1 + 0) * (2 * 0 + 2 + 0) : ℕ) : ℚ)) with ht1
  have s1' : |t1 - Tk 0 y 1| ≤ u := by simpa using s1
  have hr1 : y * y / (((2 * (0 + 1) + 1 + 0) * (2 * (0 + 1) + 2 + 0) : ℕ) : ℚ) ≤ 1 := by
    rw [div_le_iff₀ (by positivity)]; push_cast; linarith
  have s2 := step_err 0 y (0 + 1) t1 u 1 hr1 s1'
  rw [series_succ]
  set t2 := rd (-t1 * (y * y) / (((2 * (0 + 1) + 1 + 0) * (2 * (0 + 1) + 2 + 0) : ℕ) : ℚ)) with ht2
  have s2' : |t2 - Tk 0 y 2| ≤ 2 * u := by
    have : u + u * 1 = 2 * u := by ring
    rw [this] at s2; exact s2
  have h := series_err 0 y 2 (ratio_cos y hy) 30 2 t2 (1 + t1 + t2) le_rfl s2'
  have esum : ∑ k ∈ Finset.range 33, Tk 0 y k
      = 1 + Tk 0 y 1 + Tk 0 y 2 + ∑ j ∈ Finset.range 30, Tk 0 y (2 + 1 + j) := by
    rw [show (33 : ℕ) = 30 + 1 + 1 + 1 from rfl, Finset.sum_range_succ', Finset.sum_range_succ',
      Finset.sum_range_succ', hT0]
    have e : ∑ j ∈ Finset.range 30, Tk 0 y (j + 1 + 1 + 1) = ∑ j ∈ Finset.range 30, Tk 0 y (2 + 1 + j) := by
      apply Finset.sum_congr rfl; intro j _; congr 1; ring
    rw [e]; ring
  rw [esum]
  push_cast at h
  rw [abs_le] at h s1' s2' ⊢
  constructor <;> linarith [h.1, h.2, s1'.1, s1'.2, s2'.1, s2'.2]

end Geo.Proofs.C16Q
