/-
  RELM3 — `relate(Point p, MultiPoint qs) = relateSpec`, the whole matrix (graph path): `B` has no edge, so the only
  contributions to the Exterior row are the nodes of `B` away from `p`, labelled (Exterior, Interior): `EI = 0` iff
  some `q ∈ qs` differs from `p`, `EB = F`.
-/
import GeoProofs.Lemmas.RELM3MPoly

namespace Geo.Proofs.RELM3
open Geo Geo.GG Geo.RI Geo.Proofs.Spec Geo.Proofs.RELM Geo.Proofs.RELM2 Geo.Proofs.Kernel

/-- the coordinate of a node of the final node map is `p` or a node coordinate of `B`, when `B` has no edge -/
theorem point_nodes_coords (ar : Arith) (p : Pt) (b : Geom) (hE : (freshGraph ar 1 b).edges = [])
    {labeled : List RNode}
    (h : labeledNodes (.point p) b (freshGraph ar 0 (.point p)) (freshGraph ar 1 b) = some labeled) :
    ∀ n ∈ labeled, n.coord = p ∨ n.coord ∈ (freshGraph ar 1 b).nodes.map (·.coord) := by
  unfold labeledNodes at h
  simp only at h
  have hfresh : (freshGraph ar 0 (.point p)).edges = [] := rfl
  have hnodes : sortNodes (freshGraph ar 0 (.point p)).nodes = [⟨p, Label.emptyLine.setOn 0 .inside⟩] := rfl
  rw [hfresh, hnodes, hE] at h
  simp only [intersectionNodes, copyNodes] at h
  have hon : (Label.emptyLine.setOn 0 Pos.inside).onPos 0 = some .inside := rfl
  rw [hon] at h
  simp only at h
  split at h
  · cases h
  · rename_i ns2 h2
    cases h
    have i3 : ∀ n ∈ ns2, n.coord = p ∨ n.coord ∈ (freshGraph ar 1 b).nodes.map (·.coord) := by
      apply copyNodes_forall_g (P := fun n => n.coord = p ∨ n.coord ∈ (freshGraph ar 1 b).nodes.map (·.coord))
        1 _ _ ns2 h2
      · intro g hg q hq n hc hn; exact hn
      · intro g hg q hq
        exact Or.inr (List.mem_map.2 ⟨g, (mem_sortNodes g _).1 hg, rfl⟩)
      · intro n hn
        simp only [upsertR, List.mem_singleton] at hn
        subst hn
        exact Or.inl rfl
    intro n hn
    simp only [List.mem_map] at hn
    obtain ⟨n0, hn0, rfl⟩ := hn
    have : (labelIsolatedNode (.point p) b n0).coord = n0.coord := by
      unfold labelIsolatedNode; split <;> [split <;> rfl; rfl]
    rw [this]
    exact i3 n0 hn0

/-- **the Exterior row of `relate(Point p, B)` for a `B` without edges whose nodes are all `Inside`** -/
theorem point_ext_row_points (ar : Arith) (p : Pt) (b : Geom) (hE : (freshGraph ar 1 b).edges = [])
    (hin : ∀ g ∈ (freshGraph ar 1 b).nodes, g.label.onPos 1 = some .inside)
    (hN : NInv 1 (freshGraph ar 1 b).nodes) {m : IM} (h : relateGraph ar (.point p) b = some m) :
    (∀ d : Dim, d.rank ≤ (m.get .outside .inside).rank ↔
      d = .empty ∨ (d.rank ≤ Dim.zero.rank ∧ ∃ g ∈ (freshGraph ar 1 b).nodes, g.coord ≠ p)) ∧
    m.get .outside .onBoundary = .empty := by
  unfold relateGraph at h
  have hfold := relateGraphs_eq_fold ar (.point p) b (freshGraph ar 0 (.point p)) (freshGraph ar 1 b)
  rw [h] at hfold
  have hmg : mutualGraphs ar (freshGraph ar 0 (.point p)) (freshGraph ar 1 b) =
      (freshGraph ar 0 (.point p), freshGraph ar 1 b, false, false) := rfl
  unfold graphAtoms at hfold
  rw [hmg] at hfold
  simp only at hfold
  cases hl : labeledNodes (.point p) b (freshGraph ar 0 (.point p)) (freshGraph ar 1 b) with
  | none => rw [hl] at hfold; cases hfold
  | some labeled =>
  rw [hl] at hfold
  simp only at hfold
  have hA : (freshGraph ar 0 (.point p)).edges = [] := rfl
  rw [hA, hE] at hfold
  simp only [endsForEdges, labelIsolatedEdges, insertEdgeEnds] at hfold
  cases hNa : nodesAtoms (.point p) b labeled with
  | none => rw [hNa] at hfold; cases hfold
  | some na =>
  rw [hNa] at hfold
  simp only [Option.map_some, Option.some.injEq, List.nil_append, List.flatMap_nil] at hfold
  have hdz : dims (.point p) = .zero := rfl
  rw [hdz, properAtoms_zero, List.nil_append] at hfold
  simp only [List.nil_append] at hfold
  obtain ⟨hsorted, hinv⟩ := point_nodes_inv ar p b (freshGraph ar 1 b) hl []
  simp only [insertEdgeEnds] at hsorted hinv
  have hstars := labeledNodes_star hl
  obtain ⟨hcount, hmem⟩ := nodesAtoms_spec _ _ _ _ hNa
  have hcoords := point_nodes_coords ar p b hE hl
  have hprov := point_nodes_prov ar p b (fun e he => by rw [hE] at he; cases he) hl []
  simp only [insertEdgeEnds] at hprov
  -- every contribution with `posA = Exterior` is a node atom of a node away from `p`
  have hclass : ∀ t ∈ na, t.posA = .outside →
      t.dim = .zero ∧ ∃ n ∈ labeled, n.coord ≠ p ∧ n.label.onPos 1 = some t.posB := by
    intro t ht hta
    obtain ⟨n, hn, ht | ⟨ls, hls, l, hl1, ht⟩⟩ := (hmem t).1 ht
    · obtain ⟨h1, h2, h3⟩ := mem_optAtom ht
      refine ⟨h3, n, hn, ?_, h2⟩
      rw [onPos0] at h1
      rcases (hinv n hn).2 with h' | ⟨_, h'⟩ | ⟨h', _⟩
      · rw [h'] at h1; cases h1
      · rw [h'] at h1
        simp only [TopoPos.on, Option.some.injEq] at h1
        rw [hta] at h1; cases h1
      · exact h'
    · exfalso
      rw [hstars n hn] at hls
      simp only [starLabels, List.map_nil, propagateSideLabels, startPosition, Option.some.injEq] at hls
      subst hls
      cases hl1
  have hE0 : ∀ Y, Y ≠ .outside → (emptyDisjoint.get .outside Y).rank = 0 := by
    intro Y hY
    cases Y <;> first | rfl | exact absurd rfl hY
  refine ⟨?_, ?_⟩
  · intro d
    rw [hfold, foldFrom_get, hE0 .inside (by decide)]
    constructor
    · rintro (h0 | ⟨t, ht, hta, htb, hd⟩)
      · exact Or.inl (Dim.rank_le_zero.1 h0)
      · obtain ⟨h1, n, hn, hnc, _⟩ := hclass t ht hta
        right
        rw [h1] at hd
        refine ⟨hd, ?_⟩
        rcases hcoords n hn with hc | hc
        · exact absurd hc hnc
        · obtain ⟨g, hg, hgc⟩ := List.mem_map.1 hc
          exact ⟨g, hg, by rw [hgc]; exact hnc⟩
    · rintro (rfl | ⟨hd, g, hg, hgc⟩)
      · exact Or.inl (Nat.le_refl _)
      · right
        obtain ⟨n, hn, hnc, hnb⟩ := point_nodes_of_graph ar p b hN hl [] hg (hin g hg)
        simp only [insertEdgeEnds] at hn
        obtain ⟨x, y, hxa, hyb⟩ := (hinv n hn).1.count_ge_two (hcount n hn)
        have hx : x = .outside := by
          rcases (hinv n hn).2 with h' | ⟨h', _⟩ | ⟨_, h'⟩
          · rw [hxa] at h'; cases h'
          · rw [hnc] at h'; exact absurd h' hgc
          · rw [hxa] at h'; cases h'; rfl
        subst hx
        have hy : y = .inside := by
          rw [onPos1, hyb] at hnb
          simpa [TopoPos.on] using hnb
        subst hy
        refine ⟨⟨.zero, .outside, .inside⟩, ?_, rfl, rfl, hd⟩
        rw [hmem]
        refine ⟨n, hn, Or.inl ?_⟩
        unfold nodeAtoms optAtom
        rw [onPos0, hxa, onPos1, hyb]
        simp [TopoPos.on]
  · apply Dim.eq_of_le_iff
    intro d
    rw [hfold, foldFrom_get, hE0 .onBoundary (by decide)]
    constructor
    · rintro (h0 | ⟨t, ht, hta, htb, hd⟩)
      · exact h0
      · exfalso
        obtain ⟨_, n, hn, hnc, hnb⟩ := hclass t ht hta
        rw [htb] at hnb
        obtain ⟨g, hg, _, hgb⟩ := hprov n hn hnc hnb
        rw [hin g hg] at hgb
        cases hgb
    · intro h0
      exact Or.inl h0

/-- **the Exterior row of the specification, `Point × MultiPoint`** -/
theorem spec_ext_row_points (p : Pt) (qs : List Pt) :
    (∀ d : Dim, d.rank ≤ ((relateParts ⟨[p], [], []⟩ ⟨qs, [], []⟩).get .outside .inside).rank ↔
      d = .empty ∨ (d.rank ≤ Dim.zero.rank ∧ ∃ q ∈ qs, q ≠ p)) ∧
    (relateParts ⟨[p], [], []⟩ ⟨qs, [], []⟩).get .outside .onBoundary = .empty := by
  have hloc : ∀ v, locateParts ⟨qs, [], []⟩ v = if v ∈ qs then .inside else .outside := by
    intro v
    rw [Geo.Proofs.Spec.locateParts_points _ _ rfl rfl]
  have hnoseg : ∀ s, s ∉ (⟨[p], [], []⟩ : Parts).allSegs ++ (⟨qs, [], []⟩ : Parts).allSegs := by
    intro s hs
    simp [Parts.allSegs, Parts.curveSegs, Parts.areaSegs] at hs
  refine ⟨?_, ?_⟩
  · intro d
    rw [cell_le_iff (by simp)]
    constructor
    · rintro (rfl | ⟨x, hx, hxa, hxb, hd⟩)
      · exact Or.inl rfl
      · right
        rcases mem_atomsOf_cases hx with ⟨v, _, rfl⟩ | ⟨s, hs, _⟩
        · refine ⟨hd, v, ?_, ?_⟩
          · simp only [hloc] at hxb
            by_contra hv
            rw [if_neg hv] at hxb
            cases hxb
          · intro e
            simp only [locate_pt, e, if_true] at hxa
            cases hxa
        · exact absurd hs (hnoseg s)
    · rintro (rfl | ⟨hd, q, hq, hqp⟩)
      · exact Or.inl rfl
      · right
        refine ⟨_, vertex_atom_mem (pts_mem_vertsOf_right (pa := ⟨[p], [], []⟩) (pb := ⟨qs, [], []⟩) hq), ?_, ?_, hd⟩
        · rw [locate_pt, if_neg hqp]
        · rw [hloc, if_pos hq]
  · apply Dim.eq_of_le_iff
    intro d
    rw [cell_le_iff (by simp)]
    constructor
    · rintro (rfl | ⟨x, hx, _, hxb, _⟩)
      · exact Nat.le_refl _
      · exfalso
        rcases mem_atomsOf_cases hx with ⟨v, _, rfl⟩ | ⟨s, hs, _⟩
        · simp only [hloc] at hxb
          split at hxb <;> cases hxb
        · exact absurd hs (hnoseg s)
    · intro h0
      exact Or.inl (Dim.rank_le_zero.1 h0)

/-- **`relate(Point p, MultiPoint qs) = relateSpec`, the whole matrix, on the graph path** -/
theorem point_multiPoint_graph (ar : Arith) (p : Pt) (qs : List Pt) {m : IM}
    (h : relateGraph ar (.point p) (.multiPoint qs) = some m) : m = relateSpec (.point p) (.multiPoint qs) := by
  have hfg := fresh_multiPoint ar 1 qs
  have hE : (freshGraph ar 1 (.multiPoint qs)).edges = [] := by rw [hfg]
  obtain ⟨_, _, e3, e4⟩ := addPoints_spec 1 qs Graph.empty
  have hnodes : (freshGraph ar 1 (.multiPoint qs)).nodes = (addPoints 1 qs Graph.empty).nodes := by rw [hfg]
  have hin : ∀ g ∈ (freshGraph ar 1 (.multiPoint qs)).nodes, g.label.onPos 1 = some .inside := by
    rw [hnodes]; exact e3 (fun n hn => by cases hn)
  have hN : NInv 1 (freshGraph ar 1 (.multiPoint qs)).nodes := by
    rw [hnodes]
    have : ∀ (ps : List Pt) (G : Graph), NInv 1 G.nodes → NInv 1 (addPoints 1 ps G).nodes := by
      intro ps
      induction ps with
      | nil => intro G h; exact h
      | cons x xs ih => intro G h; exact ih _ (ninv_insertPoint h x .inside)
    exact this qs _ (ninv_nil 1)
  obtain ⟨i1, i2⟩ := point_ext_row_points ar p _ hE hin hN h
  obtain ⟨s1, s2⟩ := spec_ext_row_points p qs
  have hmemq : (∃ g ∈ (freshGraph ar 1 (.multiPoint qs)).nodes, g.coord ≠ p) ↔ ∃ q ∈ qs, q ≠ p := by
    rw [hnodes]
    constructor
    · rintro ⟨g, hg, hgc⟩
      have := (e4 g.coord).1 (List.mem_map.2 ⟨g, hg, rfl⟩)
      rcases this with h' | h'
      · exact ⟨g.coord, h', hgc⟩
      · simp [Graph.empty] at h'
    · rintro ⟨q, hq, hqp⟩
      have := (e4 q).2 (Or.inl hq)
      obtain ⟨g, hg, hgc⟩ := List.mem_map.1 this
      exact ⟨g, hg, by rw [hgc]; exact hqp⟩
  apply im_ext
  intro X Y
  by_cases hX : X = .outside
  · subst hX
    cases Y with
    | inside =>
      apply Dim.eq_of_le_iff
      intro d
      rw [i1, hmemq]
      exact (s1 d).symm
    | onBoundary => rw [i2]; exact s2.symm
    | outside =>
      have e1 : m.ee = .two := relateGraph_ee _ _ _ h
      have e2 : (relateSpec (.point p) (.multiPoint qs)).get .outside .outside = .two := by
        unfold relateSpec
        rw [relateParts_eq, get_set, if_pos ⟨rfl, rfl⟩]
      rw [e2]
      exact e1
  · exact point_rows_eq_spec_of_nodesLocate ar p _ h (nodesLocate_multiPoint ar qs) (eisAreNodes_multiPoint ar qs)
      (Geo.Proofs.Loc.coordPos_multiPoint_eq_locate qs p) X Y hX

end Geo.Proofs.RELM3

namespace Geo.Proofs.RELM3
open Geo Geo.GG Geo.RI Geo.Proofs.Spec Geo.Proofs.RELM Geo.Proofs.RELM2 Geo.Proofs.Kernel

/-- **`relate(Point p, B) = relateSpec (Point p) B`, the whole matrix, on the graph path, for every point-like `B` of the
domain — Point, MultiPoint and collections of them** (any arithmetic) -/
theorem point_ptOk_graph (ar : Arith) (p : Pt) (g : Geom) (hd : inDomain g = true) (hp : ptOk g = true) {m : IM}
    (h : relateGraph ar (.point p) g = some m) : m = relateSpec (.point p) g := by
  obtain ⟨h1, h2, h3⟩ := addGeometry_points 1 g Graph.empty hp
  have hB : buildGraph 1 g = addPoints 1 (parts g).pts Graph.empty := h1
  obtain ⟨e1, _, e3, e4⟩ := addPoints_spec 1 (parts g).pts Graph.empty
  have hE : (freshGraph ar 1 g).edges = [] := by
    rw [fresh_edges, hB, e1]
    rfl
  have hnodes : (freshGraph ar 1 g).nodes = (addPoints 1 (parts g).pts Graph.empty).nodes := by
    rw [fresh_nodes_of_no_eis ar 1 g (fun e he => by rw [hE] at he; cases he), hB]
  have hin : ∀ n ∈ (freshGraph ar 1 g).nodes, n.label.onPos 1 = some .inside := by
    rw [hnodes]; exact e3 (fun n hn => by cases hn)
  have hN : NInv 1 (freshGraph ar 1 g).nodes := by
    rw [hnodes]
    have : ∀ (ps : List Pt) (G : Graph), NInv 1 G.nodes → NInv 1 (addPoints 1 ps G).nodes := by
      intro ps
      induction ps with
      | nil => intro G h; exact h
      | cons x xs ih => intro G h; exact ih _ (ninv_insertPoint h x .inside)
    exact this _ _ (ninv_nil 1)
  have hparts : parts g = ⟨(parts g).pts, [], []⟩ := by
    cases hpg : parts g with
    | mk pts curves areas =>
      rw [hpg] at h2 h3
      simp only at h2 h3
      subst h2 h3
      rfl
  obtain ⟨i1, i2⟩ := point_ext_row_points ar p g hE hin hN h
  obtain ⟨s1, s2⟩ := spec_ext_row_points p (parts g).pts
  have hspec : relateSpec (.point p) g = relateParts ⟨[p], [], []⟩ ⟨(parts g).pts, [], []⟩ := by
    unfold relateSpec
    rw [← hparts]
    rfl
  have hmemq : (∃ n ∈ (freshGraph ar 1 g).nodes, n.coord ≠ p) ↔ ∃ q ∈ (parts g).pts, q ≠ p := by
    rw [hnodes]
    constructor
    · rintro ⟨n, hn, hnc⟩
      have := (e4 n.coord).1 (List.mem_map.2 ⟨n, hn, rfl⟩)
      rcases this with h' | h'
      · exact ⟨n.coord, h', hnc⟩
      · simp [Graph.empty] at h'
    · rintro ⟨q, hq, hqp⟩
      have := (e4 q).2 (Or.inl hq)
      obtain ⟨n, hn, hnc⟩ := List.mem_map.1 this
      exact ⟨n, hn, by rw [hnc]; exact hqp⟩
  apply im_ext
  intro X Y
  by_cases hX : X = .outside
  · subst hX
    cases Y with
    | inside =>
      rw [hspec]
      apply Dim.eq_of_le_iff
      intro d
      rw [i1, hmemq]
      exact (s1 d).symm
    | onBoundary => rw [i2, hspec]; exact s2.symm
    | outside =>
      have e1' : m.ee = .two := relateGraph_ee _ _ _ h
      have e2 : (relateSpec (.point p) g).get .outside .outside = .two := by
        unfold relateSpec
        rw [relateParts_eq, get_set, if_pos ⟨rfl, rfl⟩]
      rw [e2]
      exact e1'
  · exact point_rows_eq_spec_of_nodesLocate_off ar p g h (nodesLocate_points ar g hp).1 (nodesLocate_points ar g hp).2
      (fun _ => Geo.Proofs.C02X.coordPos_dom g p hd (noK9_points p g hp)) X Y hX

end Geo.Proofs.RELM3

namespace Geo.Proofs.RELM3
open Geo Geo.GG Geo.RI Geo.Proofs.Spec Geo.Proofs.RELM Geo.Proofs.RELM2 Geo.Proofs.Kernel

/-! ### a linear collection with a bounding rectangle has an edge -/

mutual
theorem long_of_boundingRect_lin : ∀ (g : Geom), inDomain g = true → linOk g = true → boundingRect g ≠ none →
    ∃ l ∈ (parts g).curves, Long l
  | .line a c, hd, _, hr => long_of_boundingRect hd rfl hr
  | .lineString cs, hd, _, hr => long_of_boundingRect hd rfl hr
  | .multiLineString ls, hd, _, hr => long_of_boundingRect hd rfl hr
  | .collection gs, hd, hl, hr => by
      have hl' : linOkList gs = true := by simpa [linOk] using hl
      have hd' : inDomainList gs = true := by
        simp only [inDomain, Bool.and_eq_true] at hd
        exact hd.2
      have hr' : boundingRectList none gs ≠ none := by simpa [boundingRect] using hr
      rcases long_of_boundingRectList gs none hd' hl' (fun _ => hr') with h' | ⟨l, hlm, hlong⟩
      · exact absurd rfl h'
      · exact ⟨l, by simpa [parts] using hlm, hlong⟩
  | .point _, _, h, _ => by simp [linOk] at h
  | .polygon _, _, h, _ => by simp [linOk] at h
  | .multiPoint _, _, h, _ => by simp [linOk] at h
  | .multiPolygon _, _, h, _ => by simp [linOk] at h
  | .rect _ _, _, h, _ => by simp [linOk] at h
  | .triangle _ _ _, _, h, _ => by simp [linOk] at h
theorem long_of_boundingRectList : ∀ (gs : List Geom) (acc : Option (Pt × Pt)), inDomainList gs = true →
    linOkList gs = true → (acc = none → boundingRectList acc gs ≠ none) →
    acc ≠ none ∨ ∃ l ∈ (partsList gs).curves, Long l
  | [], acc, _, _, h => by
      by_cases ha : acc = none
      · exact absurd (by rw [ha]; rfl) (h ha)
      · exact Or.inl ha
  | g :: gs, acc, hd, hl, h => by
      simp only [inDomainList, Bool.and_eq_true] at hd
      simp only [linOkList, Bool.and_eq_true] at hl
      by_cases ha : acc = none
      · right
        subst ha
        have hrl := h rfl
        simp only [boundingRectList] at hrl
        by_cases hg : boundingRect g = none
        · rw [hg] at hrl
          have hstep : bboxFoldStep none none = none := rfl
          rw [hstep] at hrl
          rcases long_of_boundingRectList gs none hd.2 hl.2 (fun _ => hrl) with h' | ⟨l, hlm, hlong⟩
          · exact absurd rfl h'
          · exact ⟨l, by simp only [partsList, Parts.append, List.mem_append]; exact Or.inr hlm, hlong⟩
        · obtain ⟨l, hlm, hlong⟩ := long_of_boundingRect_lin g hd.1 hl.1 hg
          exact ⟨l, by simp only [partsList, Parts.append, List.mem_append]; exact Or.inl hlm, hlong⟩
      · exact Or.inl ha
end

/-- **`relate(Point p, B) = relateSpec (Point p) B`, the whole matrix, on the graph path, for every linear `B` of the
domain, collections included** (the envelope test passed, so `B` has an edge) -/
theorem point_linOk_graph (p : Pt) (b : Geom) (hd : inDomain b = true) (hl : linOk b = true)
    (henv : envelopesMeet (.point p) b = true) {m : IM}
    (h : relateGraph Arith.exact (.point p) b = some m) : m = relateSpec (.point p) b := by
  have hr : boundingRect b ≠ none := by
    intro e
    unfold envelopesMeet at henv
    rw [e] at henv
    cases hbp : boundingRect (.point p) <;> rw [hbp] at henv <;> cases henv
  exact point_linear_full p b hd hl
    (fresh_edges_ne_nil _ (linearAs_of_linOk b hd hl) (long_of_boundingRect_lin b hd hl hr)) h

end Geo.Proofs.RELM3
