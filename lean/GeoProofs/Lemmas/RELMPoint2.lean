/-
  RELM — `Point × anything` for the model of the implementation, part 2: the node map when the
  first operand is a `Point`, and the rows Interior / Boundary of the result.
-/
import GeoProofs.Lemmas.RELMPoint

namespace Geo.Proofs.RELM
open Geo Geo.GG Geo.RI Geo.Proofs.Spec

/-! ### the node map stays sorted -/

theorem intersectionNodeUpdate_coord (ep : Option Pos) (idx : Nat) (n : RNode) :
    (intersectionNodeUpdate ep idx n).coord = n.coord := by
  unfold intersectionNodeUpdate; split
  · rfl
  · split <;> rfl

theorem intersectionNodesOfEdge_sorted (ep : Option Pos) (idx : Nat) :
    ∀ (eis : List EI) (ns : List RNode), SortedR ns → SortedR (intersectionNodesOfEdge ep idx eis ns)
  | [], _, h => h
  | _ :: rest, ns, h =>
      intersectionNodesOfEdge_sorted ep idx rest _
        (upsertR_sorted _ _ (intersectionNodeUpdate_coord ep idx) ns h)

theorem intersectionNodes_sorted (idx : Nat) :
    ∀ (es : List REdge) (ns : List RNode), SortedR ns → SortedR (intersectionNodes idx es ns)
  | [], _, h => h
  | e :: es, ns, h => intersectionNodes_sorted idx es _ (intersectionNodesOfEdge_sorted _ idx e.eis ns h)

theorem copyNodes_sorted (idx : Nat) : ∀ (gs : List Node) (ns ns' : List RNode),
    copyNodes idx gs ns = some ns' → SortedR ns → SortedR ns'
  | [], ns, ns', h, hs => by simp only [copyNodes] at h; cases h; exact hs
  | g :: gs, ns, ns', h, hs => by
      simp only [copyNodes] at h
      split at h
      · cases h
      · rename_i q _
        exact copyNodes_sorted idx gs _ ns' h
          (upsertR_sorted g.coord (fun n => { n with label := n.label.setOn idx q }) (fun _ => rfl) ns hs)

theorem insertEdgeEnds_sorted (ar : Arith) : ∀ (es : List EdgeEnd) (ns : List RNode),
    SortedR ns → SortedR (insertEdgeEnds ar es ns)
  | [], _, h => h
  | e :: es, ns, h =>
      insertEdgeEnds_sorted ar es _
        (upsertR_sorted e.c0 (fun n => { n with star := starInsert ar e n.star }) (fun _ => rfl) ns h)

/-! ### invariants through the construction of the node map -/

theorem intersectionNodesOfEdge_forall {P : RNode → Prop} (ep : Option Pos) (idx : Nat)
    (hf : ∀ n, P n → P (intersectionNodeUpdate ep idx n)) (hnew : ∀ c, P (RNode.new c)) :
    ∀ (eis : List EI) (ns : List RNode), (∀ n ∈ ns, P n) → ∀ n ∈ intersectionNodesOfEdge ep idx eis ns, P n
  | [], _, h => h
  | ei :: rest, ns, h =>
      intersectionNodesOfEdge_forall ep idx hf hnew rest _
        (upsertR_forall ei.coord _ ns h (fun n hn _ => hf n hn) (hf _ (hnew _)))

theorem intersectionNodes_forall {P : RNode → Prop} (idx : Nat)
    (hf : ∀ ep n, P n → P (intersectionNodeUpdate ep idx n)) (hnew : ∀ c, P (RNode.new c)) :
    ∀ (es : List REdge) (ns : List RNode), (∀ n ∈ ns, P n) → ∀ n ∈ intersectionNodes idx es ns, P n
  | [], _, h => h
  | e :: es, ns, h =>
      intersectionNodes_forall idx hf hnew es _
        (intersectionNodesOfEdge_forall _ idx (hf _) hnew e.eis ns h)

theorem copyNodes_forall {P : RNode → Prop} (idx : Nat)
    (hf : ∀ n q, P n → P { n with label := n.label.setOn idx q }) (hnew : ∀ c, P (RNode.new c)) :
    ∀ (gs : List Node) (ns ns' : List RNode), copyNodes idx gs ns = some ns' → (∀ n ∈ ns, P n) → ∀ n ∈ ns', P n
  | [], ns, ns', h, hP => by simp only [copyNodes] at h; cases h; exact hP
  | g :: gs, ns, ns', h, hP => by
      simp only [copyNodes] at h
      split at h
      · cases h
      · rename_i q _
        exact copyNodes_forall idx hf hnew gs _ ns' h
          (upsertR_forall g.coord _ ns hP (fun n hn _ => hf n q hn) (hf _ q (hnew _)))

theorem insertEdgeEnds_forall {P : RNode → Prop} (ar : Arith)
    (hf : ∀ n e, e.c0 = n.coord → P n → P { n with star := starInsert ar e n.star }) (hnew : ∀ c, P (RNode.new c)) :
    ∀ (es : List EdgeEnd) (ns : List RNode), (∀ n ∈ ns, P n) → ∀ n ∈ insertEdgeEnds ar es ns, P n
  | [], _, h => h
  | e :: es, ns, h =>
      insertEdgeEnds_forall ar hf hnew es _
        (upsertR_forall e.c0 _ ns h (fun n hn hc => hf n e hc.symm hn) (hf _ e rfl (hnew _)))

/-! ### labels of nodes are point labels -/

/-- both slots of the label have the shape `LineOrPoint` -/
def LineLabel (l : Label) : Prop := (∃ x, l.a = .lineOrPoint x) ∧ (∃ y, l.b = .lineOrPoint y)

theorem lineLabel_emptyLine : LineLabel Label.emptyLine := ⟨⟨none, rfl⟩, ⟨none, rfl⟩⟩

theorem lineLabel_setOn {l : Label} (h : LineLabel l) (idx : Nat) (q : Pos) : LineLabel (l.setOn idx q) := by
  obtain ⟨⟨x, hx⟩, ⟨y, hy⟩⟩ := h
  cases l with | mk a b =>
  simp only at hx hy; subst hx hy
  unfold Label.setOn Label.set Label.get
  split
  · exact ⟨⟨some q, rfl⟩, ⟨y, rfl⟩⟩
  · exact ⟨⟨x, rfl⟩, ⟨some q, rfl⟩⟩

theorem lineLabel_setAll {l : Label} (h : LineLabel l) (idx : Nat) (q : Pos) : LineLabel (l.setAll idx q) := by
  obtain ⟨⟨x, hx⟩, ⟨y, hy⟩⟩ := h
  cases l with | mk a b =>
  simp only at hx hy; subst hx hy
  unfold Label.setAll Label.set Label.get
  split
  · exact ⟨⟨some q, rfl⟩, ⟨y, rfl⟩⟩
  · exact ⟨⟨x, rfl⟩, ⟨some q, rfl⟩⟩

theorem lineLabel_setLabelBoundary {l : Label} (h : LineLabel l) (idx : Nat) : LineLabel (setLabelBoundary l idx) := by
  unfold setLabelBoundary
  split <;> exact lineLabel_setOn h _ _

theorem lineLabel_intersectionNodeUpdate (ep : Option Pos) (idx : Nat) (n : RNode) (h : LineLabel n.label) :
    LineLabel (intersectionNodeUpdate ep idx n).label := by
  unfold intersectionNodeUpdate
  split
  · exact lineLabel_setLabelBoundary h idx
  · split
    · exact lineLabel_setOn h _ _
    · exact h

theorem lineLabel_labelIsolatedNode (a b : Geom) (n : RNode) (h : LineLabel n.label) :
    LineLabel (labelIsolatedNode a b n).label := by
  unfold labelIsolatedNode
  split
  · split <;> exact lineLabel_setAll h _ _
  · exact h

/-- for a point label a slot is empty exactly when its `on` position is unset -/
theorem LineLabel.count_ge_two {l : Label} (h : LineLabel l) (hc : l.geometryCount ≥ 2) :
    ∃ x y, l.a = .lineOrPoint (some x) ∧ l.b = .lineOrPoint (some y) := by
  obtain ⟨⟨x, hx⟩, ⟨y, hy⟩⟩ := h
  cases x with
  | none =>
    cases y <;> simp [Label.geometryCount, hx, hy, TopoPos.isEmpty] at hc
  | some x =>
    cases y with
    | none => simp [Label.geometryCount, hx, hy, TopoPos.isEmpty] at hc
    | some y => exact ⟨x, y, hx, hy⟩

/-! ### the node map when operand A is `Point p` -/

/-- slot 0 of a node: unset, or `Inside` at the point itself -/
def PInv (p : Pt) (n : RNode) : Prop :=
  LineLabel n.label ∧
    (n.label.a = .lineOrPoint none ∨ (n.coord = p ∧ n.label.a = .lineOrPoint (some .inside)))

/-- … after `label_isolated_nodes`: unset, `Inside` at the point itself, `Outside` elsewhere -/
def PInv2 (p : Pt) (n : RNode) : Prop :=
  LineLabel n.label ∧
    (n.label.a = .lineOrPoint none ∨ (n.coord = p ∧ n.label.a = .lineOrPoint (some .inside)) ∨
      (n.coord ≠ p ∧ n.label.a = .lineOrPoint (some .outside)))

theorem coordPos_point_self (p : Pt) : coordPos (.point p) p = .inside := by
  simp [coordPos, calcPos, calcPoint, PosAcc.result]

theorem coordPos_point_ne {p c : Pt} (h : c ≠ p) : coordPos (.point p) c = .outside := by
  simp [coordPos, calcPos, calcPoint, PosAcc.result, Ne.symm h]

theorem pInv2_labelIsolatedNode (p : Pt) (b : Geom) (n : RNode) (h : PInv p n) :
    PInv2 p (labelIsolatedNode (.point p) b n) := by
  refine ⟨lineLabel_labelIsolatedNode _ _ n h.1, ?_⟩
  unfold labelIsolatedNode
  rcases h.2 with ha | ⟨hc, ha⟩
  · split
    · have he : n.label.isEmptyAt 0 = true := by simp [Label.isEmptyAt, ha, TopoPos.isEmpty]
      rw [if_pos he]
      simp only [setAll0_a, ha, TopoPos.setAll]
      by_cases hc : n.coord = p
      · right; left; exact ⟨hc, by rw [hc, coordPos_point_self]⟩
      · right; right; exact ⟨hc, by rw [coordPos_point_ne hc]⟩
    · exact Or.inl ha
  · split
    · have he : n.label.isEmptyAt 0 = false := by simp [Label.isEmptyAt, ha, TopoPos.isEmpty]
      rw [if_neg (by simp [he])]
      right; left; exact ⟨hc, by simpa using ha⟩
    · right; left; exact ⟨hc, ha⟩

/-- the nodes of the final node map, for `A = Point p` -/
theorem point_nodes_inv (ar : Arith) (p : Pt) (b : Geom) (gb : RGraph) {labeled : List RNode}
    (h : labeledNodes (.point p) b (freshGraph ar 0 (.point p)) gb = some labeled) (ends : List EdgeEnd) :
    SortedR (insertEdgeEnds ar ends labeled) ∧ ∀ n ∈ insertEdgeEnds ar ends labeled, PInv2 p n := by
  unfold labeledNodes at h
  simp only at h
  have hfresh : (freshGraph ar 0 (.point p)).edges = [] := rfl
  have hnodes : sortNodes (freshGraph ar 0 (.point p)).nodes = [⟨p, Label.emptyLine.setOn 0 .inside⟩] := rfl
  rw [hfresh, hnodes] at h
  simp only [intersectionNodes, copyNodes] at h
  -- step 1: intersection nodes of B
  have s1 : SortedR (intersectionNodes 1 gb.edges []) := intersectionNodes_sorted 1 gb.edges [] sortedR_nil
  have i1 : ∀ n ∈ intersectionNodes 1 gb.edges [], PInv p n := by
    apply intersectionNodes_forall (P := PInv p) 1
    · intro ep n hn
      refine ⟨lineLabel_intersectionNodeUpdate ep 1 n hn.1, ?_⟩
      have : (intersectionNodeUpdate ep 1 n).label.a = n.label.a ∧ (intersectionNodeUpdate ep 1 n).coord = n.coord := by
        unfold intersectionNodeUpdate setLabelBoundary
        split
        · split <;> exact ⟨rfl, rfl⟩
        · split <;> exact ⟨rfl, rfl⟩
      rw [this.1, this.2]; exact hn.2
    · intro c; exact ⟨lineLabel_emptyLine, Or.inl rfl⟩
    · intro n hn; cases hn
  -- step 2: the node of the point
  have hon : (Label.emptyLine.setOn 0 Pos.inside).onPos 0 = some .inside := rfl
  rw [hon] at h
  simp only at h
  have s2 := upsertR_sorted p (fun n => { n with label := n.label.setOn 0 .inside }) (fun _ => rfl) _ s1
  have i2 : ∀ n ∈ upsertR p (fun n => { n with label := n.label.setOn 0 .inside }) (intersectionNodes 1 gb.edges []),
      PInv p n := by
    apply upsertR_forall (P := PInv p) p _ _ i1
    · intro n hn hc
      refine ⟨lineLabel_setOn hn.1 0 _, Or.inr ⟨hc, ?_⟩⟩
      rcases hn.2 with ha | ⟨_, ha⟩ <;> simp [ha, TopoPos.setOn]
    · exact ⟨lineLabel_setOn lineLabel_emptyLine 0 _, Or.inr ⟨rfl, rfl⟩⟩
  -- step 3: the nodes of B's graph
  split at h
  · cases h
  · rename_i ns2 h2
    cases h
    have s3 := copyNodes_sorted 1 _ _ ns2 h2 s2
    have i3 : ∀ n ∈ ns2, PInv p n := by
      apply copyNodes_forall (P := PInv p) 1 _ _ _ _ ns2 h2 i2
      · intro n q hn
        exact ⟨lineLabel_setOn hn.1 1 q, by simpa using hn.2⟩
      · intro c; exact ⟨lineLabel_emptyLine, Or.inl rfl⟩
    -- step 4: isolated nodes, then edge ends
    have s4 : SortedR (ns2.map (labelIsolatedNode (.point p) b)) :=
      sortedR_map _ (fun n => by unfold labelIsolatedNode; split <;> [split <;> rfl; rfl]) s3
    have i4 : ∀ n ∈ ns2.map (labelIsolatedNode (.point p) b), PInv2 p n := by
      intro n hn
      simp only [List.mem_map] at hn
      obtain ⟨n0, hn0, rfl⟩ := hn
      exact pInv2_labelIsolatedNode p b n0 (i3 n0 hn0)
    refine ⟨insertEdgeEnds_sorted ar ends _ s4, ?_⟩
    apply insertEdgeEnds_forall (P := PInv2 p) ar _ _ ends _ i4
    · intro n e _ hn; exact hn
    · intro c; exact ⟨lineLabel_emptyLine, Or.inl rfl⟩

end Geo.Proofs.RELM
