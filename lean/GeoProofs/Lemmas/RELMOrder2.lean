/-
  RELM — the intersection list of an edge as a canonical object, part 2: the records
  `Edge::add_intersection` makes for points of a segment are determined by their key (exact
  arithmetic), so the list an edge ends up with depends only on the *set* of intersections found,
  not on the order in which the segment pairs are visited.
-/
import GeoProofs.Lemmas.RELMOrder1
import GeoProofs.Props.C11

namespace Geo.Proofs.RELM
open Geo Geo.GG Geo.RI Geo.Proofs.Kernel

/-! ### the exact model uses `lineIntersection` itself -/

theorem lineIntersectionWith_exact (p1 p2 q1 q2 : Pt) :
    lineIntersectionWith Arith.exact p1 p2 q1 q2 = lineIntersection p1 p2 q1 q2 := by
  unfold lineIntersectionWith
  refine li_cases p1 p2 q1 q2 (fun r => (match r with
      | some (.single _ true) => some (.single (Arith.exact.cross p1 p2 q1 q2) true)
      | r => r) = r) ?_ ?_ ?_ ?_ ?_ ?_
  · intro _; rfl
  · intro _ _; rfl
  · intro _ _; rfl
  · intro _ _ _ _ _
    rw [collinearIntersection_def]
    generalize hr : colTable _ _ _ _ p1 p2 q1 q2 = r
    match r, hr with
    | none, _ => rfl
    | some (.collinear _ _), _ => rfl
    | some (.single x false), _ => rfl
    | some (.single x true), hr => exact absurd (colTable_single hr).1 (by decide)
  · intro _ _ _ _ _; rfl
  · intro _ _ _ _ _ _ _; rfl

/-! ### records -/

/-- the record `Edge::add_intersection(p, line, s.idx)` makes on the edge of segment `s` -/
def recSeg (s : Seg) (p : Pt) : EI :=
  if p == s.q then ⟨p, s.idx + 1, 0⟩ else ⟨p, s.idx, edgeDistance Arith.exact p s.p s.q⟩

/-- `s` is the `s.idx`-th segment of the coordinate list `cs` -/
def SegOf (cs : List Pt) (s : Seg) : Prop := cs[s.idx]? = some s.p ∧ cs[s.idx + 1]? = some s.q

theorem addIntersection_eq {e : REdge} {s : Seg} (hs : SegOf e.coords s) (p : Pt) :
    e.addIntersection Arith.exact p s.p s.q s.idx = { e with eis := eiInsert (recSeg s p) e.eis } := by
  unfold REdge.addIntersection recSeg
  simp only [hs.2]
  split <;> rfl

/-- the records of one `LineIntersection` on the edge of segment `s` -/
def liRecs (s : Seg) : LI → List EI
  | .single p _ => [recSeg s p]
  | .collinear x y => [recSeg s x, recSeg s y]

theorem addIntersections_eq {e : REdge} {s : Seg} (hs : SegOf e.coords s) (li : LI) :
    e.addIntersections Arith.exact li s.p s.q s.idx = { e with eis := insertAll (liRecs s li) e.eis } := by
  cases li with
  | single p f => simp only [REdge.addIntersections, addIntersection_eq hs, liRecs, insertAll, List.foldl]
  | collinear x y =>
    simp only [REdge.addIntersections, liRecs, insertAll, List.foldl]
    rw [addIntersection_eq hs, addIntersection_eq (e := { e with eis := eiInsert (recSeg s x) e.eis }) hs]

/-- a record that belongs to the coordinate list `cs`: at a vertex (distance 0), or inside the
segment it names, at its exact edge distance -/
def ValidRec (cs : List Pt) (r : EI) : Prop :=
  (r.dist = 0 ∧ cs[r.seg]? = some r.coord) ∨
  (r.dist ≠ 0 ∧ ∃ a b, cs[r.seg]? = some a ∧ cs[r.seg + 1]? = some b ∧ SegMem r.coord a b ∧
    r.dist = edgeDistance Arith.exact r.coord a b ∧ r.coord ≠ b)

theorem recSeg_valid {cs : List Pt} {s : Seg} (hs : SegOf cs s) {p : Pt} (hp : SegMem p s.p s.q) :
    ValidRec cs (recSeg s p) := by
  unfold recSeg
  split
  · rename_i h
    have : p = s.q := by simpa using h
    left; exact ⟨rfl, by rw [this]; exact hs.2⟩
  · rename_i hpq
    by_cases hd : edgeDistance Arith.exact p s.p s.q = 0
    · left
      refine ⟨hd, ?_⟩
      rw [edgeDistance_eq_zero hp hd]; exact hs.1
    · right
      exact ⟨hd, s.p, s.q, hs.1, hs.2, hp, rfl, by simpa using hpq⟩

/-- **the key determines the record** -/
theorem validRec_fk {cs : List Pt} {r r' : EI} (h : ValidRec cs r) (h' : ValidRec cs r') (hk : KeyEq r r') :
    r = r' := by
  obtain ⟨c, k, d⟩ := r
  obtain ⟨c', k', d'⟩ := r'
  unfold KeyEq at hk
  simp only at hk
  obtain ⟨rfl, rfl⟩ := hk
  rcases h with ⟨h0, hc⟩ | ⟨hn, a, b, ha, hb, hm, hd, _⟩ <;> rcases h' with ⟨h0', hc'⟩ | ⟨hn', a', b', ha', hb', hm', hd', _⟩
  · simp only at hc hc'
    rw [hc] at hc'
    cases hc'; rfl
  · exact absurd h0 hn'
  · exact absurd h0' hn
  · simp only at ha hb hm hd ha' hb' hm' hd'
    rw [ha] at ha'; rw [hb] at hb'
    cases ha'; cases hb'
    have := edgeDistance_inj hm hm' (hd.symm.trans hd')
    subst this; rfl

theorem liRecs_valid {cs : List Pt} {s t : Seg} (hs : SegOf cs s) {li : LI}
    (h : lineIntersection s.p s.q t.p t.q = some li ∨ lineIntersection t.p t.q s.p s.q = some li) :
    ∀ r ∈ liRecs s li, ValidRec cs r := by
  intro r hr
  cases li with
  | single p f =>
    simp only [liRecs, List.mem_singleton] at hr
    subst hr
    apply recSeg_valid hs
    rcases h with h | h
    · exact (lineCoord_iff _ _ _).1 (Geo.Proofs.C11.li_single_on_both _ _ _ _ _ _ h).1
    · exact (lineCoord_iff _ _ _).1 (Geo.Proofs.C11.li_single_on_both _ _ _ _ _ _ h).2
  | collinear x y =>
    simp only [liRecs, List.mem_cons, List.not_mem_nil, or_false] at hr
    rcases h with h | h
    · have := Geo.Proofs.C11.li_collinear_sub _ _ _ _ _ _ h
      rcases hr with rfl | rfl
      · exact recSeg_valid hs ((lineCoord_iff _ _ _).1 this.1)
      · exact recSeg_valid hs ((lineCoord_iff _ _ _).1 this.2.1)
    · have := Geo.Proofs.C11.li_collinear_sub _ _ _ _ _ _ h
      rcases hr with rfl | rfl
      · exact recSeg_valid hs ((lineCoord_iff _ _ _).1 this.2.2.1)
      · exact recSeg_valid hs ((lineCoord_iff _ _ _).1 this.2.2.2)

theorem compat_of_valid {cs : List Pt} {S : List EI} (h : ∀ r ∈ S, ValidRec cs r) : Compat S :=
  fun x hx y hy hk => validRec_fk (h x hx) (h y hy) hk

end Geo.Proofs.RELM
