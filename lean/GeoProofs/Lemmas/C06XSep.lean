/-
  C06X helper layer 1: finite separation in the rational plane.

  `InHalfPlanes S c`: `c` satisfies every closed half-plane `α x + β y + γ ≥ 0` that contains all points
  of `S` (the dual description of the convex hull). `inHull_iff_halfPlanes`: for a non-empty finite `S`
  this is the same as `InHull S c` (an explicit convex combination).

  Proof of the hard direction (no convexity library, everything over `Rat`): if `c` is in no triangle
  (with repetitions) of points of `S`, then `S` has a most clockwise point `a` and a most
  counter-clockwise point `b` as seen from `c` (`exists_cw_extreme`, `exists_ccw_extreme`: when the
  running extreme has to be replaced and an earlier point ends up on the wrong side, the three points
  span a triangle around `c` — the identity `(T×W)·A + (W×A)·T + (A×T)·W = 0`), all of `S` lies in the
  closed angle from `a` to `b`, which is smaller than a straight angle, so a linear function vanishing
  at `c` is strictly positive on `S`; lowering it by its least value on `S` separates.
-/
import GeoProofs.Lemmas.C06PHull
import Mathlib.Tactic.Linarith
import Mathlib.Tactic.Ring
import Mathlib.Tactic.FieldSimp

set_option linter.unusedSimpArgs false
set_option linter.unusedVariables false

namespace Geo.Proofs.C06
open Geo Geo.Cen

/-- `c` lies in every closed half-plane that contains `S` -/
def InHalfPlanes (S : List Pt) (c : Pt) : Prop :=
  ∀ α β γ : Rat, (∀ s ∈ S, 0 ≤ α * s.x + β * s.y + γ) → 0 ≤ α * c.x + β * c.y + γ

/-- cross product of `a − c` and `t − c` -/
def crs (c a t : Pt) : Rat := (a.x - c.x) * (t.y - c.y) - (a.y - c.y) * (t.x - c.x)

/-- scalar product of `a − c` and `t − c` -/
def dotc (c a t : Pt) : Rat := (a.x - c.x) * (t.x - c.x) + (a.y - c.y) * (t.y - c.y)

/-! ### the easy direction -/

theorem sumP_x' (L : List Pt) : (sumP L).x = sumR (L.map (·.x)) := by
  induction L with
  | nil => rfl
  | cons a t ih => simp [sumP, sumR, ih]

theorem sumP_y' (L : List Pt) : (sumP L).y = sumR (L.map (·.y)) := by
  induction L with
  | nil => rfl
  | cons a t ih => simp [sumP, sumR, ih]

theorem halfPlanes_of_inHull {S : List Pt} {c : Pt} (h : InHull S c) : InHalfPlanes S c := by
  obtain ⟨ws, h1, h2, h3⟩ := h
  intro α β γ hS
  have key : ∀ ws : List (Rat × Pt), (∀ e ∈ ws, 0 ≤ e.1 ∧ e.2 ∈ S) →
      0 ≤ α * (sumP (ws.map (fun e => Pt.smul e.1 e.2))).x + β * (sumP (ws.map (fun e => Pt.smul e.1 e.2))).y
        + γ * sumR (ws.map (·.1)) := by
    intro ws
    induction ws with
    | nil => intro _; simp [sumP, sumR]
    | cons e t ih =>
      intro hw
      have h0 := ih (fun e he => hw e (List.mem_cons_of_mem _ he))
      obtain ⟨he1, he2⟩ := hw e List.mem_cons_self
      have := mul_nonneg he1 (hS _ he2)
      simp only [List.map_cons, sumP, sumR, add_x, add_y, smul_x, smul_y]
      nlinarith
  have := key ws h1
  rw [h2, ← h3] at this
  linarith

/-! ### three points around `c` -/

theorem inHull_of_three {S : List Pt} {c a t w : Pt} (ha : a ∈ S) (ht : t ∈ S) (hw : w ∈ S)
    {la lt lw : Rat} (h1 : 0 ≤ la) (h2 : 0 ≤ lt) (h3 : 0 ≤ lw) (hs : 0 < la + lt + lw)
    (hx : la * (a.x - c.x) + lt * (t.x - c.x) + lw * (w.x - c.x) = 0)
    (hy : la * (a.y - c.y) + lt * (t.y - c.y) + lw * (w.y - c.y) = 0) : InHull S c := by
  have hne : la + lt + lw ≠ 0 := ne_of_gt hs
  refine ⟨[(la / (la + lt + lw), a), (lt / (la + lt + lw), t), (lw / (la + lt + lw), w)], ?_, ?_, ?_⟩
  · intro e he
    simp only [List.mem_cons, List.not_mem_nil, or_false] at he
    rcases he with rfl | rfl | rfl
    · exact ⟨div_nonneg h1 (le_of_lt hs), ha⟩
    · exact ⟨div_nonneg h2 (le_of_lt hs), ht⟩
    · exact ⟨div_nonneg h3 (le_of_lt hs), hw⟩
  · simp only [List.map_cons, List.map_nil, sumR]
    field_simp
    ring
  · apply Pt.ext'
    · simp only [List.map_cons, List.map_nil, sumP, add_x, smul_x, zeroPt_x]
      field_simp
      linarith
    · simp only [List.map_cons, List.map_nil, sumP, add_y, smul_y, zeroPt_y]
      field_simp
      linarith

theorem crs_self (c a : Pt) : crs c a a = 0 := by unfold crs; ring
theorem crs_anti (c a t : Pt) : crs c t a = - crs c a t := by unfold crs; ring

/-! ### extreme points as seen from `c` -/

/-- a most clockwise point: every other point is on or to the left of the ray from `c` through it -/
theorem exists_cw_extreme {S : List Pt} {c : Pt} (hno : ¬ InHull S c) :
    ∀ l : List Pt, l ≠ [] → (∀ p ∈ l, p ∈ S) → ∃ a ∈ l, ∀ t ∈ l, 0 ≤ crs c a t
  | [], h, _ => absurd rfl h
  | [p], _, _ => ⟨p, by simp, fun t ht => by
      have : t = p := by simpa using ht
      rw [this, crs_self]⟩
  | w :: p :: l, _, hS => by
    obtain ⟨a, ha, hA⟩ := exists_cw_extreme hno (p :: l) (by simp) (fun q hq => hS q (List.mem_cons_of_mem _ hq))
    by_cases hw : 0 ≤ crs c a w
    · refine ⟨a, List.mem_cons_of_mem _ ha, ?_⟩
      intro t ht
      rcases List.mem_cons.1 ht with rfl | ht
      · exact hw
      · exact hA t ht
    · have hw' : crs c a w < 0 := not_le.1 hw
      refine ⟨w, List.mem_cons_self, ?_⟩
      intro t ht
      rcases List.mem_cons.1 ht with rfl | ht
      · rw [crs_self]
      · by_contra hneg
        have hneg' : crs c w t < 0 := not_le.1 hneg
        have hat := hA t ht
        apply hno
        refine inHull_of_three (la := - crs c w t) (lt := - crs c a w) (lw := crs c a t)
          (hS a (List.mem_cons_of_mem _ ha)) (hS t (List.mem_cons_of_mem _ ht)) (hS w List.mem_cons_self)
          (by linarith) (by linarith) hat (by linarith) ?_ ?_
        · unfold crs; ring
        · unfold crs; ring

/-- a most counter-clockwise point -/
theorem exists_ccw_extreme {S : List Pt} {c : Pt} (hno : ¬ InHull S c) :
    ∀ l : List Pt, l ≠ [] → (∀ p ∈ l, p ∈ S) → ∃ b ∈ l, ∀ t ∈ l, 0 ≤ crs c t b
  | [], h, _ => absurd rfl h
  | [p], _, _ => ⟨p, by simp, fun t ht => by
      have : t = p := by simpa using ht
      rw [this, crs_self]⟩
  | w :: p :: l, _, hS => by
    obtain ⟨b, hb, hB⟩ := exists_ccw_extreme hno (p :: l) (by simp) (fun q hq => hS q (List.mem_cons_of_mem _ hq))
    by_cases hw : 0 ≤ crs c w b
    · refine ⟨b, List.mem_cons_of_mem _ hb, ?_⟩
      intro t ht
      rcases List.mem_cons.1 ht with rfl | ht
      · exact hw
      · exact hB t ht
    · have hw' : crs c w b < 0 := not_le.1 hw
      refine ⟨w, List.mem_cons_self, ?_⟩
      intro t ht
      rcases List.mem_cons.1 ht with rfl | ht
      · rw [crs_self]
      · by_contra hneg
        have hneg' : crs c t w < 0 := not_le.1 hneg
        have htb := hB t ht
        apply hno
        refine inHull_of_three (la := - crs c w b) (lt := - crs c t w) (lw := crs c t b)
          (hS t (List.mem_cons_of_mem _ ht)) (hS b (List.mem_cons_of_mem _ hb)) (hS w List.mem_cons_self)
          (by linarith) (by linarith) htb (by linarith) ?_ ?_
        · unfold crs; ring
        · unfold crs; ring

/-! ### a positive lower bound on a finite list -/

theorem pos_lower_bound (g : Pt → Rat) : ∀ l : List Pt, (∀ s ∈ l, 0 < g s) →
    ∃ ε : Rat, 0 < ε ∧ ∀ s ∈ l, ε ≤ g s
  | [], _ => ⟨1, by norm_num, fun s hs => by cases hs⟩
  | p :: l, h => by
    obtain ⟨ε, hε, hl⟩ := pos_lower_bound g l (fun s hs => h s (List.mem_cons_of_mem _ hs))
    have hp := h p List.mem_cons_self
    by_cases hle : ε ≤ g p
    · refine ⟨ε, hε, ?_⟩
      intro s hs
      rcases List.mem_cons.1 hs with rfl | hs
      · exact hle
      · exact hl s hs
    · refine ⟨g p, hp, ?_⟩
      intro s hs
      rcases List.mem_cons.1 hs with rfl | hs
      · exact le_refl _
      · have := hl s hs
        linarith [not_le.1 hle]

/-- two points of `S` with `c` between them -/
theorem inHull_of_opposite {S : List Pt} {c a s : Pt} (ha : a ∈ S) (hs : s ∈ S) (hac : a ≠ c)
    (hcr : crs c a s = 0) (hd : dotc c a s ≤ 0) : InHull S c := by
  have hAA : 0 < dotc c a a := by
    unfold dotc
    by_contra hn
    have h0 : (a.x - c.x) * (a.x - c.x) + (a.y - c.y) * (a.y - c.y) ≤ 0 := not_lt.1 hn
    have hx : a.x - c.x = 0 := by nlinarith [mul_self_nonneg (a.x - c.x), mul_self_nonneg (a.y - c.y)]
    have hy : a.y - c.y = 0 := by nlinarith [mul_self_nonneg (a.x - c.x), mul_self_nonneg (a.y - c.y)]
    exact hac (Pt.ext' (by linarith) (by linarith))
  refine inHull_of_three (la := - dotc c a s) (lt := dotc c a a) (lw := 0) ha hs hs
    (by linarith) (le_of_lt hAA) (le_refl _) (by linarith) ?_ ?_
  · have : - dotc c a s * (a.x - c.x) + dotc c a a * (s.x - c.x) = - (a.y - c.y) * crs c a s := by
      unfold dotc crs; ring
    rw [hcr] at this
    linarith
  · have : - dotc c a s * (a.y - c.y) + dotc c a a * (s.y - c.y) = (a.x - c.x) * crs c a s := by
      unfold dotc crs; ring
    rw [hcr] at this
    linarith

/-! ### separation -/

/-- **finite separation in the rational plane**: a point that satisfies every closed half-plane
containing the non-empty finite set `S` is a convex combination of points of `S`. -/
theorem inHull_of_halfPlanes {S : List Pt} (hS : S ≠ []) {c : Pt} (h : InHalfPlanes S c) : InHull S c := by
  by_contra hno
  obtain ⟨a, ha, hA⟩ := exists_cw_extreme hno S hS (fun _ h => h)
  obtain ⟨b, hb, hB⟩ := exists_ccw_extreme hno S hS (fun _ h => h)
  have hne : ∀ s ∈ S, s ≠ c := fun s hs e => hno (e ▸ inHull_mem hs)
  -- a linear function vanishing at `c` and positive on `S`
  have hpos : ∃ α β γ : Rat, (∀ s ∈ S, 0 < α * s.x + β * s.y + γ) ∧ α * c.x + β * c.y + γ = 0 := by
    have hab := hA b hb
    rcases lt_or_eq_of_le hab with hD | hD
    · -- the angle from `a` to `b` is proper
      refine ⟨-(a.y - c.y) + (b.y - c.y), (a.x - c.x) - (b.x - c.x),
        (-(a.x - c.x) * c.y + (a.y - c.y) * c.x) + (-c.x * (b.y - c.y) + c.y * (b.x - c.x)), ?_, by ring⟩
      intro s hs
      have e : (-(a.y - c.y) + (b.y - c.y)) * s.x + ((a.x - c.x) - (b.x - c.x)) * s.y +
          ((-(a.x - c.x) * c.y + (a.y - c.y) * c.x) + (-c.x * (b.y - c.y) + c.y * (b.x - c.x))) =
          crs c a s + crs c s b := by unfold crs; ring
      rw [e]
      have h1 := hA s hs
      have h2 := hB s hs
      by_contra hn
      have e1 : crs c a s = 0 := by linarith
      have e2 : crs c s b = 0 := by linarith
      have ix : crs c a b * (s.x - c.x) = crs c s b * (a.x - c.x) + crs c a s * (b.x - c.x) := by
        unfold crs; ring
      have iy : crs c a b * (s.y - c.y) = crs c s b * (a.y - c.y) + crs c a s * (b.y - c.y) := by
        unfold crs; ring
      rw [e1, e2] at ix iy
      have hx : s.x - c.x = 0 := by
        rcases mul_eq_zero.1 (by linarith : crs c a b * (s.x - c.x) = 0) with h0 | h0
        · linarith
        · exact h0
      have hy : s.y - c.y = 0 := by
        rcases mul_eq_zero.1 (by linarith : crs c a b * (s.y - c.y) = 0) with h0 | h0
        · linarith
        · exact h0
      exact hne s hs (Pt.ext' (by linarith) (by linarith))
    · -- `a` and `b` point the same way: everything is on the ray from `c` through `a`
      have hac := hne a ha
      have hAB : 0 < dotc c a b := by
        by_contra hn
        exact hno (inHull_of_opposite ha hb hac hD.symm (not_lt.1 hn))
      have hAA : 0 < dotc c a a := by
        by_contra hn
        exact hno (inHull_of_opposite ha ha hac (crs_self c a) (not_lt.1 hn))
      refine ⟨a.x - c.x, a.y - c.y, -(a.x - c.x) * c.x - (a.y - c.y) * c.y, ?_, by ring⟩
      intro s hs
      have e : (a.x - c.x) * s.x + (a.y - c.y) * s.y + (-(a.x - c.x) * c.x - (a.y - c.y) * c.y) =
          dotc c a s := by unfold dotc; ring
      rw [e]
      have h1 := hA s hs
      have h2 := hB s hs
      have id1 : dotc c a a * crs c s b + dotc c a b * crs c a s = crs c a b * dotc c a s := by
        unfold dotc crs; ring
      rw [← hD, zero_mul] at id1
      have n1 := mul_nonneg (le_of_lt hAA) h2
      have n2 := mul_nonneg (le_of_lt hAB) h1
      have z : dotc c a b * crs c a s = 0 := by linarith
      have hcr : crs c a s = 0 := by
        rcases mul_eq_zero.1 z with h0 | h0
        · linarith
        · exact h0
      by_contra hn
      exact hno (inHull_of_opposite ha hs hac hcr (not_lt.1 hn))
  obtain ⟨α, β, γ, hg, hc⟩ := hpos
  obtain ⟨ε, hε, hlow⟩ := pos_lower_bound (fun s => α * s.x + β * s.y + γ) S hg
  have := h α β (γ - ε) (fun s hs => by have := hlow s hs; linarith)
  linarith

/-- the two descriptions of the convex hull of a non-empty finite set agree -/
theorem inHull_iff_halfPlanes {S : List Pt} (hS : S ≠ []) (c : Pt) : InHull S c ↔ InHalfPlanes S c :=
  ⟨halfPlanes_of_inHull, inHull_of_halfPlanes hS⟩

end Geo.Proofs.C06
