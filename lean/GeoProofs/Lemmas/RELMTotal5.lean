/-
  RELM — **the implementation does not panic**: assembly.
-/
import GeoProofs.Lemmas.RELMTotal4

namespace Geo.Proofs.RELM
open Geo Geo.GG Geo.RI Geo.Proofs.Kernel Geo.Proofs.Spec

theorem applyM_toEdge (es : List REdge) (evs : List MEv) : (applyM es evs).map toEdge = es.map toEdge := by
  apply List.ext_getElem?
  intro i
  rw [List.getElem?_map, List.getElem?_map, getElem?_applyM]
  cases es[i]? <;> rfl

theorem mutualGraphs_toEdge (ga gb : RGraph) :
    (mutualGraphs Arith.exact ga gb).1.edges.map toEdge = ga.edges.map toEdge ∧
    (mutualGraphs Arith.exact ga gb).2.1.edges.map toEdge = gb.edges.map toEdge ∧
    (mutualGraphs Arith.exact ga gb).1.nodes = ga.nodes ∧ (mutualGraphs Arith.exact ga gb).2.1.nodes = gb.nodes := by
  unfold mutualGraphs edgeIntersections
  simp only
  have hseg : ∀ pr ∈ mutualPairs (allSegs gb.edges) (allSegs ga.edges), SegIn ga.edges pr.1 ∧ SegIn gb.edges pr.2 := by
    intro pr hpr
    rw [mem_mutualPairs] at hpr
    exact ⟨allSegs_segIn _ _ hpr.1, allSegs_segIn _ _ hpr.2⟩
  rw [mutualRows_eq_fold, mutualFold_eq _ _ _ hseg]
  exact ⟨applyM_toEdge _ _, applyM_toEdge _ _, trivial, trivial⟩

/-- what is needed of one operand's graph after the mutual phase -/
structure OpOK (idx : Nat) (g : RGraph) : Prop where
  nodes : ∀ n ∈ g.nodes, (n.label.onPos idx).isSome
  wf : ∀ e ∈ g.edges, EdgeWF e
  edges : ∀ e ∈ g.edges, LabelOK e.label ∧
    (∃ f, e.coords.head? = some f ∧ f ∈ g.nodes.map (·.coord)) ∧
    (∃ l, e.coords.getLast? = some l ∧ l ∈ g.nodes.map (·.coord))

theorem opOK_of_ginv {idx : Nat} {g : RGraph} (h : GInv idx ⟨g.nodes, g.edges.map toEdge, g.useRule⟩)
    (hw : ∀ e ∈ g.edges, EdgeWF e) : OpOK idx g := by
  refine ⟨h.nodes, hw, ?_⟩
  intro e he
  exact h.edges (toEdge e) (List.mem_map_of_mem he)

theorem opOK_mutual (a b : Geom) (ha : noZeroLine a = true) (hb : noZeroLine b = true)
    (ca : ringsClosed a = true) (cb : ringsClosed b = true) :
    OpOK 0 (mutualGraphs Arith.exact (freshGraph Arith.exact 0 a) (freshGraph Arith.exact 1 b)).1 ∧
    OpOK 1 (mutualGraphs Arith.exact (freshGraph Arith.exact 0 a) (freshGraph Arith.exact 1 b)).2.1 := by
  obtain ⟨wa, wb⟩ := mutualGraphs_edgeWF (freshGraph_edgeWF 0 a ha) (freshGraph_edgeWF 1 b hb)
  obtain ⟨t1, t2, n1, n2⟩ := mutualGraphs_toEdge (freshGraph Arith.exact 0 a) (freshGraph Arith.exact 1 b)
  have ga := freshGraph_ginv Arith.exact 0 a ca
  have gb := freshGraph_ginv Arith.exact 1 b cb
  constructor
  · apply opOK_of_ginv _ wa
    rw [t1, n1]
    exact ⟨ga.nodes, ga.edges⟩
  · apply opOK_of_ginv _ wb
    rw [t2, n2]
    exact ⟨gb.nodes, gb.edges⟩

theorem mem_inUpds_coord (idx : Nat) {es : List REdge} {e : REdge} (he : e ∈ es) {r : EI} (hr : r ∈ e.eis) :
    r.coord ∈ (inUpds idx es).map (·.1) := by
  simp only [inUpds, List.map_flatMap, List.mem_flatMap, List.mem_map]
  exact ⟨e, he, _, ⟨r, hr, rfl⟩, rfl⟩

theorem mem_cpUpds_coord (idx : Nat) {gs : List Node} (hg : ∀ n ∈ gs, (n.label.onPos idx).isSome) {c : Pt}
    (hc : c ∈ gs.map (·.coord)) : c ∈ (cpUpds idx (sortNodes gs)).map (·.1) := by
  simp only [List.mem_map] at hc
  obtain ⟨g, hgm, rfl⟩ := hc
  obtain ⟨p, hp⟩ := Option.isSome_iff_exists.1 (hg g hgm)
  simp only [cpUpds, List.mem_map, List.mem_filterMap, Option.map_eq_some_iff]
  exact ⟨_, ⟨g, (mem_sortNodes g gs).2 hgm, p, hp, rfl⟩, rfl⟩

/-- **the graph path never panics** -/
theorem relateGraph_isSome (a b : Geom) (ha : noZeroLine a = true) (hb : noZeroLine b = true)
    (ca : ringsClosed a = true) (cb : ringsClosed b = true) : (relateGraph Arith.exact a b).isSome := by
  unfold relateGraph
  rw [relateGraphs_eq_fold, Option.isSome_map]
  unfold graphAtoms
  obtain ⟨oa, ob⟩ := opOK_mutual a b ha hb ca cb
  generalize mutualGraphs Arith.exact (freshGraph Arith.exact 0 a) (freshGraph Arith.exact 1 b) = mg at oa ob ⊢
  obtain ⟨ga, gb, hp, hpi⟩ := mg
  simp only at oa ob ⊢
  -- the node map before the edge ends
  have condA : (sortNodes ga.nodes).all (fun g => (g.label.onPos 0).isSome) = true := by
    rw [List.all_eq_true]; intro g hg; exact oa.nodes g ((mem_sortNodes g _).1 hg)
  have condB : (sortNodes gb.nodes).all (fun g => (g.label.onPos 1).isSome) = true := by
    rw [List.all_eq_true]; intro g hg; exact ob.nodes g ((mem_sortNodes g _).1 hg)
  rw [labeledNodes_eq a b ga gb condA condB]
  simp only
  set M := applyU [] (allUpds ga gb) with hM
  have gU := goodUpds_all ga gb
  have sM : SortedR M := applyU_sorted _ _ gU.coordPres sortedR_nil
  have qM := applyU_nodeQ gU
  set N := M.map (labelIsolatedNode a b) with hN
  have isoCoord : ∀ n, (labelIsolatedNode a b n).coord = n.coord := fun n => by
    unfold labelIsolatedNode; split <;> [split <;> rfl; rfl]
  have sN : SortedR N := sortedR_map _ isoCoord sM
  have present : ∀ c, c ∈ (allUpds ga gb).map (·.1) → (findR c N).isSome := by
    intro c hc
    rw [hN, findR_map _ isoCoord, Option.isSome_map, hM, findR_isSome_applyU c _ [] gU.coordPres sortedR_nil]
    exact Or.inr hc
  -- node property carried to the end
  let P : RNode → Prop := fun n =>
    (LineLabel n.label ∧ n.label.geometryCount ≥ 2) ∧ ∀ bd ∈ n.star, ∀ e ∈ bd.ends, EndOK e
  have hPN : ∀ n ∈ N, P n := by
    intro n hn
    rw [hN, List.mem_map] at hn
    obtain ⟨m, hm, rfl⟩ := hn
    refine ⟨iso_count (qM m hm), ?_⟩
    have hst : (labelIsolatedNode a b m).star = m.star := by
      unfold labelIsolatedNode; split <;> [split <;> rfl; rfl]
    have hm0 : m.star = [] := by
      have := labeledNodes_star (labeledNodes_eq a b ga gb condA condB) (labelIsolatedNode a b m)
        (List.mem_map_of_mem hm)
      rw [hst] at this; exact this
    rw [hst, hm0]
    intro bd hbd; cases hbd
  -- the edge ends
  obtain ⟨endsA, hEa, pEa⟩ := endsForEdges_isSome ga.edges oa.wf
  obtain ⟨endsB, hEb, pEb⟩ := endsForEdges_isSome gb.edges ob.wf
  rw [hEa, hEb]
  simp only
  have allU : ∀ c, (c ∈ (inUpds 0 ga.edges).map (·.1) ∨ c ∈ (inUpds 1 gb.edges).map (·.1) ∨
      c ∈ (cpUpds 0 (sortNodes ga.nodes)).map (·.1) ∨ c ∈ (cpUpds 1 (sortNodes gb.nodes)).map (·.1)) →
      c ∈ (allUpds ga gb).map (·.1) := by
    intro c hc
    unfold allUpds
    simp only [List.map_append, List.mem_append]
    tauto
  have endA : ∀ x ∈ endsA, (findR x.c0 N).isSome ∧ EndOK x := by
    intro x hx
    obtain ⟨e, he, hl, hc0⟩ := pEa x hx
    obtain ⟨hlab, ⟨f, hf, hfm⟩, ⟨l, hl', hlm⟩⟩ := oa.edges e he
    refine ⟨present _ (allU _ ?_), ?_⟩
    · rcases hc0 with ⟨r, hr, hxr⟩ | hh | hh
      · rw [hxr]; exact Or.inl (mem_inUpds_coord 0 he hr)
      · rw [hf] at hh; cases hh
        exact Or.inr (Or.inr (Or.inl (mem_cpUpds_coord 0 oa.nodes hfm)))
      · rw [hl'] at hh; cases hh
        exact Or.inr (Or.inr (Or.inl (mem_cpUpds_coord 0 oa.nodes hlm)))
    · rcases hl with hl | hl
      · unfold EndOK; rw [hl]; exact hlab
      · unfold EndOK; rw [hl]; exact labelOK_flip hlab
  have endB : ∀ x ∈ endsB, (findR x.c0 N).isSome ∧ EndOK x := by
    intro x hx
    obtain ⟨e, he, hl, hc0⟩ := pEb x hx
    obtain ⟨hlab, ⟨f, hf, hfm⟩, ⟨l, hl', hlm⟩⟩ := ob.edges e he
    refine ⟨present _ (allU _ ?_), ?_⟩
    · rcases hc0 with ⟨r, hr, hxr⟩ | hh | hh
      · rw [hxr]; exact Or.inr (Or.inl (mem_inUpds_coord 1 he hr))
      · rw [hf] at hh; cases hh
        exact Or.inr (Or.inr (Or.inr (mem_cpUpds_coord 1 ob.nodes hfm)))
      · rw [hl'] at hh; cases hh
        exact Or.inr (Or.inr (Or.inr (mem_cpUpds_coord 1 ob.nodes hlm)))
    · rcases hl with hl | hl
      · unfold EndOK; rw [hl]; exact hlab
      · unfold EndOK; rw [hl]; exact labelOK_flip hlab
  have stepP : ∀ (l : List EdgeEnd), (∀ x ∈ l, EndOK x) → ∀ n, ∀ e ∈ l, P n →
      P { n with star := starInsert Arith.exact e n.star } := by
    intro l hl n e he hn
    exact ⟨hn.1, starInsert_forall_ends Arith.exact e (hl e he) n.star hn.2⟩
  obtain ⟨s1, k1, p1⟩ := insertEdgeEnds_present' Arith.exact endsA (stepP endsA (fun x hx => (endA x hx).2)) sN
    (fun x hx => (endA x hx).1) hPN
  obtain ⟨_, _, p2⟩ := insertEdgeEnds_present' Arith.exact endsB (stepP endsB (fun x hx => (endB x hx).2)) s1
    (fun x hx => (k1 x.c0).2 (endB x hx).1) p1
  -- isolated edges
  obtain ⟨isoA, hIa⟩ := Option.isSome_iff_exists.1 (labelIsolatedEdges_isSome b 1 ga.edges
    (fun e he => by obtain ⟨_, ⟨f, hf, _⟩, _⟩ := oa.edges e he; exact ⟨f, hf⟩))
  obtain ⟨isoB, hIb⟩ := Option.isSome_iff_exists.1 (labelIsolatedEdges_isSome a 0 gb.edges
    (fun e he => by obtain ⟨_, ⟨f, hf, _⟩, _⟩ := ob.edges e he; exact ⟨f, hf⟩))
  rw [hIa, hIb]
  simp only [Option.isSome_map]
  apply nodesAtoms_isSome
  intro n hn
  obtain ⟨⟨_, hc⟩, hst⟩ := p2 n hn
  exact ⟨hc, starLabels_isSome a b n.coord hst⟩

/-- **`relate` never panics** (model of the implementation, exact arithmetic): for all operands
without a zero-length `Line` and with closed polygon rings — valid or not — there is a matrix. -/
theorem relateImpl_isSome (a b : Geom) (ha : noZeroLine a = true) (hb : noZeroLine b = true)
    (ca : ringsClosed a = true) (cb : ringsClosed b = true) : (relateImpl? a b).isSome := by
  unfold relateImpl? relateImplWith
  split
  · exact relateGraph_isSome a b ha hb ca cb
  · rfl

end Geo.Proofs.RELM
