/-
  GeoProofs.Lemmas.C07XKern — the areal kernels against an operand of dimension ≤ 1, for OGC-valid
  polygons (`polyValid`): Point × Polygon, Line × Polygon, LineString × Polygon.

  For each: the `intersects` short-circuit fires exactly when the operand has a point in the closed
  polygon (`PolyPts`, the specification's `locate ≠ Outside`), and otherwise the value — a minimum over
  ring segments — is the minimum of `|x − y|²` over all points `x` of the operand and **all points `y` of
  the polygon**: a segment from a point outside the polygon to a point of the polygon crosses a ring
  (`poly_cross`), so nothing in the polygon is nearer than its boundary; in the containment branch of
  LineString × Polygon the line string lies in one hole and that hole's ring is crossed.
-/
import GeoProofs.Lemmas.C07XValid
import GeoProofs.Lemmas.C07PBase

namespace Geo.Proofs.C07
open Geo Geo.Proofs.Kernel Geo.Proofs.Loc

/-! ### transfer of a minimum along cuts -/

theorem IsMinDist.congr {A B B' : Pt → Prop} {m : Rat} (h : IsMinDist A B m) (hB : ∀ y, B y ↔ B' y) :
    IsMinDist A B' m := by
  obtain ⟨h1, x, y, hx, hy, e⟩ := h
  exact ⟨fun x' y' hx' hy' => h1 x' y' hx' ((hB y').mpr hy'), x, y, hx, (hB y).mp hy, e⟩

/-- if every pair `(x, y) ∈ A × B` is undercut by a pair of `A' × B'` (subsets), the minimum over
`A' × B'` is the minimum over `A × B` -/
theorem IsMinDist_of_cut2 {A A' B B' : Pt → Prop} {m : Rat} (h : IsMinDist A' B' m)
    (hA : ∀ x, A' x → A x) (hB : ∀ y, B' y → B y)
    (hcut : ∀ x y, A x → B y → ∃ w z, A' w ∧ B' z ∧ dist2 w z ≤ dist2 x y) : IsMinDist A B m := by
  obtain ⟨h1, x, y, hx, hy, e⟩ := h
  refine ⟨fun x' y' hx' hy' => ?_, x, y, hA x hx, hB y hy, e⟩
  obtain ⟨w, z, hw, hz, hle⟩ := hcut x' y' hx' hy'
  exact le_trans (h1 w z hw hz) hle

/-- one-sided: every segment from `A` to `B` passes through `B' ⊆ B` -/
theorem IsMinDist_of_cut {A B B' : Pt → Prop} {m : Rat} (h : IsMinDist A B' m)
    (hB : ∀ y, B' y → B y) (hcut : ∀ x y, A x → B y → ∃ z, SegMem z x y ∧ B' z) : IsMinDist A B m :=
  IsMinDist_of_cut2 h (fun _ hx => hx) hB (fun x y hx hy => by
    obtain ⟨z, hz, hz'⟩ := hcut x y hx hy
    exact ⟨x, z, hx, hz', dist2_le_of_SegMem hz⟩)

/-- **a set that has no point in the polygon is as near to the polygon as to its rings** -/
theorem outside_nearest_boundary {q : Poly} (hok : RingsOK q) {A : Pt → Prop}
    (hA : ∀ x, A x → ¬ PolyPts q x) {m : Rat} (h : IsMinDist A (RingsPts (q.ext :: q.ints)) m) :
    IsMinDist A (PolyPts q) m :=
  IsMinDist_of_cut h (fun _ hy => PolyPts_of_ring hok hy) (fun _ _ hx hy => poly_cross hok (hA _ hx) hy)

theorem IsMinDist_zero_point {p : Pt} {B : Pt → Prop} (h : IsMinDist (· = p) B 0) : B p := by
  obtain ⟨_, x, y, hx, hy, e⟩ := h
  subst hx
  rwa [(dist2_eq_zero_iff x y).mp e.symm]

theorem RingOK_segs {r : List Pt} (h : RingOK r) : segs r ≠ [] := by
  match r, h.2 with
  | a :: b :: rest, _ => simp [segs]

theorem RingsOK_ext {q : Poly} (hok : RingsOK q) : segs q.ext ≠ [] := RingOK_segs (hok _ List.mem_cons_self)

theorem RingsOK_ints {q : Poly} (hok : RingsOK q) : RingsOk q.ints :=
  fun r hr => RingOK_segs (hok r (List.mem_cons_of_mem _ hr))

theorem RingsPts_cons (r : List Pt) (rs : List (List Pt)) (y : Pt) :
    RingsPts (r :: rs) y ↔ LsPts r y ∨ RingsPts rs y := by
  unfold RingsPts
  simp only [List.mem_cons, exists_eq_or_imp]

/-! ### Point × Polygon -/

/-- `Polygon: Intersects<Coord>` of a valid polygon: the point is in the closed polygon -/
theorem polyCoordIntersects_iff {q : Poly} (hv : PolyOk q) (p : Pt) :
    polyCoordIntersects q p = true ↔ PolyPts q p := by
  have hc : coordPos (.polygon q) p = (calcPolygon q p ⟨false, 0⟩).result := by
    simp only [coordPos, calcPos]
  unfold polyCoordIntersects PolyPts
  rw [← hc, hv.pos p]
  simp

/-- finding K4 excluded on the hole rings: the tolerance test of `line_string_contains_point` has no
false positive for `p` (the exterior ring is measured without that test) -/
def HolesTolOk (p : Pt) (q : Poly) : Prop := ∀ r ∈ q.ints, lsContainsPointTol r p = true → OnLs p r

/-- the `min` of two values that are minima to two sets (the first possibly over no set at all) -/
theorem min_IsMinDist {A B1 B2 : Pt → Prop} {a b : DV} {m : Rat}
    (ha : (a = .inf ∧ ∀ y, ¬ B1 y) ∨ ∃ q, a = .fin q ∧ IsMinDist A B1 q)
    (hb : ∃ q, b = .fin q ∧ IsMinDist A B2 q) (hm : a.min b = .fin m) :
    IsMinDist A (fun y => B1 y ∨ B2 y) m := by
  obtain ⟨qb, rfl, hB⟩ := hb
  rcases ha with ⟨rfl, hnone⟩ | ⟨qa, rfl, hA⟩
  · rw [DV.inf_min] at hm
    obtain rfl := DV.fin.inj hm
    exact hB.congr (fun y => ⟨Or.inr, fun h => h.resolve_left (hnone y)⟩)
  · simp only [DV.min] at hm
    obtain ⟨a1, xa, ya, hxa, hya, ea⟩ := hA
    obtain ⟨b1, xb, yb, hxb, hyb, eb⟩ := hB
    by_cases hle : qa ≤ qb
    · rw [if_pos hle] at hm
      obtain rfl := DV.fin.inj hm
      refine ⟨?_, xa, ya, hxa, Or.inl hya, ea⟩
      rintro x y hx (hy | hy)
      · exact a1 x y hx hy
      · exact le_trans hle (b1 x y hx hy)
    · rw [if_neg hle] at hm
      obtain rfl := DV.fin.inj hm
      refine ⟨?_, xb, yb, hxb, Or.inr hyb, eb⟩
      rintro x y hx (hy | hy)
      · exact le_trans (not_le.mp hle).le (a1 x y hx hy)
      · exact b1 x y hx hy

theorem foldMin_nil' {α} (f : α → DV) : foldMin f [] = .inf := rfl

/-- Point × Polygon, the point not intersecting: the minimum over all rings -/
theorem ptPoly2_rings_IsMinDist {p : Pt} {q : Poly} (hok : RingsOK q) (hT : HolesTolOk p q)
    (hi : polyCoordIntersects q p = false) {m : Rat} (hm : ptPoly2 p q = .fin m) :
    IsMinDist (· = p) (RingsPts (q.ext :: q.ints)) m := by
  unfold ptPoly2 at hm
  rw [hi, segs_ne_nil_not_empty (RingsOK_ext hok)] at hm
  simp only [Bool.or_self, Bool.false_eq_true, if_false] at hm
  have h := min_IsMinDist (A := (· = p)) (B1 := RingsPts q.ints) (B2 := LsPts q.ext) ?_ ?_ hm
  · exact h.congr (fun y => by rw [RingsPts_cons]; exact or_comm)
  · by_cases hne : q.ints = []
    · left
      rw [hne]
      exact ⟨rfl, fun y ⟨r, hr, _⟩ => by cases hr⟩
    · right
      have hfin : ∀ r ∈ q.ints, ∃ k, ptLs2 p r = .fin k := fun r hr => ptLs2_finite p (RingsOK_ints hok r hr)
      obtain ⟨k, hk⟩ := foldMin_finite hne hfin
      refine ⟨k, hk, ?_⟩
      refine foldMin_IsMinDist (B := fun r y => LsPts r y) (fun r hr => ?_) hk
      obtain ⟨k', hk'⟩ := hfin r hr
      exact ⟨k', hk', ptLs2_IsMinDist (ne_nil_of_segs (RingsOK_ints hok r hr)) (hT r hr) hk'⟩
  · obtain ⟨k, hk⟩ := foldMin_finite (f := segD p) (RingsOK_ext hok) (fun se _ => ⟨_, rfl⟩)
    exact ⟨k, hk, segFold_IsMinDist p q.ext hk⟩

theorem ptPoly2_finite (p : Pt) {q : Poly} (hok : RingsOK q) : ∃ m, ptPoly2 p q = .fin m := by
  unfold ptPoly2
  split
  · exact ⟨0, rfl⟩
  · obtain ⟨k, hk⟩ := foldMin_finite (f := segD p) (RingsOK_ext hok) (fun se _ => ⟨_, rfl⟩)
    rw [hk]
    by_cases hne : q.ints = []
    · rw [hne, foldMin_nil', DV.inf_min]; exact ⟨k, rfl⟩
    · obtain ⟨k', hk'⟩ := foldMin_finite (f := fun r => ptLs2 p r) hne
        (fun r hr => ptLs2_finite p (RingsOK_ints hok r hr))
      rw [hk']; exact ⟨_, rfl⟩

/-- **Point × Polygon is the true minimum distance to the closed polygon** (valid polygon; K4 excluded
on the hole rings) -/
theorem ptPoly2_IsMinDist {p : Pt} {q : Poly} (hv : PolyOk q) (hT : HolesTolOk p q) :
    ∃ m, ptPoly2 p q = .fin m ∧ IsMinDist (· = p) (PolyPts q) m := by
  have hok := hv.ok
  obtain ⟨m, hm⟩ := ptPoly2_finite p hok
  refine ⟨m, hm, ?_⟩
  by_cases hi : polyCoordIntersects q p = true
  · rw [ptPoly2_zero_of_intersects hi] at hm
    obtain rfl := DV.fin.inj hm
    exact IsMinDist_zero_of_common (p := p) rfl ((polyCoordIntersects_iff hv p).mp hi)
  · have hi' : polyCoordIntersects q p = false := by simpa using hi
    apply outside_nearest_boundary hok _ (ptPoly2_rings_IsMinDist hok hT hi' hm)
    rintro x rfl hx
    exact hi ((polyCoordIntersects_iff hv x).mpr hx)

/-- **zero exactly for the points of the closed polygon** -/
theorem ptPoly2_zero_iff {p : Pt} {q : Poly} (hv : PolyOk q) (hT : HolesTolOk p q) :
    ptPoly2 p q = .fin 0 ↔ PolyPts q p := by
  constructor
  · intro h0
    obtain ⟨m, hm, hmin⟩ := ptPoly2_IsMinDist hv hT
    rw [h0] at hm
    obtain rfl := DV.fin.inj hm
    exact IsMinDist_zero_point hmin
  · intro hp
    exact ptPoly2_zero_of_intersects ((polyCoordIntersects_iff hv p).mpr hp)

/-! ### Line × Polygon -/

theorem lsLine_common {r : List Pt} {a b : Pt} (h : lsLineIntersects r a b = true) :
    ∃ x, SegMem x a b ∧ LsPts r x := by
  obtain ⟨se, hse, hl⟩ := (lsLineIntersects_iff r a b).mp h
  obtain ⟨x, hx1, hx2⟩ := (lineLine_iff _ _ _ _).mp hl
  exact ⟨x, hx2, se, hse, hx1⟩

theorem lsLine_of_common {r : List Pt} {a b x : Pt} (h1 : SegMem x a b) (h2 : LsPts r x) :
    lsLineIntersects r a b = true := by
  obtain ⟨se, hse, hx⟩ := h2
  exact (lsLineIntersects_iff r a b).mpr ⟨se, hse, (lineLine_iff _ _ _ _).mpr ⟨x, hx, h1⟩⟩

/-- `Polygon: Intersects<Line>` of a valid polygon: the closed segment has a point in the closed polygon -/
theorem polyLineIntersects_iff {q : Poly} (hv : PolyOk q) (a b : Pt) :
    polyLineIntersects q a b = true ↔ ∃ x, SegMem x a b ∧ PolyPts q x := by
  have hok := hv.ok
  unfold polyLineIntersects
  simp only [Bool.or_eq_true, List.any_eq_true]
  constructor
  · rintro (((h | ⟨r, hr, h⟩) | h) | h)
    · obtain ⟨x, hx1, hx2⟩ := lsLine_common h
      exact ⟨x, hx1, PolyPts_of_ring hok ⟨q.ext, List.mem_cons_self, hx2⟩⟩
    · obtain ⟨x, hx1, hx2⟩ := lsLine_common h
      exact ⟨x, hx1, PolyPts_of_ring hok ⟨r, List.mem_cons_of_mem _ hr, hx2⟩⟩
    · exact ⟨a, SegMem_left a b, (polyCoordIntersects_iff hv a).mp h⟩
    · exact ⟨b, SegMem_right a b, (polyCoordIntersects_iff hv b).mp h⟩
  · rintro ⟨x, hx1, hx2⟩
    by_cases ha : PolyPts q a
    · exact Or.inl (Or.inr ((polyCoordIntersects_iff hv a).mpr ha))
    · obtain ⟨z, hz1, r, hr, hz2⟩ := poly_cross hok ha hx2
      have hzab : SegMem z a b := SegMem_convex (SegMem_left a b) hx1 hz1
      rcases List.mem_cons.mp hr with rfl | hr
      · exact Or.inl (Or.inl (Or.inl (lsLine_of_common hzab hz2)))
      · exact Or.inl (Or.inl (Or.inr ⟨r, hr, lsLine_of_common hzab hz2⟩))

theorem linePoly2_finite (a b : Pt) {q : Poly} (hok : RingsOK q) : ∃ m, linePoly2 a b q = .fin m := by
  unfold linePoly2
  split
  · exact ⟨0, rfl⟩
  · exact foldMin_finite (List.cons_ne_nil _ _) (fun r hr => lineLs2_finite a b (RingOK_segs (hok r hr)))

/-- **Line × Polygon is the true minimum distance between the closed segment and the closed polygon** -/
theorem linePoly2_poly_IsMinDist {a b : Pt} {q : Poly} (hv : PolyOk q) :
    ∃ m, linePoly2 a b q = .fin m ∧ IsMinDist (fun x => SegMem x a b) (PolyPts q) m := by
  have hok := hv.ok
  obtain ⟨m, hm⟩ := linePoly2_finite a b hok
  refine ⟨m, hm, ?_⟩
  by_cases hi : polyLineIntersects q a b = true
  · have h0 : linePoly2 a b q = .fin 0 := by unfold linePoly2; simp [hi]
    rw [h0] at hm
    obtain rfl := DV.fin.inj hm
    obtain ⟨x, hx1, hx2⟩ := (polyLineIntersects_iff hv a b).mp hi
    exact IsMinDist_zero_of_common (p := x) hx1 hx2
  · have hi' : polyLineIntersects q a b = false := by simpa using hi
    apply outside_nearest_boundary hok _
      (linePoly2_IsMinDist hi' (fun r hr => RingOK_segs (hok r hr)) hm)
    intro x hx hp
    exact hi ((polyLineIntersects_iff hv a b).mpr ⟨x, hx, hp⟩)

theorem IsMinDist_zero_common {A B : Pt → Prop} (h : IsMinDist A B 0) : ∃ x, A x ∧ B x := by
  obtain ⟨_, x, y, hx, hy, e⟩ := h
  rw [(dist2_eq_zero_iff x y).mp e.symm] at hx
  exact ⟨y, hx, hy⟩

theorem linePoly2_zero_iff_common {a b : Pt} {q : Poly} (hv : PolyOk q) :
    linePoly2 a b q = .fin 0 ↔ ∃ x, SegMem x a b ∧ PolyPts q x := by
  obtain ⟨m, hm, hmin⟩ := linePoly2_poly_IsMinDist (a := a) (b := b) hv
  constructor
  · intro h0
    rw [h0] at hm
    obtain rfl := DV.fin.inj hm
    exact IsMinDist_zero_common hmin
  · rintro ⟨x, hx1, hx2⟩
    have := hmin.unique (IsMinDist_zero_of_common (p := x) hx1 hx2)
    rw [hm, this]

/-! ### LineString × Polygon -/

/-- the closed polygon lies in the bounding box of its exterior ring -/
theorem PolyPts_in_bbox {q : Poly} (hv : PolyOk q) {x : Pt} (hx : PolyPts q x) :
    ∀ mn mx, getBoundingRect q.ext = some (mn, mx) → mn.x ≤ x.x ∧ x.x ≤ mx.x ∧ mn.y ≤ x.y ∧ x.y ≤ mx.y := by
  rcases hv.shell _ hx with h | h
  · exact LsPts_in_bbox h
  · exact winding_in_bbox (hv.ok q.ext List.mem_cons_self).1 h

/-- `LineString: Intersects<Polygon>` of a valid polygon (with its bounding-box rejection): the line
string has a point in the closed polygon -/
theorem lsPolyIntersects_iff {q : Poly} (hv : PolyOk q) (cs : List Pt) :
    lsPolyIntersects cs q = true ↔ ∃ x, LsPts cs x ∧ PolyPts q x := by
  unfold lsPolyIntersects
  constructor
  · intro h
    split at h
    · cases h
    · obtain ⟨se, hse, hl⟩ := List.any_eq_true.mp h
      obtain ⟨x, hx1, hx2⟩ := (polyLineIntersects_iff hv se.1 se.2).mp hl
      exact ⟨x, ⟨se, hse, hx1⟩, hx2⟩
  · rintro ⟨x, ⟨se, hse, hx1⟩, hx2⟩
    have hd : bboxDisjoint (getBoundingRect cs) (getBoundingRect q.ext) = false :=
      not_bboxDisjoint_of_common (x := x) (ls_box hse hx1) (PolyPts_in_bbox hv hx2)
    rw [hd]
    simp only [Bool.false_eq_true, if_false, List.any_eq_true]
    exact ⟨se, hse, (polyLineIntersects_iff hv se.1 se.2).mpr ⟨x, hx1, hx2⟩⟩

theorem lsPoly2_finite {cs : List Pt} {q : Poly} (hc : segs cs ≠ []) (hok : RingsOK q) :
    ∃ m, lsPoly2 cs q = .fin m := by
  unfold lsPoly2
  rw [segs_ne_nil_not_empty hc]
  simp only [Bool.and_false, Bool.false_eq_true, if_false]
  split
  · exact ⟨0, rfl⟩
  · split
    · rename_i _ hB
      have hne : q.ints ≠ [] := by
        intro e; rw [e] at hB; simp at hB
      exact foldMin_finite hne (fun r hr => nnDist2_finite hc (RingsOK_ints hok r hr))
    · exact nnDist2_finite hc (RingsOK_ext hok)

/-- a point of a line string that does not meet a ring is off the ring -/
theorem off_of_NoMeet {cs r : List Pt} (hno : NoMeet cs r) {x : Pt} (hx : LsPts cs x) : ¬ LsPts r x := by
  rintro ⟨t, ht, hxt⟩
  obtain ⟨s, hs, hxs⟩ := hx
  exact hno s hs t ht ⟨x, hxs, hxt⟩

/-- `ring_contains_coord` on a closed ring, for a point off the ring -/
theorem ringContainsCoord_iff {r : List Pt} (hr : RingOK r) {c : Pt} (hoff : ¬ LsPts r c) :
    ringContainsCoord r c = true ↔ windingE (EPt.ofPt c) r ≠ 0 := by
  unfold ringContainsCoord
  rw [beq_iff_eq, ringPos_eq_ringLoc c r hr, ringLoc_inside_iff]
  constructor
  · exact fun h => h.2
  · exact fun h => ⟨(not_LsPts_iff r c).mp hoff, h⟩

/-- **LineString × Polygon is the true minimum distance between the line string and the closed
polygon** (valid polygon, line string with a segment): zero through `intersects` when they share a
point; otherwise the exterior ring is the nearest part of the polygon, or — line string inside the
exterior ring of a polygon with holes — the hole rings are. -/
theorem lsPoly2_poly_IsMinDist {cs : List Pt} {q : Poly} (hv : PolyOk q) (hc : segs cs ≠ []) :
    ∃ m, lsPoly2 cs q = .fin m ∧ IsMinDist (LsPts cs) (PolyPts q) m := by
  have hok := hv.ok
  have hoke := hok q.ext List.mem_cons_self
  obtain ⟨m, hm⟩ := lsPoly2_finite hc hok
  refine ⟨m, hm, ?_⟩
  by_cases hi : lsPolyIntersects cs q = true
  · rw [lsPoly2_zero_of_intersects hi] at hm
    obtain rfl := DV.fin.inj hm
    obtain ⟨x, hx1, hx2⟩ := (lsPolyIntersects_iff hv cs).mp hi
    exact IsMinDist_zero_of_common (p := x) hx1 hx2
  have hi' : lsPolyIntersects cs q = false := by simpa using hi
  have hdisj : ∀ x, LsPts cs x → ¬ PolyPts q x :=
    fun x hx hp => hi ((lsPolyIntersects_iff hv cs).mpr ⟨x, hx, hp⟩)
  have hnoE : NoMeet cs q.ext := (noMeet_of_lsPoly hi').1
  have hhead := LsPts_head hc
  have hheadoff : ¬ LsPts q.ext (cs.headD ⟨0, 0⟩) := off_of_NoMeet hnoE hhead
  by_cases hB : (!q.ints.isEmpty && ringContainsCoord q.ext (cs.headD ⟨0, 0⟩)) = true
  · -- containment branch: the line string lies in one hole
    simp only [Bool.and_eq_true, Bool.not_eq_true'] at hB
    have hwin : windingE (EPt.ofPt (cs.headD ⟨0, 0⟩)) q.ext ≠ 0 := (ringContainsCoord_iff hoke hheadoff).mp hB.2
    have hbb : bboxDisjoint (getBoundingRect cs) (getBoundingRect q.ext) = false :=
      not_bboxDisjoint_of_common (x := cs.headD ⟨0, 0⟩) (LsPts_in_bbox hhead) (winding_in_bbox hoke.1 hwin)
    have hnoH : ∀ r ∈ q.ints, NoMeet cs r := (noMeet_of_lsPoly hi').2 hbb
    have hB' : (!q.ints.isEmpty && ringContainsCoord q.ext (cs.headD ⟨0, 0⟩)) = true := by
      rw [hB.1, hB.2]; rfl
    have hmin := lsPoly2_holes_IsMinDist hi' hc (RingsOK_ints hok) hbb hB' hm
    -- the hole that contains the first coordinate contains the whole line string
    obtain ⟨_, hw⟩ := not_PolyPts hok (hdisj _ hhead)
    obtain ⟨h0, hh0, hw0⟩ := hw.resolve_left hwin
    have hokh := hok h0 (List.mem_cons_of_mem _ hh0)
    refine IsMinDist_of_cut hmin (fun y ⟨r, hr, hy⟩ => PolyPts_of_ring hok ⟨r, List.mem_cons_of_mem _ hr, hy⟩) ?_
    intro x y hx hy
    have hxw : windingE (EPt.ofPt x) h0 ≠ 0 := by
      rw [ls_winding_const hokh.1 (hnoH h0 hh0) x _ hx hhead]; exact hw0
    obtain ⟨z, hz1, hz2⟩ := ring_cross' hokh.1 (x := x) (y := y) (by
      rcases hv.hole _ hh0 _ hy with h | h
      · exact Or.inl h
      · right; rw [h]; exact hxw)
    exact ⟨z, hz1, h0, hh0, hz2⟩
  · -- exterior branch: the exterior ring separates the line string from the polygon
    have hB' : (!q.ints.isEmpty && ringContainsCoord q.ext (cs.headD ⟨0, 0⟩)) = false := by simpa using hB
    have hmin := lsPoly2_ext_IsMinDist hi' hc (RingsOK_ext hok) hB' hm
    refine IsMinDist_of_cut hmin (fun y hy => PolyPts_of_ring hok ⟨q.ext, List.mem_cons_self, hy⟩) ?_
    intro x y hx hy
    by_cases hne : q.ints = []
    · obtain ⟨z, hz1, r, hr, hz2⟩ := poly_cross hok (hdisj x hx) hy
      rw [hne] at hr
      rw [List.mem_singleton.mp hr] at hz2
      exact ⟨z, hz1, hz2⟩
    · have hrc : ringContainsCoord q.ext (cs.headD ⟨0, 0⟩) = false := by
        cases hq : q.ints with
        | nil => exact absurd hq hne
        | cons _ _ => rw [hq] at hB'; simpa using hB'
      have hw0 : windingE (EPt.ofPt (cs.headD ⟨0, 0⟩)) q.ext = 0 := by
        by_contra hw
        rw [(ringContainsCoord_iff hoke hheadoff).mpr hw] at hrc
        cases hrc
      have hxw : windingE (EPt.ofPt x) q.ext = 0 := by
        rw [ls_winding_const hoke.1 hnoE x _ hx hhead]; exact hw0
      exact ring_cross' hoke.1 (x := x) (y := y) (by
        rcases hv.shell _ hy with h | h
        · exact Or.inl h
        · right; rw [hxw]; exact fun e => h e.symm)

theorem lsPoly2_zero_iff_common {cs : List Pt} {q : Poly} (hv : PolyOk q) (hc : segs cs ≠ []) :
    lsPoly2 cs q = .fin 0 ↔ ∃ x, LsPts cs x ∧ PolyPts q x := by
  obtain ⟨m, hm, hmin⟩ := lsPoly2_poly_IsMinDist hv hc
  constructor
  · intro h0
    rw [h0] at hm
    obtain rfl := DV.fin.inj hm
    exact IsMinDist_zero_common hmin
  · rintro ⟨x, hx1, hx2⟩
    have := hmin.unique (IsMinDist_zero_of_common (p := x) hx1 hx2)
    rw [hm, this]

end Geo.Proofs.C07
