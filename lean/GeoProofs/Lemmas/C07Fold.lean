/-
  GeoProofs.Lemmas.C07Fold — the value type `DV` (`f64::min` on squared distances with the
  `max_value` start element and sticky panics) and the `fold(max_value, min)` idiom.
-/
import GeoModel.Distance
import Mathlib.Tactic.Linarith
import Mathlib.Tactic.NormNum

namespace Geo


/-! ### `DV.min` is a commutative monoid operation with unit `inf` and absorbing `panic` -/

theorem ratMin_comm (x y : Rat) : (if x ≤ y then x else y) = (if y ≤ x then y else x) := by
  by_cases h1 : x ≤ y <;> by_cases h2 : y ≤ x <;> simp [h1, h2]
  · exact le_antisymm h1 h2
  · push Not at h1 h2; linarith

theorem DV.min_comm (a b : DV) : a.min b = b.min a := by
  cases a <;> cases b <;> simp [DV.min]
  exact ratMin_comm _ _

theorem DV.min_assoc (a b c : DV) : (a.min b).min c = a.min (b.min c) := by
  cases a <;> cases b <;> cases c <;> simp [DV.min]
  rename_i x y z
  by_cases h1 : x ≤ y <;> by_cases h2 : y ≤ z <;> by_cases h3 : x ≤ z <;> simp [h1, h2, h3] <;>
    (push Not at *; linarith)

theorem DV.inf_min (a : DV) : DV.inf.min a = a := by cases a <;> rfl
theorem DV.min_inf (a : DV) : a.min DV.inf = a := by cases a <;> rfl
theorem DV.panic_min (a : DV) : DV.panic.min a = .panic := by cases a <;> rfl
theorem DV.min_panic (a : DV) : a.min DV.panic = .panic := by cases a <;> rfl

theorem DV.min_self (a : DV) : a.min a = a := by cases a <;> simp [DV.min]

/-! ### predicates -/

/-- not a panic, and non-negative when finite -/
def DV.Ge0 : DV → Prop
  | .panic => False
  | .fin q => 0 ≤ q
  | .inf => True

/-- `m` is a lower bound of the value (vacuous for `inf`); false for a panic -/
def DV.Lb (m : Rat) : DV → Prop
  | .panic => False
  | .fin q => m ≤ q
  | .inf => True

theorem DV.Ge0_iff_Lb (d : DV) : d.Ge0 ↔ DV.Lb 0 d := by cases d <;> rfl

theorem DV.Lb_min {m : Rat} {a b : DV} (ha : DV.Lb m a) (hb : DV.Lb m b) : DV.Lb m (a.min b) := by
  cases a <;> cases b <;> simp_all [DV.min, DV.Lb]
  split <;> assumption

theorem DV.Ge0_min {a b : DV} (ha : a.Ge0) (hb : b.Ge0) : (a.min b).Ge0 := by
  rw [DV.Ge0_iff_Lb] at *; exact DV.Lb_min ha hb

/-- for non-negative values: the minimum is zero iff one of the two is -/
theorem DV.min_eq_zero_iff {a b : DV} (ha : a.Ge0) (hb : b.Ge0) :
    a.min b = .fin 0 ↔ a = .fin 0 ∨ b = .fin 0 := by
  cases a <;> cases b <;> simp_all [DV.min, DV.Ge0]
  rename_i x y
  by_cases h : x ≤ y
  · simp only [h, if_true]
    constructor
    · intro hx; exact Or.inl hx
    · rintro (hx | hy)
      · exact hx
      · linarith
  · simp only [h, if_false]
    push Not at h
    constructor
    · intro hy; exact Or.inr hy
    · rintro (hx | hy)
      · linarith
      · exact hy

/-- the minimum is one of its arguments -/
theorem DV.min_cases (a b : DV) : a.min b = a ∨ a.min b = b := by
  cases a <;> cases b <;> simp [DV.min]
  rename_i x y
  by_cases h : x ≤ y <;> simp [h]

/-! ### `foldMin` -/

theorem foldl_min_acc {α} (f : α → DV) (l : List α) (acc : DV) :
    l.foldl (fun acc x => acc.min (f x)) acc = acc.min (foldMin f l) := by
  induction l generalizing acc with
  | nil => simp [foldMin, DV.min_inf]
  | cons x xs ih =>
    simp only [foldMin, List.foldl_cons]
    rw [ih, ih (DV.inf.min (f x)), DV.inf_min, DV.min_assoc]

@[simp] theorem foldMin_nil {α} (f : α → DV) : foldMin f [] = .inf := rfl

theorem foldMin_cons {α} (f : α → DV) (x : α) (l : List α) :
    foldMin f (x :: l) = (f x).min (foldMin f l) := by
  show (x :: l).foldl _ _ = _
  rw [List.foldl_cons, foldl_min_acc, DV.inf_min]

theorem foldMin_singleton {α} (f : α → DV) (x : α) : foldMin f [x] = f x := by
  rw [foldMin_cons, foldMin_nil, DV.min_inf]

theorem foldMin_append {α} (f : α → DV) (l₁ l₂ : List α) :
    foldMin f (l₁ ++ l₂) = (foldMin f l₁).min (foldMin f l₂) := by
  induction l₁ with
  | nil => simp [DV.inf_min]
  | cons x xs ih => rw [List.cons_append, foldMin_cons, foldMin_cons, ih, DV.min_assoc]

theorem foldMin_map {α β} (f : β → DV) (g : α → β) (l : List α) :
    foldMin f (l.map g) = foldMin (fun x => f (g x)) l := by
  induction l with
  | nil => rfl
  | cons x xs ih => rw [List.map_cons, foldMin_cons, foldMin_cons, ih]

/-- a fold over a `flatMap` is the fold of the folds (the nested `fold`s of the Multi* macros) -/
theorem foldMin_flatMap {α β} (f : β → DV) (g : α → List β) (l : List α) :
    foldMin f (l.flatMap g) = foldMin (fun x => foldMin f (g x)) l := by
  induction l with
  | nil => rfl
  | cons x xs ih => rw [List.flatMap_cons, foldMin_append, foldMin_cons, ih]

theorem foldMin_Lb {α} {f : α → DV} {l : List α} {m : Rat} (h : ∀ x ∈ l, DV.Lb m (f x)) :
    DV.Lb m (foldMin f l) := by
  induction l with
  | nil => trivial
  | cons x xs ih =>
    rw [foldMin_cons]
    exact DV.Lb_min (h x (List.mem_cons_self)) (ih (fun y hy => h y (List.mem_cons_of_mem _ hy)))

theorem foldMin_Ge0 {α} {f : α → DV} {l : List α} (h : ∀ x ∈ l, (f x).Ge0) : (foldMin f l).Ge0 := by
  rw [DV.Ge0_iff_Lb]; exact foldMin_Lb (fun x hx => (DV.Ge0_iff_Lb _).mp (h x hx))

/-- the fold returns the value of one of the elements (or `inf` for the empty list) -/
theorem foldMin_mem {α} (f : α → DV) (l : List α) :
    foldMin f l = .inf ∨ ∃ x ∈ l, foldMin f l = f x := by
  induction l with
  | nil => exact Or.inl rfl
  | cons x xs ih =>
    rw [foldMin_cons]
    rcases DV.min_cases (f x) (foldMin f xs) with h | h
    · exact Or.inr ⟨x, List.mem_cons_self, h⟩
    · rcases ih with h' | ⟨y, hy, h'⟩
      · rw [h', DV.min_inf]; exact Or.inr ⟨x, List.mem_cons_self, rfl⟩
      · exact Or.inr ⟨y, List.mem_cons_of_mem _ hy, by rw [h, h']⟩

/-- **min-fold, zero**: over non-negative values the fold is zero iff some element is -/
theorem foldMin_eq_zero_iff {α} {f : α → DV} {l : List α} (h : ∀ x ∈ l, (f x).Ge0) :
    foldMin f l = .fin 0 ↔ ∃ x ∈ l, f x = .fin 0 := by
  induction l with
  | nil => simp
  | cons x xs ih =>
    have hx := h x List.mem_cons_self
    have hxs : ∀ y ∈ xs, (f y).Ge0 := fun y hy => h y (List.mem_cons_of_mem _ hy)
    rw [foldMin_cons, DV.min_eq_zero_iff hx (foldMin_Ge0 hxs), ih hxs]
    simp

theorem DV.Lb_min_inv {m : Rat} {a b : DV} (ha : a.Ge0) (hb : b.Ge0) (h : DV.Lb m (a.min b)) :
    DV.Lb m a ∧ DV.Lb m b := by
  cases a <;> cases b <;> simp_all [DV.min, DV.Lb, DV.Ge0]
  rename_i x y
  by_cases hxy : x ≤ y
  · simp only [hxy, if_true] at h; exact ⟨h, le_trans h hxy⟩
  · simp only [hxy, if_false] at h; push Not at hxy; exact ⟨le_trans h hxy.le, h⟩

theorem foldMin_Lb_inv {α} {f : α → DV} {l : List α} (h : ∀ x ∈ l, (f x).Ge0) {m : Rat}
    (hm : DV.Lb m (foldMin f l)) : ∀ x ∈ l, DV.Lb m (f x) := by
  induction l with
  | nil => intro x hx; cases hx
  | cons y ys ih =>
    have hy := h y List.mem_cons_self
    have hys : ∀ z ∈ ys, (f z).Ge0 := fun z hz => h z (List.mem_cons_of_mem _ hz)
    rw [foldMin_cons] at hm
    have := DV.Lb_min_inv hy (foldMin_Ge0 hys) hm
    intro x hx
    rcases List.mem_cons.mp hx with rfl | hx'
    · exact this.1
    · exact ih hys this.2 x hx'

/-- **min-fold, minimum**: a finite result is attained by an element and is a lower bound of all -/
theorem foldMin_fin {α} {f : α → DV} {l : List α} (h : ∀ x ∈ l, (f x).Ge0) {m : Rat}
    (hm : foldMin f l = .fin m) : (∃ x ∈ l, f x = .fin m) ∧ ∀ x ∈ l, DV.Lb m (f x) := by
  constructor
  · rcases foldMin_mem f l with h' | ⟨x, hx, h'⟩
    · rw [h'] at hm; cases hm
    · exact ⟨x, hx, by rw [← h', hm]⟩
  · apply foldMin_Lb_inv h
    rw [hm]; exact le_refl m

end Geo
