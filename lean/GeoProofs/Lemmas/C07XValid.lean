/-
  GeoProofs.Lemmas.C07XValid — what OGC validity (`polyValid`) says about the point set of a polygon:

  * `shell_point_not_in_hole`: no point of the shell ring is strictly inside a hole (cell `IE = F` of
    the hole/shell clause, through the face atoms beside a non-vertex point of a shell edge and the
    Jordan property `edgeJordan` of the simple shell);
  * `PolyPts_in_shell`: every point of the polygon is on the shell ring or has non-zero winding number
    about it;
  * `PolyPts_not_in_hole`: no point of the polygon is strictly inside a hole.
-/
import GeoProofs.Lemmas.WINDJordan
import GeoProofs.Lemmas.C07XSets

set_option linter.unusedSimpArgs false

namespace Geo.Proofs.C07
open Geo Geo.Proofs.Kernel Geo.Proofs.Spec Geo.Proofs.C02Q Geo.Proofs.WIND

/-- the `IE = F` part of the hole/shell clause of `polyValid` -/
theorem polyValid_hole_ie {q : Poly} (h : polyValid q = true) :
    ∀ r ∈ q.ints, (relateParts (polyOf r) (polyOf q.ext)).ie = .empty := by
  unfold polyValid polyValid.polyValidRings at h
  simp only [Bool.and_eq_true, List.all_eq_true, beq_iff_eq] at h
  obtain ⟨⟨⟨⟨_, _⟩, h3⟩, _⟩, _⟩ := h
  exact fun r hr => (h3 r hr).1.1.2

/-- two simple rings with `EI = F` in `relateParts (polyOf ra) (polyOf rb)` (nothing of the interior of
`rb` is exterior to `ra`): no point of the ring `ra` is strictly inside `rb` -/
theorem ei_empty_ring_not_inside {ra rb : List Pt} (hsa : ringSimple ra = true)
    (hsb : ringSimple rb = true)
    (hei : (relateParts (polyOf ra) (polyOf rb)).ei = .empty) {p : Pt}
    (hp : onAnySeg p (segs ra) = true) : locateParts (polyOf rb) p ≠ .inside := by
  intro hin
  have hei' : (relateParts (polyOf ra) (polyOf rb)).get .outside .inside = .empty := hei
  have hokb := ringOK_of_simple hsb
  have hoka := ringOK_of_simple hsa
  obtain ⟨a, b, hse, hab, hpm⟩ := simple_on_nondeg_edge hsa hp
  have hs' : (a, b) ∈ (polyOf ra).allSegs ++ (polyOf rb).allSegs := by
    rw [allSegs_polyOf]; exact List.mem_append_left _ hse
  obtain ⟨u, v, E, hmin⟩ := inside_elem hokb.1 hokb.2 hs' hab hpm hin
  obtain ⟨ha, hb⟩ := ends_mem_vertsOf hs'
  obtain ⟨_, hnv, hall⟩ := segAtoms_of_pair (polyOf ra) (polyOf rb) hab E.pair E.ne
  have hmw := E.midpoint_within
  have hnr : midpoint u v ∉ ra := by
    intro hmem
    obtain ⟨s, hs1, hs2⟩ := Geo.Proofs.C12.mem_segs_end ra _ hoka.2 hmem
    have hs3 : s ∈ (polyOf ra).allSegs ++ (polyOf rb).allSegs := by
      rw [allSegs_polyOf]; exact List.mem_append_left _ hs1
    obtain ⟨e1, e2⟩ := ends_mem_vertsOf hs3
    rcases hs2 with h | h
    · exact hnv (h ▸ e1)
    · exact hnv (h ▸ e2)
  rw [locate_polyOf_inside_iff] at hmin
  obtain ⟨hoff, hw⟩ := hmin
  have hbL : locateFace (polyOf rb) (faceL a b (midpoint u v)) = .inside := by
    rw [locateFace_polyOf]
    have : windingE (faceL a b (midpoint u v)) rb = windingE (EPt.ofPt (midpoint u v)) rb :=
      windingE_perturb rb hokb.1 (midpoint u v) _ _ hoff
    rw [this, if_pos hw]
  have hbR : locateFace (polyOf rb) (faceR a b (midpoint u v)) = .inside := by
    rw [locateFace_polyOf]
    have : windingE (faceR a b (midpoint u v)) rb = windingE (EPt.ofPt (midpoint u v)) rb :=
      windingE_perturb rb hokb.1 (midpoint u v) _ _ hoff
    rw [this, if_pos hw]
  have hmemA : ∀ x, IsAtomAt (polyOf ra) (polyOf rb) a b (midpoint u v) x →
      x ∈ atomsOf (polyOf ra) (polyOf rb) := by
    intro x hx
    unfold atomsOf
    exact List.mem_append_right _ (List.mem_flatMap.mpr ⟨(a, b), hs', hall x hx⟩)
  rcases edgeJordan hsa hse hmw.1 hnr with hL | hR
  · have haL : locateFace (polyOf ra) (faceL a b (midpoint u v)) = .outside := by
      rw [locateFace_polyOf, if_neg (by simpa using hL)]
    exact cell_empty_no_atom hei' (hmemA _ (Or.inr (Or.inl rfl))) haL hbL
  · have haR : locateFace (polyOf ra) (faceR a b (midpoint u v)) = .outside := by
      rw [locateFace_polyOf, if_neg (by simpa using hR)]
    exact cell_empty_no_atom hei' (hmemA _ (Or.inr (Or.inr rfl))) haR hbR

/-- **no point of the shell ring of a valid polygon is strictly inside a hole** -/
theorem shell_point_not_in_hole {q : Poly} (hv : polyValid q = true) {h : List Pt} (hh : h ∈ q.ints)
    {p : Pt} (hp : onAnySeg p (segs q.ext) = true) : locateParts (polyOf h) p ≠ .inside := by
  obtain ⟨hse, hsi, _⟩ := polyValid_unpack hv
  apply ei_empty_ring_not_inside hse (hsi h hh) _ hp
  rw [relateParts_transpose (polyOf h) (polyOf q.ext)]
  have := polyValid_hole_ie hv h hh
  generalize relateParts (polyOf h) (polyOf q.ext) = M at this ⊢
  exact this

/-- **every point of a valid polygon is on the shell ring or has non-zero winding number about it** -/
theorem PolyPts_in_shell {q : Poly} (hv : polyValid q = true) {y : Pt} (hy : PolyPts q y) :
    LsPts q.ext y ∨ windingE (EPt.ofPt y) q.ext ≠ 0 := by
  have hok := RingsOK_of_valid hv
  rcases (PolyPts_iff hok y).mp hy with ⟨r, hr, hon⟩ | ⟨h1, _⟩
  · rcases List.mem_cons.mp hr with rfl | hr
    · exact Or.inl hon
    · have hne := Geo.Proofs.C02Q.hole_ring_in_shell hv hr ((LsPts_iff_onAnySeg r y).mp hon)
      have hoke := hok q.ext List.mem_cons_self
      rw [Geo.Proofs.Loc.ringPos_eq_ringLoc y q.ext hoke, Ne, Geo.Proofs.Loc.ringLoc_outside_iff] at hne
      by_cases hone : onAnySeg y (segs q.ext) = true
      · exact Or.inl ((LsPts_iff_onAnySeg _ y).mpr hone)
      · right
        intro hw
        exact hne ⟨by simpa using hone, hw⟩
  · exact Or.inr h1

/-- **no point of a valid polygon is strictly inside one of its holes** -/
theorem PolyPts_not_in_hole {q : Poly} (hv : polyValid q = true) {h : List Pt} (hh : h ∈ q.ints) {y : Pt}
    (hy : PolyPts q y) : LsPts h y ∨ windingE (EPt.ofPt y) h = 0 := by
  have hok := RingsOK_of_valid hv
  obtain ⟨_, hsi, _⟩ := polyValid_unpack hv
  rcases (PolyPts_iff hok y).mp hy with ⟨r, hr, hon⟩ | ⟨_, h2⟩
  · by_cases honh : onAnySeg y (segs h) = true
    · exact Or.inl ((LsPts_iff_onAnySeg _ y).mpr honh)
    · right
      by_contra hw
      have hin : locateParts (polyOf h) y = .inside :=
        (locate_polyOf_inside_iff h y).mpr ⟨by simpa using honh, hw⟩
      rcases List.mem_cons.mp hr with rfl | hr
      · exact shell_point_not_in_hole hv hh ((LsPts_iff_onAnySeg _ y).mp hon) hin
      · have hrp : ringPos y h = .inside := by
          rw [Geo.Proofs.Loc.ringPos_eq_ringLoc y h (hok h (List.mem_cons_of_mem _ hh)),
            Geo.Proofs.Loc.ringLoc_inside_iff]
          exact ⟨by simpa using honh, hw⟩
        have := hole_inside_off_rings hv y h hh r hr hrp
        rw [(LsPts_iff_onAnySeg r y).mp hon] at this
        cases this
  · exact Or.inr (h2 h hh)

/-! ### what the distance theorems use of a polygon -/

/-- The facts about a polygon that the areal distance theorems rest on: closed rings, `coordinate_position`
= the specification's `locate`, every point of the polygon within the closed shell ring and none strictly
inside a hole. Consequences of OGC validity (`PolyOk_of_valid`); for a polygon without holes a closed
exterior ring is enough (`PolyOk_of_noholes`: Rect / Triangle through `to_polygon`, degenerate or not). -/
structure PolyOk (q : Poly) : Prop where
  ok : RingsOK q
  pos : ∀ p, coordPos (.polygon q) p = locate (.polygon q) p
  shell : ∀ y, PolyPts q y → LsPts q.ext y ∨ windingE (EPt.ofPt y) q.ext ≠ 0
  hole : ∀ h ∈ q.ints, ∀ y, PolyPts q y → LsPts h y ∨ windingE (EPt.ofPt y) h = 0

theorem PolyOk_of_valid {q : Poly} (hv : polyValid q = true) : PolyOk q :=
  ⟨RingsOK_of_valid hv, fun p => coordPos_polygon_valid_full q p hv, fun _ hy => PolyPts_in_shell hv hy,
    fun _ hh _ hy => PolyPts_not_in_hole hv hh hy⟩

theorem PolyOk_of_noholes {q : Poly} (hi : q.ints = []) (he : Geo.Proofs.Loc.RingOK q.ext) : PolyOk q := by
  have hok : RingsOK q := by
    intro r hr
    rw [hi] at hr
    rw [List.mem_singleton.mp hr]; exact he
  refine ⟨hok, fun p => ?_, fun y hy => ?_, fun h hh => by rw [hi] at hh; cases hh⟩
  · apply Geo.Proofs.Loc.coordPos_polygon_eq_locate_at q p he
    · intro h hh; rw [hi] at hh; cases hh
    · intro h hh; rw [hi] at hh; cases hh
    · intro h hh; rw [hi] at hh; cases hh
  · rcases (PolyPts_iff hok y).mp hy with ⟨r, hr, hon⟩ | ⟨h1, _⟩
    · rw [hi] at hr
      rw [List.mem_singleton.mp hr] at hon
      exact Or.inl hon
    · exact Or.inr h1

theorem dRectPoly_PolyOk (mn mx : Pt) : PolyOk (dRectPoly mn mx) :=
  PolyOk_of_noholes rfl ⟨by simp [dRectPoly, SM.rectToPolygon], by simp [dRectPoly, SM.rectToPolygon]⟩

theorem dTriPoly_PolyOk (a b c : Pt) : PolyOk (dTriPoly a b c) := by
  apply PolyOk_of_noholes rfl
  simp only [dTriPoly, SM.triangleToPolygon, SM.close, SM.isClosed]
  by_cases h : a = c
  · subst h; constructor <;> simp
  · constructor <;> simp [h]

end Geo.Proofs.C07
