/-
  MONO (C10, builder of the monotone pieces): above the measure, the fuel of `handle_event` is irrelevant.
-/
import GeoProofs.Lemmas.MONOFuelB

namespace Geo.Proofs.MONO
open Geo Geo.Mono Geo.MonoBuild Geo.Proofs.C10

theorem handle_fuel (V : List Pt) : ∀ (f f' : Nat),
    (∀ (st : St) (ev : Ev), Good V st → Cur st ev → 3 * mu V st + 3 ≤ f → 3 * mu V st + 3 ≤ f' →
        handleEvent f st ev = handleEvent f' st ev) ∧
    (∀ (st : St) (ev : Ev) (b : Bool) (idx : Nat), Good V st → Cur st ev → ev.ty = .lineLeft →
        3 * mu V st + 2 ≤ f → 3 * mu V st + 2 ≤ f' → neighbour f st ev b idx = neighbour f' st ev b idx) ∧
    (∀ (st : St) (ev : Ev) (b : Bool) (idx : Nat), Good V st → Cur st ev →
        3 * mu V st + 1 ≤ f → 3 * mu V st + 1 ≤ f' → drain f st ev b idx = drain f' st ev b idx)
  | 0, _ => by
    refine ⟨?_, ?_, ?_⟩ <;> intros <;> omega
  | _ + 1, 0 => by
    refine ⟨?_, ?_, ?_⟩ <;> intros <;> omega
  | f + 1, f' + 1 => by
    obtain ⟨ihH, ihN, ihD⟩ := handle_fuel V f f'
    refine ⟨?_, ?_, ?_⟩
    · intro st ev g c hf hf'
      unfold handleEvent
      cases h1 : st.lineOf ev.seg with
      | none => rfl
      | some ln =>
        simp only
        split
        · rfl
        · split
          · rename_i hty
            cases h2 : st.indexNotOf ev.seg with
            | none => rfl
            | some idx =>
              simp only
              rw [← ihN st ev false idx g c hty (by omega) (by omega)]
              cases hn1 : neighbour f st ev false idx with
              | none => rfl
              | some r1 =>
                obtain ⟨st1, idx1⟩ := r1
                simp only
                have m1 := (handle_mu V f).2.1 _ _ _ _ _ _ g c hty hn1
                obtain ⟨i1, x1, l1⟩ := (handle_sinv f).2.1 _ _ _ _ _ _ g.s c.ok hty c.lo hn1
                have v1 := (handle_inv f).2.1 _ _ _ _ _ _ g.v hn1
                rw [← ihN st1 ev true idx1 ⟨i1, v1⟩ ⟨c.ok.ext x1, l1⟩ hty (by omega) (by omega)]
          · rfl
          · rfl
    · intro st ev b idx g c hty hf hf'
      unfold neighbour
      simp only
      split
      · rfl
      · split
        · rfl
        · split
          · rename_i la lb hla hlb
            obtain ⟨s, hs, hc⟩ := c.ok
            obtain ⟨sb, hsb, hsbl⟩ := lineOf_seg hlb
            rw [hs] at hsb; cases hsb
            have hpt : lb.left = ev.pt := by
              rcases hc with ⟨_, e⟩ | ⟨e, _⟩
              · rw [← hsbl]; exact e.symm
              · rw [hty] at e; cases e
            cases hs1 : st.applySplit _ ev.seg (checkInterior la lb) with
            | none => rfl
            | some st1 =>
              simp only
              have m1 := applySplit_mu g hla hlb hs1
              obtain ⟨i1, x1, l1⟩ := applySplit_sinv g.s hla hlb (by rw [hpt]; exact c.lo) hs1
              rw [hpt] at l1
              have v1 : InvV (· ∈ V) st1 := applySplit_inv g.v (by
                intro p hp
                rcases hp with hp | hp
                · exact checkInterior_a (lineOf_V g.v hla) (lineOf_V g.v hlb) hp
                · exact checkInterior_b (lineOf_V g.v hla) (lineOf_V g.v hlb) hp) hs1
              exact ihD st1 ev b idx ⟨i1, v1⟩ ⟨EvOk.ext ⟨s, hs, hc⟩ x1, l1⟩ (by omega) (by omega)
          · rfl
    · intro st ev b idx g c hf hf'
      unfold drain
      cases htop : st.events.head? with
      | none => rfl
      | some top =>
        simp only
        split
        · rename_i hlt
          cases hpop : heapPop st.events with
          | none => rfl
          | some r =>
            obtain ⟨e, evs⟩ := r
            simp only
            obtain ⟨i0, ok0, lo0, hd0⟩ := popped_sinv g.s hpop
            rw [htop] at hd0; cases hd0
            have hle : lexLt ev.pt top.pt = false := pt_le_of_ev_le (le_of_lt ((ev_lt_iff _ _).2 hlt))
            have hge : lexLt top.pt ev.pt = false := c.lo top (List.mem_of_mem_head? htop)
            have hpt : top.pt = ev.pt := lex_antisymm hge hle
            have g0 : Good V { st with events := evs } :=
              g.events i0 (heapPop_forall (P := fun e => e.pt ∈ V) g.v.evs hpop).2
            have hm0 : mu V { st with events := evs } + 1 = mu V st := by
              unfold mu
              have := heapPop_length hpop
              show evs.length + 3 * phi V st + 1 = _
              omega
            rw [← ihH { st with events := evs } top g0 ⟨ok0.congr rfl, lo0⟩ (by omega) (by omega)]
            cases hh : handleEvent f { st with events := evs } top with
            | none => rfl
            | some st1 =>
              simp only
              have m1 := (handle_mu V f).1 _ _ _ g0 ⟨ok0.congr rfl, lo0⟩ hh
              obtain ⟨i1, x1, l1⟩ := (handle_sinv f).1 _ _ _ i0 (ok0.congr rfl) lo0 hh
              have v1 := (handle_inv f).1 _ _ _ g0.v hh
              rw [hpt] at l1
              have x1' : Ext st st1 := fun i s hs => x1 i s hs
              have c1 : Cur st1 ev := ⟨c.ok.ext x1', l1⟩
              split
              · exact ihD st1 ev b idx ⟨i1, v1⟩ c1 (by omega) (by omega)
              · split
                · rfl
                · exact ihD st1 ev b (idx - 1) ⟨i1, v1⟩ c1 (by omega) (by omega)
        · rfl

end Geo.Proofs.MONO
