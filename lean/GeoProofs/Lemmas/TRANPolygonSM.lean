/-
  Translator tie for the state-machine core of geo-types `Polygon` (C18): `LineString::close`, `Polygon::new`,
  `exterior_mut`, `try_exterior_mut`, `interiors_mut`, `try_interiors_mut`, `interiors_push` regenerated from the Rust
  bodies on this run (GeoModel/Gen/PolygonSMGen.lean; `Vec::push` = append, `for x in &mut v` = map, closure parameters =
  `RingFn` / `RingsFn`) equal `SM.close`, `SM.mkNew` and the clauses of `SM.step` in GeoModel/PolygonSM.lean.
-/
import GeoModel.PolygonSM
import GeoModel.Gen.PolygonSMGen

namespace Geo.Proofs.TRANPolygonSM
open Geo Geo.SM

variable {α : Type} [DecidableEq α] [Inhabited α]

theorem close_eq (r : List α) : close r = Gen.lineStringClose r := by
  unfold close Gen.lineStringClose
  by_cases h : isClosed r
  · simp [h]
  · cases r with
    | nil => simp [isClosed] at h
    | cons a t => simp [h, Gen.idx]

theorem map_close_eq (rs : List (List α)) :
    rs.map close = List.map (fun (interior : List α) => Gen.lineStringClose interior) rs := by
  congr 1; funext r; exact close_eq r

theorem mkNew_eq (e : List α) (is : List (List α)) : mkNew e is = Gen.polygonNew e is := by
  unfold mkNew Gen.polygonNew
  simp only [close_eq, map_close_eq]

theorem step_eq (s : State α) :
    (∀ e is, step s (.new e is) = (Gen.polygonNew e is, true)) ∧
    (∀ f, step s (.exteriorMut f) = (Gen.polygonExteriorMut s f, true)) ∧
    (∀ f, step s (.tryExteriorMut f) = Gen.polygonTryExteriorMut s f) ∧
    (∀ f, step s (.interiorsMut f) = (Gen.polygonInteriorsMut s f, true)) ∧
    (∀ f, step s (.tryInteriorsMut f) = Gen.polygonTryInteriorsMut s f) ∧
    (∀ r, step s (.interiorsPush r) = (Gen.polygonInteriorsPush s r, true)) := by
  refine ⟨fun e is => ?_, fun f => ?_, fun f => ?_, fun f => ?_, fun f => ?_, fun r => ?_⟩
  · simp only [step, mkNew_eq]
  · simp only [step, Gen.polygonExteriorMut, close_eq]
  · simp only [step, Gen.polygonTryExteriorMut, close_eq]
  · simp only [step, Gen.polygonInteriorsMut, map_close_eq]
  · simp only [step, Gen.polygonTryInteriorsMut, map_close_eq]
  · simp only [step, Gen.polygonInteriorsPush, close_eq]

end Geo.Proofs.TRANPolygonSM
